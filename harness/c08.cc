// C08 — split / join / trim / replace / skip / printf-to-string helpers obey their algebraic laws.
//
// The real phosg functions are run (ASan+UBSan build) on
//   * every string over small adversarial alphabets up to length 6 (quick) / 8 (thorough),
//   * random strings over all 256 byte values up to 4 KiB,
//   * formatted results up to 1 MiB,
// and every result is compared with a plain reference definition (c08_ref.hh) or with the law it
// has to satisfy (join(split(s,d),d) == s, piece count, no top-level delimiter inside a piece).
// split_args is compared with CPython's shlex on the unambiguous shell subset: the expected tokens
// come from a case file written by vf/oracles/c08.py (part "shlex").
//
// Parts (--arg only=<part>): split join trim misc comment args random printf wprintf shlex
//
// This TU instantiates the generic templates (join, strip_*) only with the template arguments the library
// itself uses or documents (std::string; deque<std::string> + const char*).  Less common instantiations
// (wstring strip_*, join over vector/list with char/std::string delimiters) are in c08_wide.cc, a separate
// stage with optional_build, so that a tree on which those no longer compile still gets the main check.
#include <ctype.h>
#include <errno.h>
#include <wchar.h>

#include <algorithm>
#include <deque>
#include <list>
#include <stdexcept>
#include <string>
#include <vector>

#include "Strings.hh"
#include "c08_ref.hh"
#include "common.hh"

using namespace std;
using vf::fmt;
namespace R = c08ref;
using R::esc;
using R::esc_ch;
using R::esc_list;
using R::ms_str;

static vf::Ctx* C;

// A different stale errno is left behind right before every call into phosg (see common.hh).
#define PZ() vf::poison_errno()

// ================================================================================================
// vswprintf monitor (linked with -Wl,--wrap=vswprintf): observes how wstring_vprintf drives
// vswprintf.  A second attempt with the same buffer size after a failed one, or a second attempt
// with an already consumed va_list, can never produce the right answer (and the first one never
// terminates); the monitor records that fact and lets the caller leave its loop.
extern "C" int __real_vswprintf(wchar_t*, size_t, const wchar_t*, va_list);

struct WMon {
  bool active = false;
  unsigned calls = 0;
  size_t last_n = 0;
  int last_ret = 0;
  unsigned gp = 0, fp = 0;
  void* ovf = nullptr;
  const char* verdict = nullptr;
};
static WMon W;

extern "C" int __wrap_vswprintf(wchar_t* buf, size_t n, const wchar_t* f, va_list va) {
  if (!W.active) return __real_vswprintf(buf, n, f, va);
  W.calls++;
#if defined(__x86_64__)
  // System V x86-64 va_list layout
  struct SysVVaList {
    unsigned gp_offset, fp_offset;
    void* overflow_arg_area;
    void* reg_save_area;
  };
  const SysVVaList* vl = reinterpret_cast<const SysVVaList*>(va);
  unsigned gp = vl->gp_offset, fp = vl->fp_offset;
  void* ov = vl->overflow_arg_area;
#else
  unsigned gp = 0, fp = 0;
  void* ov = nullptr;
#endif
  if (W.calls == 1) {
    W.gp = gp;
    W.fp = fp;
    W.ovf = ov;
  } else if (!W.verdict) {
    if (gp != W.gp || fp != W.fp || ov != W.ovf) W.verdict = "va_list-reused-after-failed-attempt";
    else if (n == W.last_n && (W.last_ret < 0 || (size_t)W.last_ret >= n)) W.verdict = "retry-with-same-buffer-size";
    else if (W.calls > 10000) W.verdict = "more-than-10000-attempts";
  }
  if (W.verdict) return 0;  // let the caller out of its loop; the result is discarded by the harness
  int r = __real_vswprintf(buf, n, f, va);
  W.last_n = n;
  W.last_ret = r;
  return r;
}

// ================================================================================================
// small helpers

using R::decode;
using R::pow_sum;
using R::widen;

enum Shape { SH_EMPTY, SH_NODELIM, SH_ONLY, SH_LEADING, SH_TRAILING, SH_BOTH, SH_INNER, NSHAPES };
static const char* SHAPE_NAMES[NSHAPES] = {"empty", "no-delim", "only-delims", "leading-delim", "trailing-delim",
    "both-ends-delim", "inner-delim"};

static Shape shape_of(size_t size, const vector<uint8_t>& sep, size_t& nsep) {
  nsep = 0;
  for (uint8_t b : sep) nsep += b;
  if (size == 0) return SH_EMPTY;
  if (nsep == 0) return SH_NODELIM;
  if (nsep == size) return SH_ONLY;
  bool lead = sep[0], trail = sep[size - 1];
  return lead ? (trail ? SH_BOTH : SH_LEADING) : (trail ? SH_TRAILING : SH_INNER);
}

enum MsClass { MS_UNLIMITED, MS_BINDS, MS_SLACK, NMS };
static const char* MS_NAMES[NMS] = {"unlimited", "cap-binds", "cap-slack"};
static MsClass ms_class(size_t ms, size_t nsep) { return ms == 0 ? MS_UNLIMITED : (ms < nsep ? MS_BINDS : MS_SLACK); }

enum SplitOp { OP_SPLIT, OP_WSPLIT, OP_CTX, OP_CTX_REJECTED, OP_CTX_AMBIGUOUS, NOPS };
static const char* OP_NAMES[NOPS] = {"split", "wsplit", "split_context", "split_context-rejected", "split_context-ambiguous"};
static uint64_t split_cls[NOPS][NSHAPES][NMS];

static void flush_split_classes() {
  for (int o = 0; o < NOPS; o++)
    for (int s = 0; s < NSHAPES; s++)
      for (int m = 0; m < NMS; m++)
        if (split_cls[o][s][m]) {
          C->cls(fmt("%s:%s:%s", OP_NAMES[o], SHAPE_NAMES[s], MS_NAMES[m]), split_cls[o][s][m]);
          split_cls[o][s][m] = 0;
        }
}

// Judge the pieces returned by a split function against the three laws + the reference pieces.
// `sep[i]` = 1 where s[i] is a (top-level) delimiter.  Returns true if everything held.
template <typename S>
static bool judge_pieces(const char* op, const S& s, typename S::value_type d, size_t ms, const vector<S>& got,
    const vector<uint8_t>& sep, size_t nsep, Shape sh) {
  // Fast path: identical to the left-to-right reference split, which satisfies the three laws by
  // construction (checked once per run by reference_self_test()).  Otherwise name the broken law.
  if (got == R::split_at(s, sep, ms)) return true;
  size_t expect_count = (ms == 0 ? nsep : min(nsep, ms)) + 1;
  auto kase = [&]() {
    return fmt("%s(%s, %s, %s) returned %s", op, esc(s).c_str(), esc_ch((long)d).c_str(), ms_str(ms).c_str(), esc_list(got).c_str());
  };
  if (got.size() != expect_count) {
    C->violation(fmt("%s:count:%s", op, SHAPE_NAMES[sh]),
        fmt("piece count %zu != min(top-level delimiters, max_splits)+1 = %zu", got.size(), expect_count), kase());
    return false;
  }
  S d1(1, d);
  S joined = R::join_ref(got.begin(), got.end(), d1);
  if (joined != s) {
    C->violation(fmt("%s:join-inverse:%s", op, SHAPE_NAMES[sh]), "pieces joined with the delimiter do not reproduce the string", kase());
    return false;
  }
  // positions are now known: piece i starts right after the i-th separating delimiter
  size_t off = 0;
  bool capped = (ms != 0 && nsep > ms);
  for (size_t i = 0; i < got.size(); i++) {
    bool last = (i + 1 == got.size());
    for (size_t k = 0; k < got[i].size(); k++)
      if (sep[off + k] && !(capped && last)) {
        C->violation(fmt("%s:piece-contains-delim:%s", op, SHAPE_NAMES[sh]),
            fmt("piece %zu contains a top-level delimiter although max_splits did not stop splitting there", i), kase());
        return false;
      }
    off += got[i].size();
    if (!last) {
      if (!sep[off]) {
        C->violation(fmt("%s:split-at-non-delim:%s", op, SHAPE_NAMES[sh]), fmt("split at offset %zu which is not a top-level delimiter", off), kase());
        return false;
      }
      off++;
    }
  }
  C->violation(fmt("%s:pieces:%s", op, SHAPE_NAMES[sh]), "pieces differ from left-to-right reference split", kase());
  return false;
}

// The reference split itself must satisfy the laws it is used to certify.
static void reference_self_test() {
  static const char A[3] = {',', 'a', '\0'};
  string s;
  for (uint64_t idx = 0; idx < 3280; idx++) {  // all strings up to length 7 over 3 characters
    string t;
    {
      uint64_t x = idx, p = 1;
      unsigned len = 0;
      while (x >= p) {
        x -= p;
        p *= 3;
        len++;
      }
      t.resize(len);
      for (unsigned k = 0; k < len; k++) {
        t[len - 1 - k] = A[x % 3];
        x /= 3;
      }
    }
    vector<uint8_t> sep = R::all_occurrences(t, ',');
    size_t nsep = 0;
    for (uint8_t b : sep) nsep += b;
    for (size_t ms = 0; ms <= 9; ms++) {
      vector<string> ref = R::split_at(t, sep, ms);
      bool ok = ref.size() == (ms == 0 ? nsep : min(nsep, ms)) + 1;
      ok = ok && R::join_ref(ref.begin(), ref.end(), string(",")) == t;
      bool capped = ms != 0 && nsep > ms;
      for (size_t i = 0; ok && i < ref.size(); i++)
        if (ref[i].find(',') != string::npos && !(capped && i + 1 == ref.size())) ok = false;
      if (!ok) {
        fprintf(stderr, "[harness-error] reference split violates its own laws on %s ms=%zu\n", esc(t).c_str(), ms);
        exit(3);
      }
    }
  }
}

// ================================================================================================
// split / split(wstring) / split_context / join∘split on one (s, d, ms)

struct CtxInfo {
  R::Scan scan;
  bool valid = false;
};

#include "c08_join.hh"

static void split_case(const string& s, const wstring* ws, char d, size_t ms, const R::Scan* sc, uint64_t crumb_id, unsigned rot) {
  // ---- plain split
  static vector<uint8_t> sep, tsep;
  sep.resize(s.size());
  for (size_t i = 0; i < s.size(); i++) sep[i] = (s[i] == d);
  size_t nsep;
  Shape sh = shape_of(s.size(), sep, nsep);
  C->evaluations++;
  C->crumb_n("split", crumb_id, (uint8_t)d, ms, s.size());
  PZ();
  vector<string> got = phosg::split(s, d, ms);
  bool ok = judge_pieces("split", s, d, ms, got, sep, nsep, sh);
  split_cls[OP_SPLIT][sh][ms_class(ms, nsep)]++;
  if (ok) composite_join("split", s, d, ms, got, rot);

  // ---- wide split
  if (ws) {
    C->evaluations++;
    C->crumb_n("wsplit", crumb_id, (uint8_t)d, ms, s.size());
    PZ();
    vector<wstring> wgot = phosg::split(*ws, (wchar_t)(unsigned char)d, ms);
    judge_pieces("wsplit", *ws, (wchar_t)(unsigned char)d, ms, wgot, sep, nsep, sh);
    split_cls[OP_WSPLIT][sh][ms_class(ms, nsep)]++;
  }

  // ---- context-aware split
  if (sc && !R::is_context_special(d)) {
    tsep.resize(s.size());
    for (size_t i = 0; i < s.size(); i++) tsep[i] = sep[i] && sc->top[i];
    size_t ntop;
    Shape tsh = shape_of(s.size(), tsep, ntop);
    C->evaluations++;
    C->crumb_n("split_context", crumb_id, (uint8_t)d, ms, s.size());
    vector<string> cgot;
    bool threw = false;
    try {
      PZ();
      cgot = phosg::split_context(s, d, ms);
    } catch (const runtime_error&) {
      threw = true;
    } catch (const exception& e) {
      threw = true;
      C->violation("split_context:exception-type", string("threw something other than runtime_error: ") + e.what(),
          fmt("split_context(%s, %s, %s)", esc(s).c_str(), esc_ch(d).c_str(), ms_str(ms).c_str()));
    }
    auto kase = [&]() {
      return fmt("split_context(%s, %s, %s) %s", esc(s).c_str(), esc_ch(d).c_str(), ms_str(ms).c_str(),
          threw ? "threw" : ("returned " + esc_list(cgot)).c_str());
    };
    if (sc->ambiguous) {
      // nesting ill-defined (stray/crossed closing bracket): only what holds for every accepted input
      split_cls[OP_CTX_AMBIGUOUS][tsh][ms_class(ms, ntop)]++;
      if (!threw) {
        string d1(1, d);
        if (R::join_ref(cgot.begin(), cgot.end(), d1) != s)
          C->violation("split_context:join-inverse:stray-closer", "pieces joined with the delimiter do not reproduce the string", kase());
        else if (cgot.empty() || (ms && cgot.size() - 1 > ms) || cgot.size() - 1 > nsep)
          C->violation("split_context:count:stray-closer", "piece count outside [1, min(delimiters, max_splits)+1]", kase());
        else
          composite_join("split_context", s, d, ms, cgot, rot);
      }
    } else if (!sc->balanced) {
      split_cls[OP_CTX_REJECTED][tsh][ms_class(ms, ntop)]++;
      if (!threw) C->violation("split_context:accepts-unbalanced", "input with an unclosed bracket/quote was accepted", kase());
    } else {
      split_cls[OP_CTX][tsh][ms_class(ms, ntop)]++;
      if (threw) C->violation("split_context:rejects-balanced", "balanced input was rejected", kase());
      else if (judge_pieces("split_context", s, d, ms, cgot, tsep, ntop, tsh))
        composite_join("split_context", s, d, ms, cgot, rot);
    }
  }
}


// ------------------------------------------------------------------------------------------------
// Deep nesting: chains of 1..40 simultaneously open brackets (mixed kinds, optionally a quoted string innermost),
// a delimiter at every depth level on the way in and on the way out, balanced and off-by-one unbalanced
// variants.  Judged by the reference scanner (unbounded vector stack).
static void deep_nesting() {
  static const char OPEN[4] = {'(', '[', '{', '<'}, CLOSE[4] = {')', ']', '}', '>'};
  uint64_t case_idx = 0;
  R::Scan sc;
  for (unsigned depth = 1; depth <= 40; depth++) {
    for (unsigned pattern = 0; pattern < 7; pattern++) {
      // bracket kind per level: 0..3 = one kind only, 4 = rotating, 5/6 = rotating with a "/' quoted string innermost
      string openers, closers;  // closers[i] closes openers[i]
      for (unsigned lvl = 0; lvl < depth; lvl++) {
        unsigned k = pattern < 4 ? pattern : (lvl + pattern) % 4;
        char o = OPEN[k], c = CLOSE[k];
        if (pattern >= 5 && lvl + 1 == depth) o = c = (pattern == 5 ? '"' : '\'');
        openers.push_back(o);
        closers.push_back(c);
      }
      for (unsigned with_delims = 0; with_delims < 2; with_delims++) {
        // variant 0 balanced; 1 one extra opener in front; 2 outermost closer missing; 3 innermost closer missing;
        // 4 middle closer missing; 5 one extra closer at the end (stray closer: ambiguous class)
        for (unsigned variant = 0; variant < 6; variant++) {
          uint64_t my = case_idx++;
          if (!C->mine(my)) continue;
          string s = "h,";
          if (variant == 1) s.push_back(openers[0] == '"' || openers[0] == '\'' ? '(' : openers[0]);
          for (unsigned lvl = 0; lvl < depth; lvl++) {
            s.push_back(openers[lvl]);
            s.push_back((char)('a' + lvl % 26));
            if (with_delims) s.push_back(',');
          }
          for (unsigned lvl = depth; lvl-- > 0;) {
            bool skip = (variant == 2 && lvl == 0) || (variant == 3 && lvl + 1 == depth) || (variant == 4 && lvl == depth / 2);
            if (!skip) s.push_back(closers[lvl]);
            if (with_delims || lvl == 0) {
              s.push_back(',');
              s.push_back((char)('A' + lvl % 26));
            }
          }
          if (variant == 5) s += ")";
          s += ",t";
          R::scan_context(s, sc);
          for (size_t ms : {(size_t)0, (size_t)1, (size_t)3}) split_case(s, nullptr, ',', ms, &sc, my, (unsigned)my);
          const char* dcls = depth <= 15 ? "depth<=15" : depth == 16 ? "depth16" : depth == 17 ? "depth17" : depth <= 32 ? "depth18-32" : "depth33-40";
          C->cls(fmt("split_context-deep:%s:%s:%s", dcls, sc.ambiguous ? "stray-closer" : sc.balanced ? "balanced" : "unbalanced",
              pattern < 4 ? "one-kind" : pattern == 4 ? "mixed" : "mixed+quote"));
          if (depth == 18 && pattern == 0 && variant == 1 && !with_delims) C->sample(fmt("deep nesting: split_context(%s, ',', 0)", esc(s, 120).c_str()));
        }
      }
    }
  }
}

static void exh_split() {
  static const char A[8] = {',', 'a', ' ', '(', ')', '"', '\\', '\0'};
  static const char DELIMS[4] = {',', ' ', 'a', '\0'};
  unsigned maxlen = C->qt(6u, 8u);
  uint64_t total = pow_sum(8, maxlen);
  string s;
  R::Scan sc;
  for (uint64_t idx = C->shard; idx < total; idx += C->nshards) {
    decode(idx, A, 8, s);
    R::scan_context(s, sc);
    wstring ws = widen(s);
    // lengths 0..6: every delimiter x max_splits, wide split included.  Lengths 7 and 8 (thorough tier only):
    // ',' gets everything; the other delimiters max_splits {0,2} without the wide variant.
    bool full = s.size() <= 6;
    for (int di = 0; di < 4; di++) {
      char d = DELIMS[di];
      for (size_t ms = 0; ms <= 3; ms++) {
        if (!full && di != 0 && (ms & 1)) continue;
        split_case(s, (full || di == 0) ? &ws : nullptr, d, ms, &sc, idx, (unsigned)(idx + di + ms));
      }
      if (di == 0) {
        split_case(s, nullptr, d, s.size(), &sc, idx, (unsigned)idx);
        split_case(s, &ws, d, (size_t)-1, &sc, idx, (unsigned)idx + 1);
        if (s.size() > 4) split_case(s, nullptr, d, s.size() - 1, &sc, idx, (unsigned)idx + 2);
      }
    }
  }
  // brackets of every kind and single quotes: second alphabet, shorter strings
  static const char B[9] = {',', 'x', '[', ']', '{', '>', '<', '\'', '\\'};
  unsigned maxlen2 = C->qt(5u, 7u);
  uint64_t total2 = pow_sum(9, maxlen2);
  for (uint64_t idx = C->shard; idx < total2; idx += C->nshards) {
    decode(idx, B, 9, s);
    R::scan_context(s, sc);
    for (size_t ms = 0; ms <= 2; ms++) split_case(s, nullptr, ',', ms, &sc, idx, (unsigned)(idx + ms));
  }
  C->count("exhaustive_split_strings", (total + C->nshards - 1 - C->shard) / C->nshards + (total2 + C->nshards - 1 - C->shard) / C->nshards);
  C->sample(fmt("split/split(wstring)/split_context/join: all %" PRIu64 " strings over {',','a',' ','(',')','\"','\\\\','\\0'} up to length %u x delimiters {',',' ','a','\\0'} x max_splits {0,1,2,3,len,SIZE_MAX}",
      total, maxlen));
}

// ================================================================================================
// trimming and skipping

static const char* trim_shape(const string& s) {
  if (s.empty()) return "empty";
  size_t nws = 0;
  for (char c : s) nws += R::is_ws(c);
  if (nws == s.size()) return "all-whitespace";
  bool l = R::is_ws(s[0]), t = R::is_ws(s[s.size() - 1]);
  bool z = s[s.size() - 1] == '\0';
  if (z) return l ? "leading-ws+trailing-nul" : "trailing-nul";
  return l ? (t ? "both-ends" : "leading") : (t ? "trailing" : (nws ? "inner-only" : "no-whitespace"));
}

static void trim_one(const string& s, uint64_t id, bool all_offsets, vf::Rng* r, map<string, uint64_t>& cls) {
  const char* shp = trim_shape(s);
#define STRIP_CASE(name, fn, ref)                                                                                \
  do {                                                                                                            \
    C->evaluations++;                                                                                             \
    C->crumb_n(name, id, s.size());                                                                               \
    string t = s;                                                                                                 \
    PZ();                                                                                                         \
    fn(t);                                                                                                        \
    string want = ref;                                                                                            \
    if (t != want)                                                                                                \
      C->violation(fmt("%s:%s", name, shp), "result differs from erasing the maximal prefix/suffix of the set",   \
          fmt("%s(%s) gave %s, expected %s", name, esc(s).c_str(), esc(t).c_str(), esc(want).c_str()));          \
  } while (0)
  STRIP_CASE("strip_trailing_zeroes", phosg::strip_trailing_zeroes, R::strip_trailing_zeroes(s));
  STRIP_CASE("strip_trailing_whitespace", phosg::strip_trailing_whitespace, R::strip_trailing_ws(s));
  STRIP_CASE("strip_leading_whitespace", phosg::strip_leading_whitespace, R::strip_leading_ws(s));
  STRIP_CASE("strip_whitespace", phosg::strip_whitespace, R::strip_ws(s));
#undef STRIP_CASE
  // (the std::wstring instantiations of the generic strip_* templates live in c08_wide.cc)
  cls[string("strip:") + shp]++;

  // skip_* : std::string overload sees the whole string, const char* overload the C string
  size_t clen = strlen(s.c_str());
  char* cbuf = (char*)malloc(clen + 1);  // exact size: an over-read hits the ASan red zone
  memcpy(cbuf, s.c_str(), clen + 1);
  size_t noffs = all_offsets ? s.size() + 1 : 4;
  for (size_t k = 0; k < noffs; k++) {
    size_t off = all_offsets ? k : (k == 0 ? 0 : k == 1 ? s.size() : (size_t)r->below(s.size() + 1));
    C->evaluations += 3;
    C->crumb_n("skip(string)", id, s.size(), off);
    PZ();
    size_t a = phosg::skip_whitespace(s, off);
    PZ();
    size_t b = phosg::skip_non_whitespace(s, off);
    PZ();
    size_t w = phosg::skip_word(s, off);
    size_t ra = R::skip_ws(s.data(), s.size(), off), rb = R::skip_non_ws(s.data(), s.size(), off), rw = R::skip_word(s.data(), s.size(), off);
    if (a != ra) C->violation("skip_whitespace:string", "offset differs from reference", fmt("skip_whitespace(string %s, %zu) = %zu, expected %zu", esc(s).c_str(), off, a, ra));
    if (b != rb) C->violation("skip_non_whitespace:string", "offset differs from reference", fmt("skip_non_whitespace(string %s, %zu) = %zu, expected %zu", esc(s).c_str(), off, b, rb));
    if (w != rw) C->violation("skip_word:string", "offset differs from reference", fmt("skip_word(string %s, %zu) = %zu, expected %zu", esc(s).c_str(), off, w, rw));
    if (off <= clen) {
      C->evaluations += 3;
      C->crumb_n("skip(cstr)", id, clen, off);
      PZ();
      a = phosg::skip_whitespace(cbuf, off);
      PZ();
      b = phosg::skip_non_whitespace(cbuf, off);
      PZ();
      w = phosg::skip_word(cbuf, off);
      ra = R::skip_ws(cbuf, clen, off);
      rb = R::skip_non_ws(cbuf, clen, off);
      rw = R::skip_word(cbuf, clen, off);
      string cs(cbuf, clen);
      if (a != ra) C->violation("skip_whitespace:cstr", "offset differs from reference", fmt("skip_whitespace((const char*)%s, %zu) = %zu, expected %zu", esc(cs).c_str(), off, a, ra));
      if (b != rb) C->violation("skip_non_whitespace:cstr", "offset differs from reference", fmt("skip_non_whitespace((const char*)%s, %zu) = %zu, expected %zu", esc(cs).c_str(), off, b, rb));
      if (w != rw) C->violation("skip_word:cstr", "offset differs from reference", fmt("skip_word((const char*)%s, %zu) = %zu, expected %zu", esc(cs).c_str(), off, w, rw));
    }
  }
  free(cbuf);
  cls[string("skip:") + shp + (clen < s.size() ? ":embedded-nul" : "")]++;
}

static void exh_trim() {
  static const char A[6] = {' ', '\t', '\r', '\n', 'a', '\0'};
  unsigned maxlen = C->qt(6u, 8u);
  uint64_t total = pow_sum(6, maxlen);
  map<string, uint64_t> cls;
  string s;
  for (uint64_t idx = C->shard; idx < total; idx += C->nshards) {
    decode(idx, A, 6, s);
    trim_one(s, idx, true, nullptr, cls);
  }
  for (auto& kv : cls) C->cls(kv.first, kv.second);
  C->sample(fmt("strip_*/skip_* (both overloads, every offset): all %" PRIu64 " strings over {' ','\\t','\\r','\\n','a','\\0'} up to length %u", total, maxlen));
}

// ================================================================================================
// comments

static void comment_one(const string& s, uint64_t id, map<string, uint64_t>& cls) {
  bool unterminated;
  size_t nl_kept = 0;
  string want = R::strip_comments(s, unterminated, &nl_kept);
  for (int allow = 0; allow < 2; allow++) {
    C->evaluations++;
    C->crumb_n("strip_multiline_comments", id, s.size(), allow);
    string t = s;
    bool threw = false;
    try {
      PZ();
      phosg::strip_multiline_comments(t, allow != 0);
    } catch (const runtime_error&) {
      threw = true;
    } catch (const exception& e) {
      threw = true;
      C->violation("strip_multiline_comments:exception-type", string("not a runtime_error: ") + e.what(), esc(s));
    }
    bool should_throw = unterminated && !allow;
    if (threw != should_throw) {
      C->violation(should_throw ? "strip_multiline_comments:unterminated-accepted" : "strip_multiline_comments:spurious-throw",
          "throws iff a comment is unterminated and allow_unterminated is false",
          fmt("strip_multiline_comments(%s, %s) %s", esc(s).c_str(), allow ? "true" : "false", threw ? "threw" : "returned"));
    } else if (!threw && t != want) {
      C->violation(unterminated ? "strip_multiline_comments:value:unterminated" : "strip_multiline_comments:value",
          "result differs from the reference comment stripper",
          fmt("strip_multiline_comments(%s, %s) gave %s, expected %s", esc(s).c_str(), allow ? "true" : "false", esc(t).c_str(), esc(want).c_str()));
    }
  }
  bool has_nl_in_comment = nl_kept > 0;
  cls[fmt("comments:%s:%s", want == s ? "none" : (unterminated ? "unterminated" : "closed"), has_nl_in_comment ? "newlines" : "plain")]++;
}

static void exh_comment() {
  static const char A[5] = {'/', '*', '\n', 'a', '\0'};
  unsigned maxlen = C->qt(8u, 10u);
  uint64_t total = pow_sum(5, maxlen);
  map<string, uint64_t> cls;
  string s;
  for (uint64_t idx = C->shard; idx < total; idx += C->nshards) {
    decode(idx, A, 5, s);
    comment_one(s, idx, cls);
  }
  for (auto& kv : cls) C->cls(kv.first, kv.second);
  C->sample(fmt("strip_multiline_comments(allow_unterminated in {false,true}): all %" PRIu64 " strings over {'/','*','\\n','a','\\0'} up to length %u", total, maxlen));
}

// ================================================================================================
// starts_with / ends_with / toupper / tolower / str_replace_all

static void prefix_pair(const string& s, const string& t, map<string, uint64_t>& cls) {
  C->evaluations += 2;
  C->crumb_n("starts/ends_with", s.size(), t.size());
  PZ();
  bool a = phosg::starts_with(s, t);
  PZ();
  bool b = phosg::ends_with(s, t);
  bool ra = R::starts_with(s, t), rb = R::ends_with(s, t);
  const char* rel = t.empty() ? "empty-affix" : t.size() > s.size() ? "affix-longer" : t.size() == s.size() ? "same-length" : "shorter";
  if (a != ra) C->violation(fmt("starts_with:%s", rel), "differs from comparing the leading substring", fmt("starts_with(%s, %s) = %d", esc(s).c_str(), esc(t).c_str(), a));
  if (b != rb) C->violation(fmt("ends_with:%s", rel), "differs from comparing the trailing substring", fmt("ends_with(%s, %s) = %d", esc(s).c_str(), esc(t).c_str(), b));
  cls[fmt("starts_with:%s:%s", rel, ra ? "true" : "false")]++;
  cls[fmt("ends_with:%s:%s", rel, rb ? "true" : "false")]++;
}

static void case_one(const string& s) {
  C->evaluations += 2;
  C->crumb_n("toupper/tolower", s.size(), s.empty() ? 0 : (uint8_t)s[0]);
  PZ();
  string u = phosg::toupper(s);
  PZ();
  string l = phosg::tolower(s);
  if (u != R::upper(s)) C->violation("toupper:value", "differs from per-byte C-locale toupper", fmt("toupper(%s) = %s", esc(s).c_str(), esc(u).c_str()));
  if (l != R::lower(s)) C->violation("tolower:value", "differs from per-byte C-locale tolower", fmt("tolower(%s) = %s", esc(s).c_str(), esc(l).c_str()));
}

static void replace_one(const string& s, const string& target, const string& repl, map<string, uint64_t>& cls) {
  C->evaluations++;
  C->crumb_n("str_replace_all", s.size(), target.size(), repl.size());
  PZ();
  string got = phosg::str_replace_all(s, target.c_str(), repl.c_str());
  string want = R::replace_all(s, target, repl);
  size_t hits = 0;
  for (size_t i = 0; i + target.size() <= s.size();) {
    if (memcmp(s.data() + i, target.data(), target.size()) == 0) {
      hits++;
      i += target.size();
    } else
      i++;
  }
  const char* where = hits == 0 ? "no-match" : (R::starts_with(s, target) ? (R::ends_with(s, target) && s.size() >= 2 * target.size() ? "match-both-ends" : "match-at-start") : (R::ends_with(s, target) ? "match-at-end" : "match-inside"));
  if (got != want)
    C->violation(fmt("str_replace_all:%s", where), "differs from left-to-right non-overlapping replacement",
        fmt("str_replace_all(%s, %s, %s) = %s, expected %s", esc(s).c_str(), esc(target).c_str(), esc(repl).c_str(), esc(got).c_str(), esc(want).c_str()));
  cls[fmt("str_replace_all:%s:%s", where, repl.size() < target.size() ? "shrinks" : repl.size() == target.size() ? "same-size" : "grows")]++;
}

static void exh_misc() {
  map<string, uint64_t> cls;
  // prefix/suffix: all pairs
  static const char A3[3] = {'a', 'b', '\0'};
  unsigned ls = C->qt(5u, 7u), lt = C->qt(4u, 6u);
  uint64_t ns = pow_sum(3, ls), nt = pow_sum(3, lt);
  string s, t;
  for (uint64_t i = C->shard; i < ns; i += C->nshards) {
    decode(i, A3, 3, s);
    for (uint64_t j = 0; j < nt; j++) {
      decode(j, A3, 3, t);
      prefix_pair(s, t, cls);
    }
  }
  // case mapping: every 1- and 2-byte string
  for (unsigned a = 0; a < 256; a++) {
    if (!C->mine(a)) continue;
    case_one(string(1, (char)a));
    for (unsigned b = 0; b < 256; b++) {
      char z[2] = {(char)a, (char)b};
      case_one(string(z, 2));
    }
    cls[fmt("case:byte-%s", a < 0x80 ? (isalpha(a) ? "ascii-letter" : "ascii-other") : "high")]++;
  }
  if (C->mine(7)) case_one("");
  // replace-all
  static const char* TARGETS[8] = {"a", "b", "ab", "aa", "aba", "ba", "abab", "bbb"};
  static const char* REPLS[7] = {"", "a", "b", "ab", "aab", "ba", "aaaa"};
  unsigned lr = C->qt(7u, 10u);
  uint64_t nr = pow_sum(3, lr);
  for (uint64_t i = C->shard; i < nr; i += C->nshards) {
    decode(i, A3, 3, s);
    for (const char* tg : TARGETS)
      for (const char* rp : REPLS) replace_one(s, tg, rp, cls);
  }
  for (auto& kv : cls) C->cls(kv.first, kv.second);
  C->sample(fmt("starts_with/ends_with: all pairs over {'a','b','\\0'} |s|<=%u |t|<=%u; toupper/tolower: all 1- and 2-byte strings; str_replace_all: all strings over {'a','b','\\0'} up to %u x 8 targets x 7 replacements", ls, lt, lr));
}

// ================================================================================================
// split_args: totality on arbitrary input

static void args_total(const string& s, uint64_t id, map<string, uint64_t>& cls) {
  C->evaluations++;
  C->crumb_n("split_args", id, s.size());
  const char* res = "returned";
  try {
    PZ();
    vector<string> v = phosg::split_args(s);
    (void)v;
  } catch (const runtime_error&) {
    res = "threw";
  } catch (const exception& e) {
    res = "threw";
    C->violation("split_args:exception-type", string("threw something other than runtime_error: ") + e.what(), fmt("split_args(%s)", esc(s).c_str()));
  }
  bool q = s.find_first_of("\"'") != string::npos, b = s.find('\\') != string::npos, z = s.find('\0') != string::npos;
  cls[fmt("split_args:total:%s:%s%s%s", res, q ? "quote" : "noquote", b ? "+escape" : "", z ? "+nul" : "")]++;
}

static void exh_args() {
  static const char A[7] = {'a', ' ', '\t', '"', '\'', '\\', '\0'};
  unsigned maxlen = C->qt(6u, 8u);
  uint64_t total = pow_sum(7, maxlen);
  map<string, uint64_t> cls;
  string s;
  for (uint64_t idx = C->shard; idx < total; idx += C->nshards) {
    decode(idx, A, 7, s);
    args_total(s, idx, cls);
  }
  for (auto& kv : cls) C->cls(kv.first, kv.second);
}

// ------------------------------------------------------------------------------------------------
// split_args against shlex: case file lines "hex(input)<TAB>E" or "hex(input)<TAB>T:hex,hex,..."

static bool unhex(const char* p, size_t n, string& out) {
  out.clear();
  if (n % 2) return false;
  for (size_t i = 0; i < n; i += 2) {
    auto v = [](char c) -> int { return c >= '0' && c <= '9' ? c - '0' : c >= 'a' && c <= 'f' ? c - 'a' + 10 : -1; };
    int h = v(p[i]), l = v(p[i + 1]);
    if (h < 0 || l < 0) return false;
    out.push_back((char)(h * 16 + l));
  }
  return true;
}

static void shlex_part() {
  string path = C->arg("cases");
  FILE* f = fopen(path.c_str(), "r");
  if (!f) {
    fprintf(stderr, "[harness-error] cannot open case file '%s'\n", path.c_str());
    exit(3);
  }
  map<string, uint64_t> cls;
  char* line = nullptr;
  size_t cap = 0;
  ssize_t len;
  uint64_t idx = 0;
  string in, tok;
  while ((len = getline(&line, &cap, f)) > 0) {
    uint64_t my = idx++;
    if (!C->mine(my)) continue;
    while (len && (line[len - 1] == '\n' || line[len - 1] == '\r')) line[--len] = 0;
    char* tab = strchr(line, '\t');
    if (!tab || !unhex(line, tab - line, in)) {
      fprintf(stderr, "[harness-error] bad case line %" PRIu64 "\n", my);
      exit(3);
    }
    bool expect_error = (tab[1] == 'E');
    vector<string> want;
    if (!expect_error) {
      if (tab[1] != 'T' || tab[2] != ':') {
        fprintf(stderr, "[harness-error] bad case line %" PRIu64 "\n", my);
        exit(3);
      }
      const char* p = tab + 3;
      while (*p) {
        const char* e = strchr(p, ',');
        size_t n = e ? (size_t)(e - p) : strlen(p);
        if (!unhex(p, n, tok)) {
          fprintf(stderr, "[harness-error] bad token hex on line %" PRIu64 "\n", my);
          exit(3);
        }
        want.push_back(tok);
        p += n;
        if (*p == ',') p++;
      }
    }
    C->evaluations++;
    C->crumb("split_args case-file line %" PRIu64 " input=%s", my, esc(in, 400).c_str());
    vector<string> got;
    bool threw = false;
    string msg;
    try {
      PZ();
      got = phosg::split_args(in);
    } catch (const runtime_error& e) {
      threw = true;
      msg = e.what();
    } catch (const exception& e) {
      threw = true;
      C->violation("split_args:exception-type", string("not a runtime_error: ") + e.what(), esc(in));
    }
    bool dq = in.find('"') != string::npos, sq = in.find('\'') != string::npos, bs = in.find('\\') != string::npos;
    string feat = string(dq ? "dquote" : "") + (sq ? (dq ? "+squote" : "squote") : "") + (bs ? ((dq || sq) ? "+escape" : "escape") : "");
    if (feat.empty()) feat = "plain";
    if (expect_error) {
      if (!threw)
        C->violation(fmt("split_args:accepts-unterminated:%s", feat.c_str()), "shlex.split raises ValueError (unterminated quote / dangling escape) but split_args returned",
            fmt("split_args(%s) returned %s", esc(in).c_str(), esc_list(got).c_str()));
      cls["args:shlex:error:" + feat]++;
    } else {
      if (threw)
        C->violation(fmt("split_args:rejects-valid:%s", feat.c_str()), "shlex.split tokenises this input but split_args threw: " + msg, fmt("split_args(%s)", esc(in).c_str()));
      else if (got != want)
        C->violation(fmt("split_args:tokens-differ:%s", feat.c_str()), "tokens differ from shlex.split(posix=True)",
            fmt("split_args(%s) returned %s, shlex gives %s", esc(in).c_str(), esc_list(got).c_str(), esc_list(want).c_str()));
      cls[fmt("args:shlex:%s:%s", feat.c_str(), want.empty() ? "0-tokens" : want.size() == 1 ? "1-token" : want.size() <= 4 ? "2-4-tokens" : "many-tokens")]++;
    }
    if (my < 3) C->sample(fmt("split_args(%s) vs shlex %s", esc(in).c_str(), expect_error ? "ValueError" : esc_list(want).c_str()));
  }
  free(line);
  fclose(f);
  for (auto& kv : cls) C->cls(kv.first, kv.second);
  C->count("shlex_case_lines_total", C->shard == 0 ? idx : 0);
}

// ================================================================================================
// random strings over all 256 byte values

static size_t pick_len(vf::Rng& r, size_t maxlen) {
  switch (r.below(8)) {
    case 0: return r.below(9);
    case 1:
    case 2: return r.below(65);
    case 3:
    case 4: return r.below(300);
    case 5:
    case 6: return r.below(maxlen + 1);
    default: {
      static const size_t B[] = {0, 1, 14, 15, 16, 17, 31, 32, 33, 255, 256, 257, 1023, 1024, 1025, 4095, 4096};
      size_t v = B[r.below(sizeof(B) / sizeof(B[0]))];
      return v > maxlen ? maxlen : v;
    }
  }
}

// random string biased towards the bytes in `special`
static string gen_string(vf::Rng& r, size_t maxlen, const string& special) {
  size_t len = pick_len(r, maxlen);
  string s(len, '\0');
  switch (r.below(4)) {
    case 0:
      for (auto& c : s) c = (char)r.next();
      break;
    case 1: {
      string alpha = special;
      size_t extra = 1 + r.below(5);
      for (size_t k = 0; k < extra; k++) alpha.push_back((char)r.next());
      for (auto& c : s) c = alpha[r.below(alpha.size())];
      break;
    }
    case 2: {
      unsigned den = 2 + (unsigned)r.below(15);
      for (auto& c : s) c = (!special.empty() && r.chance(1, den)) ? special[r.below(special.size())] : (char)r.next();
      break;
    }
    default: {
      size_t i = 0;
      while (i < len) {
        size_t run = 1 + r.below(20);
        char c = (!special.empty() && r.chance(1, 2)) ? special[r.below(special.size())] : (char)r.next();
        for (size_t k = 0; k < run && i < len; k++) s[i++] = c;
      }
      break;
    }
  }
  return s;
}

// balanced-by-construction input for split_context
static int g_ctx_max_depth = 6;
static void gen_context(vf::Rng& r, string& out, int depth, size_t budget, char delim) {
  static const char OPEN[4] = {'(', '[', '{', '<'}, CLOSE[4] = {')', ']', '}', '>'};
  size_t items = r.below(depth ? 5 : 12);
  for (size_t it = 0; it < items && out.size() < budget; it++) {
    switch (r.below(9)) {
      case 0:
      case 1:
      case 2: {
        size_t n = 1 + r.below(6);
        for (size_t k = 0; k < n; k++) {
          char c = (char)r.next();
          if (R::is_context_special(c)) c = 'p';
          out.push_back(c);
        }
        break;
      }
      case 3:
      case 4: out.push_back(delim); break;
      case 5:
      case 6:
        if (depth < g_ctx_max_depth) {
          int b = (int)r.below(4);
          out.push_back(OPEN[b]);
          gen_context(r, out, depth + 1, budget, delim);
          out.push_back(CLOSE[b]);
        }
        break;
      case 7: {
        char q = r.chance(1, 2) ? '"' : '\'';
        out.push_back(q);
        size_t n = r.below(8);
        for (size_t k = 0; k < n; k++) {
          if (r.chance(1, 4)) {
            out.push_back('\\');
            out.push_back(r.chance(1, 2) ? (r.chance(1, 2) ? q : '\\') : (char)r.next());
          } else {
            char c = r.chance(1, 3) ? delim : r.chance(1, 3) ? "()[]{}<>'\""[r.below(10)] : (char)r.next();
            if (c == q || c == '\\') c = 'q';
            out.push_back(c);
          }
        }
        out.push_back(q);
        break;
      }
      default: out.push_back('\\'); break;  // outside quotes a backslash is an ordinary character
    }
  }
}

static void random_part(vf::Rng& r) {
  uint64_t n = C->qt<uint64_t>(10000, 1000000) / C->nshards + 1;
  map<string, uint64_t> cls;
  for (uint64_t i = 0; i < n; i++) {
    uint64_t id = ((uint64_t)C->shard << 40) | i;
    // ---- split / wsplit / join
    {
      char d = (char)r.next();
      string s = gen_string(r, 4096, string(1, d));
      size_t nd = (size_t)count(s.begin(), s.end(), d);
      size_t ms;
      switch (r.below(8)) {
        case 0: ms = 0; break;
        case 1: ms = 1; break;
        case 2: ms = nd ? nd - 1 : 1; break;
        case 3: ms = nd; break;
        case 4: ms = nd + 1; break;
        case 5: ms = (size_t)-1; break;
        case 6: ms = 1 + r.below(4); break;
        default: ms = r.below(nd + 2); break;
      }
      if (r.chance(1, 3)) {
        wstring ws = widen(s);
        split_case(s, &ws, d, ms, nullptr, id, (unsigned)i);
      } else {
        split_case(s, nullptr, d, ms, nullptr, id, (unsigned)i);
      }
      if (i < 2) C->sample(fmt("random: split(%s, %s, %s)", esc(s, 60).c_str(), esc_ch(d).c_str(), ms_str(ms).c_str()));
    }
    // ---- genuinely wide strings (code points beyond one byte, delimiter too)
    if (r.chance(1, 4)) {
      static const wchar_t WD[] = {L',', (wchar_t)0x100, (wchar_t)0x2C2C, (wchar_t)0x1F600, (wchar_t)0x7FFFFFFF, L'\0'};
      wchar_t d = WD[r.below(6)];
      size_t len = pick_len(r, 1024);
      wstring ws(len, L'\0');
      unsigned den = 2 + (unsigned)r.below(12);
      for (auto& c : ws) c = r.chance(1, den) ? d : (wchar_t)(r.chance(1, 2) ? (r.next() & 0x7FFFFFFF) : (d ^ (1u << r.below(31))));
      vector<uint8_t> sep = R::all_occurrences(ws, d);
      size_t nsep;
      Shape sh = shape_of(ws.size(), sep, nsep);
      size_t ms = r.chance(1, 2) ? 0 : r.below(nsep + 2);
      C->evaluations++;
      C->crumb_n("wsplit-wide", id, (uint64_t)d, ms, len);
      PZ();
      vector<wstring> got = phosg::split(ws, d, ms);
      judge_pieces("wsplit", ws, d, ms, got, sep, nsep, sh);
      split_cls[OP_WSPLIT][sh][ms_class(ms, nsep)]++;
      cls["wsplit:wide-code-points"]++;
    }
    // ---- split_context on generated nestings (sometimes damaged)
    {
      char d;
      do d = r.chance(1, 2) ? ',' : (char)r.next();
      while (R::is_context_special(d));
      string s;
      size_t budget = pick_len(r, 4096);
      g_ctx_max_depth = r.chance(1, 4) ? 40 : 6;
      gen_context(r, s, 0, budget, d);
      if (r.chance(1, 8)) {
        // wrap everything in 1..40 more bracket levels
        unsigned extra = 1 + (unsigned)r.below(40);
        string pre, post;
        for (unsigned k = 0; k < extra; k++) {
          unsigned b = (unsigned)r.below(4);
          pre.push_back("([{<"[b]);
          post.insert(post.begin(), ")]}>"[b]);
          if (r.chance(1, 3)) {
            pre.push_back(d);
            post.insert(post.begin(), d);
          }
        }
        s = pre + s + post;
      }
      if (r.chance(1, 8) && s.size() < budget) {
        // long flat tail so that big inputs occur too
        string tail = gen_string(r, budget - s.size(), string(1, d));
        for (char& c : tail)
          if (R::is_context_special(c)) c = 't';
        s += tail;
      }
      if (!s.empty() && r.chance(1, 4)) {
        size_t p = r.below(s.size());
        if (r.chance(1, 2)) s.erase(p, 1);
        else s.insert(p, 1, "()[]{}<>'\"\\"[r.below(11)]);
      }
      R::Scan sc;
      R::scan_context(s, sc);
      size_t ms = r.chance(1, 2) ? 0 : 1 + r.below(5);
      // split_case also re-runs the plain split on this input
      split_case(s, nullptr, d, ms, &sc, id, (unsigned)i);
      if (i < 1) C->sample(fmt("random: split_context(%s, %s, %s)", esc(s, 80).c_str(), esc_ch(d).c_str(), ms_str(ms).c_str()));
    }
    // ---- trimming / skipping
    {
      string s = gen_string(r, 4096, string(" \t\r\n\0", 5));
      trim_one(s, id, false, &r, cls);
    }
    // ---- comments
    {
      string s = gen_string(r, 4096, "/*\n/*");
      comment_one(s, id, cls);
    }
    // ---- prefix / suffix / case
    {
      string s = gen_string(r, 4096, "aAzZ");
      string t;
      switch (r.below(6)) {
        case 0: t = s.substr(0, r.below(s.size() + 1)); break;
        case 1: t = s.substr(r.below(s.size() + 1)); break;
        case 2:
          t = s.substr(0, r.below(s.size() + 1));
          if (!t.empty()) t[r.below(t.size())] ^= (char)(1 << r.below(8));
          break;
        case 3:
          t = s.substr(r.below(s.size() + 1));
          if (!t.empty()) t[r.below(t.size())] ^= (char)(1 << r.below(8));
          break;
        case 4: t = s + gen_string(r, 8, ""); break;
        default: t = gen_string(r, 64, "aAzZ"); break;
      }
      prefix_pair(s, t, cls);
      case_one(s);
    }
    // ---- replace-all (results may grow far beyond the input)
    {
      string s = gen_string(r, 4096, "ab");
      string target;
      if (!s.empty() && r.chance(3, 4)) {
        size_t p = r.below(s.size());
        target = s.substr(p, 1 + r.below(4));
      } else {
        target = gen_string(r, 6, "ab");
      }
      size_t z = target.find('\0');
      if (z != string::npos) target.resize(z);
      if (target.empty()) target = "a";
      string repl = gen_string(r, r.chance(1, 8) ? 300 : 8, "ab");
      z = repl.find('\0');
      if (z != string::npos) repl.resize(z);
      replace_one(s, target, repl, cls);
    }
    // ---- split_args never does anything but return or throw runtime_error
    {
      string s = gen_string(r, 4096, "\"'\\ \t");
      args_total(s, id, cls);
    }
  }
  for (auto& kv : cls) C->cls("random:" + kv.first, kv.second);
  C->count("random_rounds", n);
}

// ================================================================================================
// string_printf / string_vprintf / wstring_printf

static string via_vprintf(const char* f, ...) __attribute__((format(printf, 1, 2)));
static string via_vprintf(const char* f, ...) {
  va_list va;
  va_start(va, f);
  string r = phosg::string_vprintf(f, va);
  va_end(va);
  return r;
}

// where the NUL characters of an expected output are
template <typename Ch>
static const char* nul_shape(const Ch* p, size_t n) {
  size_t k = 0;
  for (size_t i = 0; i < n; i++) k += (p[i] == 0);
  if (k == 0) return "none";
  if (k == n) return "only-nuls";
  if (k > 1) return "several";
  return p[0] == 0 ? "at-start" : p[n - 1] == 0 ? "at-end" : "in-middle";
}

static const char* len_class(size_t n) {
  return n == 0 ? "len0" : n < 1024 ? "len<1Ki" : n == 1024 ? "len1Ki" : n < 65536 ? "len<64Ki" : n < (1u << 20) ? "len<1Mi" : "len>=1Mi";
}

// Every printf-to-string case runs once per stale errno value: errno is set to the value immediately
// before the call, as an earlier, unrelated and already handled libc failure on the same thread would
// leave it.  The expected result never depends on it.
static const int STALE_ERRNO[] = {0, EILSEQ, ERANGE, EINVAL, ENOMEM};
static const char* errno_name(int e) {
  return e == 0 ? "0" : e == EILSEQ ? "EILSEQ" : e == ERANGE ? "ERANGE" : e == EINVAL ? "EINVAL" : e == ENOMEM ? "ENOMEM" : "other";
}

// `errno_dependent`: the same case was right with errno == 0, so the stale value is part of the witness class
static bool printf_check(const char* fn, const char* what, int stale, bool errno_dependent, bool threw, const string& threw_what, const string& got, const string& want) {
  C->evaluations++;
  if (!threw && got == want) return true;
  if (threw)
    C->violation(fmt("%s:throws-on-valid-input%s", fn, errno_dependent ? fmt(":stale-errno=%s", errno_name(stale)).c_str() : ""), "a valid call threw: " + threw_what,
        fmt("errno = %s; %s(%s): expected %zu bytes", errno_name(stale), fn, what, want.size()));
  else
    C->violation(fmt("%s:%s%s", fn, len_class(want.size()), errno_dependent ? fmt(":stale-errno=%s", errno_name(stale)).c_str() : ""),
        "result differs from vsnprintf into an exact-size buffer",
        fmt("errno = %s; %s(%s): got %zu bytes %s, expected %zu bytes %s", errno_name(stale), fn, what, got.size(), esc(got, 40).c_str(), want.size(),
            esc(want, 40).c_str()));
  return false;
}

#pragma GCC diagnostic push
#pragma GCC diagnostic ignored "-Wformat-zero-length"
static void printf_part(vf::Rng& r) {
  // every length up to 72 (both sides of 2*strlen(fmt)+16 for each format used), then both sides of 0x400, 4 KiB,
  // 64 KiB and 1 MiB
  vector<size_t> lens;
  for (size_t n = 0; n <= 72; n++) lens.push_back(n);
  for (size_t n : {255u, 256u, 1007u, 1008u, 1009u, 1022u, 1023u, 1024u, 1025u, 1026u, 2047u, 2048u, 2049u, 4095u, 4096u, 4097u, 65535u, 65536u, 65537u,
           (1u << 20) - 1, 1u << 20, (1u << 20) + 1})
    lens.push_back(n);
  size_t extra = C->qt<size_t>(16, 200);
  vf::Rng lr(C->seed * 31 + 5);  // same lengths in every shard; cases are partitioned by index
  for (size_t i = 0; i < extra; i++) lens.push_back(lr.below(lr.chance(1, 4) ? (1u << 20) : 70000));
  for (size_t li = 0; li < lens.size(); li++) {
    if (!C->mine(li)) continue;
    size_t L = lens[li];
    string a(L, 'x');
    for (auto& c : a) c = (char)(0x21 + r.below(0x5E));
    const char* ap = a.c_str();
    int iL = (int)L;
    C->crumb_n("string_printf", L);
#define PF(desc, ...)                                                                                  \
  do {                                                                                                 \
    string want = R::format_exact(__VA_ARGS__);                                                        \
    string what = fmt("%s, L=%zu", desc, L);                                                           \
    bool ok0 = false, okv0 = false;                                                                    \
    for (int stale : STALE_ERRNO) {                                                                    \
      string got, why;                                                                                 \
      bool threw = false;                                                                              \
      try {                                                                                            \
        errno = stale;                                                                                 \
        got = phosg::string_printf(__VA_ARGS__);                                                       \
      } catch (const exception& e) {                                                                   \
        threw = true;                                                                                  \
        why = e.what();                                                                                \
      }                                                                                                \
      bool ok = printf_check("string_printf", what.c_str(), stale, stale && ok0, threw, why, got, want); \
      if (!stale) ok0 = ok;                                                                            \
      threw = false;                                                                                   \
      try {                                                                                            \
        errno = stale;                                                                                 \
        got = via_vprintf(__VA_ARGS__);                                                                \
      } catch (const exception& e) {                                                                   \
        threw = true;                                                                                  \
        why = e.what();                                                                                \
      }                                                                                                \
      ok = printf_check("string_vprintf", what.c_str(), stale, stale && okv0, threw, why, got, want);  \
      if (!stale) okv0 = ok;                                                                           \
      C->cls(fmt("printf:errno-%s:%s", errno_name(stale), len_class(want.size())));                    \
      if (!stale) C->cls(fmt("printf:output-nul:%s", nul_shape(want.data(), want.size())));           \
    }                                                                                                  \
  } while (0)
    PF("\"%s\", str(L)", "%s", ap);
    PF("\"<%s|%s>\", str(L), str(L)", "<%s|%s>", ap, ap);
    PF("\"[%*d]\", L, 42", "[%*d]", iL, 42);
    PF("\"[%-*d]\", L, -7", "[%-*d]", iL, -7);
    PF("\"%.*f\", L, 1.0/3", "%.*f", iL, 1.0 / 3.0);
    PF("\"%.*s\", L/2, str(L)", "%.*s", iL / 2, ap);
    PF("\"a%cb%s\", 0, str(L)", "a%cb%s", 0, ap);
    PF("\"%s%%%c\", str(L), 0", "%s%%%c", ap, 0);
    PF("\"%0*llx\", L, ~0ull", "%0*llx", iL, ~0ull);
    // output containing NUL bytes: at the start, in the middle, at the end, several, only NULs
    PF("\"%c%s\", 0, str(L)", "%c%s", 0, ap);
    PF("\"%.*s%c%s\", L/2, str(L), 0, str(L)", "%.*s%c%s", iL / 2, ap, 0, ap);
    PF("\"%s%c\", str(L), 0", "%s%c", ap, 0);
    PF("\"%c%s%c%s%c\", 0, str(L), 0, str(L), 0", "%c%s%c%s%c", 0, ap, 0, ap, 0);
    PF("\"%c%*d\", 0, L, 5", "%c%*d", 0, iL, 5);
    if (L <= 3) {
      PF("\"%c\", 0", "%c", 0);
      PF("\"%c%c%c\", 0, 0, 0", "%c%c%c", 0, 0, 0);
    }
    if (li == 3) {
      PF("\"\"", "");
      PF("\"%%\"", "%%");
      PF("\"%s %lu 0x%04hX\"", "%s %lu 0x%04hX", "lolz", 1000ul, (unsigned short)0x4F);
    }
#undef PF
  }
  C->sample("string_printf/string_vprintf under stale errno {0,EILSEQ,ERANGE,EINVAL,ENOMEM}: %s, %*d, %.*f, %.*s, %c with NUL, producing 0..72, 1023..1025, 4 KiB, 64 KiB, 2^20(+-1) bytes vs vsnprintf into an exact-size buffer");
}
#pragma GCC diagnostic pop

static wstring wformat_ref(size_t cap, const wchar_t* f, ...) {
  wstring buf(cap, L'\0');
  va_list va;
  va_start(va, f);
  int n = __real_vswprintf(&buf[0], cap, f, va);
  va_end(va);
  if (n < 0) {
    fprintf(stderr, "[harness-error] reference vswprintf failed\n");
    exit(3);
  }
  buf.resize((size_t)n);
  return buf;
}

static bool wprintf_check(const string& what, size_t fmt_len, int stale, bool errno_dependent, bool threw, const string& threw_what, const wstring& got, const wstring& want) {
  C->evaluations++;
  // input shape relative to the format length (2*len and 2*len+16 are first guesses an implementation is likely to make)
  const char* fit = want.size() <= fmt_len ? "result-not-longer-than-format"
      : want.size() < 2 * fmt_len         ? "result-below-2x-format"
      : want.size() < 2 * fmt_len + 16    ? "result-below-2x-format+16"
                                          : "result-at-least-2x-format+16";
  string pre = fmt("errno = %s; ", errno_name(stale));
  if (W.verdict)
    C->violation(fmt("wstring_printf:%s", W.verdict),
        "wstring_vprintf retries vswprintf in a way that can never succeed (it would spin forever without the monitor)",
        pre + fmt("wstring_printf(%s): expected %zu wide chars; %u vswprintf attempts observed", what.c_str(), want.size(), W.calls));
  else if (threw)
    C->violation(fmt("wstring_printf:throws-on-valid-input%s", errno_dependent ? fmt(":stale-errno=%s", errno_name(stale)).c_str() : ""), "a valid call threw: " + threw_what,
        pre + fmt("wstring_printf(%s): expected %zu wide chars %s; %u vswprintf attempts observed", what.c_str(), want.size(), esc(want, 30).c_str(), W.calls));
  else if (got != want)
    C->violation(fmt("wstring_printf:value:%s%s", fit, errno_dependent ? fmt(":stale-errno=%s", errno_name(stale)).c_str() : ""),
        "result differs from vswprintf into a large enough buffer",
        pre + fmt("wstring_printf(%s): got %zu chars %s, expected %zu chars %s", what.c_str(), got.size(), esc(got, 30).c_str(), want.size(), esc(want, 30).c_str()));
  C->cls(fmt("wprintf:%s:%s", fit, len_class(want.size())));
  C->cls(fmt("wprintf:errno-%s:%s", errno_name(stale), fit));
  if (!stale) C->cls(fmt("wprintf:output-nul:%s", nul_shape(want.data(), want.size())));
  return !W.verdict && !threw && got == want;
}

static void wprintf_part() {
  // every length up to 80 (both sides of 2*wcslen(fmt) and 2*wcslen(fmt)+16 for each format), both sides of
  // 0x400 / 0x800 and the powers of two a doubling buffer passes through, up to 2^18 (1 MiB) / 2^20 wide chars
  vector<size_t> lens;
  for (size_t n = 0; n <= 80; n++) lens.push_back(n);
  for (size_t n : {100u, 127u, 128u, 129u, 255u, 256u, 257u, 1007u, 1008u, 1023u, 1024u, 1025u, 2047u, 2048u, 2049u, 4096u, 65535u, 65536u, 65537u,
           (1u << 18) - 1, 1u << 18})
    lens.push_back(n);
  if (C->thorough()) {
    lens.push_back((1u << 20) - 1);
    lens.push_back(1u << 20);
  }
  for (size_t li = 0; li < lens.size(); li++) {
    if (!C->mine(li)) continue;
    size_t L = lens[li];
    wstring a(L, L'w');
    for (size_t i = 0; i < L; i++) a[i] = (wchar_t)(L'a' + (i % 26));
    size_t cap = 2 * L + 64;  // the longest format below prints wstr(L) twice
#define WPF_FIRST_(a, ...) a
#define WPF_FIRST(...) WPF_FIRST_(__VA_ARGS__, 0)
#define WPF(desc, ...)                                                                                   \
  do {                                                                                                   \
    wstring want = wformat_ref(cap, __VA_ARGS__);                                                        \
    string what = fmt("%s, L=%zu", desc, L);                                                             \
    bool ok0 = false;                                                                                    \
    for (int stale : STALE_ERRNO) {                                                                      \
      C->crumb("errno=%s wstring_printf(%s) L=%zu", errno_name(stale), desc, L);                         \
      W = WMon();                                                                                        \
      W.active = true;                                                                                   \
      wstring got;                                                                                       \
      string why;                                                                                        \
      bool threw = false;                                                                                \
      try {                                                                                              \
        errno = stale;                                                                                   \
        got = phosg::wstring_printf(__VA_ARGS__);                                                        \
      } catch (const exception& e) {                                                                     \
        threw = true;                                                                                    \
        why = e.what();                                                                                  \
      }                                                                                                  \
      W.active = false;                                                                                  \
      bool ok = wprintf_check(what, wcslen(WPF_FIRST(__VA_ARGS__)), stale, stale && ok0, threw, why, got, want); \
      if (!stale) ok0 = ok;                                                                              \
    }                                                                                                    \
  } while (0)
    WPF("L\"%ls\", wstr(L)", L"%ls", a.c_str());
    WPF("L\"[%*d]\", L, 42", L"[%*d]", (int)L, 42);
    WPF("L\"%ls=%d\", wstr(L), 12345", L"%ls=%d", a.c_str(), 12345);
    WPF("L\"%-*ls|\", L, L\"x\"", L"%-*ls|", (int)L, L"x");
    // output containing L'\\0': at the start, in the middle, at the end, several, only NULs (%lc and %c)
    WPF("L\"%lc%ls\", 0, wstr(L)", L"%lc%ls", (wint_t)0, a.c_str());
    WPF("L\"%ls%lc%ls\", wstr(L), 0, wstr(L)", L"%ls%lc%ls", a.c_str(), (wint_t)0, a.c_str());
    WPF("L\"%ls%lc\", wstr(L), 0", L"%ls%lc", a.c_str(), (wint_t)0);
    WPF("L\"%lc%ls%c%ls%lc\", 0, wstr(L), 0, wstr(L), 0", L"%lc%ls%c%ls%lc", (wint_t)0, a.c_str(), 0, a.c_str(), (wint_t)0);
    WPF("L\"%c%*d\", 0, L, 5", L"%c%*d", 0, (int)L, 5);
    if (L <= 3) {
      WPF("L\"%lc\", 0", L"%lc", (wint_t)0);
      WPF("L\"%lc%lc%c\", 0, 0, 0", L"%lc%lc%c", (wint_t)0, (wint_t)0, 0);
    }
    if (li == 0) {
      WPF("L\"\"", L"");
      WPF("L\"abc\"", L"abc");
      WPF("L\"%d\", 7", L"%d", 7);
      WPF("L\"%d\", 12345", L"%d", 12345);
      WPF("L\"%d %d\", 1, 2", L"%d %d", 1, 2);
      WPF("L\"%lc%lc\", L'x', L'y'", L"%lc%lc", (wint_t)L'x', (wint_t)L'y');
      WPF("L\"value: %08.3f!\", 3.14159", L"value: %08.3f!", 3.14159);
    }
#undef WPF
  }
  C->sample("wstring_printf under stale errno {0,EILSEQ,ERANGE,EINVAL,ENOMEM}: L\"%ls\", L\"[%*d]\", L\"%ls=%d\", L\"%-*ls|\", L\"\" producing 0..80, 1023..1025, 2047..2049, 65536, 2^18 (2^20 thorough) wide chars vs vswprintf into a large buffer; vswprintf calls monitored (the monitor never touches errno)");
}

// ================================================================================================

int main(int argc, char** argv) {
  vf::Ctx& c = vf::init(argc, argv);
  C = &c;
  vf::Rng r = c.rng();
  string only = c.arg("only");
  if (only == "shlex") {
    shlex_part();
    return c.finish();
  }
  auto want = [&](const char* s) { return only.empty() || only == s; };
  reference_self_test();
  if (want("printf")) printf_part(r);
  if (want("wprintf")) wprintf_part();
  if (want("join")) join_suite(r);
  if (want("split")) {
    deep_nesting();
    exh_split();
  }
  if (want("trim")) exh_trim();
  if (want("comment")) exh_comment();
  if (want("misc")) exh_misc();
  if (want("args")) exh_args();
  if (want("random")) random_part(r);
  flush_split_classes();
  return c.finish();
}
