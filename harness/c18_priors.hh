// C18 — PRIOR-HISTORY family (part "priors"; included by c18.cc after the oracles and c18_pairs.hh).
//
// Every other part of this harness only ever calls the functions of the property, so the hidden state of the helpers
// they are built on (string_printf underneath format_duration / format_size; gmtime_r/strftime underneath format_time)
// stays in one narrow region: the longest text any C18 function prints is 38 characters.  What the same thread did
// EARLIER with those helpers for an unrelated purpose - one formatted string of 1024 characters, a long run of short
// ones, a big join / fgets / escape - is a dimension of the input space the statement quantifies over implicitly
// ("for every microsecond count", not "for every microsecond count on a thread that never logged a long line").
//
// For every prior of the shared catalogue (vf_history.hh, ~280 earlier uses + a seeded sample of two-step histories):
// fresh thread -> prior -> a MINI-WORKLOAD of every function of the property:
//   format_duration   15 fixed durations over all five magnitude branches (incl. the zero-padding and 59.999999 s carry
//                     points) + 3 random ones x precisions {-1, 0, 3, 6} + one random precision
//   format_time       5 fixed timestamps (epoch, leap day, a microsecond pattern, second 59, end of 9999) + 2 random
//   format_size       12 fixed sizes over every unit + 2 random x both flags, each read back with parse_size;
//                     3 canonical texts parse_size -> format_size
//   timeval           6 fixed + 2 random microsecond counts, both directions
// Every result is judged by the SAME pure oracles as the main parts (judge_duration_text: exact integer re-evaluation;
// time_mismatch: table-walk calendar; judge_size_text / size_reverse_ok; exact split) - nothing new is demanded: each
// call is judged exactly as if it had been made alone on a thread without history.
//
// Keys: <fn>:prior-history:<prior family>:<kind> (family = few values: none, printf-len, printf-run, join, split, fgets,
// escape, format, hash-hex, two-step); the exact prior is in the case text.  Classes: prior:<family>:<fn>.
// NAMING only: when a call is found wrong, the same call is made once more on a fresh thread WITHOUT any prior; if it is
// wrong there too the defect does not depend on the history and is reported under the single family "any-history" (so a
// stateless defect, which the other parts report anyway, does not multiply into one key per family).  The probe never
// decides a verdict.
#pragma once

static const char* prior_family(const vf::Prior& p, string& store) {
  store = p.name.find(" then ") != string::npos ? string("two-step") : p.family;
  return store.c_str();
}

struct PriorViolSnapshot {
  map<string, uint64_t> vc;
  size_t nv;
  uint64_t ev;
  PriorViolSnapshot() : vc(C->viol_counts), nv(C->violations.size()), ev(C->evaluations) {}
  bool changed() const { return C->viol_counts != vc; }
  void rollback() {
    C->viol_counts = vc;
    C->violations.erase(C->violations.begin() + (long)nv, C->violations.end());
    C->evaluations = ev;
  }
};

struct PriorMini {
  const vf::Prior& p;
  const char* fam;
  vf::Rng& r;
  uint64_t ncalls = 0;

  // runs one judged call; if it reported something, finds out whether the same call is also wrong without any history
  template <typename F>
  void judged(F&& f) {
    PriorViolSnapshot snap;
    f();
    if (!snap.changed()) return;
    snap.rollback();
    uint64_t keep_calls = ncalls;
    vf::in_fresh_thread([&] { f(); });
    bool stateless = snap.changed();
    snap.rollback();
    const char* keep = fam;
    if (stateless) fam = "any-history";
    f();  // still on the thread that ran the prior: reported for real now, under the family decided above
    fam = keep;
    ncalls = keep_calls;
    C->count(stateless ? "prior_history_findings_also_without_history" : "prior_history_findings_only_with_history");
  }
  void duration(uint64_t us, int prec) { judged([&] { duration_(us, prec); }); }
  void time(uint64_t t) { judged([&] { time_(t); }); }
  void size(uint64_t s) { judged([&] { size_(s); }); }
  void size_reverse(unsigned whole, unsigned cents, int unit) { judged([&] { size_reverse_(whole, cents, unit); }); }
  void timeval(uint64_t x) { judged([&] { timeval_(x); }); }

  string after() const { return "on a fresh thread after prior [" + p.name + "]: "; }

  void duration_(uint64_t us, int prec) {
    C->evaluations++;
    ncalls++;
    C->crumb("prior-history [%s] then format_duration(%" PRIu64 ", %d)", p.name.c_str(), us, prec);
    string text;
    try {
      vf::poison_errno();
      text = phosg::format_duration(us, (int8_t)prec);
    } catch (const std::exception& e) {
      C->violation(fmt("format_duration:prior-history:%s:throws", fam), string("format_duration threw (") + e.what() + ")",
          after() + fmt("format_duration(%" PRIu64 ", %d)", us, prec));
      return;
    } catch (...) {
      C->violation(fmt("format_duration:prior-history:%s:throws", fam), "format_duration threw a non-std::exception object",
          after() + fmt("format_duration(%" PRIu64 ", %d)", us, prec));
      return;
    }
    DurVerdict v;
    judge_duration_text(us, prec, text, v);
    for (int k = 0; k < v.nbad; k++)
      C->violation(fmt("format_duration:prior-history:%s:%s", fam, v.kind[k]), v.what[k],
          after() + fmt("format_duration(%" PRIu64 ", %d) = \"%s\"", us, prec, vf::json_escape(text).c_str()));
  }

  void time_(uint64_t t) {
    if (t > T_MAX) t = T_MAX;
    C->evaluations++;
    ncalls++;
    C->crumb("prior-history [%s] then format_time(%" PRIu64 ")", p.name.c_str(), t);
    string text;
    try {
      vf::poison_errno();
      text = phosg::format_time(t);
    } catch (const std::exception& e) {
      C->violation(fmt("format_time:prior-history:%s:throws", fam), string("format_time threw (") + e.what() + ")", after() + fmt("format_time(%" PRIu64 ")", t));
      return;
    }
    string want;
    const char* part = time_mismatch(t, text, want);
    if (part)
      C->violation(fmt("format_time:prior-history:%s:%s", fam, part), "format_time differs from the independent UTC civil calendar",
          after() + fmt("format_time(%" PRIu64 ") = \"%s\" expected \"%s\"", t, vf::json_escape(text).c_str(), want.c_str()));
  }

  void size_(uint64_t s) {
    for (int incl = 0; incl < 2; incl++) {
      C->evaluations++;
      ncalls++;
      C->crumb("prior-history [%s] then format_size(%" PRIu64 ", %d) / parse_size", p.name.c_str(), s, incl);
      string text;
      uint64_t back = 0;
      try {
        vf::poison_errno();
        text = phosg::format_size((size_t)s, incl != 0);
        vf::poison_errno();
        back = phosg::parse_size(text.c_str());
      } catch (const std::exception& e) {
        C->violation(fmt("size:prior-history:%s:throws", fam), string("format_size / parse_size threw (") + e.what() + ")",
            after() + fmt("format_size(%" PRIu64 ", %d)", s, incl));
        continue;
      }
      string kase = after() + fmt("format_size(%" PRIu64 ", %s) = \"%s\"; parse_size(that) = %" PRIu64, s, incl ? "true" : "false", vf::json_escape(text).c_str(), back);
      SizeVerdict v;
      judge_size_text(s, incl, text, back, v);
      if (v.shape_bad) {
        C->violation(fmt("size:prior-history:%s:shape", fam), "format_size text is neither \"<n> bytes\", \"<w>.<cc> <U>B\" nor \"<n> bytes (<w>.<cc> <U>B)\"", kase);
        continue;
      }
      if (v.skip) continue;
      if (v.bad) C->violation(fmt("size:prior-history:%s:%s", fam, v.key_tail.compare(0, 5, "parse") == 0 ? "parse_size" : "format_size"), v.what, kase);
    }
  }

  void size_reverse_(unsigned whole, unsigned cents, int unit) {
    C->evaluations++;
    ncalls++;
    string text = fmt("%u.%02u %cB", whole, cents, UNITS[unit]);
    C->crumb("prior-history [%s] then parse_size(\"%s\") / format_size", p.name.c_str(), text.c_str());
    uint64_t v = 0;
    string again;
    try {
      vf::poison_errno();
      v = phosg::parse_size(text.c_str());
      vf::poison_errno();
      again = phosg::format_size((size_t)v, false);
    } catch (const std::exception& e) {
      C->violation(fmt("size:prior-history:%s:throws", fam), string("parse_size / format_size threw (") + e.what() + ")", after() + "parse_size(\"" + text + "\")");
      return;
    }
    if (!size_reverse_ok(whole, cents, unit, again))
      C->violation(fmt("size:prior-history:%s:reverse", fam), "format_size(parse_size(text)) does not print the value of text again (to one unit of the last digit)",
          after() + fmt("parse_size(\"%s\") = %" PRIu64 "; format_size(that) = \"%s\"", text.c_str(), v, vf::json_escape(again).c_str()));
  }

  void timeval_(uint64_t x) {
    C->evaluations++;
    ncalls++;
    C->crumb("prior-history [%s] then usecs_to_timeval(%" PRIu64 ") / timeval_to_usecs", p.name.c_str(), x);
    vf::poison_errno();
    struct timeval tv = phosg::usecs_to_timeval(x);
    string kase = after() + fmt("usecs_to_timeval(%" PRIu64 ") = {tv_sec=%lld, tv_usec=%lld}", x, (long long)tv.tv_sec, (long long)tv.tv_usec);
    if (tv.tv_usec < 0 || tv.tv_usec >= 1000000 || (uint64_t)tv.tv_sec != x / US || (uint64_t)tv.tv_usec != x % US)
      C->violation(fmt("timeval:prior-history:%s:split", fam), "usecs_to_timeval is not {x / 10^6, x % 10^6}", kase);
    struct timeval tv2;
    tv2.tv_sec = (time_t)(x / US);
    tv2.tv_usec = (suseconds_t)(x % US);
    vf::poison_errno();
    uint64_t back = phosg::timeval_to_usecs(tv2);
    if (back != x) C->violation(fmt("timeval:prior-history:%s:round-trip", fam), "timeval_to_usecs({x / 10^6, x % 10^6}) != x", kase + fmt(" -> %" PRIu64, back));
  }

  void run() {
    // --- format_duration: every magnitude branch, padding and carry points, several precisions
    static const uint64_t DUR[] = {0, 1, 999999,                                                         // < 1 s
        US, 9 * US + 499999, 59 * US + 999999,                                                           // < 1 min
        MINUTE, 65 * US, 59 * MINUTE + 59 * US + 999999,                                                 // < 1 h (65 s: zero-padded seconds)
        HOUR, 3723004005ULL, DAY - 1,                                                                    // < 1 d
        DAY, 90061000001ULL, 1ULL << 62};                                                                // >= 1 d
    static const int PREC[] = {-1, 0, 3, 6};
    for (uint64_t us : DUR) {
      for (int pr : PREC) duration(us, pr);
      duration(us, (int)r.range(-1, 6));
    }
    for (int i = 0; i < 3; i++) {
      uint64_t us = r.next() >> (1 + r.below(63));
      for (int pr : PREC) duration(us, pr);
    }
    C->cls(fmt("prior:%s:dur", fam));
    // --- format_time
    for (uint64_t t : std::initializer_list<uint64_t>{0ULL, 951782400ULL * US, 1700000000ULL * US + 123456, 4107542399ULL * US + 999999, T_MAX}) time(t);
    for (int i = 0; i < 2; i++) time(r.below(T_MAX + 1));
    C->cls(fmt("prior:%s:time", fam));
    // --- format_size / parse_size
    for (uint64_t s : std::initializer_list<uint64_t>{0ULL, 1ULL, 1023ULL, 1024ULL, 1536ULL, (1ULL << 20) - 1, 1ULL << 20, 5ULL << 30, (1ULL << 40) + 1, 3ULL << 50, 1ULL << 60,
             UINT64_MAX - (1ULL << 59)})
      size(s);
    for (int i = 0; i < 2; i++) size(r.next() >> r.below(54));
    size_reverse(1, 50, 1);
    size_reverse(1023, 99, 0);
    size_reverse(1 + (unsigned)r.below(15), (unsigned)r.below(100), (int)r.below(6));
    C->cls(fmt("prior:%s:size", fam));
    // --- timeval
    for (uint64_t x : std::initializer_list<uint64_t>{0ULL, 999999ULL, 1000000ULL, 1700000000ULL * US + 123456, 4294967296ULL * US + 999999, (uint64_t)INT64_MAX}) timeval(x);
    for (int i = 0; i < 2; i++) timeval(r.next() >> (1 + r.below(63)));
    C->cls(fmt("prior:%s:timeval", fam));
  }
};

static void prior_suite() {
  vf::Rng r = C->rng(30);
  uint64_t calls = 0;
  // quick: every prior of the catalogue once (spread over the shards) + 4 two-step histories per shard;
  // thorough: the mini-workload three times in a row after each prior (state that changes during the workload) + 40 two-step
  const int reps = C->qt<int>(1, 3);
  size_t threads = vf::for_each_prior(
      *C,
      [&](const vf::Prior& p) {
        string store;
        const char* fam = prior_family(p, store);
        for (int k = 0; k < reps; k++) {
          PriorMini m{p, fam, r};
          m.run();
          calls += m.ncalls;
        }
      },
      C->nshards, C->shard, C->qt<size_t>(4, 40));
  C->count("prior_history_fresh_threads", threads);
  C->count("prior_history_judged_calls", calls);
  C->count("prior_history_catalogue_size", C->shard == 0 ? vf::priors().size() : 0);
}
