// C12 — LRUSet / LRUMap equal a reference recency list on every operation history.
//
// Oracle: an inline recency-list model per container instance (most recent first), written from
// the header's contract (comments in LRUSet-inl.hh / LRUMap.hh, pinned by LRUSetTest/LRUMapTest):
//   LRUSet  refresh: insert / emplace (new AND existing key), touch.   not: change_size, peek.
//   LRUMap  refresh: at, insert (new and existing), emplace (new only), touch,
//                    change_size(k, s, touch=true).
//           not:     emplace on an existing key (no effect at all, returns false), item_size,
//                    change_size(k, s, false).
// Monitor: a probe subclass (members are protected) audits the intrusive list after EVERY
// operation on BOTH instances: forward/backward walks visit exactly items.size() nodes in mutually
// reverse order, head->prev == tail->next == nullptr, every Item::key points at its own map key,
// sum of sizes == total_size, and the walk (key, size, value) equals the model's recency order.
// Every return value, size(), count(), empty() is compared; every history ends in a drain by
// evict_object compared with the model.  ASan watches for use-after-free / double free, LSan at exit.
//
// Parts (--arg only=<part>[,<part>...]; scopes: full_len= map_len= big_len= red_len=, random_div=<n> divides the
// number of random histories):
//                          exset / exmap  exhaustive histories, full alphabet (int keys)
//                          redset / redmap exhaustive histories, reduced 18-op alphabet, longer
//                          random         random histories <= 400 ops over 1..8 heap-owning string keys
//                          fixed          a few scripted cases (default size arguments etc.)
//                          bigsz          exhaustive length <= 3 over every size-taking entry point x boundary sizes of size_t
// Not instantiated (do not compile, see notes/c12.md): LRUMap::insert(const K&, const V&, size_t),
// LRUMap::at(const K&) const.
//
// Build configurations (round 5).  LRUSet/LRUMap are header-only templates: they are compiled with the flags
// of the INCLUDING translation unit, so the property has to hold in every configuration a user may pick.  The
// spec therefore compiles this same TU several times (stage key "extra_cxx": NDEBUG defined / not defined,
// -O0 / -O2 / -O3, with and without sanitizer instrumentation) and runs the same histories, the same model
// and the same audit from each binary.  Nothing in this file (or common.hh) uses assert(): every judgement
// goes through c.violation, so the oracle is identical in all configurations.  The configuration a binary
// was REALLY compiled in is observed below (preprocessor state + a run-time probe of the assert macro) and
// reported as coverage class `build:<assert-on|assert-off>:<O-level>:<asan|nosan>`; the spec requires every
// configuration, so a build system that dropped the flags makes the check inconclusive, not "held".
#include <assert.h>
#include <inttypes.h>
#include <stdint.h>
#include <stdio.h>
#include <string.h>
#include <sys/types.h>

#include <memory>
#include <stdexcept>
#include <string>
#include <unordered_map>
#include <utility>
#include <vector>

#include "LRUMap.hh"
#include "LRUSet.hh"
#include "common.hh"

using std::string;
using vf::fmt;

static vf::Ctx* C;

// ------------------------------------------------------------------------------------------------
// build configuration of this binary (= of the phosg templates instantiated in it)

#define C12_STR2(x) #x
#define C12_STR(x) C12_STR2(x)
#ifdef NDEBUG
static const bool cfg_ndebug = true;
#else
static const bool cfg_ndebug = false;
#endif
#ifdef __OPTIMIZE__
static const bool cfg_optimized = true;
#else
static const bool cfg_optimized = false;
#endif
#if defined(__SANITIZE_ADDRESS__)
static const bool cfg_asan = true;
#else
static const bool cfg_asan = false;
#endif
#ifdef C12_OPT  // label given by the spec next to the -O flag itself (the compiler has no macro for the exact level)
static const char* const cfg_opt_label = C12_STR(C12_OPT);
#else
static const char* const cfg_opt_label = "";
#endif
static string cfg_name;    // e.g. "assert-off:O2:asan"
static string key_prefix;  // "" when asserts are active, "ndebug:" when NDEBUG is defined

// Observes (does not judge) whether an expression inside assert() is evaluated in this binary.
__attribute__((noinline)) static bool assert_side_effects_run() {
  volatile int probe = 0;
  assert((probe = 1) == 1);
  return probe == 1;
}

static void detect_build_config() {
  bool active = assert_side_effects_run();
  if (active == cfg_ndebug) {
    fprintf(stderr, "[harness-error] NDEBUG %s but the argument of assert() %s evaluated\n", cfg_ndebug ? "defined" : "not defined",
        active ? "is" : "is not");
    exit(3);
  }
  string opt = cfg_opt_label;
  if (opt.empty()) opt = cfg_optimized ? "O1+" : "O0";
  if ((opt == "O0") == cfg_optimized) {
    fprintf(stderr, "[harness-error] build labelled %s but __OPTIMIZE__ is %s: the -O flag of the stage did not reach the compiler\n",
        opt.c_str(), cfg_optimized ? "defined" : "not defined");
    exit(3);
  }
  cfg_name = fmt("%s:%s:%s", cfg_ndebug ? "assert-off" : "assert-on", opt.c_str(), cfg_asan ? "asan" : "nosan");
  key_prefix = cfg_ndebug ? "ndebug:" : "";
}

// ------------------------------------------------------------------------------------------------
// operations

enum Kind : uint8_t {
  K_INSERT,       // insert(k, [v,] size)
  K_EMPLACE,      // emplace(k, [v,] size)
  K_ERASE,        // erase(k)
  K_TOUCH,        // touch(k)            (new_size defaulted = -1)
  K_TOUCH_SZ,     // touch(k, size)
  K_CHSZ,         // change_size(k, size)        (map: touch defaulted = true)
  K_CHSZ_NT,      // map: change_size(k, size, false)
  K_AT,           // map: at(k)
  K_ITEMSZ,       // map: item_size(k)
  K_EVICT,        // evict_object()
  K_PEEK,         // set: peek()
  K_SWAP,         // a.swap(b)
  K_CLEAR,        // clear()
  K_INSERT_DEF,   // insert(k [,v])   size argument defaulted (set: 0, map: 1)
  K_EMPLACE_DEF,  // emplace(k [,v])  size argument defaulted
  K_CHSZ_T,       // map: change_size(k, size, true) with the flag spelled out
  K_NKINDS
};
static const char* const kind_name[K_NKINDS] = {"insert", "emplace", "erase", "touch", "touch_sz", "change_size",
    "change_size_notouch", "at", "item_size", "evict", "peek", "swap", "clear", "insert_defsize", "emplace_defsize",
    "change_size_touch"};
static inline bool keyed(uint8_t k) { return !(k == K_EVICT || k == K_PEEK || k == K_SWAP || k == K_CLEAR); }
static inline bool sized(uint8_t k) {
  return k == K_INSERT || k == K_EMPLACE || k == K_TOUCH_SZ || k == K_CHSZ || k == K_CHSZ_NT || k == K_CHSZ_T;
}

struct Op {
  uint8_t kind;
  uint8_t key;
  uint64_t size;
};

static string op_str(const Op& o) {
  string s = kind_name[o.kind];
  if (keyed(o.kind)) {
    s += fmt("(k%u", o.key);
    if (sized(o.kind)) s += fmt(",%" PRIu64, o.size);
    s += ")";
  }
  return s;
}
static string hist_str(const Op* ops, size_t n) {
  string s;
  for (size_t i = 0; i < n; i++) {
    if (i) s += " ";
    s += op_str(ops[i]);
  }
  return s;
}

// ------------------------------------------------------------------------------------------------
// reference model: recency list, index 0 = most recently used (list head), back = next to evict

static const int CAP = 16;

struct MEntry {
  int key;
  uint64_t size;
  int64_t val;
};
struct Model {
  MEntry v[CAP];
  int n = 0;
  int find(int key) const {
    for (int i = 0; i < n; i++)
      if (v[i].key == key) return i;
    return -1;
  }
  void remove(int i) {
    for (int j = i; j + 1 < n; j++) v[j] = v[j + 1];
    n--;
  }
  void push_front(const MEntry& e) {
    if (n >= CAP) {
      fprintf(stderr, "[harness-error] model capacity exceeded\n");
      exit(3);
    }
    for (int j = n; j > 0; j--) v[j] = v[j - 1];
    v[0] = e;
    n++;
  }
  void touch(int i) {
    MEntry e = v[i];
    remove(i);
    push_front(e);
  }
  uint64_t total() const {
    uint64_t t = 0;
    for (int i = 0; i < n; i++) t += v[i].size;
    return t;
  }
  string str() const {
    string s = "[";
    for (int i = 0; i < n; i++) s += fmt("%sk%d:%" PRIu64 ":v%" PRId64, i ? " " : "", v[i].key, v[i].size, v[i].val);
    return s + "]";
  }
};

// shapes (pre-state of the operation's target)
enum Shape : uint8_t {
  S_ABSENT_EMPTY, S_ABSENT, S_ONLY, S_HEAD, S_MIDDLE, S_TAIL,  // keyed ops
  S_EMPTY, S_ONE, S_MANY,                                       // evict / peek / clear
  S_SWAP0,                                                      // swap: S_SWAP0 + 3*shape(a) + shape(b)
  S_NSHAPES = S_SWAP0 + 9
};
static const char* const shape_name[S_NSHAPES] = {"absent-empty", "absent", "only", "head", "middle", "tail", "empty", "one",
    "many", "empty-empty", "empty-one", "empty-many", "one-empty", "one-one", "one-many", "many-empty", "many-one",
    "many-many"};
static inline int csize3(const Model& m) { return m.n == 0 ? 0 : m.n == 1 ? 1 : 2; }
static inline uint8_t shape_of(const Op& o, const Model& a, const Model& b) {
  if (o.kind == K_SWAP) return (uint8_t)(S_SWAP0 + 3 * csize3(a) + csize3(b));
  if (!keyed(o.kind)) return (uint8_t)(S_EMPTY + csize3(a));
  int i = a.find(o.key);
  if (i < 0) return a.n == 0 ? S_ABSENT_EMPTY : S_ABSENT;
  if (a.n == 1) return S_ONLY;
  if (i == 0) return S_HEAD;
  if (i == a.n - 1) return S_TAIL;
  return S_MIDDLE;
}

static const char* const cont_name[2] = {"lruset", "lrumap"};
static uint64_t cls_count[2][K_NKINDS][S_NSHAPES];
static uint64_t drain_count[2][3];
static uint64_t big_count[2][K_NKINDS];  // size-taking calls with a size >= 2^63 (top bit set)
static uint64_t n_histories, n_throw_expected;

// ------------------------------------------------------------------------------------------------
// key / value factories

template <class T>
struct KT;
template <>
struct KT<int> {
  static int make(int id) { return 1000 + 7 * id; }
  static int id(const int& v) { return (v - 1000) % 7 == 0 ? (v - 1000) / 7 : -1; }
};
template <>
struct KT<string> {
  // long enough to live on the heap: a stale key pointer is then an ASan report
  static string make(int id) { return fmt("key-%d-heap-owning-padding-0123456789", id); }
  static int id(const string& v) {
    int x = -1;
    if (v.size() > 30 && sscanf(v.c_str(), "key-%d-heap", &x) == 1) return x;
    return -1;
  }
};
template <class T>
struct VT;
template <>
struct VT<int64_t> {
  static int64_t make(int64_t id) { return id; }
  static int64_t id(const int64_t& v) { return v; }
};
template <>
struct VT<string> {
  static string make(int64_t id) { return fmt("value-%" PRId64 "-heap-owning-padding-0123456789", id); }
  static int64_t id(const string& v) {
    long long x = -1;
    if (v.size() > 30 && sscanf(v.c_str(), "value-%lld-heap", &x) == 1) return x;
    return -1;
  }
};
template <>
struct VT<std::unique_ptr<string>> {
  static std::unique_ptr<string> make(int64_t id) { return std::make_unique<string>(VT<string>::make(id)); }
  static int64_t id(const std::unique_ptr<string>& v) { return v ? VT<string>::id(*v) : -2; }
};

// ------------------------------------------------------------------------------------------------
// probes (members of LRUSet/LRUMap are protected)

template <class K>
struct SetProbe : phosg::LRUSet<K> {
  typedef phosg::LRUSet<K> Base;
  typedef typename Base::Item Item;
  using Base::head;
  using Base::items;
  using Base::tail;
  using Base::total_size;
};
template <class K, class V>
struct MapProbe : phosg::LRUMap<K, V> {
  typedef phosg::LRUMap<K, V> Base;
  typedef typename Base::Item Item;
  using Base::head;
  using Base::items;
  using Base::tail;
  using Base::total_size;
};

// Structural audit.  Returns nullptr if the list is well formed, else the name of the broken rule.
// fwd[0..n) receives the nodes in head->tail order.  No pointer is dereferenced before it has been
// shown to be the address of a live node of the hash map, so a dangling head/tail/prev/next is
// reported by name (and deterministically, even if the freed memory has been reused); ASan remains
// the monitor for what phosg itself dereferences.
template <class P>
__attribute__((noinline)) static const char* c12_audit(const P& p, const typename P::Item** fwd, size_t& n_out) {
  typedef typename P::Item Item;
  size_t n = p.items.size();
  n_out = 0;
  if (n > (size_t)CAP) {
    fprintf(stderr, "[harness-error] container larger than the audit capacity\n");
    exit(3);
  }
  if (n == 0) {
    if (p.head) return "head-nonnull-when-empty";
    if (p.tail) return "tail-nonnull-when-empty";
    if (p.total_size != 0) return "total-size-nonzero-when-empty";
    return nullptr;
  }
  const Item* live[CAP];
  const void* live_key[CAP];
  size_t nl = 0;
  for (const auto& kv : p.items) {
    if (nl == n) return "map-iteration-longer-than-size";
    live[nl] = &kv.second;
    live_key[nl] = &kv.first;
    nl++;
  }
  if (nl != n) return "map-iteration-shorter-than-size";
  auto find_live = [&](const Item* q) -> int {
    for (size_t i = 0; i < n; i++)
      if (live[i] == q) return (int)i;
    return -1;
  };
  if (!p.head) return "head-null";
  if (!p.tail) return "tail-null";
  if (find_live(p.head) < 0) return "head-dangling";
  if (find_live(p.tail) < 0) return "tail-dangling";
  if (p.head->prev) return "head-prev-nonnull";
  if (p.tail->next) return "tail-next-nonnull";
  size_t c = 0;
  for (const Item* it = p.head; it; it = it->next) {
    if (c == n) return "forward-walk-too-long";
    fwd[c++] = it;
    if (it->next && find_live(it->next) < 0) return "next-pointer-dangling";
  }
  if (c != n) return "forward-walk-too-short";
  if (fwd[n - 1] != p.tail) return "forward-walk-does-not-end-at-tail";
  c = 0;
  for (const Item* it = p.tail; it; it = it->prev) {
    if (c == n) return "backward-walk-too-long";
    if (fwd[n - 1 - c] != it) return "backward-walk-not-reverse-of-forward";
    c++;
    if (it->prev && find_live(it->prev) < 0) return "prev-pointer-dangling";
  }
  if (c != n) return "backward-walk-too-short";
  uint64_t sum = 0;
  for (size_t i = 0; i < n; i++) {
    const Item* it = fwd[i];
    if (!it->key) return "key-pointer-null";
    int li = find_live(it);
    if ((const void*)it->key != live_key[li]) return "key-pointer-not-own-map-key";
    auto f = p.items.find(*it->key);
    if (f == p.items.end() || &f->second != it) return "linked-node-not-found-under-its-key";
    sum += it->size;
  }
  if (sum != p.total_size) return "total-size-not-sum-of-sizes";
  n_out = n;
  return nullptr;
}

// best-effort rendering of the container for failure messages; follows `next` only through live nodes
template <class P, class F>
static string dump_list(const P& p, F&& entry) {
  typedef typename P::Item Item;
  std::vector<const Item*> live;
  for (const auto& kv : p.items) live.push_back(&kv.second);
  auto is_live = [&](const Item* q) {
    for (const Item* l : live)
      if (l == q) return true;
    return false;
  };
  string s = "[";
  int c = 0;
  const Item* it = p.head;
  for (; it && is_live(it) && c < CAP + 1; it = it->next, c++) s += (c ? " " : "") + entry(it);
  if (it && !is_live(it)) s += " ->DANGLING";
  s += "]";
  if (p.tail && !is_live(p.tail)) s += " tail=DANGLING";
  else if (p.tail) s += " tail=" + entry(p.tail);
  else s += " tail=null";
  return s + fmt(" count=%zu size=%zu", p.count(), p.size());
}

struct Fail {
  bool failed = false;
  string aspect, what;
  bool set(const string& a, const string& w) {
    failed = true;
    aspect = a;
    what = w;
    return false;
  }
};

// Compare one instance with its model: size(), count(), structure, order, per-entry size/value.
template <class P, class KeyId, class ValId>
static bool observe(const P& p, const Model& m, const char* who, Fail& f, KeyId&& key_id, ValId&& val_id) {
  auto ent = [&](const typename P::Item* it) {
    int kidv = -9;  // key taken from the map node itself, not through the (possibly stale) key pointer
    for (const auto& kv : p.items)
      if (&kv.second == it) kidv = key_id(kv.first);
    return fmt("k%d:%zu:v%" PRId64, kidv, (size_t)it->size, val_id(it));
  };
  if (p.count() != (size_t)m.n)
    return f.set(string(who) + "count", fmt("count()=%zu, model has %d keys %s", p.count(), m.n, m.str().c_str()));
  const typename P::Item* fwd[CAP];
  size_t n = 0;
  const char* why = c12_audit(p, fwd, n);
  if (why) return f.set(string(who) + "struct:" + why, "list is " + dump_list(p, ent) + ", model " + m.str());
  if (p.size() != m.total())
    return f.set(string(who) + "size", fmt("size()=%zu, model sum of sizes %" PRIu64 " %s", p.size(), m.total(), m.str().c_str()));
  for (size_t i = 0; i < n; i++) {
    int kid = key_id(*fwd[i]->key);
    if (kid != m.v[i].key) {
      bool same_set = true;
      for (size_t j = 0; j < n; j++) same_set = same_set && m.find(key_id(*fwd[j]->key)) >= 0;
      return f.set(string(who) + (same_set ? "order" : "keys"),
          "head->tail walk is " + dump_list(p, ent) + ", model recency order " + m.str());
    }
  }
  for (size_t i = 0; i < n; i++) {
    if ((uint64_t)fwd[i]->size != m.v[i].size)
      return f.set(string(who) + "entry-size", "list is " + dump_list(p, ent) + ", model " + m.str());
    if (val_id(fwd[i]) != m.v[i].val)
      return f.set(string(who) + "value", "list is " + dump_list(p, ent) + ", model " + m.str());
  }
  return true;
}

static inline void model_swap(Model& a, Model& b) {
  Model t = a;
  a = b;
  b = t;
}

// ------------------------------------------------------------------------------------------------
// the contract, as a pure function on the model.  cont: 0 = LRUSet, 1 = LRUMap.
// a = the instance the operation is applied to, b = the other instance (swap partner).

struct Expect {
  bool throws = false;     // the call must throw (lookup of an absent key, evict/peek on empty)
  bool has_ret = false;    // boolean result expected
  bool ret = false;
  bool has_entry = false;  // (key, size, value) expected back: evict / peek / at / item_size
  MEntry entry{0, 0, 0};
  int idx = -1;            // position of the key before the call (-1 = absent)
};

static Expect model_step(int cont, Model& a, Model& b, const Op& op, int64_t valid) {
  Expect e;
  int idx = keyed(op.kind) ? a.find(op.key) : -1;
  e.idx = idx;
  switch (op.kind) {
    case K_INSERT:
    case K_INSERT_DEF:
    case K_EMPLACE:
    case K_EMPLACE_DEF: {
      bool def = op.kind == K_INSERT_DEF || op.kind == K_EMPLACE_DEF;
      bool is_emplace = op.kind == K_EMPLACE || op.kind == K_EMPLACE_DEF;
      uint64_t sz = def ? (cont == 0 ? 0 : 1) : op.size;  // documented default size: LRUSet 0, LRUMap 1
      if (idx < 0)
        a.push_front({op.key, sz, cont == 1 ? valid : 0});
      else if (cont == 0 || !is_emplace) {
        // LRUSet insert/emplace, LRUMap insert on an existing key: size (and value) replaced, moved to the front
        a.v[idx].size = sz;
        if (cont == 1) a.v[idx].val = valid;
        a.touch(idx);
      }  // LRUMap::emplace on an existing key: nothing changes
      e.has_ret = true;
      e.ret = idx < 0;
      break;
    }
    case K_ERASE:
      if (idx >= 0) a.remove(idx);
      e.has_ret = true;
      e.ret = idx >= 0;
      break;
    case K_TOUCH:
    case K_TOUCH_SZ:
      if (idx >= 0) {
        // touch(k, ssize_t new_size = -1): the header's parameter is signed and "negative = keep the size",
        // so a value >= 2^63 passed here legitimately means "keep" (it is not a size_t entry point)
        if (op.kind == K_TOUCH_SZ && (int64_t)op.size >= 0) a.v[idx].size = op.size;
        a.touch(idx);
      }
      e.has_ret = true;
      e.ret = idx >= 0;
      break;
    case K_CHSZ:
    case K_CHSZ_T:
    case K_CHSZ_NT:
      if (idx >= 0) {
        a.v[idx].size = op.size;
        // LRUSet::change_size never refreshes recency; LRUMap::change_size does unless touch=false
        if (cont == 1 && op.kind != K_CHSZ_NT) a.touch(idx);
      }
      e.has_ret = true;
      e.ret = idx >= 0;
      break;
    case K_AT:
    case K_ITEMSZ:
      if (idx < 0)
        e.throws = true;
      else {
        e.has_entry = true;
        e.entry = a.v[idx];
        if (op.kind == K_AT) a.touch(idx);  // item_size does not refresh recency
      }
      break;
    case K_EVICT:
    case K_PEEK:
      if (a.n == 0)
        e.throws = true;
      else {
        e.has_entry = true;
        e.entry = a.v[a.n - 1];
        if (op.kind == K_EVICT) a.remove(a.n - 1);
      }
      break;
    case K_SWAP:
      model_swap(a, b);
      break;
    case K_CLEAR:
      a.n = 0;
      break;
    default:
      fprintf(stderr, "[harness-error] unknown op kind %d\n", op.kind);
      exit(3);
  }
  return e;
}

static inline bool same_model(const Model& x, const Model& y) {
  if (x.n != y.n) return false;
  for (int i = 0; i < x.n; i++)
    if (x.v[i].key != y.v[i].key || x.v[i].size != y.v[i].size || x.v[i].val != y.v[i].val) return false;
  return true;
}

struct Got {
  bool threw = false;
  string threw_what;
  bool ret = false;
  int key = -1;
  uint64_t size = 0;
  int64_t val = 0;
};

// compares what the real call produced with what the contract says
static bool judge(int cont, const Op& op, const Expect& ex, const Got& g, Fail& f) {
  if (ex.throws) {
    if (!g.threw)
      return f.set("no-throw", keyed(op.kind) ? "lookup of an absent key returned normally" : "returned an entry from an empty container");
    n_throw_expected++;
    return true;
  }
  if (g.threw) return f.set("unexpected-exception", "threw '" + g.threw_what + "'");
  if (ex.has_ret && g.ret != ex.ret) return f.set("ret", fmt("returned %d, key was %s", (int)g.ret, ex.idx < 0 ? "absent (new)" : "already present"));
  if (ex.has_entry) {
    if (op.kind == K_EVICT || op.kind == K_PEEK) {
      if (g.key != ex.entry.key) return f.set("not-lru", fmt("returned key k%d, least recently used is k%d", g.key, ex.entry.key));
      if (g.size != ex.entry.size) return f.set("ret-size", fmt("returned size %" PRIu64 " for k%d, stored size %" PRIu64, g.size, ex.entry.key, ex.entry.size));
      if (cont == 1 && g.val != ex.entry.val)
        return f.set("ret-value", fmt("returned value v%" PRId64 " for k%d, last stored v%" PRId64, g.val, ex.entry.key, ex.entry.val));
    } else if (op.kind == K_AT) {
      if (g.val != ex.entry.val) return f.set("lookup-value", fmt("at() returned value v%" PRId64 ", last stored v%" PRId64, g.val, ex.entry.val));
    } else if (op.kind == K_ITEMSZ) {
      if (g.size != ex.entry.size) return f.set("ret-size", fmt("item_size()=%" PRIu64 ", stored size %" PRIu64, g.size, ex.entry.size));
    }
  }
  return true;
}

// ------------------------------------------------------------------------------------------------
// LRUSet runner

template <class K>
struct SetRunner {
  static const int CONT = 0;
  typedef SetProbe<K> P;
  P a, b;
  Model ma, mb;

  static int kid(const K& k) { return KT<K>::id(k); }

  bool check(Fail& f) {
    auto vid = [](const typename P::Item*) -> int64_t { return 0; };
    if (!observe(a, ma, "", f, kid, vid)) return false;
    return observe(b, mb, "other:", f, kid, vid);
  }

  bool step(const Op& op, int64_t valid, Fail& f) {
    Expect ex = model_step(CONT, ma, mb, op, valid);
    Got g;
    vf::poison_errno();
    try {
      switch (op.kind) {
        case K_INSERT: {
          const K k = KT<K>::make(op.key);
          g.ret = a.insert(k, (size_t)op.size);
          break;
        }
        case K_INSERT_DEF: {
          const K k = KT<K>::make(op.key);
          g.ret = a.insert(k);
          break;
        }
        case K_EMPLACE: g.ret = a.emplace(KT<K>::make(op.key), (size_t)op.size); break;
        case K_EMPLACE_DEF: g.ret = a.emplace(KT<K>::make(op.key)); break;
        case K_ERASE: g.ret = a.erase(KT<K>::make(op.key)); break;
        case K_TOUCH: g.ret = a.touch(KT<K>::make(op.key)); break;
        case K_TOUCH_SZ: g.ret = a.touch(KT<K>::make(op.key), (ssize_t)op.size); break;
        case K_CHSZ: g.ret = a.change_size(KT<K>::make(op.key), (size_t)op.size); break;
        case K_EVICT:
        case K_PEEK: {
          std::pair<K, size_t> e = op.kind == K_EVICT ? a.evict_object() : a.peek();
          g.key = kid(e.first);
          g.size = e.second;
          break;
        }
        case K_SWAP: a.swap(b); break;
        case K_CLEAR: a.clear(); break;
        default:
          fprintf(stderr, "[harness-error] op kind %d not applicable to LRUSet\n", op.kind);
          exit(3);
      }
    } catch (const std::exception& e) {
      g.threw = true;
      if (!ex.throws) g.threw_what = e.what();
    }
    if (!judge(CONT, op, ex, g, f)) return false;
    return check(f);
  }

  // final drain: repeated evict_object must return the model's entries, least recent first
  bool drain(Fail& f, bool check_empty_throw) {
    for (int w = 0; w < 2; w++) {
      P& p = w ? b : a;
      Model& m = w ? mb : ma;
      const char* who = w ? "other:" : "";
      while (m.n) {
        MEntry exp = m.v[m.n - 1];
        m.remove(m.n - 1);
        try {
          std::pair<K, size_t> e = p.evict_object();
          if (kid(e.first) != exp.key || (uint64_t)e.second != exp.size)
            return f.set(string(who) + "drain-order", fmt("evicted k%d:%zu, model expected k%d:%" PRIu64, kid(e.first), e.second, exp.key, exp.size));
        } catch (const std::exception& e) {
          return f.set(string(who) + "drain-throw", fmt("evict_object threw '%s' with %d entries left in the model", e.what(), m.n + 1));
        }
        if (!check(f)) {
          f.aspect = "drain-" + f.aspect;
          return false;
        }
      }
      if (check_empty_throw) {
        bool threw = false;
        try {
          p.evict_object();
        } catch (const std::exception&) {
          threw = true;
        }
        if (!threw) return f.set(string(who) + "drain-no-throw", "evict_object on the drained container returned an entry");
      }
      if (p.count() != 0 || p.size() != 0)
        return f.set(string(who) + "drain-not-empty", fmt("after drain count()=%zu size()=%zu", p.count(), p.size()));
    }
    return true;
  }
};

// ------------------------------------------------------------------------------------------------
// LRUMap runner

template <class K, class V>
struct MapRunner {
  static const int CONT = 1;
  typedef MapProbe<K, V> P;
  P a, b;
  Model ma, mb;

  static int kid(const K& k) { return KT<K>::id(k); }

  bool check(Fail& f) {
    auto vid = [](const typename P::Item* it) -> int64_t { return VT<V>::id(it->value); };
    if (a.empty() != (ma.n == 0)) return f.set("empty", fmt("empty()=%d, model has %d keys", (int)a.empty(), ma.n));
    if (!observe(a, ma, "", f, kid, vid)) return false;
    if (b.empty() != (mb.n == 0)) return f.set("other:empty", fmt("empty()=%d, model has %d keys", (int)b.empty(), mb.n));
    return observe(b, mb, "other:", f, kid, vid);
  }

  bool step(const Op& op, int64_t valid, Fail& f) {
    Expect ex = model_step(CONT, ma, mb, op, valid);
    Got g;
    vf::poison_errno();
    try {
      switch (op.kind) {
        // (the const-reference insert overload does not instantiate; the rvalue one is used)
        case K_INSERT: g.ret = a.insert(KT<K>::make(op.key), VT<V>::make(valid), (size_t)op.size); break;
        case K_INSERT_DEF: g.ret = a.insert(KT<K>::make(op.key), VT<V>::make(valid)); break;
        case K_EMPLACE: g.ret = a.emplace(KT<K>::make(op.key), VT<V>::make(valid), (size_t)op.size); break;
        case K_EMPLACE_DEF: g.ret = a.emplace(KT<K>::make(op.key), VT<V>::make(valid)); break;
        case K_ERASE: g.ret = a.erase(KT<K>::make(op.key)); break;
        case K_TOUCH: g.ret = a.touch(KT<K>::make(op.key)); break;
        case K_TOUCH_SZ: g.ret = a.touch(KT<K>::make(op.key), (ssize_t)op.size); break;
        case K_CHSZ: g.ret = a.change_size(KT<K>::make(op.key), (size_t)op.size); break;
        case K_CHSZ_T: g.ret = a.change_size(KT<K>::make(op.key), (size_t)op.size, true); break;
        case K_CHSZ_NT: g.ret = a.change_size(KT<K>::make(op.key), (size_t)op.size, false); break;
        case K_AT: {
          V& v = a.at(KT<K>::make(op.key));
          g.val = VT<V>::id(v);
          break;
        }
        case K_ITEMSZ: g.size = a.item_size(KT<K>::make(op.key)); break;
        case K_EVICT: {
          auto e = a.evict_object();
          g.key = kid(e.key);
          g.size = e.size;
          g.val = VT<V>::id(e.value);
          break;
        }
        case K_SWAP: a.swap(b); break;
        case K_CLEAR: a.clear(); break;
        default:
          fprintf(stderr, "[harness-error] op kind %d not applicable to LRUMap\n", op.kind);
          exit(3);
      }
    } catch (const std::exception& e) {
      g.threw = true;
      if (!ex.throws) g.threw_what = e.what();
    }
    if (!judge(CONT, op, ex, g, f)) return false;
    return check(f);
  }

  bool drain(Fail& f, bool check_empty_throw) {
    for (int w = 0; w < 2; w++) {
      P& p = w ? b : a;
      Model& m = w ? mb : ma;
      const char* who = w ? "other:" : "";
      while (m.n) {
        MEntry exp = m.v[m.n - 1];
        m.remove(m.n - 1);
        try {
          auto e = p.evict_object();
          if (kid(e.key) != exp.key || (uint64_t)e.size != exp.size || VT<V>::id(e.value) != exp.val)
            return f.set(string(who) + "drain-order", fmt("evicted k%d:%zu:v%" PRId64 ", model expected k%d:%" PRIu64 ":v%" PRId64,
                                                          kid(e.key), e.size, VT<V>::id(e.value), exp.key, exp.size, exp.val));
        } catch (const std::exception& e) {
          return f.set(string(who) + "drain-throw", fmt("evict_object threw '%s' with %d entries left in the model", e.what(), m.n + 1));
        }
        if (!check(f)) {
          f.aspect = "drain-" + f.aspect;
          return false;
        }
      }
      if (check_empty_throw) {
        bool threw = false;
        try {
          p.evict_object();
        } catch (const std::exception&) {
          threw = true;
        }
        if (!threw) return f.set(string(who) + "drain-no-throw", "evict_object on the drained container returned an entry");
      }
      if (p.count() != 0 || p.size() != 0 || !p.empty())
        return f.set(string(who) + "drain-not-empty", fmt("after drain count()=%zu size()=%zu empty()=%d", p.count(), p.size(), (int)p.empty()));
    }
    return true;
  }
};

// ------------------------------------------------------------------------------------------------
// history execution

struct HistResult {
  bool ok = true;
  size_t fail_step = 0;  // index of the failing op; == n for the drain
  uint8_t kind = 0, shape = 0;
  Fail f;
};

// Runs one history from two fresh instances.  count=true also records coverage classes.
template <class R>
static HistResult exec_history(const Op* ops, size_t n, bool count, bool drain_throw, int64_t val_base = 0) {
  HistResult hr;
  R r;
  uint64_t* crumb_step = C->crumb_buf ? (uint64_t*)(C->crumb_buf + 2048) + 6 : nullptr;
  for (size_t i = 0; i < n; i++) {
    uint8_t sh = shape_of(ops[i], r.ma, r.mb);
    if (crumb_step) *crumb_step = i;
    if (count) {
      cls_count[R::CONT][ops[i].kind][sh]++;
      if ((ops[i].size >> 63) && sized(ops[i].kind)) big_count[R::CONT][ops[i].kind]++;
    }
    if (!r.step(ops[i], val_base + (int64_t)i + 1, hr.f)) {
      hr.ok = false;
      hr.fail_step = i;
      hr.kind = ops[i].kind;
      hr.shape = sh;
      return hr;
    }
  }
  if (crumb_step) *crumb_step = n;
  int d = r.ma.n + r.mb.n;
  if (count) drain_count[R::CONT][d == 0 ? 0 : d == 1 ? 1 : 2]++;
  if (!r.drain(hr.f, drain_throw)) {
    hr.ok = false;
    hr.fail_step = n;
  }
  return hr;
}

// Records a failed history; shrinks it first (greedy op removal) so that the witness is minimal.
template <class R>
static void report(const Op* ops, size_t n, HistResult hr, const string& origin, bool drain_throw) {
  std::vector<Op> cur(ops, ops + (hr.fail_step < n ? hr.fail_step + 1 : n));
  HistResult best = hr;
  // only the first failures of a shard are minimized (a defect on a hot path fails millions of histories)
  static uint64_t n_reports = 0;
  bool minimize = ++n_reports <= 60;
  if (!minimize) C->count("failures_not_minimized");
  if (minimize && cur.size() > 1 && cur.size() <= 400) {
    bool progress = true;
    int rounds = 0;
    while (progress && rounds++ < 6) {
      progress = false;
      for (size_t i = cur.size(); i-- > 0 && cur.size() > 1;) {
        std::vector<Op> t(cur);
        t.erase(t.begin() + i);
        HistResult h2 = exec_history<R>(t.data(), t.size(), false, drain_throw);
        if (!h2.ok) {
          t.resize(h2.fail_step < t.size() ? h2.fail_step + 1 : t.size());
          cur = t;
          best = h2;
          progress = true;
          if (i > cur.size()) i = cur.size();
        }
      }
    }
  }
  string key;
  if (best.fail_step < cur.size())
    key = fmt("%s:%s:%s:%s", cont_name[R::CONT], kind_name[best.kind], shape_name[best.shape], best.f.aspect.c_str());
  else
    key = fmt("%s:final-drain:%s", cont_name[R::CONT], best.f.aspect.c_str());
  key = key_prefix + key;  // "ndebug:" = observed in a binary compiled with NDEBUG defined
  {
    auto it = C->viol_counts.find(key);
    if (it != C->viol_counts.end() && it->second >= 5) {  // enough witnesses stored for this class
      it->second++;
      return;
    }
  }
  string where = best.fail_step < cur.size() ? fmt("at op #%zu %s", best.fail_step + 1, op_str(cur[best.fail_step]).c_str())
                                             : string("in the final drain");
  C->violation(key, best.f.what,
      fmt("%s<%s> history (two fresh instances a,b; ops act on a): %s  -- fails %s  [found by %s, %s %zu ops; harness TU compiled %s]",
          cont_name[R::CONT], R::CONT == 0 ? "K" : "K,V", hist_str(cur.data(), cur.size()).c_str(), where.c_str(), origin.c_str(), minimize ? "minimized from" : "prefix of", n,
          cfg_name.c_str()));
}

template <class R>
static inline void run_history(const Op* ops, size_t n, bool drain_throw, const char* part, uint64_t id1, uint64_t id2) {
  n_histories++;
  C->evaluations += n + 1;
  HistResult hr = exec_history<R>(ops, n, true, drain_throw);
  if (!hr.ok) report<R>(ops, n, hr, fmt("%s id=%" PRIu64 "/%" PRIu64 " seed=%" PRIu64 " shard=%u/%u", part, id1, id2, C->seed, C->shard, C->nshards), drain_throw);
}

// ------------------------------------------------------------------------------------------------
// alphabets (3 keys, sizes {0,1,2})

static std::vector<Op> alphabet(int cont, bool reduced) {
  std::vector<Op> a;
  auto ks = [&](uint8_t kind, std::initializer_list<uint64_t> sizes) {
    for (uint8_t k = 0; k < 3; k++)
      for (uint64_t s : sizes) a.push_back({kind, k, s});
  };
  auto k1 = [&](uint8_t kind) {
    for (uint8_t k = 0; k < 3; k++) a.push_back({kind, k, 0});
  };
  if (!reduced) {
    ks(K_INSERT, {0, 1, 2});
    ks(K_EMPLACE, {0, 1, 2});
    k1(K_ERASE);
    k1(K_TOUCH);
    ks(K_TOUCH_SZ, {0, 1, 2});
    ks(K_CHSZ, {0, 1, 2});
    if (cont == 1) {
      ks(K_CHSZ_NT, {0, 1, 2});
      k1(K_AT);
      k1(K_ITEMSZ);
    }
    a.push_back({K_EVICT, 0, 0});
    if (cont == 0) a.push_back({K_PEEK, 0, 0});
    a.push_back({K_SWAP, 0, 0});
    a.push_back({K_CLEAR, 0, 0});
  } else {
    // 15 ops: one representative per list-mutating mechanism (a subset of the full alphabet)
    ks(K_INSERT, {1});
    ks(K_EMPLACE, {2});
    k1(K_ERASE);
    k1(cont == 0 ? K_TOUCH : K_AT);
    a.push_back({K_EVICT, 0, 0});
    a.push_back({K_SWAP, 0, 0});
    a.push_back({K_CLEAR, 0, 0});
  }
  return a;
}

// Boundary magnitudes of size_t.  Sizes are size_t in the API, so total_size arithmetic is modulo 2^64 (the
// model uses uint64_t, i.e. exactly that); every size-taking entry point must store the value it was given.
static const uint64_t BIG_SIZES[] = {1ULL << 31, 1ULL << 32, (1ULL << 63) - 1, 1ULL << 63, (1ULL << 63) + 7, ~0ULL - 1, ~0ULL};

// 2 keys; every size-taking entry point x {0, 1, boundary sizes}; erase, item_size, evict, swap
static std::vector<Op> alphabet_big(int cont) {
  std::vector<Op> a;
  std::vector<uint64_t> sizes = {0, 1};
  for (uint64_t b : BIG_SIZES) sizes.push_back(b);
  std::vector<uint8_t> kinds = {K_INSERT, K_EMPLACE, K_TOUCH_SZ, K_CHSZ};
  if (cont == 1) {
    kinds.push_back(K_CHSZ_T);
    kinds.push_back(K_CHSZ_NT);
  }
  for (uint8_t kind : kinds)
    for (uint8_t k = 0; k < 2; k++)
      for (uint64_t sz : sizes) a.push_back({kind, k, sz});
  for (uint8_t k = 0; k < 2; k++) a.push_back({K_ERASE, k, 0});
  if (cont == 1)
    for (uint8_t k = 0; k < 2; k++) a.push_back({K_ITEMSZ, k, 0});
  a.push_back({K_EVICT, 0, 0});
  if (cont == 0) a.push_back({K_PEEK, 0, 0});
  a.push_back({K_SWAP, 0, 0});
  return a;
}

// All histories of length minlen..maxlen over the alphabet; a history is owned by the shard that
// owns its first-two-ops prefix.
// stutter_free=true: histories in which a NON-final step leaves the abstract state of both
// instances unchanged (by the model) are skipped.  Such a step is executed and audited as the final
// step of a shorter history (where the audit shows that it leaves the whole concrete state --
// head, tail, links, key pointers, sizes, values, total_size -- as the model says), so the skipped
// history only repeats the transitions of the history with that step deleted.
template <class R>
static void exhaustive(const char* part, const std::vector<Op>& alph, int maxlen, int minlen = 1, bool stutter_free = false) {
  const uint64_t A = alph.size();
  Op ops[16];
  for (int len = minlen; len <= maxlen; len++) {
    int pd = len < 2 ? len : 2;
    uint64_t npre = 1, rest = 1;
    for (int i = 0; i < pd; i++) npre *= A;
    for (int i = pd; i < len; i++) rest *= A;
    uint64_t done = 0, skipped = 0;
    for (uint64_t p = 0; p < npre; p++) {
      if (!C->mine(p + (uint64_t)len)) continue;
      for (uint64_t r = 0; r < rest; r++) {
        uint64_t index = p * rest + r, x = index;
        for (int i = len - 1; i >= 0; i--) {
          ops[i] = alph[x % A];
          x /= A;
        }
        if (stutter_free) {
          Model ma, mb;
          int st = -1;
          for (int i = 0; i + 1 < len; i++) {
            Model pa = ma, pb = mb;
            model_step(R::CONT, ma, mb, ops[i], i + 1);
            if (same_model(pa, ma) && same_model(pb, mb)) {
              st = i;
              break;
            }
          }
          if (st >= 0) {
            // skip every history sharing ops[0..st]
            uint64_t bs = 1;
            for (int i = st + 1; i < len; i++) bs *= A;
            uint64_t next = (index / bs + 1) * bs;
            uint64_t end = (p + 1) * rest;
            if (next > end) next = end;
            skipped += next - index;
            r = next - p * rest - 1;
            continue;
          }
        }
        C->crumb_n(part, (uint64_t)len, index, A);
        run_history<R>(ops, (size_t)len, false, part, (uint64_t)len, index);
        done++;
      }
    }
    C->count(fmt("%s_histories_len%d", part, len), done);
    if (stutter_free) C->count(fmt("%s_histories_len%d_skipped_as_stutter", part, len), skipped);
  }
}

// ------------------------------------------------------------------------------------------------
// transition closure: every operation of the full alphabet from EVERY abstract state pair
// (every recency order of every subset of the 3 keys with every size assignment in {0,1,2}, for
// both instances: 226 x 226 = 51076 pairs).  A state is reached by replaying its shortest history
// (breadth-first search over the model) on two fresh instances; every step of the replay is
// audited, then the operation is applied and audited, then both instances are drained.

static uint64_t state_code(const Model& a, const Model& b) {
  auto one = [](const Model& m) {
    uint64_t c = 0;
    for (int i = m.n - 1; i >= 0; i--) c = c * 9 + (uint64_t)m.v[i].key * 3 + m.v[i].size;
    return c * 4 + (uint64_t)m.n;
  };
  return one(a) * 4096 + one(b);
}

template <class R>
static void closure(const char* part, const std::vector<Op>& alph) {
  std::vector<std::vector<Op>> hist;  // per state, in BFS order: a shortest history reaching it
  std::unordered_map<uint64_t, uint32_t> seen;
  hist.push_back({});
  {
    Model e1, e2;
    seen[state_code(e1, e2)] = 0;
  }
  size_t maxdepth = 0;
  for (size_t q = 0; q < hist.size(); q++) {
    Model qa, qb;
    for (const Op& o : hist[q]) model_step(R::CONT, qa, qb, o, 0);
    for (const Op& o : alph) {
      Model a = qa, b = qb;
      model_step(R::CONT, a, b, o, 0);
      uint64_t code = state_code(a, b);
      if (seen.emplace(code, (uint32_t)hist.size()).second) {
        std::vector<Op> h = hist[q];
        h.push_back(o);
        if (h.size() > maxdepth) maxdepth = h.size();
        hist.push_back(std::move(h));
      }
    }
  }
  if (hist.size() != 226 * 226) {
    fprintf(stderr, "[harness-error] closure: %zu abstract state pairs reached, expected %d\n", hist.size(), 226 * 226);
    exit(3);
  }
  if (C->shard == 0) {
    C->count(fmt("%s_state_pairs", part), hist.size());
    C->count(fmt("%s_max_setup_depth", part), maxdepth);
  }
  uint64_t done = 0;
  std::vector<Op> h;
  for (size_t q = 0; q < hist.size(); q++) {
    if (!C->mine(q)) continue;
    for (size_t oi = 0; oi < alph.size(); oi++) {
      h = hist[q];
      h.push_back(alph[oi]);
      C->crumb_n(part, q, oi, h.size());
      run_history<R>(h.data(), h.size(), false, part, q, oi);
      done++;
    }
  }
  C->count(fmt("%s_transitions", part), done);
}

// ------------------------------------------------------------------------------------------------
// random histories

static const uint8_t set_kinds[] = {K_INSERT, K_EMPLACE, K_ERASE, K_TOUCH, K_TOUCH_SZ, K_CHSZ, K_EVICT, K_PEEK, K_SWAP, K_CLEAR,
    K_INSERT_DEF, K_EMPLACE_DEF};
static const uint8_t map_kinds[] = {K_INSERT, K_EMPLACE, K_ERASE, K_TOUCH, K_TOUCH_SZ, K_CHSZ, K_CHSZ_NT, K_CHSZ_T, K_AT, K_ITEMSZ,
    K_EVICT, K_SWAP, K_CLEAR, K_INSERT_DEF, K_EMPLACE_DEF};

static std::vector<Op> gen_history(vf::Rng& r, int cont) {
  const uint8_t* kinds = cont == 0 ? set_kinds : map_kinds;
  size_t nkinds = cont == 0 ? sizeof(set_kinds) : sizeof(map_kinds);
  int nk = 1 + (int)r.below(8);
  size_t len = r.chance(1, 4) ? 1 + r.below(30) : 1 + r.below(400);
  // per-history weights so that different regimes (growing, churning, draining) are reached
  unsigned w[K_NKINDS];
  int profile = (int)r.below(5);
  for (size_t i = 0; i < K_NKINDS; i++) w[i] = 0;
  for (size_t i = 0; i < nkinds; i++) {
    uint8_t k = kinds[i];
    unsigned base = 10;
    if (k == K_CLEAR) base = 1;
    if (k == K_SWAP) base = 3;
    if (k == K_INSERT_DEF || k == K_EMPLACE_DEF || k == K_CHSZ_T) base = 3;
    if (profile == 1 && (k == K_INSERT || k == K_EMPLACE)) base = 40;          // growing
    if (profile == 2 && (k == K_ERASE || k == K_EVICT)) base = 30;             // draining
    if (profile == 3 && (k == K_TOUCH || k == K_AT || k == K_CHSZ)) base = 40; // reordering
    if (profile == 4) base = 1 + (unsigned)r.below(30);
    w[k] = base;
  }
  unsigned tot = 0;
  for (size_t i = 0; i < K_NKINDS; i++) tot += w[i];
  std::vector<Op> h;
  h.reserve(len);
  for (size_t i = 0; i < len; i++) {
    unsigned x = (unsigned)r.below(tot);
    uint8_t kind = 0;
    for (size_t k = 0; k < K_NKINDS; k++) {
      if (x < w[k]) {
        kind = (uint8_t)k;
        break;
      }
      x -= w[k];
    }
    Op o{kind, 0, 0};
    if (keyed(kind)) o.key = (uint8_t)r.below(nk);
    if (sized(kind)) {
      switch (r.below(8)) {
        case 0: o.size = 0; break;
        case 1: o.size = 1; break;
        case 2: o.size = 2; break;
        case 3: o.size = r.below(1000); break;
        case 4: o.size = 1ULL << r.below(64); break;
        case 5: o.size = r.below(100000); break;
        default: o.size = BIG_SIZES[r.below(sizeof(BIG_SIZES) / sizeof(BIG_SIZES[0]))]; break;
      }
    }
    h.push_back(o);
  }
  return h;
}

template <class R>
static void random_part(const char* part, int cfg, uint64_t nhist) {
  for (uint64_t h = 0; h < nhist; h++) {
    vf::Rng hr = C->rng(1 + (uint64_t)cfg * 10000019ULL + h);
    std::vector<Op> ops = gen_history(hr, R::CONT);
    C->crumb_n(part, (uint64_t)cfg, h, ops.size());
    run_history<R>(ops.data(), ops.size(), true, part, (uint64_t)cfg, h);
    if (h == 0 && C->shard == 0)
      C->sample(fmt("%s: %s", part, hist_str(ops.data(), ops.size() < 14 ? ops.size() : 14).c_str()) + (ops.size() > 14 ? fmt(" ... (%zu ops)", ops.size()) : string()));
  }
}

// scripted cases: the two unit-test scripts' shapes with defaulted arguments, run through the same monitors
template <class R>
static void fixed_part(const char* part) {
  std::vector<std::vector<Op>> hs;
  if (R::CONT == 0) {
    hs.push_back({{K_INSERT_DEF, 0, 0}, {K_EMPLACE_DEF, 1, 0}, {K_INSERT, 2, 5}, {K_INSERT_DEF, 2, 0}, {K_EMPLACE_DEF, 0, 0}, {K_PEEK, 0, 0}, {K_EVICT, 0, 0}});
    hs.push_back({{K_INSERT, 0, 40}, {K_EMPLACE, 1, 80}, {K_EMPLACE, 2, 80}, {K_CHSZ, 0, 80}, {K_EMPLACE, 1, 100}, {K_CHSZ, 3, 300}, {K_TOUCH_SZ, 3, 300},
        {K_TOUCH_SZ, 0, 100}, {K_SWAP, 0, 0}, {K_SWAP, 0, 0}, {K_PEEK, 0, 0}, {K_EVICT, 0, 0}, {K_PEEK, 0, 0}, {K_EVICT, 0, 0}, {K_EVICT, 0, 0}, {K_EVICT, 0, 0}});
  } else {
    hs.push_back({{K_INSERT_DEF, 0, 0}, {K_EMPLACE_DEF, 1, 0}, {K_INSERT, 2, 5}, {K_INSERT_DEF, 2, 0}, {K_EMPLACE_DEF, 0, 0}, {K_CHSZ_T, 1, 9}, {K_EVICT, 0, 0}});
    hs.push_back({{K_AT, 0, 0}, {K_INSERT, 0, 30}, {K_AT, 0, 0}, {K_INSERT, 0, 40}, {K_AT, 0, 0}, {K_EMPLACE, 1, 80}, {K_AT, 0, 0}, {K_AT, 1, 0}, {K_EMPLACE, 2, 80},
        {K_AT, 0, 0}, {K_AT, 1, 0}, {K_AT, 2, 0}, {K_CHSZ, 0, 80}, {K_CHSZ_NT, 2, 80}, {K_EMPLACE, 1, 100}, {K_CHSZ, 3, 300}, {K_TOUCH_SZ, 3, 300},
        {K_TOUCH_SZ, 0, 100}, {K_SWAP, 0, 0}, {K_SWAP, 0, 0}, {K_EVICT, 0, 0}, {K_EVICT, 0, 0}, {K_EVICT, 0, 0}, {K_EVICT, 0, 0}});
  }
  for (size_t i = 0; i < hs.size(); i++) {
    if (!C->mine(i)) continue;
    C->crumb_n(part, i);
    run_history<R>(hs[i].data(), hs[i].size(), true, part, i, 0);
  }
}

// ------------------------------------------------------------------------------------------------

int main(int argc, char** argv) {
  vf::Ctx& c = vf::init(argc, argv);
  C = &c;
  detect_build_config();
  // only=<part>[,<part>...]
  string only = c.arg("only");
  auto want = [&](const char* s) {
    if (only.empty()) return true;
    size_t n = strlen(s);
    for (size_t p = 0; p <= only.size();) {
      size_t e = only.find(',', p);
      if (e == string::npos) e = only.size();
      if (e - p == n && only.compare(p, n, s) == 0) return true;
      p = e + 1;
    }
    return false;
  };

  typedef SetRunner<int> SetI;
  typedef MapRunner<int, int64_t> MapI;
  typedef SetRunner<string> SetS;
  typedef MapRunner<string, string> MapS;
  typedef MapRunner<string, std::unique_ptr<string>> MapU;

  int full_len = (int)strtol(c.arg("full_len", c.quick() ? "4" : "5").c_str(), nullptr, 10);
  int red_len = (int)strtol(c.arg("red_len", "7").c_str(), nullptr, 10);
  int map_len = (int)strtol(c.arg("map_len", "4").c_str(), nullptr, 10);
  int big_len = (int)strtol(c.arg("big_len", "3").c_str(), nullptr, 10);
  uint64_t random_div = strtoull(c.arg("random_div", "1").c_str(), nullptr, 10);
  if (full_len < 1 || map_len < 1 || big_len < 1 || random_div < 1) {
    fprintf(stderr, "[harness-error] bad full_len/map_len/big_len/random_div\n");
    exit(3);
  }

  if (want("fixed")) {
    fixed_part<SetS>("fixed-set");
    fixed_part<MapS>("fixed-map");
    fixed_part<MapU>("fixed-mapu");
  }
  if (want("exset")) {
    // LRUSet: every history of length 1..4 (quick) / 1..5 (thorough) over the full alphabet
    auto al = alphabet(0, false);
    c.count("alphabet_set_full", c.shard == 0 ? al.size() : 0);
    exhaustive<SetI>("exset", al, full_len);
  }
  if (want("exmap")) {
    // LRUMap: every history of length 1..4 over the full alphabet (both tiers)
    auto al = alphabet(1, false);
    c.count("alphabet_map_full", c.shard == 0 ? al.size() : 0);
    exhaustive<MapI>("exmap", al, map_len);
  }
  if (want("exmap5") && (c.thorough() || only == "exmap5")) {
    // LRUMap, length 5 over the full alphabet, stutter-free histories only (60^5 is out of budget)
    auto al = alphabet(1, false);
    exhaustive<MapI>("exmap5", al, 5, 5, true);
  }
  if (want("redset") && (c.thorough() || only == "redset")) {
    auto al = alphabet(0, true);
    c.count("alphabet_set_reduced", c.shard == 0 ? al.size() : 0);
    exhaustive<SetI>("redset", al, red_len, 6);
  }
  if (want("redmap") && (c.thorough() || only == "redmap")) {
    auto al = alphabet(1, true);
    c.count("alphabet_map_reduced", c.shard == 0 ? al.size() : 0);
    exhaustive<MapI>("redmap", al, red_len, 5);
  }
  if (want("bigsz")) {
    // every history of length 1..3 over the boundary-size alphabets (2 keys)
    auto as = alphabet_big(0), am = alphabet_big(1);
    c.count("alphabet_set_bigsize", c.shard == 0 ? as.size() : 0);
    c.count("alphabet_map_bigsize", c.shard == 0 ? am.size() : 0);
    exhaustive<SetI>("bigset", as, big_len);
    exhaustive<MapI>("bigmap", am, big_len);
  }
  if (want("closet")) closure<SetI>("closure-set", alphabet(0, false));
  if (want("closmap")) closure<MapI>("closure-map", alphabet(1, false));
  if (want("random")) {
    uint64_t nh = c.qt<uint64_t>(24000, 480000) / random_div / c.nshards + 1;
    random_part<SetS>("random-set-string", 0, nh);
    random_part<MapS>("random-map-string-string", 1, nh);
    random_part<MapU>("random-map-string-uniqueptr", 2, nh);
    random_part<SetI>("random-set-int", 3, nh / 4 + 1);
    random_part<MapI>("random-map-int-int", 4, nh / 4 + 1);
  }

  for (int ct = 0; ct < 2; ct++) {
    for (int k = 0; k < K_NKINDS; k++)
      for (int s = 0; s < S_NSHAPES; s++)
        if (cls_count[ct][k][s]) c.cls(fmt("%s:%s:%s", cont_name[ct], kind_name[k], shape_name[s]), cls_count[ct][k][s]);
    for (int k = 0; k < K_NKINDS; k++)
      if (big_count[ct][k]) c.cls(fmt("%s:%s:size>=2^63", cont_name[ct], kind_name[k]), big_count[ct][k]);
    static const char* const dn[3] = {"empty", "one", "many"};
    for (int d = 0; d < 3; d++)
      if (drain_count[ct][d]) c.cls(fmt("%s:final-drain:%s", cont_name[ct], dn[d]), drain_count[ct][d]);
  }
  // what this build configuration executed: histories, and every operation kind per container
  c.cls("build:" + cfg_name, n_histories);
  for (int ct = 0; ct < 2; ct++) {
    for (int k = 0; k < K_NKINDS; k++) {
      uint64_t t = 0;
      for (int s = 0; s < S_NSHAPES; s++) t += cls_count[ct][k][s];
      if (t) c.cls(fmt("build:%s:%s:%s", cfg_name.c_str(), cont_name[ct], kind_name[k]), t);
    }
    uint64_t d = drain_count[ct][0] + drain_count[ct][1] + drain_count[ct][2];
    if (d) c.cls(fmt("build:%s:%s:final-drain", cfg_name.c_str(), cont_name[ct]), d);
  }
  c.count("histories", n_histories);
  c.count("histories_" + cfg_name, n_histories);
  c.count("expected_throws_observed", n_throw_expected);
  if (c.shard == 0) {
    c.sample(fmt("build configuration of this stage's binary: %s (NDEBUG %s, assert() argument %s evaluated)", cfg_name.c_str(),
        cfg_ndebug ? "defined" : "not defined", cfg_ndebug ? "not" : "is"));
    c.sample("exhaustive: every history of length 1..L over {insert,emplace,touch_sz,change_size}(k0..k2,size 0..2), erase/touch(k), evict, peek, swap(a,b), clear from two fresh instances; audit after every op, drain at the end");
    c.sample("e.g. lruset: insert(k0,1) emplace(k1,2) touch(k0) erase(k1) swap evict  -> drain");
  }
  return c.finish();
}
