// C05 — JSON parser total, standard-conformant, strict = no extensions.
//
// Executes the case file written by vf/oracles/c05.py (c05.cases.<shard>.tsv in the work directory)
// against the real parser: every document x {default, strict} x the three entry points, on an
// exact-size heap copy (ASan red zones).  Totality and entry-point consistency are judged here
// (typeid of the escaping exception, reader position); values are dumped in a neutral tagged form
// to c05.obs.<shard>.tsv for the Python oracle (CPython json.loads).
//
// case lines (tab separated, documents in hex):
//   B <bid> <doc>                       register a base document (not executed)
//   S <id> <doc>                        standard document, logged
//   E <id> <kind> <doc>                 extension document, logged
//   X <id> <D> <S>                      document D followed by suffix S, logged
//   T <id> <doc> <V|T>                  arbitrary bytes; logged when flagged V
//   M <id> <bid> <pos> <op> <byte> <V|T>  single-edit mutant of base bid: op d=delete u=duplicate r=replace
//   P <id> <bid> <len> <V|T>            prefix of base bid
//   A <bid> <stride> <offset>           ALL single-edit mutants at positions offset, offset+stride, ... and
//                                       every prefix (stride 1) or prefixes at those lengths: totality only
// Reader-construction matrix (c05_readers.hh): S, X, E, every 8th T document and the prefixes of every 2nd base
// document are additionally presented to parse(StringReader&) through sub/subx/truncate/copied/nested/owning/
// positioned/guard-paged readers inside a larger buffer whose hidden bytes are JSON continuations; outcome and
// consumed extent must equal the plain construction's.
// observation lines:  <id> <mode 0|1> <st0,st1,st2> <reader where> <what of string entry> <tagged value or ->
#include <map>

#include "c05_common.hh"
#include "c05_readers.hh"
#include "common.hh"

using namespace std;
using namespace phosg;
using vf::fmt;

static vf::Ctx* C;
static FILE* obs = nullptr;

static string unhex(const string& h) {
  string r;
  r.reserve(h.size() / 2);
  auto v = [](char c) -> int { return c <= '9' ? c - '0' : (c | 0x20) - 'a' + 10; };
  for (size_t i = 0; i + 1 < h.size(); i += 2) r.push_back((char)((v(h[i]) << 4) | v(h[i + 1])));
  return r;
}

static const char kAlphabet[] = "{}[]\",:\\/0123456789eE.+-xntf";  // + 0x00 0x80 0xFF
static vector<unsigned char> alphabet() {
  vector<unsigned char> a;
  for (const char* p = kAlphabet; *p; p++) a.push_back((unsigned char)*p);
  a.push_back(0x00);
  a.push_back(0x80);
  a.push_back(0xFF);
  return a;
}

static string clean(const string& s) {
  string r = s.substr(0, 200);
  for (auto& c : r)
    if ((unsigned char)c < 0x20 || (unsigned char)c >= 0x7F) c = '?';  // what() may quote raw input bytes
  return r;
}

// Reader-construction matrix (c05_readers.hh): rc 0 = none, 1 = one construction per family (rotating), 2 = all.
static c05::MatrixStats rc_stats;
static vf::Rng rc_rng;
static uint64_t rc_round = 0;
static bool rc_enabled = true;  // --arg rc=0 switches the matrix off (cost measurements only; the spec never does)

static void run_matrix(const string& id, const char* kind, const string& L, const c05::Six& s, int rc, const string* natural) {
  c05::Out ref[2] = {s.o[0][0], s.o[1][0]};
  vector<int> which = rc >= 2 ? c05::cons_all() : c05::cons_subset(rc_round++);
  uint64_t before = rc_stats.constructions;
  c05::reader_matrix(
      fmt("%s kind=%s", id.c_str(), kind), L, ref, natural, which, rc_rng, rc_stats,
      [&](const string& key, const string& what, const string& kase) { C->violation(key, what, kase); },
      [&](const char* family, int strict, const char* outcome) { C->cls(fmt("rc:%s:%s:%s", family, strict ? "strict" : "default", outcome)); },
      [&](const string& text) { C->crumb_s(text); });
  C->evaluations += rc_stats.constructions - before;
  C->cls(fmt("rc-doc:%s:%s", kind, natural && !natural->empty() ? "hidden-rest-of-document" : "hidden-continuation"));
}

static void run_case(const string& id, const char* kind, const string& doc, bool log, int rc = 0, const string* natural = nullptr) {
  if (!log && c05::costly_exponent(doc.data(), doc.size())) {
    C->count("skipped_exponent_over_4_digits");
    return;
  }
  C->evaluations++;
  C->crumb_s(fmt("case %s kind=%s len=%zu doc(hex)=", id.c_str(), kind, doc.size()) + vf::hex(doc.substr(0, 1900)));
  c05::Six s;
  c05::run_all(doc, s, [&](const string& key, const string& what) {
    C->violation(key, what, fmt("case %s kind=%s doc(hex)=", id.c_str(), kind) + vf::hex(doc.substr(0, 600)) + " doc=\"" + clean(doc) + "\"");
  });
  for (int m = 0; m < 2; m++) {
    C->cls(fmt("case:%s:%s:%s", kind, m ? "strict" : "default", c05::outcome_class(s.o[m][2])));
    C->cls(fmt("reader:%s:%s", m ? "strict" : "default", c05::outcome_class(s.o[m][0])));
    if (log && obs) {
      fprintf(obs, "%s\t%d\t%s,%s,%s\t%zu\t%s\t%s\n", id.c_str(), m,
          s.o[m][0].ok ? "ok" : s.o[m][0].exc.c_str(), s.o[m][1].ok ? "ok" : s.o[m][1].exc.c_str(), s.o[m][2].ok ? "ok" : s.o[m][2].exc.c_str(),
          s.o[m][0].where, s.o[m][2].ok ? (s.o[m][0].ok ? "" : clean(s.o[m][0].what).c_str()) : clean(s.o[m][2].what).c_str(),
          s.o[m][2].ok ? s.o[m][2].tag.c_str() : (s.o[m][0].ok ? ("R" + s.o[m][0].tag).c_str() : "-"));
    }
  }
  if (rc && rc_enabled) run_matrix(id, kind, doc, s, rc, natural);
}

static string mutate(const string& base, size_t pos, char op, unsigned char byte) {
  string d = base;
  if (pos >= d.size()) return d;
  if (op == 'd') d.erase(pos, 1);
  else if (op == 'u') d.insert(pos, 1, d[pos]);
  else d[pos] = (char)byte;
  return d;
}

int main(int argc, char** argv) {
  vf::Ctx& c = vf::init(argc, argv);
  C = &c;
  string cases = c.arg("cases", fmt("c05.cases.%u.tsv", c.shard));
  FILE* f = fopen(cases.c_str(), "r");
  if (!f) {
    fprintf(stderr, "[harness-error] cannot open case file %s\n", cases.c_str());
    return 3;
  }
  string of = c.arg("obs", fmt("c05.obs.%u.tsv", c.shard));
  obs = fopen(of.c_str(), "w");
  if (!obs) {
    fprintf(stderr, "[harness-error] cannot create %s\n", of.c_str());
    return 3;
  }
  map<string, string> bases;
  vector<unsigned char> alpha = alphabet();
  rc_rng = c.rng(5);
  rc_enabled = c.arg("rc", "1") != "0";
  // reader-construction matrix sampling (counts, not seconds): every S and X document gets all constructions;
  // extension documents one construction per family (every 4th: all); every 8th soup document and every
  // truncation point of every 2nd base document one construction per family, the hidden bytes behind the
  // logical end being the rest of the document
  uint64_t n_ext = 0, n_soup = 0, n_base = 0;
  const uint64_t base_phase = c.seed % 2;
  char* line = nullptr;
  size_t cap = 0;
  ssize_t n;
  uint64_t lines = 0;
  while ((n = getline(&line, &cap, f)) > 0) {
    while (n > 0 && (line[n - 1] == '\n' || line[n - 1] == '\r')) line[--n] = 0;
    vector<string> p;
    {
      const char* s = line;
      for (;;) {
        const char* t = strchr(s, '\t');
        if (!t) {
          p.emplace_back(s);
          break;
        }
        p.emplace_back(s, t - s);
        s = t + 1;
      }
    }
    lines++;
    if (p.empty() || p[0].empty()) continue;
    char k = p[0][0];
    auto need = [&](size_t m) {
      if (p.size() < m) {
        fprintf(stderr, "[harness-error] malformed case line %" PRIu64 " in %s\n", lines, cases.c_str());
        exit(3);
      }
    };
    auto base = [&](const string& bid) -> const string& {
      auto it = bases.find(bid);
      if (it == bases.end()) {
        fprintf(stderr, "[harness-error] unknown base %s at line %" PRIu64 "\n", bid.c_str(), lines);
        exit(3);
      }
      return it->second;
    };
    switch (k) {
      case 'B':
        need(3);
        bases[p[1]] = unhex(p[2]);
        break;
      case 'S':
        need(3);
        run_case(p[1], "S", unhex(p[2]), true, 2);
        break;
      case 'E':
        need(4);
        run_case(p[1], ("E-" + p[2]).c_str(), unhex(p[3]), true, (n_ext++ % 4 == 0) ? 2 : 1);
        break;
      case 'X':
        need(4);
        run_case(p[1], "X", unhex(p[2]) + unhex(p[3]), true, 2);
        {
          string d = unhex(p[2]), suffix = unhex(p[3]);  // D alone, the suffix hidden behind the logical end
          run_case(p[1] + "~D", "Xd", d, false, 2, &suffix);
        }
        break;
      case 'T':
        need(4);
        run_case(p[1], "T", unhex(p[2]), p[3] == "V", (n_soup++ % 8 == 0) ? 1 : 0);
        break;
      case 'M': {
        need(7);
        const string& b = base(p[2]);
        run_case(p[1], "M", mutate(b, strtoull(p[3].c_str(), nullptr, 10), p[4][0], (unsigned char)strtoul(p[5].c_str(), nullptr, 10)), p[6] == "V");
        break;
      }
      case 'P': {
        need(5);
        const string& b = base(p[2]);
        run_case(p[1], "P", b.substr(0, strtoull(p[3].c_str(), nullptr, 10)), p[4] == "V");
        break;
      }
      case 'A': {
        need(4);
        const string& b = base(p[1]);
        size_t stride = strtoull(p[2].c_str(), nullptr, 10), off = strtoull(p[3].c_str(), nullptr, 10);
        if (!stride) stride = 1;
        bool rc_base = (n_base++ % 2) == base_phase;
        for (size_t pos = off; pos < b.size(); pos += stride) {
          string tag = fmt("%s@%zu", p[1].c_str(), pos);
          run_case(tag + "d", "Md", mutate(b, pos, 'd', 0), false);
          run_case(tag + "u", "Mu", mutate(b, pos, 'u', 0), false);
          for (unsigned char a : alpha)
            if ((unsigned char)b[pos] != a) run_case(tag + fmt("r%u", a), "Mr", mutate(b, pos, 'r', a), false);
          if (rc_base) {
            string rest = b.substr(pos);
            run_case(tag + "p", "P", b.substr(0, pos), false, 1, &rest);
          } else {
            run_case(tag + "p", "P", b.substr(0, pos), false);
          }
        }
        if (rc_base) c.count("rc_bases_truncated_at_every_sampled_position");
        c.count("bases_fully_mutated");
        break;
      }
      default:
        fprintf(stderr, "[harness-error] unknown case kind %c\n", k);
        return 3;
    }
  }
  free(line);
  fclose(f);
  fclose(obs);
  c.count("rc_constructions", rc_stats.constructions);
  c.count("rc_parses", rc_stats.parses);
  c.count("rc_skipped_too_long_for_guard_region", rc_stats.skipped_too_long_for_guard);
  c.count("rc_reader_size_unexpected", rc_stats.size_unexpected);
  c.count("rc_construction_threw", rc_stats.construction_threw);
  c.sample("reader matrix: the logical bytes L inside B = PF + L + HID (hidden parts valid memory holding JSON continuations) through sub/subx/truncate/copies/nested windows/owning readers/positioned readers/guard pages must give the outcome and consumed extent of a reader over exactly L");
  c.sample("every case: JSON::parse x {default,strict} x {StringReader&, (const char*,size_t), const std::string&} on an exact-size heap copy");
  return c.finish();
}
