// C14 part G: FAULT SEQUENCES. Read plans may now contain failing calls (-1/EINTR, -1/EIO: nothing is transferred), at the
// descriptor level (interposed read/pread) and at the stdio level (fopencookie callback), plus a real SIGALRM timer without
// SA_RESTART while the reader blocks on a staggered pipe. Allowed outcomes of every read-side helper: an exception, or
// exactly the bytes of the source (a helper that retries EINTR and returns everything is correct too) - never a silently
// shorter result. Write side: save_file (and writex/pwritex) under interposed write plans {short write, ENOSPC, EIO, EINTR},
// /dev/full, and a real RLIMIT_FSIZE in a forked child: if the helper returns normally the file holds the data, else it threw.
#pragma once

#include <sys/resource.h>
#include <sys/time.h>
#include <sys/wait.h>

#include "c14_threads.hh"

static const uint32_t FV[6] = {1, 2, 3, 0, io::P_EINTR, io::P_EIO};

static void decode6(uint64_t x, int K, io::Plan& p) {
  p.resize(K);
  for (int k = 0; k < K; k++, x /= 6) p[k] = FV[x % 6];
}

static void part_readfaults(vf::Rng& r) {
  uint64_t idx = 0;
  // (a) read_all(fd): every plan over {1,2,3,F,EINTR,EIO}^K x lengths 0..12
  {
    const int K = C->qt(6, 7), KP = C->qt(4, 5);
    for (size_t L = 0; L <= 12; L++) {
      string payload = det_payload(L, 90 + (unsigned)L);
      FdSource fs(0, payload_file(payload), payload);
      uint64_t total = 1;
      for (int k = 0; k < K; k++) total *= 6;
      io::Plan p;
      for (uint64_t pi = 0; pi < total; pi++, idx++) {
        if (!C->mine(idx)) continue;
        decode6(pi, K, p);
        if (!io::has_fault(p)) continue;  // fault-free plans are part `fdplans`
        fs.rewind();
        C->crumb_n("read_all_fd/file/faultplan", L, pi);
        Outcome o;
        {
          io::PlanScope ps(fs.fd, p);
          o = run([&] { return phosg::read_all(fs.fd); });
        }
        judge("read_all_fd", "file+faults", L == 0 ? "len0" : "len1-12", payload, o, [&] { return read_case("read_all(fd)", fs, L, p, false) + fmt(", %zu injected failure(s)", io::rm().faults); });
      }
      total = 1;
      for (int k = 0; k < KP; k++) total *= 6;
      for (uint64_t pi = 0; pi < total; pi++, idx++) {
        if (!C->mine(idx)) continue;
        decode6(pi, KP, p);
        if (!io::has_fault(p)) continue;
        FdSource ps1(1, "", payload);
        if (ps1.fd < 0) continue;
        C->crumb_n("read_all_fd/pipe/faultplan", L, pi);
        Outcome o;
        {
          io::PlanScope ps(ps1.fd, p);
          o = run([&] { return phosg::read_all(ps1.fd); });
        }
        judge("read_all_fd", "pipe+faults", L == 0 ? "len0" : "len1-12", payload, o, [&] { return read_case("read_all(fd)", ps1, L, p, false) + fmt(", %zu injected failure(s)", io::rm().faults); });
      }
    }
    // a failing read after i full blocks, sizes around the 16 KiB block and up to 200 KiB
    for (size_t L : {(size_t)16384, (size_t)16385, (size_t)32768, (size_t)49154, (size_t)100000, (size_t)204800})
      for (int i = 0; i <= 5; i++)
        for (uint32_t fv : {io::P_EINTR, io::P_EIO})
          for (uint32_t chunk : {0u, 16384u, 5000u}) {
            if (!C->mine(idx++)) continue;
            string payload = det_payload(L, 17);
            FdSource fs(0, payload_file(payload), payload);
            io::Plan p(i, chunk);
            p.push_back(fv);
            C->crumb_n("read_all_fd/file/fault-after-blocks", L, i, fv);
            Outcome o;
            {
              io::PlanScope ps(fs.fd, p);
              o = run([&] { return phosg::read_all(fs.fd); });
            }
            judge("read_all_fd", "file+faults", fmt("fault-after-%s-blocks", i == 0 ? "0" : "n"), payload, o, [&] { return read_case("read_all(fd)", fs, L, p, false); });
          }
  }
  // (b) single-shot / exact-size helpers and load_file with a failing first call
  for (size_t L : {(size_t)0, (size_t)1, (size_t)12, (size_t)5000})
    for (uint32_t fv : {io::P_EINTR, io::P_EIO})
      for (int second = 0; second < 2; second++)
        for (int kind = 0; kind < 2; kind++) {
          if (!C->mine(idx++)) continue;
          string payload = det_payload(L, 33);
          io::Plan p = {fv};
          if (second) p.push_back(fv);
          const char* kn = kind ? "pipe+faults" : "file+faults";
          size_t size = L ? L : 1;
          auto src = [&]() { return new FdSource(kind, kind ? string() : payload_file(payload), payload); };
          {
            std::unique_ptr<FdSource> s(src());
            if (s->fd < 0) continue;
            C->crumb_n("readx(fd,size)/fault", L, fv, kind);
            io::PlanScope ps(s->fd, p, false, true);
            Outcome o = run([&] { return phosg::readx(s->fd, size); });
            C->evaluations++;
            if (!o.threw && (io::rm().delivered.size() != size || o.got != io::rm().delivered))
              C->violation(fmt("readx_fd:returned-after-failed-read:%s", kn), "readx(fd,size) returned although the read failed / delivered fewer bytes", fmt("size=%zu ", size) + read_case("readx(fd,size)", *s, L, p, false));
            else C->cls(fmt("readx_fd:%s:%s", kn, o.threw ? "throw" : "ok(retried)"));
          }
          {
            std::unique_ptr<FdSource> s(src());
            if (s->fd < 0) continue;
            C->crumb_n("read(fd,size)/fault", L, fv, kind);
            io::PlanScope ps(s->fd, p, false, true);
            Outcome o = run([&] { return phosg::read(s->fd, size); });
            C->evaluations++;
            if (!o.threw && o.got != io::rm().delivered)
              C->violation(fmt("read_fd:wrong-bytes:%s", kn), "read(fd,size) returned bytes that were not delivered", read_case("read(fd,size)", *s, L, p, false));
            else if (!o.threw && o.got.empty() && L > 0)
              C->violation(fmt("read_fd:error-reported-as-end-of-file:%s", kn), "read(fd,size) returned \"\" (the end-of-file answer) although its read() failed and data remains", read_case("read(fd,size)", *s, L, p, false));
            else C->cls(fmt("read_fd:%s:%s", kn, o.threw ? "throw" : "ok(retried)"));
          }
          if (kind == 0) {
            std::unique_ptr<FdSource> s(src());
            C->crumb_n("preadx(fd,size,0)/fault", L, fv);
            io::PlanScope ps(s->fd, p, false, true);
            Outcome o = run([&] { return phosg::preadx(s->fd, size, 0); });
            C->evaluations++;
            if (!o.threw && (io::rm().delivered.size() != size || o.got != io::rm().delivered))
              C->violation("preadx_fd:returned-after-failed-read:file+faults", "preadx returned although the pread failed / delivered fewer bytes", read_case("preadx(fd,size,0)", *s, L, p, false));
            else C->cls(fmt("preadx_fd:file+faults:%s", o.threw ? "throw" : "ok(retried)"));
            string path = payload_file(payload);
            C->crumb_n("load_file/fault", L, fv);
            Outcome o2;
            {
              io::PlanScope ps2(-1, p);
              o2 = run([&] { return phosg::load_file(path); });
            }
            if (L == 0 && !o2.threw) C->evaluations++, C->cls("load_file:faults:empty-file");
            else judge("load_file", "faults", "first-read-fails", payload, o2, [&] { return fmt("load_file of a %zu-byte file, read plan %s", L, io::plan_str(p).c_str()); });
          }
        }
  // (c) stdio level: fopencookie callback failing at any position
  {
    const int K = C->qt(5, 6);
    for (size_t L = 0; L <= 12; L++) {
      string payload = det_payload(L, 50 + (unsigned)L);
      uint64_t total = 1;
      for (int k = 0; k < K; k++) total *= 6;
      io::Plan p;
      for (uint64_t pi = 0; pi < total; pi++, idx++) {
        if (!C->mine(idx)) continue;
        decode6(pi, K, p);
        if (!io::has_fault(p)) continue;
        int bm = (int)((pi + L) % io::BUF_MODES);
        io::Cookie ck;
        FILE* f = io::open_cookie(&ck, payload, p, false, bm);
        C->crumb_n("read_all_file/cookie/faultplan", L, pi);
        Outcome o = run([&] { return phosg::read_all(f); });
        judge("read_all_file", "cookie+faults", L == 0 ? "len0" : "len1-12", payload, o, [&] { return cookie_case("read_all(FILE*)", ck, p, false, bm) + fmt(", %zu callback failure(s) injected (errno %s)", ck.faults, io::has_fault(p) ? "EINTR/EIO" : "-"); });
        fclose(f);
      }
    }
    for (size_t L : {(size_t)300, (size_t)16384, (size_t)16385, (size_t)40000, (size_t)204800})
      for (int i = 0; i <= 4; i++)
        for (uint32_t fv : {io::P_EINTR, io::P_EIO})
          for (uint32_t chunk : {0u, 4096u, 100u})
            for (int bm = 0; bm < io::BUF_MODES; bm++) {
              if (!C->mine(idx++)) continue;
              string payload = hist_payload(L, 3);
              io::Plan p(i, chunk);
              p.push_back(fv);
              {
                io::Cookie ck;
                FILE* f = io::open_cookie(&ck, payload, p, false, bm);
                C->crumb_n("read_all_file/cookie/fault-after-calls", L, i, fv, bm);
                Outcome o = run([&] { return phosg::read_all(f); });
                judge("read_all_file", "cookie+faults", fmt("fault-after-%s-calls", i == 0 ? "0" : "n"), payload, o, [&] { return cookie_case("read_all(FILE*)", ck, p, false, bm); });
                fclose(f);
              }
              {
                io::Cookie ck;
                FILE* f = io::open_cookie(&ck, payload, p, false, bm);
                C->crumb_n("fgets/cookie/fault-after-calls", L, i, fv, bm);
                judge_fgets(f, payload, "cookie+faults", fmt("fault-after-%s-calls", i == 0 ? "0" : "n"), [&] { return cookie_case("fgets(f) until \"\"", ck, p, false, bm); });
                fclose(f);
              }
              {
                io::Cookie ck;
                FILE* f = io::open_cookie(&ck, payload, p, false, bm);
                C->crumb_n("freadx/cookie/fault-after-calls", L, i, fv, bm);
                Outcome o = run([&] { return phosg::freadx(f, L); });
                judge("freadx", "cookie+faults", fmt("fault-after-%s-calls", i == 0 ? "0" : "n"), payload, o, [&] { return cookie_case("freadx(f,total)", ck, p, false, bm); });
                fclose(f);
              }
            }
    // stream histories on cookie streams whose callback fails once
    uint64_t n = C->qt<uint64_t>(4000, 60000) / C->nshards + 1;
    for (uint64_t i = 0; i < n; i++) {
      string payload = hist_payload(r.chance(1, 2) ? r.below(3000) : r.below(70000), (unsigned)r.below(8));
      std::vector<int> ops(1 + r.below(4));
      for (auto& o : ops) o = (int)r.below(H_NOPS);
      if (r.chance(1, 2)) ops.push_back(H_READALL);
      io::Plan p(r.below(6), (uint32_t)(r.chance(1, 2) ? 0 : 1 + r.below(5000)));
      p.push_back(r.chance(1, 2) ? io::P_EINTR : io::P_EIO);
      int bm = (int)r.below(io::BUF_MODES);
      io::Cookie ck;
      FILE* f = io::open_cookie(&ck, payload, p, false, bm);
      run_stream_history(f, payload, ops, "cookie+faults", [&] { return fmt("one fopencookie stream (%s, plan %s) of %zu bytes: ", io::bufmode_name(bm), io::plan_str(p).c_str(), payload.size()) + hist_str(ops); });
      fclose(f);
    }
  }
  if (C->shard == 0) C->sample("read faults: read_all(fd) under every plan over {1,2,3,F,EINTR,EIO}^6 x lengths 0..12 (EINTR/EIO = the call fails and transfers nothing); same at the fopencookie level; failing call after i blocks for sizes to 200 KiB; outcome must be an exception or the complete data");
}

// ---- a real signal: SIGALRM timer without SA_RESTART while the reader blocks on a staggered pipe -----------------
static void on_alarm(int) {}

static void part_signals(vf::Rng& r) {
  struct sigaction sa, old;
  memset(&sa, 0, sizeof(sa));
  sa.sa_handler = on_alarm;  // no SA_RESTART: blocking reads fail with EINTR
  sigemptyset(&sa.sa_mask);
  if (sigaction(SIGALRM, &sa, &old)) harness_fail("sigaction");
  sigset_t alrm;
  sigemptyset(&alrm);
  sigaddset(&alrm, SIGALRM);
  uint64_t n = C->qt<uint64_t>(800, 16000) / C->nshards + 1;
  for (uint64_t i = 0; i < n; i++) {
    int mode = (int)(i % 4);  // 0 read_all(fd) 1 read_all(fdopen) 2 fgets(fdopen) 3 freadx(fdopen,total)
    size_t L = r.chance(1, 2) ? 2 + r.below(3000) : r.below(120000);
    string payload = hist_payload(L, (unsigned)r.below(8));
    WriterJob job;
    int p[2];
    if (::pipe(p)) harness_fail("pipe");
    job.fd = p[1];
    job.payload = &payload;
    size_t nch = 2 + r.below(4);
    for (size_t k = 0; k < nch; k++) {
      job.chunks.push_back((uint32_t)std::max<size_t>(1 + r.below(3000), payload.size() / 24 + 1));
      job.sleeps_us.push_back((uint32_t)(200 + r.below(1500)));  // the reader has to block between chunks
    }
    uint32_t interval = 100 + (uint32_t)r.below(900);
    pthread_t th;
    C->crumb_n("signal/SIGALRM-during-read", i, mode, payload.size(), interval);
    pthread_sigmask(SIG_BLOCK, &alrm, nullptr);  // the writer thread inherits the blocked mask: only the reader is interrupted
    if (pthread_create(&th, nullptr, writer_main, &job)) harness_fail("pthread_create");
    pthread_sigmask(SIG_UNBLOCK, &alrm, nullptr);
    static const char* MN[] = {"read_all(fd)", "read_all(fdopen(pipe))", "fgets(fdopen(pipe))", "freadx(fdopen(pipe),total)"};
    auto kase = [&]() {
      return fmt("%s on a real pipe while SIGALRM (handler without SA_RESTART) fires every %u us; writer thread delivers %zu bytes in chunks %s with usleep %s", MN[mode], interval,
          payload.size(), io::plan_str(job.chunks, true).c_str(), io::plan_str(job.sleeps_us, true).c_str());
    };
    struct itimerval it = {{0, (suseconds_t)interval}, {0, (suseconds_t)interval}}, off = {{0, 0}, {0, 0}};
    std::unique_ptr<FILE, void (*)(FILE*)> f(nullptr, +[](FILE*) {});
    if (mode != 0) f = phosg::fdopen_unique(p[0], "rb");
    const char* shape = payload.size() < 16384 ? "<16K" : ">=16K";
    if (mode == 2) {
      setitimer(ITIMER_REAL, &it, nullptr);
      // judge_fgets calls phosg::fgets repeatedly; the timer stays armed across the calls
      std::vector<string> expect = split_lines(payload), got;
      bool threw = false;
      try {
        for (size_t k = 0; k < expect.size() + 8; k++) {
          vf::poison_errno();
          string l = phosg::fgets(f.get());
          if (l.empty()) break;
          got.push_back(std::move(l));
        }
      } catch (const std::exception&) {
        threw = true;
      }
      setitimer(ITIMER_REAL, &off, nullptr);
      C->evaluations++;
      size_t k = 0;
      while (k < got.size() && k < expect.size() && got[k] == expect[k]) k++;
      if (k == got.size() && (threw || k == expect.size())) C->cls(fmt("fgets:signal-pipe:%s:%s", shape, threw ? "throw" : "ok"));
      else
        C->violation(k >= got.size() ? "fgets:line-lost:signal-pipe" : "fgets:wrong-line:signal-pipe",
            fmt("after %zu correct line(s): %s", k, k >= got.size() ? "fgets returned \"\" (end of stream) without throwing although lines remain" : "a returned piece is not the next line of the stream"), kase());
    } else {
      setitimer(ITIMER_REAL, &it, nullptr);
      Outcome o = run([&] { return mode == 0 ? phosg::read_all(p[0]) : mode == 1 ? phosg::read_all(f.get()) : phosg::freadx(f.get(), payload.size()); });
      setitimer(ITIMER_REAL, &off, nullptr);
      judge(mode == 0 ? "read_all_fd" : mode == 1 ? "read_all_file" : "freadx", "signal-pipe", shape, payload, o, kase);
    }
    f.reset();
    if (mode == 0) __real_close(p[0]);
    pthread_join(th, nullptr);
    if (i < 1 && C->shard == 0) C->sample(kase());
  }
  sigaction(SIGALRM, &old, nullptr);
}

// ---- write side --------------------------------------------------------------------------------------------------
static void part_writefaults(vf::Rng& r) {
  uint64_t idx = 0;
  string path = g_dir + "/wf_target.bin";
  static const size_t SIZES[] = {0, 1, 5, 100, 4095, 4096, 4097, 5000, 12288, 20000, 70000, 204800};
  // (a) save_file under interposed write plans
  for (size_t n : SIZES) {
    std::vector<uint32_t> firsts = {1, (uint32_t)(n > 1 ? n - 1 : 1), (uint32_t)(n / 2 + 1), 4096, io::P_ENOSPC, io::P_EIO, io::P_EINTR, 0};
    for (uint32_t c1 : firsts)
      for (uint32_t c2 : {0u, 1u, io::P_ENOSPC, io::P_EINTR})
        for (int overload = 0; overload < 2; overload++) {
          if (!C->mine(idx++)) continue;
          string d = rnd_payload(r, n, true);
          write_file_raw(path, string(n / 2 + 3, 'Z'));  // stale content that must not survive a "successful" save
          io::Plan p = {c1, c2};
          C->crumb_n("save_file/write-plan", n, c1, c2);
          bool threw = false;
          string what;
          size_t calls, faults, shorts;
          {
            io::WritePlanScope ws(-1, path, p);
            try {
              vf::poison_errno();
              if (overload) phosg::save_file(path, d);
              else phosg::save_file(path, d.data(), d.size());
            } catch (const std::exception& e) {
              threw = true;
              what = e.what();
            }
            calls = io::wm().calls;
            faults = io::wm().faults;
            shorts = io::wm().short_writes;
          }
          C->evaluations++;
          string kase = fmt("save_file(path, %zu bytes) with every write() on that file limited by plan %s: %zu write call(s), %zu failed, %zu shortened", n, io::plan_str(p).c_str(), calls, faults, shorts);
          const char* shape = (faults || shorts) ? "write-disturbed" : "write-undisturbed";
          if (!threw) {
            string disk = read_file_raw(path);
            if (disk != d)
              C->violation(fmt("save_file:returned-normally-but-file-%s:write-plan", disk.size() < d.size() ? "short" : "differs"), fmt("save_file returned without throwing; the file holds %zu bytes, the data has %zu", disk.size(), d.size()), kase);
            else {
              Outcome o = run([&] { return phosg::load_file(path); });
              judge("load_save", "write-plan", shape, d, o, [&] { return kase + "; then load_file"; });
            }
          } else
            C->cls(fmt("save_file:write-plan:%s:throw", shape));
          if (n && !calls) C->count("save_file:no-interposed-write-seen(stdio path?)");
        }
  }
  // (b) writex / pwritex on a registered descriptor: a normal return means the bytes are in the file
  for (size_t n : {(size_t)0, (size_t)1, (size_t)100, (size_t)5000})
    for (uint32_t c1 : {1u, 50u, 0u, io::P_ENOSPC, io::P_EIO, io::P_EINTR})
      for (int which = 0; which < 3; which++) {
        if (!C->mine(idx++)) continue;
        string d = rnd_payload(r, n, true);
        int fd = ::open(path.c_str(), O_CREAT | O_TRUNC | O_RDWR, 0644);
        if (fd < 0) harness_fail("open");
        io::Plan p = {c1};
        bool threw = false;
        C->crumb_n("writex/write-plan", n, c1, which);
        {
          io::WritePlanScope ws(fd, "", p);
          try {
            vf::poison_errno();
            if (which == 0) phosg::writex(fd, d);
            else if (which == 1) phosg::writex(fd, d.data(), d.size());
            else phosg::pwritex(fd, d, 0);
          } catch (const std::exception&) {
            threw = true;
          }
        }
        __real_close(fd);
        C->evaluations++;
        static const char* WN[] = {"writex(fd,string)", "writex(fd,ptr,size)", "pwritex(fd,string,0)"};
        if (!threw && read_file_raw(path) != d)
          C->violation(fmt("%s:returned-normally-but-file-short", which == 2 ? "pwritex" : "writex"), "the exact-size write helper returned without throwing although not all bytes were written",
              fmt("%s of %zu bytes, write plan %s", WN[which], n, io::plan_str(p).c_str()));
        else C->cls(fmt("%s:write-plan:%s", which == 2 ? "pwritex" : "writex", threw ? "throw" : "ok"));
      }
  // (c) /dev/full: the kernel rejects every byte with ENOSPC, whatever write path the helper uses
  for (size_t n : {(size_t)0, (size_t)1, (size_t)100, (size_t)4095, (size_t)4096, (size_t)4097, (size_t)5000, (size_t)70000}) {
    if (!C->mine(idx++)) continue;
    string d = rnd_payload(r, n, true);
    bool threw = false;
    C->crumb_n("save_file//dev/full", n);
    FdGuard g;
    try {
      vf::poison_errno();
      phosg::save_file("/dev/full", d);
    } catch (const std::exception&) {
      threw = true;
    }
    C->evaluations++;
    string kase = fmt("save_file(\"/dev/full\", %zu bytes): every write to this device fails with ENOSPC", n);
    if (!threw && n) C->violation("save_file:returned-normally-but-nothing-stored:dev-full", "save_file returned without throwing although the device accepted none of the data", kase);
    else C->cls(fmt("save_file:dev-full:%s", threw ? "throw" : "empty-data-ok"));
    g.check("save_file", kase);
  }
  // (d) a real file-size limit (RLIMIT_FSIZE, SIGXFSZ ignored) in a forked child
  {
    std::vector<std::pair<size_t, size_t>> cases;  // (data size, limit)
    for (size_t n : {(size_t)1, (size_t)100, (size_t)4095, (size_t)4096, (size_t)4097, (size_t)5000, (size_t)12288, (size_t)20000, (size_t)70000})
      for (size_t cut : {(size_t)1, (size_t)7, (size_t)(n % 4096 ? n % 4096 : 1), n / 2 + 1, n})
        if (cut <= n) cases.push_back({n, n - cut});
    for (size_t n : {(size_t)100, (size_t)5000}) cases.push_back({n, n}), cases.push_back({n, n + 10});  // limit not hit
    for (auto& cs : cases) {
      if (!C->mine(idx++)) continue;
      size_t n = cs.first, limit = cs.second;
      string d = rnd_payload(r, n, true);
      ::unlink(path.c_str());
      C->crumb_n("save_file/RLIMIT_FSIZE", n, limit);
      fflush(nullptr);
      pid_t pid = fork();
      if (pid < 0) harness_fail("fork");
      if (pid == 0) {
        signal(SIGXFSZ, SIG_IGN);
        struct rlimit rl = {(rlim_t)limit, (rlim_t)limit};
        if (setrlimit(RLIMIT_FSIZE, &rl)) _exit(3);
        int rc = 0;
        try {
          vf::poison_errno();
          phosg::save_file(path, d);
        } catch (const std::exception&) {
          rc = 1;
        } catch (...) {
          rc = 4;
        }
        _exit(rc);
      }
      int st = 0;
      while (waitpid(pid, &st, 0) < 0 && errno == EINTR) {
      }
      C->evaluations++;
      string kase = fmt("save_file(path, %zu bytes) in a child process with RLIMIT_FSIZE=%zu and SIGXFSZ ignored", n, limit);
      if (!WIFEXITED(st) || WEXITSTATUS(st) > 1) {
        C->violation("save_file:child-died:rlimit", fmt("child status 0x%x", st), kase);
        continue;
      }
      bool threw = WEXITSTATUS(st) == 1;
      struct stat sb;
      string disk = ::stat(path.c_str(), &sb) == 0 ? read_file_raw(path) : string();
      if (!threw && disk != d)
        C->violation("save_file:returned-normally-but-file-short:rlimit", fmt("save_file returned without throwing; the file holds %zu bytes, the data has %zu", disk.size(), d.size()), kase);
      else if (threw && limit >= n)
        C->violation("save_file:throws-below-limit:rlimit", "save_file threw although the data fits under the limit", kase);
      else C->cls(fmt("save_file:rlimit:%s:%s", limit >= n ? "fits" : (n - limit) <= (n % 4096 ? n % 4096 : 4096) ? "cut-in-last-4096-block" : "cut-earlier", threw ? "throw" : "ok"));
    }
  }
  ::unlink(path.c_str());
  if (C->shard == 0) C->sample("write faults: save_file x 12 sizes x first write {1,n-1,n/2,4096,ENOSPC,EIO,EINTR,F} x second {F,1,ENOSPC,EINTR}; writex/pwritex; /dev/full; RLIMIT_FSIZE in a forked child with the cut in the last 4096-byte block or earlier: normal return => file == data");
}
