// Controlled cooperative scheduler for the real parallel_range templates (C16).
//
// Tools.hh is compiled with `atomic` -> `verif_atomic` and `thread` -> `verif_thread`, so every
// atomic operation of the *real* template code becomes a scheduling point and every worker is a
// real std::thread that only runs while it holds the token.  Exactly one thread runs at a time; the
// scheduler decides who performs the next atomic operation.  Choices come from a DFS enumerator
// (prefix replay) or from a seeded random / PCT-style priority strategy.
#pragma once

#include <atomic>
#include <condition_variable>
#include <functional>
#include <mutex>
#include <thread>
#include <tuple>
#include <vector>

#include <stdint.h>
#include <stdio.h>
#include <stdlib.h>

namespace vsched {

enum ThreadState { RUNNABLE, BLOCKED_JOIN, SLEEPING, DONE };

struct Choice {
  uint16_t chosen, options;
};

inline thread_local uint64_t my_epoch = 0;  // epoch the calling thread belongs to

struct Sched {
  std::mutex m;
  std::condition_variable cv;
  bool active = false;
  uint64_t epoch = 0;
  int running = 0;  // id holding the token; 0 = the calling ("main") thread
  struct T {
    ThreadState st;
    int join_target;
    bool fresh;  // scheduled for the first time, no visible operation performed yet
  };
  std::vector<T> th;
  // strategy
  enum Mode { DFS, RANDOM, PCT } mode = DFS;
  std::vector<uint16_t> prefix;  // DFS: forced choices
  std::vector<Choice> trace;     // choices made in this execution
  std::vector<uint8_t> sched_trace;  // thread id that performed each scheduled step
  uint64_t rng = 1;
  std::vector<uint32_t> prio;        // PCT priorities
  std::vector<uint32_t> change_at;   // PCT change points (step numbers)
  uint64_t steps = 0;
  bool deadlock = false;
  bool returned = false;  // set by the harness once the call under test returned

  uint64_t rnd() {
    uint64_t z = (rng += 0x9E3779B97F4A7C15ULL);
    z = (z ^ (z >> 30)) * 0xBF58476D1CE4E5B9ULL;
    z = (z ^ (z >> 27)) * 0x94D049BB133111EBULL;
    return z ^ (z >> 31);
  }

  void begin(Mode md, uint64_t seed, const std::vector<uint16_t>& pfx) {
    std::lock_guard<std::mutex> g(m);
    active = true;
    epoch++;
    my_epoch = epoch;
    running = 0;
    th.clear();
    th.push_back({RUNNABLE, -1, false});
    mode = md;
    prefix = pfx;
    trace.clear();
    sched_trace.clear();
    rng = seed * 2654435761ULL + 12345;
    prio.clear();
    change_at.clear();
    steps = 0;
    deadlock = false;
    returned = false;
    if (md == PCT) {
      int d = 1 + (int)(rnd() % 3);
      for (int i = 0; i < d; i++) change_at.push_back((uint32_t)(rnd() % 64));
    }
  }

  // pick among enabled thread ids (sorted ascending); lock held
  int pick(const std::vector<int>& enabled) {
    if (enabled.empty()) return -1;
    size_t idx = 0;
    if (enabled.size() > 1) {
      switch (mode) {
        case DFS:
          idx = trace.size() < prefix.size() ? prefix[trace.size()] : 0;
          if (idx >= enabled.size()) idx = 0;  // cannot happen for a deterministic program; counted by harness
          trace.push_back({(uint16_t)idx, (uint16_t)enabled.size()});
          break;
        case RANDOM:
          idx = rnd() % enabled.size();
          break;
        case PCT: {
          while (prio.size() < th.size()) prio.push_back((uint32_t)(rnd() % 1000) + 1000);
          for (uint32_t c : change_at)
            if (c == steps) {
              // lower the priority of the currently highest enabled thread
              size_t best = 0;
              for (size_t i = 1; i < enabled.size(); i++)
                if (prio[enabled[i]] > prio[enabled[best]]) best = i;
              prio[enabled[best]] = (uint32_t)(rnd() % 1000);
            }
          for (size_t i = 1; i < enabled.size(); i++)
            if (prio[enabled[i]] > prio[enabled[idx]]) idx = i;
          break;
        }
      }
    }
    steps++;
    sched_trace.push_back((uint8_t)enabled[idx]);
    // a step by some thread is about to happen: every sleeper's sleep may now be over
    for (auto& t : th)
      if (t.st == SLEEPING) t.st = RUNNABLE;
    return enabled[idx];
  }

  std::vector<int> enabled_locked() {
    std::vector<int> e;
    for (size_t i = 0; i < th.size(); i++)
      if (th[i].st == RUNNABLE) e.push_back((int)i);
    if (e.empty())  // only sleepers left: their sleep ends
      for (size_t i = 0; i < th.size(); i++)
        if (th[i].st == SLEEPING) {
          th[i].st = RUNNABLE;
          e.push_back((int)i);
        }
    return e;
  }

  void hand_over(std::unique_lock<std::mutex>& lk, int me, int next) {
    if (next == me) return;
    running = next;
    cv.notify_all();
    cv.wait(lk, [&] { return running == me && epoch == my_epoch; });
  }

  // Scheduling point: called by the token holder before an atomic operation.
  void point(int me) {
    std::unique_lock<std::mutex> lk(m);
    if (!active) return;
    if (th[me].fresh) {
      // this thread was just chosen by the scheduler and has done nothing visible since: choosing
      // again here would only duplicate interleavings
      th[me].fresh = false;
      return;
    }
    int next = pick(enabled_locked());
    hand_over(lk, me, next);
  }

  // usleep() in the code under test: the caller is not runnable until some other thread has made
  // a step (models "others make progress during a long sleep"; bounds the progress-poll loop).
  void sleep_point(int me) {
    std::unique_lock<std::mutex> lk(m);
    if (!active) return;
    th[me].st = SLEEPING;
    std::vector<int> e = enabled_locked();
    if (e.empty()) {
      th[me].st = RUNNABLE;
      return;
    }
    int next = pick(e);
    running = next;
    cv.notify_all();
    cv.wait(lk, [&] { return running == me && epoch == my_epoch; });
  }

  int add_thread() {
    std::lock_guard<std::mutex> g(m);
    th.push_back({RUNNABLE, -1, true});
    return (int)th.size() - 1;
  }

  void thread_start(int id, uint64_t ep) {
    std::unique_lock<std::mutex> lk(m);
    cv.wait(lk, [&] { return running == id && epoch == ep; });
  }

  void thread_end(int id) {
    std::unique_lock<std::mutex> lk(m);
    th[id].st = DONE;
    for (auto& t : th)
      if (t.st == BLOCKED_JOIN && t.join_target == id) {
        t.st = RUNNABLE;
        t.join_target = -1;
      }
    int next = pick(enabled_locked());
    if (next < 0) {
      deadlock = true;
      next = 0;
    }
    running = next;
    cv.notify_all();
  }

  void join(int me, int target) {
    std::unique_lock<std::mutex> lk(m);
    if (!active) return;
    if (th[target].st == DONE) return;
    th[me].st = BLOCKED_JOIN;
    th[me].join_target = target;
    int next = pick(enabled_locked());
    if (next < 0) {
      deadlock = true;
      th[me].st = RUNNABLE;
      return;
    }
    running = next;
    cv.notify_all();
    cv.wait(lk, [&] { return running == me && epoch == my_epoch; });
  }

  // After the call under test returned: number of workers that are still alive (only non-zero if
  // the code failed to join its workers).  They are never resumed: they would touch the dead
  // stack frame of the call; the epoch counter keeps them parked for ever.
  int alive_workers() {
    std::lock_guard<std::mutex> g(m);
    int alive = 0;
    for (size_t i = 1; i < th.size(); i++)
      if (th[i].st != DONE) alive++;
    return alive;
  }

  void end() {
    std::lock_guard<std::mutex> g(m);
    active = false;
  }
};

inline Sched& S() {
  // deliberately leaked: parked (never-joined) workers of a broken implementation may still wait on
  // its condition variable at process exit, and destroying a condvar with waiters blocks
  static Sched* s = new Sched;
  return *s;
}
inline thread_local int tid = 0;

}  // namespace vsched

namespace std {

// Scheduler-aware stand-in for std::atomic<T> (only the operations Tools.hh uses, plus a few more
// so that realistic edits of the template code still compile).
template <typename T>
class verif_atomic {
  std::atomic<T> v;

public:
  verif_atomic() : v() {}
  verif_atomic(T x) : v(x) {}
  verif_atomic(const verif_atomic&) = delete;
  T fetch_add(T d, std::memory_order = std::memory_order_seq_cst) {
    vsched::S().point(vsched::tid);
    return v.fetch_add(d);
  }
  T fetch_sub(T d, std::memory_order = std::memory_order_seq_cst) {
    vsched::S().point(vsched::tid);
    return v.fetch_sub(d);
  }
  T load(std::memory_order = std::memory_order_seq_cst) const {
    vsched::S().point(vsched::tid);
    return v.load();
  }
  void store(T x, std::memory_order = std::memory_order_seq_cst) {
    vsched::S().point(vsched::tid);
    v.store(x);
  }
  T exchange(T x, std::memory_order = std::memory_order_seq_cst) {
    vsched::S().point(vsched::tid);
    return v.exchange(x);
  }
  bool compare_exchange_strong(T& e, T d, std::memory_order = std::memory_order_seq_cst, std::memory_order = std::memory_order_seq_cst) {
    vsched::S().point(vsched::tid);
    return v.compare_exchange_strong(e, d);
  }
  bool compare_exchange_weak(T& e, T d, std::memory_order = std::memory_order_seq_cst, std::memory_order = std::memory_order_seq_cst) {
    vsched::S().point(vsched::tid);
    return v.compare_exchange_strong(e, d);
  }
  operator T() const { return load(); }
  T operator=(T x) {
    store(x);
    return x;
  }
  T operator++() { return fetch_add(1) + 1; }
  T operator++(int) { return fetch_add(1); }
  T operator+=(T d) { return fetch_add(d) + d; }
};

class verif_thread {
  std::thread real;
  int id = -1;

public:
  verif_thread() = default;
  template <typename F, typename... Args>
  explicit verif_thread(F&& f, Args&&... args) {
    id = vsched::S().add_thread();
    int my = id;
    uint64_t ep = vsched::S().epoch;
    auto body = [fn = std::decay_t<F>(std::forward<F>(f)), tup = std::make_tuple(std::decay_t<Args>(std::forward<Args>(args))...)]() mutable {
      std::apply(fn, tup);
    };
    real = std::thread([my, ep, body]() mutable {
      vsched::tid = my;
      vsched::my_epoch = ep;
      vsched::S().thread_start(my, ep);
      body();
      vsched::S().thread_end(my);
    });
  }
  verif_thread(verif_thread&& o) noexcept : real(std::move(o.real)), id(o.id) { o.id = -1; }
  verif_thread& operator=(verif_thread&& o) noexcept {
    real = std::move(o.real);
    id = o.id;
    o.id = -1;
    return *this;
  }
  verif_thread(const verif_thread&) = delete;
  ~verif_thread() {
    if (real.joinable()) {
      // std::thread would terminate(); make that observable instead of killing the monitor
      fprintf(stderr, "[monitor] verif_thread destroyed while joinable\n");
      real.detach();
    }
  }
  bool joinable() const { return real.joinable(); }
  void join() {
    vsched::S().join(vsched::tid, id);
    // the logical thread is DONE (or the scheduler is off); the OS thread exits right after
    real.join();
  }
  void detach() { real.detach(); }
  static unsigned hardware_concurrency() { return 2; }
};

}  // namespace std
