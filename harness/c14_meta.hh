// C14 part H: sources whose METADATA lies. (1) real procfs files (st_size 0, S_ISREG, data arrives about one page per
// read()): the subject is a forked child that mmaps several hundred unmergeable regions and stops itself, so that
// /proc/<child>/maps is several pages long and stable. (2) interposed fstat/stat that under/over-report st_size of the
// registered file while read() delivers the true bytes (a file that grew/shrank between the size query and the read).
// Oracle: the bytes a read()-until-0 loop of the harness sees (resp. the true file content), or an exception.
#pragma once

#include <sys/mman.h>
#include <sys/prctl.h>
#include <sys/wait.h>

#include "c14_faults.hh"

// blanks are dropped, digits and dots collapse to '#': numbers that change between two reads of a volatile procfs file do not matter
static string normalize_numbers(const string& s) {
  string r;
  bool in = false;
  for (char c : s) {
    if (c == ' ') continue;  // column padding changes with the number of digits
    bool d = (c >= '0' && c <= '9') || c == '.';
    if (d) {
      if (!in) r.push_back('#');
      in = true;
    } else {
      r.push_back(c);
      in = false;
    }
  }
  return r;
}

// load_file is only bound by "load_file(save_file(d)) = d" (a regular file whose size the kernel reports truthfully); the
// statement's no-silent-truncation clause lists read_all/fgets/readx/preadx/freadx. A load_file that returns exactly the
// first st_size bytes of a source whose metadata under-reports (procfs: 0) is therefore counted, not judged. It is still
// judged for wrong bytes, padding and any other length.
static void judge_proc(const char* op, const string& name, const string& path, const string& before, const string& after, const Outcome& o, size_t reads_seen,
    bool volatile_file, bool size_bound, size_t reported_size) {
  C->evaluations++;
  string kase = fmt("%s on %s (a procfs file: st_size=0, the harness' own read()-until-0 loop on a second descriptor sees %zu bytes in chunks of about one page); subject process is stopped",
      op, path.c_str(), before.size());
  if (o.threw) {
    C->cls(fmt("procfs:%s:%s:throw", op, name.c_str()));
    return;
  }
  // only maps and environ of a stopped process are byte-stable; status/smaps/cpuinfo hold counters shared with the rest of the
  // machine (SigQ, Rss, cpu MHz) that move between two reads even when before == after: numbers are never compared there
  bool stable = !volatile_file && before == after;
  if (size_bound && o.got.size() == reported_size && reported_size < before.size() &&
      (stable ? o.got == before.substr(0, reported_size) : true)) {
    C->cls(fmt("procfs:%s:%s:first-st_size-bytes(not-demanded)", op, name.c_str()));
    C->count(fmt("procfs:%s:returned-st_size-prefix", op));
    return;
  }
  bool ok = stable ? (o.got == before) : (normalize_numbers(o.got) == normalize_numbers(before) || normalize_numbers(o.got) == normalize_numbers(after));
  if (ok) {
    C->cls(fmt("procfs:%s:%s:%s:ok", op, name.c_str(), before.size() > 3 * 4096 ? ">3pages" : before.size() > 4096 ? ">1page" : "<=1page"));
    return;
  }
  const char* how = mismatch_kind(stable ? o.got : normalize_numbers(o.got), stable ? before : normalize_numbers(before));
  C->violation(fmt("procfs:%s:%s:%s", op, how, name.c_str()),
      fmt("%s returned %zu bytes without throwing; reading the same file with read() until it returns 0 gives %zu bytes (%s; %s comparison; %zu interposed read calls during the call)", op,
          o.got.size(), before.size(), how, stable ? "exact" : "digits-normalised", reads_seen),
      kase);
}

static void part_procfs() {
  uint64_t rounds = C->qt<uint64_t>(16, 160) / C->nshards + 1;
  for (uint64_t rd = 0; rd < rounds; rd++) {
    size_t regions = 150 + (size_t)((rd * 97 + C->shard * 31 + C->seed * 7) % 700);
    C->crumb_n("procfs/fork-subject", rd, regions);
    fflush(nullptr);
    pid_t pid = fork();
    if (pid < 0) harness_fail("fork");
    if (pid == 0) {
      prctl(PR_SET_PDEATHSIG, SIGKILL);  // never outlive the harness
      // alternate protections so that neighbouring mappings cannot be merged into one maps line
      for (size_t i = 0; i < regions; i++) {
        void* p = mmap(nullptr, 4096, (i & 1) ? PROT_READ : PROT_NONE, MAP_PRIVATE | MAP_ANONYMOUS, -1, 0);
        if (p == MAP_FAILED) _exit(3);
      }
      raise(SIGSTOP);
      _exit(0);
    }
    int st = 0;
    while (waitpid(pid, &st, WUNTRACED) < 0 && errno == EINTR) {
    }
    if (!WIFSTOPPED(st)) {
      fprintf(stderr, "[harness-error] procfs subject did not stop (status 0x%x)\n", st);
      _exit(2);
    }
    std::vector<std::pair<string, string>> files = {{"maps", fmt("/proc/%d/maps", (int)pid)}, {"smaps", fmt("/proc/%d/smaps", (int)pid)},
        {"status", fmt("/proc/%d/status", (int)pid)}, {"environ", fmt("/proc/%d/environ", (int)pid)}, {"cpuinfo", "/proc/cpuinfo"},
        {"self-status", "/proc/self/status"}};
    for (auto& nf : files) {
      const string& path = nf.second;
      struct stat sb;
      if (::stat(path.c_str(), &sb)) continue;
      C->count(fmt("procfs:st_size-reported:%s", nf.first.c_str()), (uint64_t)sb.st_size);
      io::Plan full;
      for (int op = 0; op < 4; op++) {
        string before = read_file_raw(path);
        Outcome o;
        size_t reads = 0;
        C->crumb_n("procfs/read", rd, (uint64_t)op, before.size());
        FdGuard g;
        static const char* OPN[] = {"read_all_fd", "read_all_fopen", "load_file", "fgets_fopen"};
        if (op == 0) {
          int fd = ::open(path.c_str(), O_RDONLY);
          if (fd < 0) continue;
          {
            io::PlanScope ps(fd, full);
            o = run([&] { return phosg::read_all(fd); });
            reads = io::rm().calls;
          }
          __real_close(fd);
        } else if (op == 1) {
          auto f = phosg::fopen_unique(path, "rb");
          o = run([&] { return phosg::read_all(f.get()); });
        } else if (op == 2) {
          io::PlanScope ps(-1, full);
          o = run([&] { return phosg::load_file(path); });
          reads = io::rm().calls;
        } else {
          if (nf.first == "environ") continue;  // NUL separated, no lines; NUL inside fgets lines is not demanded
          auto f = phosg::fopen_unique(path, "rb");
          o = run([&] {
            string all;
            for (size_t k = 0; k < before.size() + 64; k++) {
              string l = phosg::fgets(f.get());
              if (l.empty()) break;
              all += l;
            }
            return all;
          });
        }
        string after = read_file_raw(path);
        judge_proc(OPN[op], nf.first, path, before, after, o, reads, nf.first != "maps" && nf.first != "environ", op == 2, (size_t)sb.st_size);
        g.check("procfs", path);
      }
    }
    kill(pid, SIGKILL);
    while (waitpid(pid, &st, 0) < 0 && errno == EINTR) {
    }
  }
  if (C->shard == 0) C->sample("procfs: read_all(fd) / read_all(fopen) / load_file / fgets loop on /proc/<stopped child>/{maps,smaps,status,environ} (child mmapped 150..850 unmergeable regions: maps > 3 pages, st_size 0) and /proc/cpuinfo vs the harness' own read()-until-0 loop");
}

static void part_lyingstat(vf::Rng& r) {
  static const size_t SIZES[] = {0, 1, 100, 4096, 5000, 16384, 20000, 70000};
  static const io::Plan RPLANS[] = {{}, {1}, {4096}, {16384, 1}};
  string path = g_dir + "/lying_size.bin";
  uint64_t idx = 0;
  for (size_t n : SIZES) {
    std::vector<long> lies = {0, (long)n - 1, (long)n / 2, (long)n, (long)n + 1, (long)n * 2, (long)n + 16384};
    for (long lie : lies)
      for (int pl = 0; pl < 4; pl++)
        for (int op = 0; op < 3; op++) {
          if (lie < 0) continue;
          if (!C->mine(idx++)) continue;
          string d = rnd_payload(r, n, true);
          write_file_raw(path, d);
          struct stat sb;
          if (__real_stat(path.c_str(), &sb)) harness_fail("stat");
          const io::Plan& p = RPLANS[pl];
          static const char* OPN[] = {"read_all_fd", "read_all_file", "load_file"};
          C->crumb_n("lying-st_size", n, (uint64_t)lie, pl, op);
          Outcome o;
          size_t lied = 0, reads = 0;
          FdGuard g;
          {
            int fd = -1;
            std::unique_ptr<FILE, void (*)(FILE*)> f(nullptr, +[](FILE*) {});
            if (op == 0 && (fd = ::open(path.c_str(), O_RDONLY)) < 0) harness_fail("open");
            io::StatLieScope ls(sb.st_dev, sb.st_ino, (off_t)lie);
            if (op == 1) f = phosg::fopen_unique(path, "rb");
            {
              io::PlanScope ps(-1, p, true);
              o = run([&] { return op == 0 ? phosg::read_all(fd) : op == 1 ? phosg::read_all(f.get()) : phosg::load_file(path); });
              reads = io::rm().calls;
            }
            lied = io::sm().lied;
            f.reset();
            if (fd >= 0) __real_close(fd);
          }
          const char* rel = (size_t)lie == n ? "true-size" : (size_t)lie < n ? "under-reported" : "over-reported";
          // a file that grew after the size query: the content as of the query (exactly the first `lie` bytes) is a legitimate answer
          // for the size-bound load_file (see judge_proc); anything else (other lengths, padding, wrong bytes) is judged as usual
          if (op == 2 && (size_t)lie < n && !o.threw && o.got == d.substr(0, (size_t)lie)) {
            C->evaluations++;
            C->cls(fmt("load_file:lying-st_size:under-reported:%s:size-query-snapshot(not-demanded)", lied ? "size-queried" : "size-not-queried"));
            g.check("lying-st_size", path);
            continue;
          }
          judge(OPN[op], "lying-st_size", fmt("%s:%s", rel, lied ? "size-queried" : "size-not-queried"), d, o, [&] {
            return fmt("%s on a regular file that holds %zu bytes while fstat/stat report st_size=%ld (%s; %zu falsified answers), every read() limited by plan %s (%zu read calls)", OPN[op], n,
                lie, rel, lied, io::plan_str(p, true).c_str(), reads);
          });
          g.check("lying-st_size", path);
        }
  }
  ::unlink(path.c_str());
  if (C->shard == 0) C->sample("lying st_size: read_all(fd) / read_all(fopen) / load_file on a file of n bytes while fstat/stat report {0, n-1, n/2, n, n+1, 2n, n+16384}, n in {0,1,100,4096,5000,16384,20000,70000}, x 4 read plans: true bytes or exception");
}
