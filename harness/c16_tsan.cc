// C16 — free-running stress of the real parallel_range* templates under ThreadSanitizer.
// Real std::atomic / std::thread, 1..16 threads, ranges 0..5000, block sizes dividing the range,
// callbacks that spin / yield randomly.  Monitors: exactly-once counters (atomic, so the monitor
// itself is race free), per-thread logs indexed by the thread_num phosg passes (a wrong thread_num
// makes two threads share a log -> TSan race), result-in-true-set, late-callback flag.
#include <atomic>
#include <sched.h>
#include <set>
#include <unordered_set>
#include <functional>
#include <string>
#include <vector>

#include "Tools.hh"
#include "common.hh"

using namespace std;
using vf::fmt;

static vf::Ctx* C;

struct PerThread {
  vector<uint64_t> seen;  // plain vector: only the thread with this thread_num may touch it
  uint64_t calls = 0;
  char pad[64];
};

int main(int argc, char** argv) {
  vf::Ctx& c = vf::init(argc, argv);
  C = &c;
  vf::Rng r = c.rng();
  uint64_t runs = c.qt<uint64_t>(2400, 100000) / c.nshards + 1;
  if (!c.arg("runs").empty()) runs = strtoull(c.arg("runs").c_str(), nullptr, 0);
  std::atomic<bool> returned{false};
  std::atomic<uint64_t> late{0};
  for (uint64_t i = 0; i < runs && c.nviol() < 50; i++) {
    int kind = (int)r.below(3);
    size_t nthreads = 1 + r.below(16);
    bool default_threads = r.chance(1, 12);  // num_threads = 0: documented default = hardware concurrency
    uint64_t block = 1;
    uint64_t n;
    if (kind == 0) n = r.chance(1, 4) ? r.below(8) : r.below(5001);
    if (kind == 0 && i % 29 == 7) {  // beyond any internal batching threshold, not a multiple of a power of two
      static const uint64_t big[] = {0x10001, 0x100FF, 70001, 131071, 200003, 0x10000, 0x20100};
      n = big[r.below(7)];
    }
    else {
      static const uint64_t bss[] = {1, 2, 5, 8, 16, 50, 100, 256, 1000};
      block = bss[r.below(9)];
      n = block * r.below(5000 / block + 1);
    }
    uint64_t start = r.chance(1, 2) ? 0 : r.below(1u << 20);
    uint64_t end = start + n;
    int style = (int)r.below(4);  // 0: no hit, 1: one hit, 2: many hits, 3: hit at first/last
    vector<uint8_t> truth(n ? n : 1, 0);
    if (n) {
      if (style == 1) truth[r.below(n)] = 1;
      else if (style == 2) for (uint64_t k = 0; k < n; k++) truth[k] = r.chance(1, 16);
      else if (style == 3) truth[r.chance(1, 2) ? 0 : n - 1] = 1;
    }
    bool has_hit = false;
    for (uint64_t k = 0; k < n; k++) has_hit |= truth[k];
    int work = (int)r.below(3);  // 0: none, 1: spin, 2: yield sometimes
    vector<std::atomic<uint8_t>> cnt(n ? n : 1);
    for (auto& x : cnt) x.store(0, std::memory_order_relaxed);
    vector<std::atomic<uint8_t>> ret_true(n ? n : 1);
    for (auto& x : ret_true) x.store(0, std::memory_order_relaxed);
    size_t pass_threads = nthreads;
    if (default_threads) {
      pass_threads = 0;
      nthreads = std::thread::hardware_concurrency();
      if (nthreads == 0) nthreads = 1;
    }
    vector<PerThread> pt(nthreads);
    std::atomic<uint64_t> outside{0}, bad_tn{0};
    returned.store(false);
    string desc = fmt("%s threads=%zu%s start=%" PRIu64 " n=%" PRIu64 " block=%" PRIu64 " style=%d work=%d", kind == 0 ? "range" : kind == 1 ? "blocks" : "multi", nthreads, default_threads ? "(num_threads=0 passed)" : "", start, n, block, style, work);
    c.crumb_s(desc);
    auto fn = [&](uint64_t v, size_t tn) -> bool {
      if (returned.load()) late++;
      if (v < start || v >= end) {
        outside++;
        return false;
      }
      if (tn >= nthreads) {
        bad_tn++;
        return false;
      }
      cnt[v - start].fetch_add(1, std::memory_order_relaxed);
      pt[tn].calls++;
      pt[tn].seen.push_back(v);
      if (work == 1) {
        volatile unsigned x = 0;
        for (unsigned k = 0; k < (v * 2654435761u) % 200; k++) x += k;
      } else if (work == 2 && (v % 7) == 0)
        sched_yield();
      bool t = truth[v - start];
      if (t) ret_true[v - start].store(1, std::memory_order_relaxed);
      return t;
    };
    uint64_t result = end;
    unordered_set<uint64_t> multi;
    // progress callback: nullptr mostly; a recording one sometimes (it may sleep up to 1 s inside
    // phosg if the workers are still busy, so only on small ranges)
    std::function<void(uint64_t, uint64_t, uint64_t, uint64_t)> prog = nullptr;
    std::atomic<uint64_t> prog_calls{0};
    if (n < 64 && r.chance(1, 20)) prog = [&](uint64_t, uint64_t, uint64_t, uint64_t) { prog_calls++; };
    try {
      if (kind == 0) result = phosg::parallel_range<uint64_t>(fn, start, end, pass_threads, prog);
      else if (kind == 1) result = phosg::parallel_range_blocks<uint64_t>(fn, start, end, block, pass_threads, prog);
      else multi = phosg::parallel_range_blocks_multi<uint64_t>(fn, start, end, block, pass_threads, prog);
    } catch (const std::exception& e) {
      c.violation("stress:unexpected-exception", e.what(), desc);
    }
    returned.store(true);
    c.evaluations++;
    const char* k = kind == 0 ? "range" : kind == 1 ? "blocks" : "multi";
    if (outside.load()) c.violation(fmt("stress:%s:value-outside-range", k), "callback invoked outside [start,end)", desc);
    if (bad_tn.load()) c.violation(fmt("stress:%s:thread-num-out-of-range", k), "thread_num >= num_threads", desc);
    uint64_t total = 0;
    for (uint64_t j = 0; j < n; j++) {
      unsigned x = cnt[j].load();
      total += x;
      if (x > 1) {
        c.violation(fmt("stress:%s:value-invoked-twice", k), fmt("value %" PRIu64 " invoked %u times", start + j, x), desc);
        break;
      }
      if (x == 0 && (kind == 2 || !has_hit)) {
        c.violation(fmt("stress:%s:value-not-exactly-once", k), fmt("value %" PRIu64 " never invoked", start + j), desc);
        break;
      }
    }
    uint64_t logged = 0;
    for (auto& p : pt) logged += p.seen.size();
    if (logged != total) c.violation(fmt("stress:%s:per-thread-log-mismatch", k), "per-thread logs lost or duplicated entries (shared thread_num?)", desc);
    if (kind == 2) {
      set<uint64_t> want;
      for (uint64_t j = 0; j < n; j++) if (truth[j]) want.insert(start + j);
      set<uint64_t> got(multi.begin(), multi.end());
      if (got != want) c.violation("stress:multi:result-set", fmt("returned %zu values, true-set has %zu", got.size(), want.size()), desc);
    } else if (!has_hit) {
      if (result != end) c.violation(fmt("stress:%s:return-not-end", k), fmt("returned %" PRIu64, result), desc);
    } else {
      if (result < start || result >= end || !ret_true[result - start].load())
        c.violation(fmt("stress:%s:result-not-a-hit", k), fmt("returned %" PRIu64 " which did not return true in this run", result), desc);
    }
    c.cls(fmt("stress:%s:t%s:%s:%s", k, default_threads ? "default" : nthreads == 1 ? "1" : nthreads <= 4 ? "2-4" : nthreads <= 8 ? "5-8" : "9-16", !has_hit ? "nohit" : style == 1 ? "onehit" : "manyhits", n == 0 ? "empty" : n < 64 ? "small" : n <= 5000 ? "large" : "over-64K"));
    c.count("callback_events", total);
    c.count("progress_callback_calls", prog_calls.load());
    if (i < 3) c.sample("stress " + desc);
  }
  // Very long runs per worker and very long ranges (shard 0/1 only: each costs a second or two):
  //  * blocks much larger than any power-of-two polling period, a few blocks, few threads: every value exactly once;
  //  * ranges whose LENGTH is a multiple of 2^32 (a 32-bit truncation of the length gives 0) with an early hit:
  //    the hit must be found, with the default and with an explicit thread count.
  if (c.shard < 2) {
    for (int rep = 0; rep < 2; rep++) {
      uint64_t block = rep == 0 ? 1500000 : 1048577 + 1000 * c.shard;
      uint64_t nblocks = 2 + rep;
      uint64_t n = block * nblocks, start = 7;
      size_t nthreads = 1 + (size_t)((rep + c.shard) % 2);
      std::vector<std::atomic<uint8_t>> cnt(n);
      for (auto& x : cnt) x.store(0, std::memory_order_relaxed);
      std::atomic<uint64_t> outside{0};
      std::string desc = fmt("blocks<u64> threads=%zu start=%" PRIu64 " n=%" PRIu64 " block=%" PRIu64 " (huge blocks)", nthreads, start, n, block);
      c.crumb_s(desc);
      std::function<bool(uint64_t, size_t)> fn = [&](uint64_t v, size_t) -> bool {
        if (v < start || v >= start + n) { outside++; return false; }
        cnt[v - start].fetch_add(1, std::memory_order_relaxed);
        return false;
      };
      uint64_t res = 0;
      std::unordered_set<uint64_t> multi;
      try {
        if (rep == 0) res = phosg::parallel_range_blocks<uint64_t>(fn, start, start + n, block, nthreads, nullptr);
        else { multi = phosg::parallel_range_blocks_multi<uint64_t>(fn, start, start + n, block, nthreads, nullptr); res = start + n; }
      } catch (const std::exception& e) { c.violation("stress:huge-blocks:unexpected-exception", e.what(), desc); }
      c.evaluations++;
      uint64_t missing = 0, twice = 0;
      for (uint64_t j = 0; j < n; j++) { unsigned x = cnt[j].load(std::memory_order_relaxed); if (x == 0) missing++; else if (x > 1) twice++; }
      if (missing) c.violation("stress:huge-blocks:value-not-exactly-once", fmt("%" PRIu64 " values never invoked", missing), desc);
      if (twice) c.violation("stress:huge-blocks:value-invoked-twice", fmt("%" PRIu64 " values invoked more than once", twice), desc);
      if (outside.load()) c.violation("stress:huge-blocks:value-outside-range", "callback outside [start,end)", desc);
      if (res != start + n || !multi.empty()) c.violation("stress:huge-blocks:return-not-end", "wrong result without any hit", desc);
      c.cls(fmt("stress:huge-blocks:%s", rep == 0 ? "blocks" : "multi"));
    }
    for (int rep = 0; rep < 4; rep++) {
      uint64_t start = rep & 1 ? 1000 : 0;
      uint64_t len = (rep & 2) ? (2ULL << 32) : (1ULL << 32);
      uint64_t end = start + len, hit = start + 5 + rep;
      size_t pass_threads = (rep == 1) ? 3 : 0;  // 0 = documented default
      std::atomic<uint64_t> calls{0}, outside{0};
      std::string desc = fmt("range<u64> num_threads=%zu start=%" PRIu64 " length=2^32*%d hit=%" PRIu64, pass_threads, start, (rep & 2) ? 2 : 1, hit);
      c.crumb_s(desc);
      std::function<bool(uint64_t, size_t)> fn = [&](uint64_t v, size_t) -> bool {
        calls++;
        if (v < start || v >= end) outside++;
        return v == hit;
      };
      uint64_t res = end;
      try { res = phosg::parallel_range<uint64_t>(fn, start, end, pass_threads, nullptr); }
      catch (const std::exception& e) { c.violation("stress:2^32-range:unexpected-exception", e.what(), desc); }
      c.evaluations++;
      if (res != hit) c.violation("stress:2^32-range:result-not-a-hit", fmt("returned %" PRIu64 " after %" PRIu64 " calls, the hit is %" PRIu64, res, calls.load(), hit), desc);
      if (outside.load()) c.violation("stress:2^32-range:value-outside-range", "callback outside [start,end)", desc);
      c.cls(fmt("stress:2^32-range:%s", pass_threads ? "explicit-threads" : "default-threads"));
    }
  }

  // Narrow cursor types with ranges that span most of the type (but stay clear of the documented overshoot wrap:
  // end + num_threads*block <= max): every value exactly once / hit found, also for uint8_t, uint16_t, int16_t, uint32_t.
  {
    auto narrow = [&](auto tag, const char* tname, uint64_t maxv, int64_t minv) {
      typedef decltype(tag) T;
      uint64_t reps = c.qt<uint64_t>(40, 600) / c.nshards + 2;
      for (uint64_t i = 0; i < reps && c.nviol() < 50; i++) {
        size_t nthreads = 1 + r.below(8);
        int kind = (int)r.below(3);
        uint64_t block = kind == 0 ? 1 : (uint64_t[]){1, 2, 5, 10}[r.below(4)];
        uint64_t span = maxv - (uint64_t)minv;  // width of the type
        uint64_t room = span - nthreads * block - 1;
        // range length: mostly more than half of the type's span
        uint64_t n = r.chance(3, 4) ? room / 2 + r.below(room / 2) : r.below(room);
        if (n > 60000) n = 30000 + r.below(30000);  // keep 32-bit cases cheap
        n -= n % block;
        int64_t start = minv + (int64_t)r.below(room - n + 1);
        if (sizeof(T) == 4 && r.chance(1, 2)) start = (int64_t)(maxv - nthreads * block - 1 - n);  // hug the top of the type
        int64_t end = start + (int64_t)n;
        int style = (int)r.below(3);
        int64_t hit = n ? start + (int64_t)r.below(n) : start;
        std::vector<std::atomic<uint8_t>> cnt(n ? n : 1);
        for (auto& x : cnt) x.store(0, std::memory_order_relaxed);
        std::atomic<uint64_t> outside{0}, badtn{0};
        std::string desc = fmt("%s<%s> threads=%zu start=%" PRId64 " n=%" PRIu64 " block=%" PRIu64 " style=%d", kind == 0 ? "range" : kind == 1 ? "blocks" : "multi", tname, nthreads, start, n, block, style);
        c.crumb_s(desc);
        std::function<bool(T, size_t)> fn = [&](T v, size_t tn) -> bool {
          int64_t idx = (int64_t)v - start;
          if (idx < 0 || idx >= (int64_t)n) { outside++; return false; }
          if (tn >= nthreads) { badtn++; return false; }
          cnt[idx].fetch_add(1, std::memory_order_relaxed);
          return style == 1 && (int64_t)v == hit;
        };
        T result = (T)end;
        std::unordered_set<T> multi;
        try {
          if (kind == 0) result = phosg::parallel_range<T>(fn, (T)start, (T)end, nthreads, nullptr);
          else if (kind == 1) result = phosg::parallel_range_blocks<T>(fn, (T)start, (T)end, (T)block, nthreads, nullptr);
          else multi = phosg::parallel_range_blocks_multi<T>(fn, (T)start, (T)end, (T)block, nthreads, nullptr);
        } catch (const std::exception& e) {
          c.violation("stress:narrow:unexpected-exception", e.what(), desc);
        }
        c.evaluations++;
        const char* k = kind == 0 ? "range" : kind == 1 ? "blocks" : "multi";
        if (outside.load()) c.violation(fmt("stress:narrow:%s:value-outside-range", k), "callback invoked outside [start,end)", desc);
        if (badtn.load()) c.violation(fmt("stress:narrow:%s:thread-num-out-of-range", k), "thread_num >= num_threads", desc);
        bool hitmode = (style == 1 && n > 0 && kind != 2);
        for (uint64_t j = 0; j < n; j++) {
          unsigned x = cnt[j].load();
          if (x > 1) { c.violation(fmt("stress:narrow:%s:value-invoked-twice", k), fmt("value %" PRId64 " invoked %u times", start + (int64_t)j, x), desc); break; }
          if (x == 0 && !hitmode) { c.violation(fmt("stress:narrow:%s:value-not-exactly-once", k), fmt("value %" PRId64 " never invoked", start + (int64_t)j), desc); break; }
        }
        if (kind == 2) {
          size_t want = (style == 1 && n > 0) ? 1 : 0;
          if (multi.size() != want || (want && !multi.count((T)hit))) c.violation("stress:narrow:multi:result-set", fmt("returned %zu values, expected %zu", multi.size(), want), desc);
        } else if (hitmode) {
          if ((int64_t)result != hit) c.violation(fmt("stress:narrow:%s:result-not-a-hit", k), fmt("returned %" PRId64 ", the only hit is %" PRId64, (int64_t)result, hit), desc);
        } else if ((int64_t)result != end) {
          c.violation(fmt("stress:narrow:%s:return-not-end", k), fmt("returned %" PRId64, (int64_t)result), desc);
        }
        c.cls(fmt("stress:narrow:%s:%s:%s", tname, k, n * 2 > span ? "over-half-span" : "under-half-span"));
        if (i == 0) c.sample("narrow " + desc);
      }
    };
    narrow((uint8_t)0, "u8", 0xFF, 0);
    narrow((uint16_t)0, "u16", 0xFFFF, 0);
    narrow((int16_t)0, "i16", 0x7FFF, -0x8000);
    narrow((uint32_t)0, "u32", 0xFFFFFFFFull, 0);
    narrow((int8_t)0, "i8", 0x7F, -0x80);
  }

  // late callbacks from workers that were not joined would show up here
  usleep(50000);
  if (late.load()) c.violation("stress:callback-after-return", fmt("%" PRIu64 " callback(s) ran after the call had returned", late.load()), "any");
  return c.finish();
}
