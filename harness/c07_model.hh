// C07 — per-pixel reference model for phosg::Image drawing operations.
// The model never computes a clipped rectangle: every destination pixel asks "am I addressed by
// the request, and is my source pixel inside the source?" and applies the rule if so.
// Pixels carry a flag: EXACT (value demanded), ANY (inside the addressed area, value not demanded:
// blend arithmetic on channel widths != 8), MAYBE (either the old or the new value: partially
// outside dashed lines, which may legitimately give up early).
#pragma once

#include <stdint.h>
#include <string.h>

#include <string>
#include <vector>

namespace c07 {

enum : uint8_t { EXACT = 0, ANY = 1, MAYBE = 2 };

static inline uint64_t mask_of(int cw) { return cw >= 64 ? ~0ULL : ((1ULL << cw) - 1); }

struct Canvas {
  int64_t w = 0, h = 0;
  bool alpha = false;
  int cw = 8, nch = 3;
  uint64_t maxv = 0xFF;  // the canvas' channel maximum (MAXVAL): 2^cw-1 unless loaded/constructed with another one
  uint64_t mask = 0xFF;  // 2^cw-1: what the storage can hold
  std::vector<uint64_t> v;   // w*h*nch channel values
  std::vector<uint8_t> fl;   // w*h flags
  bool tainted = false;      // any ANY/MAYBE flag set since last resync

  void init(int64_t w_, int64_t h_, bool a, int cw_, uint64_t maxv_ = 0) {
    w = w_; h = h_; alpha = a; cw = cw_; nch = a ? 4 : 3; mask = mask_of(cw_); maxv = maxv_ ? maxv_ : mask;
    v.assign((size_t)(w * h * nch), 0);
    fl.assign((size_t)(w * h), EXACT);
    tainted = false;
  }
  inline bool inside(int64_t x, int64_t y) const { return x >= 0 && y >= 0 && x < w && y < h; }
  inline void get(int64_t x, int64_t y, uint64_t o[4]) const {
    const uint64_t* p = &v[(size_t)((y * w + x) * nch)];
    o[0] = p[0]; o[1] = p[1]; o[2] = p[2];
    o[3] = alpha ? p[3] : maxv;
  }
  inline uint8_t flag(int64_t x, int64_t y) const { return fl[(size_t)(y * w + x)]; }
  inline void put(int64_t x, int64_t y, const uint64_t c[4], uint8_t f = EXACT) {
    uint64_t* p = &v[(size_t)((y * w + x) * nch)];
    p[0] = c[0] & mask; p[1] = c[1] & mask; p[2] = c[2] & mask;
    if (alpha) p[3] = c[3] & mask;
    fl[(size_t)(y * w + x)] = f;
    if (f) tainted = true;
  }
  inline void mark(int64_t x, int64_t y, uint8_t f) {
    fl[(size_t)(y * w + x)] = f;
    if (f) tainted = true;
  }
  bool same_format(const Canvas& o) const { return w == o.w && h == o.h && alpha == o.alpha && cw == o.cw; }
  bool odd_max() const { return maxv != mask; }
};

// ------------------------------------------------------------------------------------------------
// operations

enum Kind {
  K_BLIT = 0, K_MASK, K_MASK_DST, K_MASK_IMG, K_BLEND, K_BLEND_A, K_CUSTOM32, K_CUSTOM64,  // blit family (0..7)
  K_FILL, K_TEXT, K_HLINE, K_VLINE, K_LINE, K_REV_H, K_REV_V, K_INVERT, K_RESIZE, K_NKINDS
};
static const char* const kind_names[] = {"blit", "mask_blit", "mask_blit_dst", "mask_blit_img", "blend_blit", "blend_blit_alpha",
    "custom_blit32", "custom_blit64", "fill_rect", "draw_text", "draw_horizontal_line", "draw_vertical_line", "draw_line",
    "reverse_horizontal", "reverse_vertical", "invert", "resize_blit"};

struct Op {
  int kind = K_BLIT;
  bool u32 = false;  // use the packed-colour overload (colours are 8-bit then)
  int64_t x = 0, y = 0, w = 0, h = 0, sx = 0, sy = 0;
  int64_t x2 = 0, y2 = 0, dash = 0;  // lines; resize_blit: x2=sw, y2=sh
  uint64_t c[4] = {0, 0, 0, 0};      // colour / key colour
  uint64_t bg[4] = {0, 0, 0, 0};     // text background
  uint64_t salpha = 0;               // blend_blit source_alpha
  std::string text;                  // the characters draw_text must render (the expansion of the format)
  // how the real call produces `text`: tvar 0 "%s"; 1 "%*s" (twidth, ttail); 2 <thead literal>%d%s (tnum, ttail);
  // 3 "%-*s|" (twidth, ttail).  tov: draw_text overload 0..4, -1 = chosen from the text length (legacy)
  int tvar = 0, tov = -1, twidth = 0, tnum = 0;
  std::string thead, ttail;
  uint64_t tseed = 0;
};

struct Call {
  uint64_t d[4], s[4];
  bool operator==(const Call& o) const { return !memcmp(this, &o, sizeof(Call)); }
};
typedef std::vector<Call> Calls;

// pure per-pixel callbacks handed to custom_blit (same functions used by model and real run)
static inline uint32_t g32(uint32_t dc, uint32_t sc) { return dc * 0x9E3779B1u + (sc ^ 0x5BD1E995u) + ((dc >> 13) | (sc << 7)); }
static inline void g64(uint64_t d[4], const uint64_t s[4]) {
  uint64_t r = d[0] * 3 + s[0] + 1, g = d[1] ^ (s[1] << 1) ^ 0x55, b = s[2] - d[2], a = d[3] + s[3] * 5 + 7;
  d[0] = r; d[1] = g; d[2] = b; d[3] = a;
}

static inline uint64_t blend8(uint64_t a, uint64_t c, uint64_t d) { return (a * c + (0xFF - a) * d) / 0xFF; }

// The generic addressed-pixel walk.  `s` may alias `d` (self blit): rules read the shadow buffer
// as it is at that moment, in row-major order, exactly like a straightforward loop would.
template <typename Rule>
static inline void walk(Canvas& d, const Canvas& s, int64_t x, int64_t y, int64_t w, int64_t h, int64_t sx, int64_t sy, Rule rule) {
  if (w < 0) w = s.w;
  if (h < 0) h = s.h;
  for (int64_t dy = 0; dy < d.h; dy++) {
    int64_t yy = dy - y;
    if (yy < 0 || yy >= h) continue;
    int64_t py = sy + yy;
    if (py < 0 || py >= s.h) continue;
    for (int64_t dx = 0; dx < d.w; dx++) {
      int64_t xx = dx - x;
      if (xx < 0 || xx >= w) continue;
      int64_t px = sx + xx;
      if (px < 0 || px >= s.w) continue;
      rule(dx, dy, px, py);
    }
  }
}

// fill one rectangle with the fill_rect colour rule (no "negative means whole" convention)
static inline void model_fill(Canvas& d, int64_t x, int64_t y, int64_t w, int64_t h, const uint64_t c[4]) {
  for (int64_t dy = 0; dy < d.h; dy++) {
    int64_t yy = dy - y;
    if (yy < 0 || yy >= h) continue;
    for (int64_t dx = 0; dx < d.w; dx++) {
      int64_t xx = dx - x;
      if (xx < 0 || xx >= w) continue;
      if (c[3] == 0xFF) {
        d.put(dx, dy, c);
      } else if (d.cw == 8 && c[0] <= 0xFF && c[1] <= 0xFF && c[2] <= 0xFF && c[3] <= 0xFF && d.flag(dx, dy) == EXACT) {
        uint64_t o[4], n[4];
        d.get(dx, dy, o);
        for (int k = 0; k < 4; k++) n[k] = blend8(c[3], c[k], o[k]);
        n[3] = blend8(c[3], c[3], o[3]);
        d.put(dx, dy, n);
      } else {
        d.mark(dx, dy, ANY);  // blend arithmetic on wide channels: not demanded
      }
    }
  }
}

const uint8_t* c07_glyph(unsigned idx);  // 35 bytes, from ImageTextFont.hh (defined in c07.cc)

static inline void model_text(Canvas& d, const Op& o) {
  int64_t xp = o.x, yp = o.y;
  bool has_bg = o.bg[3] != 0;
  for (size_t z = 0; z < o.text.size(); z++) {
    uint8_t ch = (uint8_t)o.text[z];
    if (ch == '\r') continue;
    if (ch == '\n') {
      if (has_bg) model_fill(d, xp - 1, yp - 1, 1, 9, o.bg);
      yp += 8;
      xp = o.x;
      continue;
    }
    if (ch < 0x20 || ch > 0x7F) ch = 0x7F;
    const uint8_t* gl = c07_glyph(ch - 0x20);
    if (has_bg) model_fill(d, xp - 1, yp - 1, 6, 9, o.bg);
    for (int64_t yy = 0; yy < 7; yy++)
      for (int64_t xx = 0; xx < 5; xx++)
        if (gl[yy * 5 + xx] && d.inside(xp + xx, yp + yy)) d.put(xp + xx, yp + yy, o.c);
    xp += 6;
  }
  if (has_bg) model_fill(d, xp - 1, yp - 1, 1, 9, o.bg);
}

static inline bool dash_on(int64_t v, int64_t dash) {
  if (dash == 0) return true;
  int64_t ad = dash < 0 ? -dash : dash;
  return ((v / ad) % 2) == 0;  // only evaluated for in-canvas (non-negative) v
}

// Applies `o` to the shadow canvas.  s: source canvas (may alias d), m: mask canvas (K_MASK_IMG).
// calls: what the custom_blit callback must be handed, in order (nullptr if not wanted).
// Returns false when the model cannot follow the call order exactly (a tainted value was an input).
static inline bool apply_model(const Op& o, Canvas& d, const Canvas& s, const Canvas* m, Calls* calls) {
  bool calls_exact = true;
  switch (o.kind) {
    case K_BLIT:
      walk(d, s, o.x, o.y, o.w, o.h, o.sx, o.sy, [&](int64_t dx, int64_t dy, int64_t px, int64_t py) {
        if (s.flag(px, py) != EXACT) { d.mark(dx, dy, ANY); return; }
        uint64_t S[4], D[4];
        s.get(px, py, S);
        if (!s.alpha && s.maxv != 0xFF) { d.mark(dx, dy, ANY); return; }  // implied alpha is not in 8-bit alpha units
        if (S[3] == 0) return;
        if (S[3] == 0xFF) { d.put(dx, dy, S); return; }
        if (s.cw == 8 && d.cw == 8) {
          d.get(dx, dy, D);
          uint64_t n[4];
          for (int k = 0; k < 3; k++) n[k] = blend8(S[3], S[k], D[k]);
          n[3] = blend8(S[3], S[3], D[3]);
          d.put(dx, dy, n);
        } else {
          d.mark(dx, dy, ANY);
        }
      });
      break;
    case K_MASK:
      walk(d, s, o.x, o.y, o.w, o.h, o.sx, o.sy, [&](int64_t dx, int64_t dy, int64_t px, int64_t py) {
        if (s.flag(px, py) != EXACT) { d.mark(dx, dy, ANY); return; }
        uint64_t S[4];
        s.get(px, py, S);
        if (S[0] != o.c[0] || S[1] != o.c[1] || S[2] != o.c[2]) d.put(dx, dy, S);
      });
      break;
    case K_MASK_DST:
      walk(d, s, o.x, o.y, o.w, o.h, o.sx, o.sy, [&](int64_t dx, int64_t dy, int64_t px, int64_t py) {
        uint64_t S[4], D[4];
        d.get(dx, dy, D);
        if (d.flag(dx, dy) != EXACT) return;  // cannot happen (each dest pixel visited once)
        if (D[0] == o.c[0] && D[1] == o.c[1] && D[2] == o.c[2]) {
          if (s.flag(px, py) != EXACT) { d.mark(dx, dy, ANY); return; }
          s.get(px, py, S);
          d.put(dx, dy, S);
        }
      });
      break;
    case K_MASK_IMG:
      walk(d, s, o.x, o.y, o.w, o.h, o.sx, o.sy, [&](int64_t dx, int64_t dy, int64_t px, int64_t py) {
        if (!m->inside(px, py)) { d.mark(dx, dy, ANY); return; }  // mask smaller than source: not demanded
        if (s.flag(px, py) != EXACT) { d.mark(dx, dy, ANY); return; }
        uint64_t M[4], S[4];
        m->get(px, py, M);
        if (M[0] == 0xFF && M[1] == 0xFF && M[2] == 0xFF) return;
        s.get(px, py, S);
        d.put(dx, dy, S);
      });
      break;
    case K_BLEND:
      // rule in units of the DESTINATION's channel maximum: sa == max copies, 0 < sa < max blends with divisor max
      walk(d, s, o.x, o.y, o.w, o.h, o.sx, o.sy, [&](int64_t dx, int64_t dy, int64_t px, int64_t py) {
        if (s.flag(px, py) != EXACT) { d.mark(dx, dy, ANY); return; }
        uint64_t S[4], D[4];
        s.get(px, py, S);
        if (S[3] == 0) return;
        if (s.cw != d.cw || s.maxv != d.maxv) { d.mark(dx, dy, ANY); return; }  // alpha scales differ: not demanded
        if (S[3] == d.maxv) { d.put(dx, dy, S); return; }
        if (d.cw == 8 && S[3] < d.maxv) {
          d.get(dx, dy, D);
          uint64_t n[4];
          for (int k = 0; k < 3; k++) n[k] = (S[k] * S[3] + D[k] * (d.maxv - S[3])) / d.maxv;
          n[3] = (S[3] * S[3] + D[3] * (d.maxv - S[3])) / d.maxv;
          d.put(dx, dy, n);
        } else {
          d.mark(dx, dy, ANY);
        }
      });
      break;
    case K_BLEND_A:
      walk(d, s, o.x, o.y, o.w, o.h, o.sx, o.sy, [&](int64_t dx, int64_t dy, int64_t px, int64_t py) {
        if (s.flag(px, py) != EXACT) { d.mark(dx, dy, ANY); return; }
        uint64_t S[4], D[4];
        s.get(px, py, S);
        if (S[3] == 0 || o.salpha == 0) return;  // effective alpha 0 in any arithmetic
        if (s.cw != d.cw || s.maxv != d.maxv || d.cw == 64 || o.salpha > d.maxv || S[3] > d.maxv) { d.mark(dx, dy, ANY); return; }
        uint64_t ea = (o.salpha * S[3]) / d.maxv;  // no overflow for widths <= 32
        if (ea == 0) return;
        if (ea == d.maxv) {
          uint64_t n[4] = {S[0], S[1], S[2], ea};
          d.put(dx, dy, n);
          return;
        }
        if (d.cw == 8) {
          d.get(dx, dy, D);
          uint64_t n[4];
          for (int k = 0; k < 3; k++) n[k] = (S[k] * ea + D[k] * (d.maxv - ea)) / d.maxv;
          n[3] = D[3];
          d.put(dx, dy, n);
        } else {
          d.mark(dx, dy, ANY);
        }
      });
      break;
    case K_CUSTOM32:
      walk(d, s, o.x, o.y, o.w, o.h, o.sx, o.sy, [&](int64_t dx, int64_t dy, int64_t px, int64_t py) {
        if (s.cw != 8 || d.cw != 8 || s.flag(px, py) != EXACT) {
          d.mark(dx, dy, ANY);  // packed colours on wide channels: value not demanded
          calls_exact = false;
          if (calls) calls->push_back(Call{});
          return;
        }
        uint64_t S[4], D[4];
        s.get(px, py, S);
        d.get(dx, dy, D);
        uint32_t sc = (uint32_t)((S[0] << 24) | (S[1] << 16) | (S[2] << 8) | S[3]);
        uint32_t dc = (uint32_t)((D[0] << 24) | (D[1] << 16) | (D[2] << 8) | D[3]);
        if (calls) calls->push_back(Call{{dc, 0, 0, 0}, {sc, 0, 0, 0}});
        uint32_t n = g32(dc, sc);
        uint64_t N[4] = {(n >> 24) & 0xFF, (n >> 16) & 0xFF, (n >> 8) & 0xFF, n & 0xFF};
        d.put(dx, dy, N);
      });
      break;
    case K_CUSTOM64:
      walk(d, s, o.x, o.y, o.w, o.h, o.sx, o.sy, [&](int64_t dx, int64_t dy, int64_t px, int64_t py) {
        if (s.flag(px, py) != EXACT) {
          d.mark(dx, dy, ANY);
          calls_exact = false;
          if (calls) calls->push_back(Call{});
          return;
        }
        uint64_t S[4], D[4];
        s.get(px, py, S);
        d.get(dx, dy, D);
        if (calls) calls->push_back(Call{{D[0], D[1], D[2], D[3]}, {S[0], S[1], S[2], S[3]}});
        g64(D, S);
        d.put(dx, dy, D);
      });
      break;
    case K_FILL:
      model_fill(d, o.x, o.y, o.w, o.h, o.c);
      break;
    case K_TEXT:
      model_text(d, o);
      break;
    case K_HLINE:
    case K_VLINE: {
      // o.x..o.x2 along the line (x for K_HLINE, y for K_VLINE), o.y = the fixed coordinate
      bool horiz = o.kind == K_HLINE;
      int64_t len = horiz ? d.w : d.h, other = horiz ? d.h : d.w;
      if (o.y < 0 || o.y >= other) break;
      bool fully_inside = o.x >= 0 && o.x2 < len;
      for (int64_t t = 0; t < len; t++) {
        if (t < o.x || t > o.x2 || !dash_on(t, o.dash)) continue;
        int64_t px = horiz ? t : o.y, py = horiz ? o.y : t;
        d.put(px, py, o.c, fully_inside ? EXACT : MAYBE);
      }
      break;
    }
    case K_REV_H:
      for (int64_t y = 0; y < d.h; y++)
        for (int64_t x = 0; x < d.w / 2; x++) {
          uint64_t a[4], b[4];
          d.get(x, y, a);
          d.get(d.w - 1 - x, y, b);
          d.put(x, y, b);
          d.put(d.w - 1 - x, y, a);
        }
      break;
    case K_REV_V:
      for (int64_t y = 0; y < d.h / 2; y++)
        for (int64_t x = 0; x < d.w; x++) {
          uint64_t a[4], b[4];
          d.get(x, y, a);
          d.get(x, d.h - 1 - y, b);
          d.put(x, y, b);
          d.put(x, d.h - 1 - y, a);
        }
      break;
    case K_INVERT:
      for (int64_t y = 0; y < d.h; y++)
        for (int64_t x = 0; x < d.w; x++) {
          uint64_t a[4];
          d.get(x, y, a);
          // channel -> maximum - channel; a stored value above the canvas' own maximum has no complement: not demanded
          if (a[0] > d.maxv || a[1] > d.maxv || a[2] > d.maxv || a[3] > d.maxv) { d.mark(x, y, ANY); continue; }
          for (int k = 0; k < 4; k++) a[k] = d.maxv - a[k];
          d.put(x, y, a);
        }
      break;
    case K_RESIZE:
      // memory safety / exception type / containment only
      for (int64_t dy = 0; dy < d.h; dy++)
        for (int64_t dx = 0; dx < d.w; dx++)
          if (dx - o.x >= 0 && dx - o.x < o.w && dy - o.y >= 0 && dy - o.y < o.h) d.mark(dx, dy, ANY);
      break;
    default:
      break;
  }
  return calls_exact;
}


// ------------------------------------------------------------------------------------------------
// whole-canvas format changes (the model is carried ACROSS them: maxv always follows the new width)

// set_channel_width: widening copies the value into every lower slice ("the now-high bits to the
// lower bits"), narrowing keeps the high bits (rule documented in Image::set_channel_width).
static inline void model_set_width(Canvas& c, int nw) {
  if (nw == c.cw) return;  // same width: nothing happens, the maximum stays
  Canvas n;
  n.init(c.w, c.h, c.alpha, nw);  // new maximum = 2^nw-1
  for (size_t i = 0; i < c.v.size(); i++) {
    uint64_t v = c.v[i], r = 0;
    if (nw > c.cw) {
      for (int s = 0; s < nw; s += c.cw) r |= v << s;
    } else {
      r = v >> (c.cw - nw);
    }
    n.v[i] = r & n.mask;
  }
  c = n;
}

// set_has_alpha: colour channels preserved, a new alpha channel is fully opaque (= channel maximum)
static inline void model_set_alpha(Canvas& c, bool a) {
  if (a == c.alpha) return;
  Canvas n;
  n.init(c.w, c.h, a, c.cw, c.maxv);
  for (int64_t i = 0; i < c.w * c.h; i++) {
    for (int k = 0; k < 3; k++) n.v[(size_t)(i * n.nch + k)] = c.v[(size_t)(i * c.nch + k)];
    if (a) n.v[(size_t)(i * n.nch + 3)] = n.maxv;
  }
  c = n;
}

}  // namespace c07
