// C01: BitWriter / BitReader against a vector of bits packed MSB-first.
#pragma once

#include "c01_tables.hh"
#include "c01_script.hh"

namespace c01 {

using phosg::BitReader;
using phosg::BitWriter;

struct Field {
  size_t start;
  int n;
  uint64_t v;
};

static inline uint64_t model_bits(const std::vector<uint8_t>& m, size_t at, size_t n) {
  uint64_t v = 0;
  for (size_t i = 0; i < n; i++) v = (v << 1) | m[at + i];
  return v;
}

static void bits_case(uint64_t idx, bool verbose) {
  vf::Rng g = script_rng(4, idx);
  BitWriter w;
  std::vector<uint8_t> m;  // one entry per bit
  std::vector<Field> fields;
  std::string log;
  auto bad = [&](const std::string& key, const std::string& what, const std::string& detail) {
    C->violation(key, what, case_id("bits", idx) + " ops: " + (log.size() > 900 ? "..." + log.substr(log.size() - 900) : log) + " :: " + detail);
  };
  int nops = 1 + (int)g.below(40);
  bool ok = true;
  for (int oi = 0; oi < nops && ok; oi++) {
    unsigned pick = (unsigned)g.below(100);
    const char* opn;
    if (pick < 55) {  // an n-bit field, most significant bit first
      int n = 1 + (int)g.below(g.chance(1, 3) ? 64 : 17);
      uint64_t v = g.interesting() & mask_bits(n);
      if (g.chance(1, 8)) v = mask_bits(n);
      if (g.chance(1, 8)) v = 1ULL << (n - 1);
      opn = "write";
      log += vf::fmt("field(%d,0x%" PRIx64 "); ", n, v);
      g_op = "BitWriter::write";
      C->crumb_n("bitwrite", idx, oi, n, v, m.size());
      fields.push_back({m.size(), n, v});
      for (int i = n - 1; i >= 0; i--) {
        bool b = (v >> i) & 1;
        vf::poison_errno();
        w.write(b);
        m.push_back(b);
        C->evaluations++;
      }
      misc(n == 1 ? "bits:write:single-bit" : n == 64 ? "bits:write:field64" : n > 32 ? "bits:write:field33-63" : n > 8 ? "bits:write:field9-32" : "bits:write:field2-8");
    } else if (pick < 75) {  // run of equal bits
      int n = 1 + (int)g.below(20);
      bool b = g.chance(1, 2);
      opn = "write";
      log += vf::fmt("run(%d,%d); ", n, (int)b);
      g_op = "BitWriter::write";
      C->crumb_n("bitrun", idx, oi, n, b, m.size());
      fields.push_back({m.size(), n, b ? mask_bits(n) : 0});
      for (int i = 0; i < n; i++) {
        vf::poison_errno();
        w.write(b);
        m.push_back(b);
        C->evaluations++;
      }
      misc(b ? "bits:write:run-of-ones" : "bits:write:run-of-zeros");
    } else if (pick < 97) {  // truncate to <= size
      size_t S = m.size(), n;
      switch (g.below(5)) {
        case 0: n = S; break;
        case 1: n = S ? S - 1 : 0; break;
        case 2: n = S & ~(size_t)7; break;
        case 3: n = g.chance(1, 4) ? 0 : g.below(S + 1); break;
        default: n = S > 8 ? S - 1 - g.below(8) : g.below(S + 1); break;
      }
      opn = "truncate";
      log += vf::fmt("truncate(%zu); ", n);
      g_op = "BitWriter::truncate";
      C->crumb_n("bittruncate", idx, oi, n, S);
      w.truncate(n);
      C->evaluations++;
      m.resize(n);
      while (!fields.empty() && fields.back().start >= n) fields.pop_back();
      if (!fields.empty() && fields.back().start + fields.back().n > n) {
        Field& f = fields.back();
        int keep = (int)(n - f.start);
        f.v >>= (f.n - keep);
        f.n = keep;
      }
      misc(n == S ? "bits:truncate:same" : n == 0 ? "bits:truncate:to-zero" : (n & 7) ? "bits:truncate:mid-byte" : "bits:truncate:byte-boundary");
    } else {
      opn = "reset";
      log += "reset(); ";
      g_op = "BitWriter::reset";
      w.reset();
      C->evaluations++;
      m.clear();
      fields.clear();
      misc("bits:reset");
    }
    if (verbose) fprintf(stderr, "  op %d: %s -> %zu bits\n", oi, opn, m.size());
    g_op = "BitWriter::size/str";
    const std::string& s = w.str();
    if (w.size() != m.size()) {
      bad(std::string("BitWriter:") + opn + ":size", "size() differs from the number of bits written", vf::fmt("size()=%zu expected %zu", w.size(), m.size()));
      ok = false;
    } else if (s.size() != (m.size() + 7) / 8) {
      bad(std::string("BitWriter:") + opn + ":byte-count", "str() does not hold ceil(bits/8) bytes", vf::fmt("str().size()=%zu for %zu bits", s.size(), m.size()));
      ok = false;
    } else {
      for (size_t i = 0; i < m.size(); i++) {
        unsigned got = ((uint8_t)s[i >> 3] >> (7 - (i & 7))) & 1;
        if (got != m[i]) {
          bad(std::string("BitWriter:") + opn + ":bits", "a written bit is not at its MSB-first position in str()", vf::fmt("bit %zu of %zu is %u expected %u; str()=%s", i, m.size(), got, (unsigned)m[i], vf::hex(s).c_str()));
          ok = false;
          break;
        }
      }
    }
  }
  if (!ok) return;

  // ---- read back
  const std::string& s = w.str();
  const size_t nbits = m.size();
  std::shared_ptr<std::string> owned;
  std::unique_ptr<uint8_t[]> exact;
  std::unique_ptr<std::string> decoy;
  BitReader r;
  int ctor = (int)g.below(3);
  g_op = "BitReader::ctor";
  if (ctor == 0) {
    r = BitReader(s);
    if (r.size() != s.size() * 8) bad("BitReader:size", "BitReader(string).size() != 8 * bytes", vf::fmt("%zu vs %zu bytes", r.size(), s.size()));
    r.truncate(nbits);
    misc("bits:reader:ctor(string)+truncate");
  } else if (ctor == 1) {
    exact.reset(new uint8_t[s.size()]);
    if (s.size()) memcpy(exact.get(), s.data(), s.size());
    r = BitReader(exact.get(), nbits);
    misc("bits:reader:ctor(ptr,bits)");
  } else {
    owned = std::make_shared<std::string>(s);
    size_t st = g.below(nbits + 1);
    {
      vf::poison_errno();
      BitReader tmp(owned, st);
      owned.reset();  // the reader alone keeps the bytes alive from here on
      r = tmp;
    }
    decoy.reset(new std::string(s.size(), '\xDD'));
    if (r.where() != st) bad("BitReader:ctor-offset", "constructor offset not honoured", vf::fmt("%zu vs %zu", r.where(), st));
    r.go(0);
    r.truncate(nbits);
    misc("bits:reader:ctor(shared_ptr,offset):caller-reference-dropped");
  }
  size_t cur = 0;
  auto observers = [&](const char* after) {
    g_op = "BitReader::where/size/remaining/eof";
    if (r.where() != cur) {
      bad(std::string("BitReader:") + after + ":advance", "bit cursor differs from the model", vf::fmt("after %s where()=%zu expected %zu", after, r.where(), cur));
      r.go(cur);
    }
    if (r.size() != nbits || r.remaining() != nbits - cur || r.eof() != (cur >= nbits))
      bad("BitReader:observers", "size()/remaining()/eof() inconsistent with the model", vf::fmt("after %s size()=%zu remaining()=%zu eof()=%d; model %zu/%zu", after, r.size(), r.remaining(), (int)r.eof(), cur, nbits));
  };
  observers("ctor");
  // 1. the fields that were written, in order, with the width they were written with
  bool tiled = true;
  size_t expect_start = 0;
  for (auto& f : fields) {
    if (f.start != expect_start) tiled = false;
    expect_start = f.start + f.n;
  }
  if (tiled && expect_start == nbits) {
    for (auto& f : fields) {
      if (f.n == 0) continue;
      bool peek = g.chance(1, 4);
      for (int pass = peek ? 0 : 1; pass < 2; pass++) {
        g_op = "BitReader::read";
        C->crumb_n("bitread", idx, cur, f.n, pass, nbits);
        uint64_t got = r.read((uint8_t)f.n, pass == 1);
        C->evaluations++;
        if (got != f.v) bad("BitReader:read:value", "field read back differs from the field written", vf::fmt("read(%d) at bit %zu = 0x%" PRIx64 " expected 0x%" PRIx64 "; bytes %s", f.n, cur, got, f.v, vf::hex(s).c_str()));
        if (pass) cur += f.n;
        observers(pass ? "read" : "read(advance=false)");
      }
      misc("bits:read:field-roundtrip");
    }
  } else {
    fprintf(stderr, "[harness-error] bit fields do not tile the stream\n");
    exit(2);
  }
  // 2. random access
  int nr = 6 + (int)g.below(16);
  for (int i = 0; i < nr; i++) {
    int op = (int)g.below(6);
    C->evaluations++;
    if (op == 0) {
      size_t to = g.below(nbits + 1);
      g_op = "BitReader::go";
      r.go(to);
      cur = to;
      observers("go");
      misc("bits:go");
    } else if (op == 1) {
      size_t n = g.below(nbits - cur + 1);
      g_op = "BitReader::skip";
      r.skip(n);
      cur += n;
      observers("skip");
      misc("bits:skip");
    } else if (op == 2 || op == 3) {
      size_t room = nbits - cur;
      size_t n = g.below((room < 64 ? room : 64) + 1);
      bool adv = op == 2;
      g_op = "BitReader::read";
      C->crumb_n("bitread", idx, cur, n, adv, nbits);
      uint64_t got = n == 1 && g.chance(1, 2) && adv ? r.read() : r.read((uint8_t)n, adv);
      uint64_t exp = model_bits(m, cur, n);
      if (got != exp) bad("BitReader:read:value", "bits read differ from the MSB-first decoder", vf::fmt("read(%zu,%d) at bit %zu = 0x%" PRIx64 " expected 0x%" PRIx64 "; bytes %s", n, (int)adv, cur, got, exp, vf::hex(s).c_str()));
      if (adv) cur += n;
      observers(adv ? "read" : "read(advance=false)");
      misc(n == 0 ? "bits:read:0" : n == 64 ? "bits:read:64" : (cur & 7) ? "bits:read:unaligned" : "bits:read:aligned-end");
    } else {
      size_t at = g.below(nbits + 1);
      size_t room = nbits - at;
      size_t n = g.below((room < 64 ? room : 64) + 1);
      g_op = "BitReader::pread";
      C->crumb_n("bitpread", idx, at, n, nbits);
      uint64_t got = r.pread(at, (uint8_t)n);
      uint64_t exp = model_bits(m, at, n);
      if (got != exp) bad("BitReader:pread:value", "bits read differ from the MSB-first decoder", vf::fmt("pread(%zu,%zu) = 0x%" PRIx64 " expected 0x%" PRIx64 "; bytes %s", at, n, got, exp, vf::hex(s).c_str()));
      observers("pread");
      misc("bits:pread");
    }
  }
  if (idx < 2) C->sample("bit script: " + log + "=> " + vf::hex(s));
}

}  // namespace c01
