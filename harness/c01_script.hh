// C01: writer scripts (StringWriter / BufferWriter) checked against a shadow byte vector after every call,
// then replayed through StringReader in sequential, reverse-positional and random-positional order.
#pragma once

#include "c01_tables.hh"

namespace c01 {

enum { K_RAW = -1, K_CSTR = -2, K_LINE = -3 };

struct Seg {
  size_t off, len;
  int kind;       // >= 0: WK index
  uint64_t bits;  // typed: value written
  bool clobbered; // partially overwritten later: expected value comes from the decoder over the shadow
  int term;       // K_LINE: terminator length (0 = unterminated last line, 1 = "\n", 2 = "\r\n"); K_CSTR: 1
};

enum { OP_PUT, OP_PPUT, OP_WRITE_PTR, OP_WRITE_STR, OP_EXTEND_TO, OP_EXTEND_BY, OP_RESET, OP_CSTR, OP_LINE, OP_PWRITE_PTR, OP_PWRITE_STR, OP_WRITE_SELF_PTR, OP_WRITE_SELF_STR, OP_PUT_SELF, OP_PPUT_SELF };
struct OpRec {
  int op, kind;
  uint64_t a, b;
};

// Typed values passed BY REFERENCE into the writer's own buffer (reference obtained from a reader over w.str()).
struct SelfT {
  const char* name;
  size_t W;
  void (*put)(StringWriter&, size_t k);
  void (*pput)(StringWriter&, size_t off, size_t k);
};
#define S_(T)                                                                                                  \
  {#T, sizeof(T),                                                                                              \
      [](StringWriter& w, size_t k) { StringReader rd(w.str()); w.put<T>(rd.pget<T>(k)); },                    \
      [](StringWriter& w, size_t off, size_t k) { StringReader rd(w.str()); w.pput<T>(off, rd.pget<T>(k)); }},
static const SelfT SELF[] = {S_(uint8_t) S_(phosg::be_uint16_t) S_(phosg::le_uint32_t) S_(phosg::re_float)
    S_(phosg::be_uint64_t) S_(phosg::le_double) S_(Packed<uint32_t>)};
static const int NSELF = sizeof(SELF) / sizeof(SELF[0]);
#undef S_

// sub-range [k, k+n) of S > 0 existing bytes: 0 whole, 1 prefix, 2 middle, 3 suffix; `need` > 0 asks for at least that many bytes
static const char* const SHAPE_NAME[4] = {"whole", "prefix", "middle", "suffix"};
static void pick_self_range(vf::Rng& g, size_t S, int shape, size_t need, size_t& k, size_t& n) {
  if (need > S) need = 0;
  size_t lo = need ? need : 1;
  switch (shape) {
    case 0: k = 0; n = S; break;
    case 1: k = 0; n = lo + g.below(S - lo + 1); break;
    case 2: n = lo + g.below(S - lo + 1); k = g.below(S - n + 1); break;
    default: n = lo + g.below(S - lo + 1); k = S - n; break;
  }
}
static std::string alias_class(const char* op, size_t S, size_t n, size_t cap) {
  return vf::fmt("alias:%s:%s:%s", op, S + n > cap ? "reallocates" : "fits-capacity", cap <= 15 ? "sso" : "heap");
}

static void note_raw_overwrite(std::vector<struct Seg>& segs, size_t off, size_t W, size_t oldsize);

static std::string fmt_op(const OpRec& o) {
  switch (o.op) {
    case OP_PUT: return vf::fmt("put_%s(0x%" PRIx64 ")", WK[o.kind].name, o.b);
    case OP_PPUT: return vf::fmt("pput_%s(%" PRIu64 ",0x%" PRIx64 ")", WK[o.kind].name, o.a, o.b);
    case OP_WRITE_PTR: return vf::fmt("write(ptr,%" PRIu64 ")", o.a);
    case OP_WRITE_STR: return vf::fmt("write(str[%" PRIu64 "])", o.a);
    case OP_EXTEND_TO: return vf::fmt("extend_to(%" PRIu64 ",0x%02x)", o.a, (unsigned)o.b);
    case OP_EXTEND_BY: return vf::fmt("extend_by(%" PRIu64 ",0x%02x)", o.a, (unsigned)o.b);
    case OP_RESET: return "reset()";
    case OP_CSTR: return vf::fmt("write(cstr[%" PRIu64 "]+NUL)", o.a);
    case OP_LINE: return vf::fmt("write(line[%" PRIu64 "]+term%" PRIu64 ")", o.a, o.b);
    case OP_PWRITE_PTR: return vf::fmt("pwrite(%" PRIu64 ",ptr,%" PRIu64 ")", o.a, o.b);
    case OP_WRITE_SELF_PTR: return vf::fmt("write(str().data()+%" PRIu64 ",%" PRIu64 ")", o.a, o.b);
    case OP_WRITE_SELF_STR: return vf::fmt("write(str()) [%" PRIu64 " bytes]", o.b);
    case OP_PUT_SELF: return vf::fmt("put<%s>(reader(str()).pget<T>(%" PRIu64 "))", SELF[o.kind].name, o.a);
    case OP_PPUT_SELF: return vf::fmt("pput<%s>(%" PRIu64 ", reader(str()).pget<T>(%" PRIu64 "))", SELF[o.kind].name, o.a, o.b);
    case OP_PWRITE_STR: return vf::fmt("pwrite(%" PRIu64 ",str[%" PRIu64 "])", o.a, o.b);
  }
  return "?";
}

static std::string fmt_ops(const std::vector<OpRec>& ops) {
  std::string s;
  size_t from = ops.size() > 10 ? ops.size() - 10 : 0;
  if (from) s += vf::fmt("...%zu earlier ops; ", from);
  for (size_t i = from; i < ops.size(); i++) s += fmt_op(ops[i]) + "; ";
  return s;
}

static inline vf::Rng script_rng(uint64_t part, uint64_t idx) {
  return vf::Rng(C->seed * 0x100000001B3ULL + part * 0x9E3779B1ULL + idx * 2654435761ULL + 12345);
}

static std::string case_id(const char* part, uint64_t idx) {
  return vf::fmt("part=%s script=%" PRIu64 " seed=%" PRIu64 " tier=%s (single-case replay: --arg only=%s --arg script=%" PRIu64 ")",
      part, idx, C->seed, C->tier.c_str(), part, idx);
}

// Text fragments ------------------------------------------------------------------------------
static std::string gen_cstr_body(vf::Rng& r) {
  size_t n = r.chance(1, 6) ? 0 : r.below(14);
  std::string s(n, 'x');
  for (auto& ch : s) {
    uint8_t b = r.chance(1, 4) ? (uint8_t)r.next() : (uint8_t)("abcXYZ 09\n\r\t\x7F\x80\xFF"[r.below(16)]);
    if (!b) b = 0x01;
    ch = (char)b;
  }
  return s;
}

// line content: no '\n', no "\r\r", does not end in '\r' (so "content + CRLF" is unambiguous)
static std::string gen_line_body(vf::Rng& r) {
  size_t n = r.chance(1, 6) ? 0 : r.below(18);
  std::string s(n, 'x');
  for (auto& ch : s) {
    uint8_t b = r.chance(1, 4) ? (uint8_t)r.next() : (uint8_t)("abcXYZ 09\r\t\x7F\x80\xFF,;"[r.below(17)]);
    if (b == '\n') b = 'n';
    ch = (char)b;
  }
  for (size_t i = 0; i < s.size(); i++)
    if (s[i] == '\r' && (i + 1 == s.size() || s[i + 1] == '\r')) s[i] = 'R';
  return s;
}

// Read phase ----------------------------------------------------------------------------------
struct ReadCtx {
  const char* part;
  uint64_t idx;
  const std::vector<OpRec>* ops;
};

static void rviol(const ReadCtx& rc, const std::string& key, const std::string& what, const std::string& detail) {
  C->violation(key, what, case_id(rc.part, rc.idx) + " after " + fmt_ops(*rc.ops) + " :: " + detail);
}

// one typed read (get with optional peek first) at model cursor `cur`; returns false if the reader had to be resynchronised
static void typed_get(const ReadCtx& rc, StringReader& r, const uint8_t* sh, size_t size, size_t cur, int k, bool have_written,
    uint64_t written_bits, bool do_peek) {
  const RKind& K = RK[k];
  uint64_t exp = expect_read(K, sh + cur);
  if (have_written) {
    // direct round trip: what the matching put_* was given (signed kinds have retbits == 8*width, so the pattern is the value)
    uint64_t wexp = written_bits & mask_bits(8 * K.width);
    if (wexp != (exp & mask_bits(8 * K.width))) {
      fprintf(stderr, "[harness-error] shadow decoder disagrees with recorded value (%s at %zu)\n", K.name, cur);
      exit(2);
    }
  }
  if (do_peek) {
    g_op = K.gname;
    C->crumb_n(K.gname, rc.idx, cur, 0, size);
    uint64_t got = K.get(r, false, cur) & mask_bits(K.retbits);
    C->evaluations++;
    cov_r[1][k]++;
    if (got != exp)
      rviol(rc, std::string(K.gname) + ":value", "value returned (advance=false) differs from the independent decoder",
          vf::fmt("%s(false) at offset %zu returned 0x%" PRIx64 " expected 0x%" PRIx64 "; bytes %s", K.gname, cur, got, exp, hexwin(sh, size, cur, 8).c_str()));
    if (r.where() != cur) {
      rviol(rc, std::string(K.gname) + ":peek-moved-cursor", "get with advance=false moved the cursor",
          vf::fmt("%s(false) at offset %zu left where()=%zu", K.gname, cur, r.where()));
      r.go(cur);
    }
  }
  g_op = K.gname;
  C->crumb_n(K.gname, rc.idx, cur, 1, size);
  uint64_t got = K.get(r, true, cur) & mask_bits(K.retbits);
  C->evaluations++;
  cov_r[0][k]++;
  if (got != exp)
    rviol(rc, std::string(K.gname) + ":value", "value read back differs from the value written / the independent decoder",
        vf::fmt("%s() at offset %zu returned 0x%" PRIx64 " expected 0x%" PRIx64 "; bytes %s", K.gname, cur, got, exp, hexwin(sh, size, cur, 8).c_str()));
  if (r.where() != cur + K.width) {
    rviol(rc, std::string(K.gname) + ":advance", "cursor advance differs from the encoded width",
        vf::fmt("%s() at offset %zu advanced to %zu, encoded width %d", K.gname, cur, r.where(), K.width));
    r.go(cur + K.width);
  }
}

static void typed_pget(const ReadCtx& rc, StringReader& r, const uint8_t* sh, size_t size, size_t off, int k) {
  const RKind& K = RK[k];
  uint64_t exp = expect_read(K, sh + off);
  size_t before = r.where();
  g_op = K.pname;
  C->crumb_n(K.pname, rc.idx, off, 0, size);
  uint64_t got = K.pget(r, off) & mask_bits(K.retbits);
  C->evaluations++;
  cov_r[2][k]++;
  if (got != exp)
    rviol(rc, std::string(K.pname) + ":value", "positional read differs from the independent decoder",
        vf::fmt("%s(%zu) returned 0x%" PRIx64 " expected 0x%" PRIx64 "; bytes %s", K.pname, off, got, exp, hexwin(sh, size, off, 8).c_str()));
  if (r.where() != before) {
    rviol(rc, std::string(K.pname) + ":moved-cursor", "positional read moved the cursor", vf::fmt("%s(%zu): where() %zu -> %zu", K.pname, off, before, r.where()));
    r.go(before);
  }
}

static void raw_read(const ReadCtx& rc, vf::Rng& g, StringReader& r, const uint8_t* sh, size_t size, size_t cur, size_t len) {
  int how = (int)g.below(7);
  std::string got;
  const char* nm = "";
  C->evaluations++;
  switch (how) {
    case 0:
      g_op = nm = "readx(size)";
      C->crumb_n(nm, rc.idx, cur, len, size);
      got = r.readx(len);
      break;
    case 1:
      g_op = nm = "read(size)";
      C->crumb_n(nm, rc.idx, cur, len, size);
      got = r.read(len);
      break;
    case 2: {
      g_op = nm = "read(ptr,size)";
      C->crumb_n(nm, rc.idx, cur, len, size);
      std::unique_ptr<char[]> b(new char[len]);
      size_t n = r.read(b.get(), len);
      got.assign(b.get(), n <= len ? n : len);
      if (n != len) rviol(rc, "read(ptr,size):count", "in-range read returned a different byte count", vf::fmt("read(ptr,%zu) at %zu of %zu returned %zu", len, cur, size, n));
      break;
    }
    case 3: {
      if (len == 0 && cur >= size) {  // zero-byte checked read at the very end: not exercised (see notes)
        r.skip(0);
        return;
      }
      g_op = nm = "readx(ptr,size)";
      C->crumb_n(nm, rc.idx, cur, len, size);
      std::unique_ptr<char[]> b(new char[len]);
      r.readx(b.get(), len);
      got.assign(b.get(), len);
      break;
    }
    case 4: {
      g_op = nm = "getv(size)";
      C->crumb_n(nm, rc.idx, cur, len, size);
      const void* p = r.getv(len);
      if (p != (const void*)(g_base + cur)) rviol(rc, "getv:pointer", "getv does not point at the cursor", vf::fmt("getv(%zu) at %zu", len, cur));
      got.assign((const char*)g_base + cur, len);
      break;
    }
    case 5: {
      g_op = nm = "get<T>(advance,size)";  // raw block through the template with explicit size
      C->crumb_n(nm, rc.idx, cur, len, size);
      const char& c0 = r.get<char>(true, len);
      if ((const void*)&c0 != (const void*)(g_base + cur)) rviol(rc, "get<T>(size):pointer", "get<T>(advance,size) does not refer to the cursor", vf::fmt("len %zu at %zu", len, cur));
      got.assign((const char*)g_base + cur, len);
      break;
    }
    default:
      g_op = nm = "skip(size)";
      C->crumb_n(nm, rc.idx, cur, len, size);
      r.skip(len);
      got.assign((const char*)sh + cur, len);
      break;
  }
  cov_misc[std::string("raw:") + nm]++;
  if (got.size() != len || bytes_differ(got.data(), sh + cur, len))
    rviol(rc, std::string(nm) + ":bytes", "raw block read back differs from what was written",
        vf::fmt("%s len=%zu at %zu: got %s expected %s", nm, len, cur, vf::hex(got).c_str(), vf::hex(sh + cur, len).c_str()));
  if (r.where() != cur + len) {
    rviol(rc, std::string(nm) + ":advance", "cursor advance differs from the block length", vf::fmt("%s len=%zu at %zu: where()=%zu", nm, len, cur, r.where()));
    r.go(cur + len);
  }
}

static StringReader make_owning_reader(std::shared_ptr<std::string> p, size_t start) {
  vf::poison_errno();
  StringReader r(p, start);
  return r;  // p (this function's reference) dies here
}

static void read_phase(const ReadCtx& rc, vf::Rng& g, const uint8_t* sh, size_t size, const std::vector<Seg>& segs) {
  // three ways to put a reader over the bytes
  std::shared_ptr<std::string> owned;
  std::string held;
  std::unique_ptr<uint8_t[]> exact;
  std::unique_ptr<std::string> decoy;
  StringReader r;
  switch (g.below(3)) {
    case 0:
      held.assign((const char*)sh, size);
      g_base = (const uint8_t*)held.data();
      r = StringReader(held);
      misc("reader:ctor(string)");
      break;
    case 1:
      exact.reset(new uint8_t[size]);  // exact-size heap block: ASan sees any over-read
      if (size) memcpy(exact.get(), sh, size);
      g_base = exact.get();
      r = StringReader(exact.get(), size);
      misc("reader:ctor(ptr,size)");
      break;
    default: {
      // the reader is built by a helper and the caller's reference is dropped before anything is read:
      // the owning constructor alone must keep the bytes alive (a same-sized block is then allocated and filled)
      owned = std::make_shared<std::string>((const char*)sh, size);
      g_base = (const uint8_t*)owned->data();
      size_t start = g.chance(1, 2) ? 0 : g.below(size + 1);
      r = make_owning_reader(std::move(owned), start);
      owned.reset();
      decoy.reset(new std::string(size, '\xDD'));
      if (r.where() != start) rviol(rc, "StringReader:ctor-offset", "constructor offset not honoured", vf::fmt("start %zu where %zu", start, r.where()));
      r.go(0);
      misc("reader:ctor(shared_ptr,offset):caller-reference-dropped");
      break;
    }
  }
  if (r.size() != size) rviol(rc, "StringReader:size", "size() differs from the number of bytes written", vf::fmt("size()=%zu expected %zu", r.size(), size));

  // 1. sequential replay with the matching accessors
  size_t cur = 0;
  for (size_t si = 0; si < segs.size(); si++) {
    const Seg& s = segs[si];
    if (s.off != cur || s.off + s.len > size) {
      fprintf(stderr, "[harness-error] segment bookkeeping broken (seg %zu off %zu len %zu cur %zu size %zu)\n", si, s.off, s.len, cur, size);
      exit(2);
    }
    if (r.where() != cur) {
      rviol(rc, "StringReader:where", "where() differs from the model cursor", vf::fmt("where()=%zu expected %zu", r.where(), cur));
      r.go(cur);
    }
    if (s.kind >= 0) {
      typed_get(rc, r, sh, size, cur, WK[s.kind].rk, !s.clobbered, s.bits, g.chance(1, 4));
    } else if (s.kind == K_CSTR && !s.clobbered) {
      bool peek = g.chance(1, 4);
      std::string exp((const char*)sh + cur, s.len - 1);
      for (int pass = peek ? 0 : 1; pass < 2; pass++) {
        g_op = "get_cstr";
        C->crumb_n("get_cstr", rc.idx, cur, pass, size);
        std::string got = r.get_cstr(pass == 1);
        C->evaluations++;
        misc(pass ? "cstr:get_cstr" : "cstr:get_cstr(peek)");
        if (got != exp)
          rviol(rc, "get_cstr:value", "NUL-terminated string read back differs", vf::fmt("at %zu got %s expected %s", cur, vf::hex(got).c_str(), vf::hex(exp).c_str()));
        size_t want = pass ? cur + s.len : cur;
        if (r.where() != want) {
          rviol(rc, pass ? "get_cstr:advance" : "get_cstr:peek-moved-cursor", "cursor after get_cstr differs from string length + NUL",
              vf::fmt("at %zu len %zu advance=%d where()=%zu expected %zu", cur, s.len - 1, pass, r.where(), want));
          r.go(want);
        }
      }
    } else if (s.kind == K_LINE && !s.clobbered) {
      bool peek = g.chance(1, 4);
      std::string exp((const char*)sh + cur, s.len - s.term);
      for (int pass = peek ? 0 : 1; pass < 2; pass++) {
        g_op = "get_line";
        C->crumb_n("get_line", rc.idx, cur, pass, size);
        std::string got = r.get_line(pass == 1);
        C->evaluations++;
        misc(s.term == 0 ? "line:unterminated-last" : s.term == 1 ? "line:LF" : "line:CRLF");
        if (got != exp)
          rviol(rc, "get_line:value", "line read back differs from the line written", vf::fmt("at %zu term %d got %s expected %s", cur, s.term, vf::hex(got).c_str(), vf::hex(exp).c_str()));
        size_t want = pass ? cur + s.len : cur;
        if (r.where() != want) {
          if (pass && s.term == 0 && r.where() > size)
            rviol(rc, "get_line:unterminated-last-line:cursor-past-end", "after reading an unterminated last line where() > size() (advance exceeds the encoded width)",
                vf::fmt("line of %zu bytes at %zu, size()=%zu, where()=%zu, remaining()=%zu", s.len, cur, size, r.where(), r.remaining()));
          else
            rviol(rc, pass ? "get_line:advance" : "get_line:peek-moved-cursor", "cursor after get_line differs from line length + terminator",
                vf::fmt("at %zu len %zu term %d advance=%d where()=%zu expected %zu", cur, s.len - s.term, s.term, pass, r.where(), want));
          r.go(want);
        }
      }
    } else {
      raw_read(rc, g, r, sh, size, cur, s.len);
    }
    cur += s.len;
  }
  if (cur != size) {
    fprintf(stderr, "[harness-error] segments do not tile the buffer (%zu != %zu)\n", cur, size);
    exit(2);
  }
  g_op = "eof/remaining";
  if (!r.eof() || r.remaining() != 0)
    rviol(rc, "StringReader:eof-after-all-reads", "after reading every written item the reader is not at its end", vf::fmt("where()=%zu size()=%zu eof=%d remaining=%zu", r.where(), r.size(), (int)r.eof(), r.remaining()));

  // 2. reverse positional
  for (size_t si = segs.size(); si-- > 0;) {
    const Seg& s = segs[si];
    if (s.kind >= 0) {
      typed_pget(rc, r, sh, size, s.off, WK[s.kind].rk);
    } else if (s.kind == K_CSTR && !s.clobbered) {
      g_op = "pget_cstr";
      C->crumb_n("pget_cstr", rc.idx, s.off, 0, size);
      std::string got = r.pget_cstr(s.off);
      C->evaluations++;
      misc("cstr:pget_cstr");
      if (got != std::string((const char*)sh + s.off, s.len - 1))
        rviol(rc, "pget_cstr:value", "NUL-terminated string read back differs", vf::fmt("at %zu got %s", s.off, vf::hex(got).c_str()));
    } else if (s.len) {
      g_op = "preadx";
      C->crumb_n("preadx", rc.idx, s.off, s.len, size);
      std::string got = g.chance(1, 2) ? r.preadx(s.off, s.len) : r.pread(s.off, s.len);
      C->evaluations++;
      misc("raw:pread/preadx");
      if (got.size() != s.len || bytes_differ(got.data(), sh + s.off, s.len))
        rviol(rc, "pread:bytes", "positional raw read differs from what was written", vf::fmt("at %zu len %zu got %s", s.off, s.len, vf::hex(got).c_str()));
    }
  }

  // 3. random positional: any accessor kind at any in-range offset against the decoder
  size_t nrand = 4 + g.below(12);
  for (size_t i = 0; i < nrand && size; i++) {
    int k = (int)g.below(NRK);
    if ((size_t)RK[k].width > size) continue;
    size_t off = g.below(size - RK[k].width + 1);
    if (g.chance(1, 3)) {
      r.go(off);
      typed_get(rc, r, sh, size, off, k, false, 0, g.chance(1, 2));
    } else {
      typed_pget(rc, r, sh, size, off, k);
    }
  }
}

// Writer side ---------------------------------------------------------------------------------
static void note_pput(std::vector<Seg>& segs, size_t off, size_t W, int kind, uint64_t bits, size_t oldsize) {
  for (auto& s : segs) {
    if (s.off == off && s.len == W && s.kind >= 0) {
      s.kind = kind;
      s.bits = bits;
      s.clobbered = false;
    } else if (s.len && s.off < off + W && off < s.off + s.len) {
      s.clobbered = true;
    }
  }
  if (off + W > oldsize) {
    if (off >= oldsize) {
      if (off > oldsize) segs.push_back({oldsize, off - oldsize, K_RAW, 0, false, 0});
      segs.push_back({off, W, kind, bits, false, 0});
    } else {
      segs.push_back({oldsize, off + W - oldsize, K_RAW, 0, true, 0});
    }
  }
}

static void note_raw_overwrite(std::vector<Seg>& segs, size_t off, size_t W, size_t oldsize) {
  for (auto& s : segs)
    if (W && s.len && s.off < off + W && off < s.off + s.len) s.clobbered = true;
  if (off + W > oldsize) {
    if (off >= oldsize) {
      if (off > oldsize) segs.push_back({oldsize, off - oldsize, K_RAW, 0, false, 0});
      segs.push_back({off, W, K_RAW, 0, true, 0});
    } else {
      segs.push_back({oldsize, off + W - oldsize, K_RAW, 0, true, 0});
    }
  }
}

// returns false when the writer's bytes differ from the shadow (script is abandoned: no cascades)
static bool check_sw(const char* part, uint64_t idx, const std::vector<OpRec>& ops, const std::string& opname, const std::string& got,
    size_t reported_size, const std::vector<uint8_t>& sh, size_t gap_from, size_t gap_to) {
  if (got.size() == sh.size() && reported_size == sh.size() && (sh.empty() || !bytes_differ(got.data(), sh.data(), sh.size()))) return true;
  std::string id = case_id(part, idx) + " ops: " + fmt_ops(ops) + " :: ";
  if (got.size() != sh.size() || reported_size != sh.size()) {
    C->violation(opname + ":size", "buffer length after the call differs from the sum of encoded widths",
        id + vf::fmt("str().size()=%zu size()=%zu expected %zu", got.size(), reported_size, sh.size()));
    return false;
  }
  size_t d = 0;
  while (d < sh.size() && (uint8_t)got[d] == sh[d]) d++;
  bool in_gap = d >= gap_from && d < gap_to;
  C->violation(opname + (in_gap ? ":zero-extension" : ":bytes"),
      in_gap ? "positional write past the end did not zero-fill the gap" : "bytes produced differ from the independent encoder",
      id + vf::fmt("first difference at %zu: got %s expected %s", d, hexwin((const uint8_t*)got.data(), got.size(), d, 10).c_str(), hexwin(sh.data(), sh.size(), d, 10).c_str()));
  return false;
}

static void sw_script(uint64_t idx, bool verbose) {
  vf::Rng g = script_rng(1, idx);
  StringWriter w;
  std::vector<uint8_t> sh;
  std::vector<Seg> segs;
  std::vector<OpRec> ops;
  int nops = 1 + (int)g.below(64);
  bool ok = true;
  for (int oi = 0; oi < nops && ok; oi++) {
    unsigned pick = (unsigned)g.below(100);
    size_t S = sh.size();
    size_t gap_from = 0, gap_to = 0;
    std::string opname;
    bool last = (oi == nops - 1);
    if (pick < 40) {  // put
      int k = (int)g.below(NWK);
      const WKind& K = WK[k];
      Val v = gen_val(g, K.base, K.width);
      ops.push_back({OP_PUT, k, 0, v.bits});
      opname = std::string("StringWriter:put_") + K.name;
      g_op = "StringWriter::put_*";
      C->crumb_n(K.name, idx, oi, OP_PUT, v.bits, S);
      K.sw_put(w, v.bits);
      sh.resize(S + K.width);
      enc(&sh[S], v.bits, K.width, K.order);
      segs.push_back({S, (size_t)K.width, k, v.bits, false, 0});
      cov_w[0][0][k]++;
      cov_val[K.base][v.vc]++;
    } else if (pick < 66) {  // pput
      int k = (int)g.below(NWK);
      const WKind& K = WK[k];
      size_t W = K.width;
      Val v = gen_val(g, K.base, K.width);
      int pos = (int)g.below(5);
      size_t off = S;
      if (pos == 0) {
        std::vector<size_t> cand;
        for (auto& s : segs)
          if (s.kind >= 0 && s.len == W) cand.push_back(s.off);
        if (cand.empty()) pos = 3;
        else off = cand[g.below(cand.size())];
      }
      if (pos == 1) {
        if (S >= W) off = g.below(S - W + 1);
        else pos = 3;
      }
      if (pos == 2) {
        if (W >= 2 && S >= 1) {
          size_t lo = S >= W - 1 ? S - (W - 1) : 0;
          off = lo + g.below(S - lo);  // lo <= off <= S-1, off + W > S
        } else pos = 3;
      }
      if (pos == 3) off = S;
      if (pos == 4) off = S + 1 + (g.chance(1, 3) ? g.below(8) : g.below(256));
      ops.push_back({OP_PPUT, k, off, v.bits});
      opname = std::string("StringWriter:pput_") + K.name;
      g_op = "StringWriter::pput_*";
      C->crumb_n(K.name, idx, oi, OP_PPUT, v.bits, S, off);
      K.sw_pput(w, off, v.bits);
      if (off + W > S) sh.resize(off + W, 0);
      if (off > S) {
        gap_from = S;
        gap_to = off;
      }
      enc(&sh[off], v.bits, K.width, K.order);
      note_pput(segs, off, W, k, v.bits, S);
      cov_w[0][1][k]++;
      cov_val[K.base][v.vc]++;
      cov_pos[0][pos]++;
    } else if (pick < 72 && S > 0) {  // raw block that lives inside the writer's own buffer
      bool sform = pick >= 70;  // write(w.str()): the const std::string& overload given the writer's own string
      size_t cap = w.str().capacity();
      size_t need = (g.chance(1, 2) && cap >= S) ? cap - S + 1 : 0;  // half of the time: large enough to outgrow the capacity
      int shape = sform ? 0 : (int)g.below(4);
      size_t k = 0, n = S;
      pick_self_range(g, S, shape, need, k, n);
      std::vector<uint8_t> snap(sh.begin() + k, sh.begin() + k + n);  // value of the block BEFORE the call
      ops.push_back({sform ? OP_WRITE_SELF_STR : OP_WRITE_SELF_PTR, 0, k, n});
      opname = sform ? "StringWriter:write(string):source-inside-own-buffer" : "StringWriter:write(ptr,size):source-inside-own-buffer";
      g_op = "StringWriter::write(own bytes)";
      C->crumb_n("write_self", idx, oi, k, n, S, cap);
      if (sform) w.write(w.str());
      else w.write(w.str().data() + k, n);
      sh.insert(sh.end(), snap.begin(), snap.end());
      segs.push_back({S, n, K_RAW, 0, false, 0});
      cov_misc[alias_class(sform ? "write(string)" : "write(ptr,size)", S, n, cap)]++;
      cov_misc[std::string("alias:source-range:") + SHAPE_NAME[shape]]++;
    } else if (pick < 75 && S >= 24) {  // typed value passed by reference into the writer's own buffer
      int t = (int)g.below(NSELF);
      size_t W = SELF[t].W, cap = w.str().capacity();
      bool positional = pick >= 74;
      size_t k = g.below(S - W + 1);
      std::vector<uint8_t> snap(sh.begin() + k, sh.begin() + k + W);
      if (!positional) {
        ops.push_back({OP_PUT_SELF, t, k, 0});
        opname = "StringWriter:put<T>:reference-into-own-buffer";
        g_op = "StringWriter::put<T>(own bytes)";
        C->crumb_n("put_self", idx, oi, t, k, S, cap);
        SELF[t].put(w, k);
        sh.insert(sh.end(), snap.begin(), snap.end());
        segs.push_back({S, W, K_RAW, 0, false, 0});
        cov_misc[alias_class("put<T>", S, W, cap)]++;
      } else {
        // in place, destination disjoint from the source; the growing variant only with --arg alias_pput=1 (see notes)
        size_t off = 0;
        bool grow = g_alias_pput && g.chance(1, 2);
        if (grow) {
          off = g.chance(1, 2) ? S - g.below(W) : S + g.below(40);
          if (k + W > off) k = off >= W ? g.below(off - W + 1) : 0;
          if (k + W > off || k + W > S) { grow = false; }
          else snap.assign(sh.begin() + k, sh.begin() + k + W);
        }
        if (!grow) {
          bool found = false;
          for (int tries = 0; tries < 16 && !found; tries++) {
            off = g.below(S - W + 1);
            found = off + W <= k || k + W <= off;
          }
          if (!found) { off = k >= W ? 0 : S - W; }
        }
        ops.push_back({OP_PPUT_SELF, t, off, k});
        opname = grow ? "StringWriter:pput<T>:reference-into-own-buffer:growing" : "StringWriter:pput<T>:reference-into-own-buffer";
        g_op = "StringWriter::pput<T>(own bytes)";
        C->crumb_n("pput_self", idx, oi, t, off, k, S);
        SELF[t].pput(w, off, k);
        if (off + W > S) sh.resize(off + W, 0);
        if (off > S) {
          gap_from = S;
          gap_to = off;
        }
        for (size_t i = 0; i < W; i++) sh[off + i] = snap[i];
        note_raw_overwrite(segs, off, W, S);
        cov_misc[grow ? alias_class("pput<T>:growing", S, off + W - S, cap) : std::string("alias:pput<T>:in-place")]++;
      }
    } else if (pick < 81) {  // raw write (pointer form)
      std::string d = g.bytes(g.chance(1, 8) ? 0 : g.below(24));
      ops.push_back({OP_WRITE_PTR, 0, d.size(), 0});
      opname = "StringWriter:write(ptr,size)";
      g_op = "StringWriter::write(ptr,size)";
      C->crumb_n("write_ptr", idx, oi, d.size());
      w.write(d.data(), d.size());
      sh.insert(sh.end(), d.begin(), d.end());
      segs.push_back({S, d.size(), K_RAW, 0, false, 0});
      misc("w:SW:write(ptr,size)");
    } else if (pick < 85) {  // raw write (string form)
      std::string d = g.bytes(g.chance(1, 8) ? 0 : g.below(24));
      ops.push_back({OP_WRITE_STR, 0, d.size(), 0});
      opname = "StringWriter:write(string)";
      g_op = "StringWriter::write(string)";
      C->crumb_n("write_str", idx, oi, d.size());
      w.write(d);
      sh.insert(sh.end(), d.begin(), d.end());
      segs.push_back({S, d.size(), K_RAW, 0, false, 0});
      misc("w:SW:write(string)");
    } else if (pick < 89) {  // NUL-terminated string
      std::string d = gen_cstr_body(g);
      ops.push_back({OP_CSTR, 0, d.size(), 0});
      opname = "StringWriter:write(cstr)";
      g_op = "StringWriter::write(cstr)";
      C->crumb_n("write_cstr", idx, oi, d.size());
      if (g.chance(1, 2)) {
        w.write(d.c_str(), d.size() + 1);
      } else {
        w.write(d);
        w.put_u8(0);
      }
      sh.insert(sh.end(), d.begin(), d.end());
      sh.push_back(0);
      segs.push_back({S, d.size() + 1, K_CSTR, 0, false, 1});
      misc(d.empty() ? "w:SW:cstr:empty" : "w:SW:cstr:nonempty");
    } else if (pick < 93) {  // text line
      std::string d = gen_line_body(g);
      int term = (last && g.chance(1, 2) && !d.empty()) ? 0 : (g.chance(1, 2) ? 1 : 2);
      ops.push_back({OP_LINE, 0, d.size(), (uint64_t)term});
      opname = "StringWriter:write(line)";
      g_op = "StringWriter::write(line)";
      C->crumb_n("write_line", idx, oi, d.size(), term);
      std::string full = d + (term == 1 ? "\n" : term == 2 ? "\r\n" : "");
      w.write(full);
      sh.insert(sh.end(), full.begin(), full.end());
      segs.push_back({S, full.size(), K_LINE, 0, false, term});
      misc(term == 0 ? "w:SW:line:unterminated" : term == 1 ? "w:SW:line:LF" : "w:SW:line:CRLF");
    } else if (pick < 96) {  // extend_to (never shrinking)
      size_t n = S + (g.chance(1, 4) ? 0 : g.below(40));
      uint8_t fill = g.chance(1, 2) ? 0 : (uint8_t)g.next();
      bool dflt = fill == 0 && g.chance(1, 2);
      ops.push_back({OP_EXTEND_TO, 0, n, fill});
      opname = "StringWriter:extend_to";
      g_op = "StringWriter::extend_to";
      C->crumb_n("extend_to", idx, oi, n, fill);
      if (dflt) w.extend_to(n);
      else w.extend_to(n, (char)fill);
      sh.resize(n, fill);
      segs.push_back({S, n - S, K_RAW, 0, false, 0});
      misc(dflt ? "w:SW:extend_to(default-fill)" : "w:SW:extend_to(fill)");
    } else if (pick < 99) {  // extend_by
      size_t n = g.chance(1, 4) ? 0 : g.below(40);
      uint8_t fill = g.chance(1, 2) ? 0 : (uint8_t)g.next();
      bool dflt = fill == 0 && g.chance(1, 2);
      ops.push_back({OP_EXTEND_BY, 0, n, fill});
      opname = "StringWriter:extend_by";
      g_op = "StringWriter::extend_by";
      C->crumb_n("extend_by", idx, oi, n, fill);
      if (dflt) w.extend_by(n);
      else w.extend_by(n, (char)fill);
      sh.resize(S + n, fill);
      segs.push_back({S, n, K_RAW, 0, false, 0});
      misc(dflt ? "w:SW:extend_by(default-fill)" : "w:SW:extend_by(fill)");
    } else {  // reset
      ops.push_back({OP_RESET, 0, 0, 0});
      opname = "StringWriter:reset";
      g_op = "StringWriter::reset";
      C->crumb_n("reset", idx, oi);
      w.reset();
      sh.clear();
      segs.clear();
      misc("w:SW:reset");
    }
    C->evaluations++;
    // an unterminated line may only be the very last thing in the buffer
    if (verbose) fprintf(stderr, "  op %d: %s -> size %zu\n", oi, fmt_op(ops.back()).c_str(), sh.size());
    ok = check_sw("sw", idx, ops, opname, w.str(), w.size(), sh, gap_from, gap_to);
  }
  if (!ok) return;
  // an unterminated line followed by anything is not a line segment any more
  for (size_t i = 0; i + 1 < segs.size(); i++)
    if (segs[i].kind == K_LINE && segs[i].term == 0) segs[i].kind = K_RAW;
  // a pput past the end may have been recorded after an unterminated line: keep segments ordered by offset
  ReadCtx rc{"sw", idx, &ops};
  read_phase(rc, g, sh.data(), sh.size(), segs);
  if (idx < 3) C->sample("StringWriter script: " + fmt_ops(ops) + vf::fmt("=> %zu bytes %s", sh.size(), vf::hex(sh.data(), sh.size() < 40 ? sh.size() : 40).c_str()));
}

static void bw_script(uint64_t idx, bool verbose) {
  vf::Rng g = script_rng(2, idx);
  size_t N = g.chance(1, 10) ? g.below(9) : g.below(400);
  std::unique_ptr<uint8_t[]> buf(new uint8_t[N]);  // exact size: ASan sees any write past the end
  std::vector<uint8_t> sh(N);
  for (size_t i = 0; i < N; i++) buf[i] = sh[i] = (uint8_t)(0xC3 ^ (i * 7));
  BufferWriter w(buf.get(), N);
  std::vector<Seg> segs;
  std::vector<OpRec> ops;
  size_t cur = 0;  // model of the writer's private cursor
  int nops = 1 + (int)g.below(64);
  bool ok = true;
  for (int oi = 0; oi < nops && ok; oi++) {
    unsigned pick = (unsigned)g.below(100);
    std::string opname;
    if (pick < 50) {  // put (when it fits)
      int k = (int)g.below(NWK);
      const WKind& K = WK[k];
      if (cur + K.width > N) {
        // try the narrowest kinds so that exact-fit endings are exercised
        k = (int)g.below(2);
        if (cur + 1 > N) continue;
      }
      const WKind& K2 = WK[k];
      Val v = gen_val(g, K2.base, K2.width);
      ops.push_back({OP_PUT, k, 0, v.bits});
      opname = std::string("BufferWriter:put_") + K2.name;
      g_op = "BufferWriter::put_*";
      C->crumb_n(K2.name, idx, oi, OP_PUT, v.bits, cur, N);
      K2.bw_put(w, v.bits);
      enc(&sh[cur], v.bits, K2.width, K2.order);
      segs.push_back({cur, (size_t)K2.width, k, v.bits, false, 0});
      cur += K2.width;
      cov_w[1][0][k]++;
      cov_val[K2.base][v.vc]++;
      if (cur == N) misc("w:BW:put:exact-fit-at-end");
    } else if (pick < 80) {  // pput anywhere in range (does not move the cursor)
      int k = (int)g.below(NWK);
      const WKind& K = WK[k];
      size_t W = K.width;
      if (W > N) continue;
      int pos = (int)g.below(3);
      size_t off = 0;
      if (pos == 0) {
        std::vector<size_t> cand;
        for (auto& s : segs)
          if (s.kind >= 0 && s.len == W) cand.push_back(s.off);
        if (cand.empty()) pos = 1;
        else off = cand[g.below(cand.size())];
      }
      if (pos == 2) off = N - W;  // last bytes of the buffer
      if (pos == 1) off = g.below(N - W + 1);
      Val v = gen_val(g, K.base, K.width);
      ops.push_back({OP_PPUT, k, off, v.bits});
      opname = std::string("BufferWriter:pput_") + K.name;
      g_op = "BufferWriter::pput_*";
      C->crumb_n(K.name, idx, oi, OP_PPUT, v.bits, off, N);
      K.bw_pput(w, off, v.bits);
      enc(&sh[off], v.bits, K.width, K.order);
      // segments: only the part below the cursor is tiled so far
      for (auto& s : segs) {
        if (s.off == off && s.len == W && s.kind >= 0) {
          s.kind = k;
          s.bits = v.bits;
          s.clobbered = false;
        } else if (s.len && s.off < off + W && off < s.off + s.len) {
          s.clobbered = true;
        }
      }
      cov_w[1][1][k]++;
      cov_val[K.base][v.vc]++;
      cov_pos[1][pos == 0 ? 0 : pos == 1 ? 1 : 3]++;
    } else if (pick < 90) {  // write / write(string)
      size_t room = N - cur;
      size_t n = g.chance(1, 8) ? 0 : g.below(24);
      if (n > room) n = room;
      std::string d = g.bytes(n);
      bool sform = g.chance(1, 2);
      if (!sform && n && cur >= n && g.chance(1, 3)) {  // source = earlier, disjoint bytes of the target buffer itself
        size_t k = g.below(cur - n + 1);
        d.assign((const char*)&sh[k], n);
        ops.push_back({OP_WRITE_SELF_PTR, 0, k, n});
        opname = "BufferWriter:write(ptr,size):source-inside-own-buffer";
        g_op = "BufferWriter::write(own bytes)";
        C->crumb_n("bw_write_self", idx, oi, k, n, cur, N);
        w.write(buf.get() + k, n);
        memcpy(&sh[cur], d.data(), n);
        segs.push_back({cur, n, K_RAW, 0, false, 0});
        cur += n;
        misc("alias:BW:write(ptr,size):disjoint-own-bytes");
      } else {
      ops.push_back({sform ? OP_WRITE_STR : OP_WRITE_PTR, 0, n, 0});
      opname = sform ? "BufferWriter:write(string)" : "BufferWriter:write(ptr,size)";
      g_op = "BufferWriter::write";
      C->crumb_n("bw_write", idx, oi, n, cur, N);
      if (sform) w.write(d);
      else w.write(d.data(), d.size());
      if (n) memcpy(&sh[cur], d.data(), n);
      segs.push_back({cur, n, K_RAW, 0, false, 0});
      cur += n;
      misc(sform ? "w:BW:write(string)" : "w:BW:write(ptr,size)");
      }
    } else {  // pwrite
      size_t n = g.chance(1, 8) ? 0 : g.below(24);
      if (n > N) n = N;
      size_t off = g.chance(1, 4) ? N - n : g.below(N - n + 1);
      std::string d = g.bytes(n);
      bool sform = g.chance(1, 2);
      ops.push_back({sform ? OP_PWRITE_STR : OP_PWRITE_PTR, 0, off, n});
      opname = sform ? "BufferWriter:pwrite(string)" : "BufferWriter:pwrite(ptr,size)";
      g_op = "BufferWriter::pwrite";
      C->crumb_n("bw_pwrite", idx, oi, off, n, N);
      if (sform) w.pwrite(off, d);
      else w.pwrite(off, d.data(), d.size());
      if (n) memcpy(&sh[off], d.data(), n);
      for (auto& s : segs)
        if (n && s.len && s.off < off + n && off < s.off + s.len) s.clobbered = true;
      misc(sform ? "w:BW:pwrite(string)" : "w:BW:pwrite(ptr,size)");
    }
    C->evaluations++;
    if (verbose) fprintf(stderr, "  op %d: %s (cursor %zu of %zu)\n", oi, fmt_op(ops.back()).c_str(), cur, N);
    if (N && bytes_differ(buf.get(), sh.data(), N)) {
      size_t d = 0;
      while (buf[d] == sh[d]) d++;
      C->violation(opname + ":bytes", "target buffer differs from the independent encoder (wrong bytes, wrong place, or untouched bytes changed)",
          case_id("bw", idx) + " ops: " + fmt_ops(ops) + vf::fmt(" :: first difference at %zu of %zu: got %s expected %s", d, N, hexwin(buf.get(), N, d, 10).c_str(), hexwin(sh.data(), N, d, 10).c_str()));
      ok = false;
    }
  }
  if (!ok) return;
  if (cur < N) segs.push_back({cur, N - cur, K_RAW, 0, true, 0});
  ReadCtx rc{"bw", idx, &ops};
  read_phase(rc, g, sh.data(), N, segs);
  if (idx < 2) C->sample("BufferWriter script over " + std::to_string(N) + " bytes: " + fmt_ops(ops));
}

}  // namespace c01
