// C14 part I (round 5): LONG histories and SIZE LADDERS.
// The exhaustive parts enumerate every short history (Poll <= 6/7 operations, scoped_fd <= 4/5 operations on two
// objects, <= 8 lines per fgets stream, a handful of directory sizes). Library algorithms change their behaviour at
// size thresholds far beyond that (std::sort switches from insertion sort to introsort above 16 elements, SSO at 15/16
// characters, hash tables rehash at 13/29/59/127/257/541 elements, vectors regrow at powers of two), so every
// sub-statement that speaks about a SET or a SEQUENCE gets a ladder here:
//   * Poll: structured and random add/remove histories of up to several hundred operations over 1..40 descriptors with
//     runs of k consecutive add() calls for every k on the ladder (1..70, 95..97, 127..129, 255..257, ...), runs of
//     removes, alternating re-adds with changing masks; observed through empty() and poll(0) (compared with ::poll on
//     the std::map model) at the end of each run, at random points, or ONLY at the very end (an observation may itself
//     normalise lazily maintained state);
//   * Poll::remove(fd,close_fd=true) in long histories (close() log vs model);
//   * list_directory / list_directory_sorted for every entry count on the ladder;
//   * unlink(recursive) on flat directories of every size on the ladder and on chains of every depth on the ladder;
//   * N scoped_fd objects living in a std::vector that regrows, erases, swaps (each descriptor closed exactly once);
//   * fgets loops over streams with N lines, N on the ladder;
//   * stream histories (cursor model of c14_hist.hh) of up to 300 calls on one stream.
// All bounds are case counts. Oracles are the same as in the short parts: map model / names created / close() log /
// bytes delivered.
#pragma once

#include <sys/resource.h>

#include "c14_misc.hh"
#include "c14_stdio.hh"
#include "c14_hist.hh"

// 1..70 densely, then every power of two / hash-table prime in reach +-1
static std::vector<int> size_ladder(int cap) {
  std::vector<int> v;
  for (int k = 1; k <= 70; k++) v.push_back(k);
  for (int b : {96, 128, 256, 300, 512, 541, 1024, 2048, 4096})
    for (int d = -1; d <= 1; d++) v.push_back(b + d);
  std::vector<int> out;
  for (int x : v)
    if (x <= cap) out.push_back(x);
  return out;
}
static const char* ladder_bucket(size_t n) {
  return n == 0 ? "0" : n <= 16 ? "1-16" : n <= 64 ? "17-64" : n <= 257 ? "65-257" : ">257";
}

// ---- Poll: long histories ---------------------------------------------------------------------------------
static const short LMASK[5] = {POLLIN, POLLOUT, (short)(POLLIN | POLLOUT), POLLPRI, 0};
static const char* LMASKN[5] = {"IN", "OUT", "IN|OUT", "PRI", "0"};

struct PollPool {
  std::vector<int> fd;            // dN -> descriptor number handed to Poll
  std::vector<const char*> kind;  // readiness kind (the kernel decides; the reference is ::poll on the model)
  std::vector<int> aux;           // peers kept open so that no HUP/ERR condition ever arises
  void close_all() {
    for (int x : fd) __real_close(x);
    for (int x : aux) __real_close(x);
    fd.clear();
    aux.clear();
  }
};

// kinds: 0 socket end readable+writable, 1 pipe read end with a byte pending (IN), 2 pipe write end with room (OUT),
// 3 pipe read end of an empty pipe (never ready), 4 write end of a full pipe (never ready), 5 /dev/null (IN and OUT)
static void pool_add(PollPool& p, int kind) {
  static const char* KN[] = {"socket:IN+OUT", "pipe-read-end:loaded:IN", "pipe-write-end:OUT", "pipe-read-end:empty:never-ready", "pipe-write-end:full:never-ready", "devnull:IN+OUT"};
  if (kind == 0) {
    int sv[2];
    if (::socketpair(AF_UNIX, SOCK_STREAM, 0, sv)) harness_fail("socketpair");
    if (::write(sv[1], "r", 1) != 1) harness_fail("write socketpair");
    p.fd.push_back(sv[0]);
    p.aux.push_back(sv[1]);
  } else if (kind == 5) {
    int f = ::open("/dev/null", O_RDWR);
    if (f < 0) harness_fail("open /dev/null");
    p.fd.push_back(f);
  } else {
    int pp[2];
    if (::pipe(pp)) harness_fail("pipe");
    if (kind == 1 && ::write(pp[1], "r", 1) != 1) harness_fail("write pipe");
    if (kind == 4) {
      fcntl(pp[1], F_SETPIPE_SZ, 4096);
      int fl = fcntl(pp[1], F_GETFL, 0);
      fcntl(pp[1], F_SETFL, fl | O_NONBLOCK);
      char blk[4096];
      memset(blk, 'f', sizeof(blk));
      for (int i = 0; i < 100000; i++)
        if (::write(pp[1], blk, sizeof(blk)) <= 0) break;
      fcntl(pp[1], F_SETFL, fl);
    }
    bool rd = kind == 1 || kind == 3;
    p.fd.push_back(rd ? pp[0] : pp[1]);
    p.aux.push_back(rd ? pp[1] : pp[0]);
  }
  p.kind.push_back(KN[kind]);
}
static void pool_shuffle(PollPool& p, vf::Rng& r) {  // numeric descriptor order must not follow the dN order
  for (size_t i = p.fd.size(); i > 1; i--) {
    size_t j = r.below(i);
    std::swap(p.fd[i - 1], p.fd[j]);
    std::swap(p.kind[i - 1], p.kind[j]);
  }
}

struct POp {
  uint8_t kind;  // 0 add, 1 remove, 2 observe empty(), 3 observe empty()+poll(0)
  uint8_t d;
  uint8_t m;
};
static inline POp padd(int d, int m) { return POp{0, (uint8_t)d, (uint8_t)m}; }
static inline POp prem(int d) { return POp{1, (uint8_t)d, 0}; }
static inline POp pobs(bool full) { return POp{(uint8_t)(full ? 3 : 2), 0, 0}; }

static string poll_long_str(const PollPool& pool, const std::vector<POp>& ops, size_t upto) {
  string s = "Poll long history ('+dN:M' = add(dN,M), '-dN' = remove(dN), '?e' = empty() observed, '?p' = empty()+poll(0) observed; final state observed with empty()+poll(0)): ";
  std::set<int> used;
  for (size_t i = 0; i < ops.size() && i <= upto; i++) {
    const POp& o = ops[i];
    if (o.kind == 0) s += fmt("+d%d:%s ", o.d, LMASKN[o.m]), used.insert(o.d);
    else if (o.kind == 1) s += fmt("-d%d ", o.d), used.insert(o.d);
    else s += o.kind == 2 ? "?e " : "?p ";
  }
  if (upto + 1 < ops.size()) s += fmt("[diverged here; %zu more operations not executed] ", ops.size() - upto - 1);
  s += "(";
  for (int d : used) s += fmt("d%d=fd %d %s; ", d, pool.fd[d], pool.kind[d]);
  return s + ")";
}

static std::map<int, short> ref_poll(const std::map<int, short>& model) {
  std::vector<struct pollfd> v;
  for (auto& kv : model) {
    struct pollfd p;
    p.fd = kv.first;
    p.events = kv.second;
    p.revents = 0;
    v.push_back(p);
  }
  if (::poll(v.data(), v.size(), 0) < 0) harness_fail("reference poll");
  std::map<int, short> out;
  for (auto& p : v)
    if (p.revents) out[p.fd] = p.revents;
  return out;
}

// Executes one history against a fresh Poll and the map model. Returns false at the first divergence.
static bool poll_long_run(const PollPool& pool, const std::vector<POp>& ops, const char* family, const char* obsname, uint64_t caseidx) {
  phosg::Poll P;
  std::map<int, short> model;
  std::map<int, bool> changed;  // descriptor was re-added with a different mask during its current registration
  size_t batch = 0, maxbatch = 0;  // consecutive add() calls with no remove()/poll() call in between
  size_t nobs = 0;
  auto bucket = [&]() { return maxbatch <= 16 ? "batch<=16" : maxbatch <= 64 ? "batch17-64" : "batch>64"; };
  auto observe = [&](bool full, size_t at) -> bool {
    C->evaluations++;
    nobs++;
    bool e = P.empty();
    if (e != model.empty()) {
      C->violation(fmt("%s:long-history:%s", model.empty() ? "poll:not-empty-after-all-removed" : "poll:empty-with-descriptors", bucket()),
          fmt("empty()=%d but the map model holds %zu descriptor(s); longest run of add() calls without remove()/poll() so far: %zu", (int)e, model.size(), maxbatch), poll_long_str(pool, ops, at));
      return false;
    }
    if (!full) return true;
    std::unordered_map<int, short> res;
    try {
      vf::poison_errno();
      res = P.poll(0);
    } catch (const std::exception& ex) {
      C->violation(fmt("poll:poll-throws:long-history:%s", bucket()), ex.what(), poll_long_str(pool, ops, at));
      return false;
    }
    batch = 0;
    std::map<int, short> exp = ref_poll(model);
    for (auto& kv : res) {
      if (model.count(kv.first)) continue;
      bool known = std::find(pool.fd.begin(), pool.fd.end(), kv.first) != pool.fd.end();
      C->violation(fmt("poll:%s:long-history:%s", known ? "removed-descriptor-still-polled" : "reported-unknown-descriptor", bucket()),
          fmt("fd %d is not in the model but poll() reported revents=0x%x for it (longest add() run %zu)", kv.first, kv.second, maxbatch), poll_long_str(pool, ops, at));
      return false;
    }
    for (auto& kv : model) {
      auto ei = exp.find(kv.first);
      auto ri = res.find(kv.first);
      short ev = ei == exp.end() ? 0 : ei->second, rv = ri == res.end() ? 0 : ri->second;
      if (ev == rv) continue;
      int d = (int)(std::find(pool.fd.begin(), pool.fd.end(), kv.first) - pool.fd.begin());
      const char* how = changed[kv.first] ? "readd-did-not-replace-events" : rv == 0 ? "registered-descriptor-not-polled" : "revents-differ-from-registered-events";
      C->violation(fmt("poll:%s:long-history:%s", how, bucket()),
          fmt("d%d (fd %d, %s) was last added with events=0x%x, for which ::poll reports revents=0x%x; Poll::poll(0) reported 0x%x (0 = not reported). Longest run of add() calls without remove()/poll(): %zu",
              d, kv.first, pool.kind[d], kv.second, ev, rv, maxbatch),
          poll_long_str(pool, ops, at));
      return false;
    }
    return true;
  };
  for (size_t i = 0; i < ops.size(); i++) {
    const POp& o = ops[i];
    C->crumb_n("poll/long-history", caseidx, i, o.kind, o.d, o.m);
    if (o.kind == 0) {
      int fd = pool.fd[o.d];
      auto it = model.find(fd);
      if (it == model.end()) changed[fd] = false;
      else if (it->second != LMASK[o.m]) changed[fd] = true;
      P.add(fd, LMASK[o.m]);
      model[fd] = LMASK[o.m];
      if (++batch > maxbatch) maxbatch = batch;
    } else if (o.kind == 1) {
      int fd = pool.fd[o.d];
      P.remove(fd);
      model.erase(fd);
      changed.erase(fd);
      batch = 0;
    } else if (!observe(o.kind == 3, i))
      return false;
  }
  C->count("histories-run:Poll:long");
  C->count("operations-run:Poll:long", ops.size());
  bool only_final = nobs == 0;
  if (!observe(true, ops.size())) return false;
  C->cls(fmt("poll_long:%s:%s:%s", family, bucket(), only_final ? "observed-only-at-the-end" : obsname));
  C->count(fmt("poll_long:final-size:%s", ladder_bucket(model.size())));
  return true;
}

static int lmask_rnd(vf::Rng& r) {
  uint64_t x = r.below(16);
  return x < 5 ? 0 : x < 10 ? 1 : x < 14 ? 2 : x < 15 ? 3 : 4;
}

// a run of k add() calls over the first nd descriptors of the pool, nothing in between
static void gen_add_run(std::vector<POp>& ops, vf::Rng& r, int nd, int k, int pattern) {
  switch (pattern) {
    case 0:  // round robin, ascending; the mask changes with every round
      for (int j = 0; j < k; j++) ops.push_back(padd(j % nd, (j / nd + j % nd) % 3));
      break;
    case 1:  // round robin, descending
      for (int j = 0; j < k; j++) ops.push_back(padd(nd - 1 - j % nd, (j / nd + j % nd) % 3));
      break;
    case 2:  // random
      for (int j = 0; j < k; j++) ops.push_back(padd((int)r.below(nd), lmask_rnd(r)));
      break;
    case 3: {  // one descriptor re-added over and over with alternating masks (others sprinkled in)
      int d = (int)r.below(nd);
      for (int j = 0; j < k; j++) {
        if (nd > 1 && r.chance(1, 8)) ops.push_back(padd((int)r.below(nd), lmask_rnd(r)));
        else ops.push_back(padd(d, j % 2));
      }
      break;
    }
    case 4: {  // blocks: each descriptor added several times in a row, the last add carries a different mask
      int per = (k + nd - 1) / nd;
      for (int j = 0; j < k; j++) ops.push_back(padd((j / per) % nd, (j % per + 1 == per || j + 1 == k) ? 1 : 0));
      break;
    }
    default: {  // many stale registrations (IN), then one final pass re-adding descriptors with OUT
      int u = std::min(nd, k);
      for (int j = 0; j < k - u; j++) ops.push_back(padd((int)r.below(nd), r.chance(1, 6) ? 2 : 0));
      int start = (int)r.below(nd);
      for (int j = 0; j < u; j++) ops.push_back(padd((start + j * 7) % nd, 1));
      break;
    }
  }
}
static void gen_remove_run(std::vector<POp>& ops, vf::Rng& r, int nd, int order, int count) {
  // order 0 ascending, 1 descending, 2 random, 3 every descriptor twice in a row (second remove is a no-op)
  for (int j = 0; j < count; j++) {
    int d = order == 0 ? j % nd : order == 1 ? nd - 1 - j % nd : order == 2 ? (int)r.below(nd) : (j / 2) % nd;
    ops.push_back(prem(d));
  }
}

static void part_poll_long() {
  vf::Rng pr(C->seed * 31 + 7);  // pools are the same in every shard
  PollPool p3, p3m, p40;
  for (int i = 0; i < 3; i++) pool_add(p3, 0);
  pool_add(p3m, 0), pool_add(p3m, 1), pool_add(p3m, 2);
  for (int i = 0; i < 40; i++) {
    static const int K[10] = {0, 0, 1, 0, 2, 5, 0, 3, 0, 4};
    pool_add(p40, K[i % 10]);
  }
  pool_shuffle(p3, pr), pool_shuffle(p3m, pr), pool_shuffle(p40, pr);
  const std::vector<int> ladder = size_ladder(C->qt(513, 2049));
  uint64_t idx = 0;
  std::vector<POp> ops;
  static const char* OBSN[5] = {"observed-after-the-run", "empty()-then-run-of-removes", "remove-then-observed", "several-runs-observation-deferred", "observed-at-random-points"};

  // F1: runs of k consecutive add() calls, k on the ladder
  static const int NDS[9] = {3, 3, 1, 2, 5, 8, 16, 17, 40};  // the first entry uses the 3 always-ready sockets, the second the mixed 3
  const int reps = C->qt(3, 12);
  for (int ni = 0; ni < 9; ni++)
    for (int k : ladder)
      for (int pattern = 0; pattern < 6; pattern++)
        for (int obs = 0; obs < 5; obs++)
          for (int rep = 0; rep < reps; rep++, idx++) {
            if (!C->mine(idx)) continue;
            vf::Rng cr(C->seed * 1000003ULL + idx * 7919ULL + 3);
            const PollPool& pool = ni == 0 ? p3 : ni == 1 ? p3m : p40;
            int nd = NDS[ni];
            ops.clear();
            int pre = (int)cr.below(3);  // 0 fresh, 1 short unobserved prefix, 2 short prefix then poll() (starts from normalised state)
            if (pre) {
              int n = 1 + (int)cr.below(6);
              for (int j = 0; j < n; j++) ops.push_back(cr.chance(2, 3) ? padd((int)cr.below(nd), lmask_rnd(cr)) : prem((int)cr.below(nd)));
              if (pre == 2) ops.push_back(pobs(true));
            }
            size_t run_at = ops.size();
            gen_add_run(ops, cr, nd, k, pattern);
            switch (obs) {
              case 0: break;  // the final observation follows directly
              case 1:
                ops.push_back(pobs(false));
                gen_remove_run(ops, cr, nd, (int)cr.below(4), (int)cr.below(2 * nd + 1));
                break;
              case 2: ops.push_back(prem((int)cr.below(nd))); break;
              case 3: {
                gen_add_run(ops, cr, nd, ladder[cr.below(ladder.size())] % 140 + 1, (int)cr.below(6));
                gen_remove_run(ops, cr, nd, (int)cr.below(4), (int)cr.below(nd + 1));
                gen_add_run(ops, cr, nd, 1 + (int)cr.below(40), (int)cr.below(6));
                break;
              }
              default: {  // empty() at random points inside the run (does not touch the set), poll(0) at one random point
                size_t len = ops.size() - run_at;
                size_t npt = 1 + cr.below(3);
                for (size_t q = 0; q < npt; q++) ops.insert(ops.begin() + (long)(run_at + cr.below(len + 1)), pobs(false));
                if (cr.chance(1, 2)) ops.insert(ops.begin() + (long)(run_at + cr.below(len + 1)), pobs(true));
              }
            }
            poll_long_run(pool, ops, "add-run", OBSN[obs], idx);
          }

  // F2: runs of removes after m descriptors were registered j times each
  for (int m = 1; m <= 40; m++)
    for (int j : {1, 2, 3, 17})
      for (int order = 0; order < 4; order++)
        for (int mode = 0; mode < 3; mode++, idx++) {
          if (!C->mine(idx)) continue;
          vf::Rng cr(C->seed * 1000003ULL + idx * 7919ULL + 5);
          ops.clear();
          for (int q = 0; q < m * j; q++) ops.push_back(padd(q % m, (q / m) % 3));
          int nrem = mode == 2 ? m / 2 : order == 3 ? 2 * m + 2 : m + (int)cr.below(3);  // mode 2: only half of them are removed
          std::vector<POp> rem;
          gen_remove_run(rem, cr, std::min(40, m + (mode == 2 ? 0 : 2)), order, nrem);  // includes descriptors that were never registered
          for (auto& o : rem) {
            ops.push_back(o);
            if (mode == 1) ops.push_back(pobs(false));  // empty() after every removal
          }
          if (mode != 2 && cr.chance(1, 2)) {
            ops.push_back(pobs(cr.chance(1, 2)));
            gen_add_run(ops, cr, m, 1 + (int)cr.below(20), 2);
          }
          poll_long_run(p40, ops, "remove-run", mode == 1 ? "empty()-after-every-remove" : "observed-after-the-run", idx);
        }

  // F3: random long histories with sticky operation kinds
  uint64_t nrand = C->qt<uint64_t>(16000, 200000);
  for (uint64_t i = 0; i < nrand; i++, idx++) {
    if (!C->mine(idx)) continue;
    vf::Rng cr(C->seed * 1000003ULL + idx * 7919ULL + 9);
    int which = (int)cr.below(4);
    const PollPool& pool = which == 0 ? p3 : which == 1 ? p3m : p40;
    int nd = which < 2 ? 3 : 3 + (int)cr.below(38);
    size_t L = cr.chance(1, 2) ? (size_t)ladder[cr.below(ladder.size())] : 1 + cr.below(600);
    if (L > 600) L = 600;
    static const unsigned OBS_DEN[4] = {0, 64, 16, 4};
    unsigned obs_den = OBS_DEN[cr.below(4)];  // 0: never observed before the end
    ops.clear();
    while (ops.size() < L) {
      int kind = (int)cr.below(5);
      size_t run = cr.chance(1, 3) ? 1 + cr.below(4) : (size_t)ladder[cr.below(ladder.size())] % 70 + 1;
      int d0 = (int)cr.below(nd);
      for (size_t q = 0; q < run && ops.size() < L; q++) {
        switch (kind) {
          case 0: ops.push_back(padd((int)cr.below(nd), lmask_rnd(cr))); break;
          case 1: ops.push_back(prem((int)cr.below(nd))); break;
          case 2: ops.push_back(padd(d0, (int)(q % 3))); break;  // alternating re-adds of one descriptor
          case 3: ops.push_back(cr.chance(1, 2) ? padd((int)cr.below(nd), lmask_rnd(cr)) : prem((int)cr.below(nd))); break;
          default: ops.push_back(padd((int)((d0 + q) % nd), lmask_rnd(cr))); break;
        }
        if (obs_den && cr.chance(1, obs_den)) ops.push_back(pobs(cr.chance(1, 2)));
      }
    }
    poll_long_run(pool, ops, "random", "observed-at-random-points", idx);
  }
  p3.close_all(), p3m.close_all(), p40.close_all();

  // F4: long histories with remove(fd, close_fd=true) over dup()s of /dev/null; a closed descriptor is replaced by a
  // fresh dup (usually the same number again, as in real programs)
  int devnull = ::open("/dev/null", O_RDWR);
  if (devnull < 0) harness_fail("open /dev/null");
  uint64_t nclose = C->qt<uint64_t>(3200, 40000);
  for (uint64_t i = 0; i < nclose; i++, idx++) {
    if (!C->mine(idx)) continue;
    vf::Rng cr(C->seed * 1000003ULL + idx * 7919ULL + 11);
    static const int CND[4] = {2, 3, 8, 20};
    int nd = CND[cr.below(4)];
    size_t L = cr.chance(1, 2) ? (size_t)ladder[cr.below(ladder.size())] % 200 + 1 : 1 + cr.below(200);
    FdGuard g;
    std::vector<int> fds(nd);
    for (int& f : fds)
      if ((f = ::dup(devnull)) < 0) harness_fail("dup");
    string hist;
    std::vector<int> expect;
    std::map<int, short> model;
    size_t batch = 0, maxbatch = 0;
    bool ok = true;
    {
      io::CloseScope cs;
      phosg::Poll P;
      int kind = 0;
      size_t left = 0;
      for (size_t q = 0; q < L && ok; q++) {
        if (!left) kind = (int)cr.below(4), left = cr.chance(1, 3) ? 1 + cr.below(4) : (size_t)ladder[cr.below(ladder.size())] % 40 + 1;
        left--;
        int d = (int)cr.below(nd);
        C->crumb_n("poll/long-history-close", idx, q, kind, d);
        vf::poison_errno();
        if (kind <= 1) {
          int m = (int)cr.below(3);
          P.add(fds[d], LMASK[m]);
          model[fds[d]] = LMASK[m];
          hist += fmt("+d%d:%s ", d, LMASKN[m]);
          if (++batch > maxbatch) maxbatch = batch;
        } else if (kind == 2) {
          P.remove(fds[d]);
          model.erase(fds[d]);
          hist += fmt("-d%d ", d);
          batch = 0;
        } else {
          bool reg = model.count(fds[d]) > 0;
          if (reg) expect.push_back(fds[d]);
          P.remove(fds[d], true);
          model.erase(fds[d]);
          hist += fmt("-d%d,close ", d);
          batch = 0;
          if (reg && fcntl(fds[d], F_GETFD) < 0) {
            if ((fds[d] = ::dup(devnull)) < 0) harness_fail("dup");
            hist += fmt("[d%d:=dup()=fd %d] ", d, fds[d]);
          }
        }
        if (io::cm().closes != expect) ok = false;
      }
      C->evaluations++;
      auto kase = [&] {
        string s = "Poll long history with close_fd ('+dN:M' add, '-dN' remove, '-dN,close' remove(dN,true)), descriptors are dup()s of /dev/null: " + hist + "(";
        for (int d = 0; d < nd; d++) s += fmt("d%d=fd %d; ", d, fds[d]);
        return s + ")";
      };
      const char* bk = maxbatch <= 16 ? "batch<=16" : maxbatch <= 64 ? "batch17-64" : "batch>64";
      if (io::cm().closes != expect) {
        ok = false;
        C->violation(fmt("poll:remove-close_fd:close-count:long-history:%s", bk),
            fmt("remove(fd,true) issued %zu close() calls so far, the model expects %zu (close exactly when the descriptor was registered)", io::cm().closes.size(), expect.size()), kase());
      } else {
        bool e = P.empty();
        std::unordered_map<int, short> res;
        vf::poison_errno();
        res = P.poll(0);
        std::map<int, short> exp = ref_poll(model);
        std::map<int, short> got(res.begin(), res.end());
        if (e != model.empty()) {
          ok = false;
          C->violation(fmt("%s:long-history:%s", model.empty() ? "poll:not-empty-after-all-removed" : "poll:empty-with-descriptors", bk), fmt("empty()=%d, model holds %zu", (int)e, model.size()), kase());
        } else if (got != exp) {
          ok = false;
          bool stale = false;
          for (auto& kv : got) stale |= !model.count(kv.first);
          C->violation(fmt("poll:%s:long-history:%s", stale ? "removed-descriptor-still-polled" : "readd-did-not-replace-events", bk),
              fmt("poll(0) reported %zu descriptors, ::poll on the model reports %zu (or revents differ)", got.size(), exp.size()), kase());
        }
      }
      if (ok) C->cls(fmt("poll_long:close_fd:%s:%s-closed", bk, expect.empty() ? "none" : expect.size() <= 16 ? "1-16" : ">16"));
    }
    for (int f : fds)
      if (fcntl(f, F_GETFD) >= 0) __real_close(f);
    g.check("poll", "Poll long history with close_fd (see the close-count case)");
  }
  __real_close(devnull);
  if (C->shard == 0)
    C->sample(fmt("Poll long histories: runs of k consecutive add() for k in 1..70, 95..97, 127..129, 255..257, ... <= %d over 1..40 descriptors x 6 run patterns x 5 observation modes (incl. only at the very end); runs of removes; %" PRIu64
                  " random histories <= 600 ops; %" PRIu64 " with remove(fd,true); reference = ::poll on the std::map model",
        ladder.back(), nrand, nclose));
}

// ---- list_directory / unlink(recursive): size and depth ladders ---------------------------------------------
static void make_entry(const string& p, int kind) {
  int rc;
  if (kind == 0) rc = ::mkdir(p.c_str(), 0755);
  else if (kind == 1) rc = ::symlink("dangling-target", p.c_str());
  else {
    int fd = ::open(p.c_str(), O_CREAT | O_WRONLY, 0644);
    rc = fd < 0 ? -1 : 0;
    if (fd >= 0) __real_close(fd);
  }
  if (rc) harness_fail("create ladder entry");
}

static void part_listdir_ladder() {
  const std::vector<int> ladder = size_ladder(C->qt(542, 4097));
  uint64_t idx = 0;
  for (int cnt : ladder)
    for (int style = 0; style < 2; style++, idx++) {
      if (!C->mine(idx)) continue;
      vf::Rng cr(C->seed * 1000003ULL + idx * 7919ULL + 21);
      string dir = g_dir + fmt("/ldl_%" PRIu64, idx);
      if (::mkdir(dir.c_str(), 0755)) harness_fail("mkdir");
      std::set<string> names;
      while ((int)names.size() < cnt) {
        // style 0: short regular names (lengths around the small-string limit too); style 1: the odd-name generator
        string nm = style == 0 ? (cr.chance(1, 4) ? string(10 + cr.below(8), 'n') + std::to_string(names.size()) : "e" + std::to_string(names.size())) : rnd_name(cr, names.size());
        if (nm == "." || nm == ".." || nm.size() > 255 || names.count(nm)) continue;
        make_entry(dir + "/" + nm, style == 0 ? 2 : (int)cr.below(6));
        names.insert(nm);
      }
      C->crumb_n("list_directory/ladder", cnt, style, idx);
      FdGuard g;
      string kase = fmt("list_directory of a directory with exactly %d entries (%s) seed %" PRIu64 " case %" PRIu64, cnt, style == 0 ? "plain files e<N>" : "files, dirs, dangling symlinks; odd, hidden and long names", C->seed, idx);
      try {
        vf::poison_errno();
        std::unordered_set<string> got = phosg::list_directory(dir);
        vf::poison_errno();
        std::vector<string> sorted = phosg::list_directory_sorted(dir);
        C->evaluations += 2;
        string missing, extra;
        bool miss = false;
        for (auto& nme : names)
          if (!got.count(nme)) missing = nme, miss = true;
        for (auto& nme : got)
          if (!names.count(nme)) extra = nme;
        if (miss) C->violation("list_directory:entry-missing", "an existing entry is not listed (hex): " + vf::hex(missing), kase);
        if (!extra.empty() || got.size() > names.size()) C->violation("list_directory:entry-invented", "listed a name that does not exist (hex): " + vf::hex(extra), kase);
        std::vector<string> ref(names.begin(), names.end());
        if (sorted != ref) C->violation("list_directory_sorted:differs", fmt("sorted listing has %zu names, directory has %zu (or order/duplicates differ)", sorted.size(), ref.size()), kase);
        C->cls(fmt("list_directory:ladder:%s-entries", ladder_bucket((size_t)cnt)));
      } catch (const std::exception& e) {
        C->violation("list_directory:throws-on-directory", e.what(), kase);
      }
      g.check("list_directory", kase);
      for (auto& nme : names) {
        string p = dir + "/" + nme;
        if (::unlink(p.c_str()) && ::rmdir(p.c_str())) harness_fail("cleanup entry");
      }
      ::rmdir(dir.c_str());
    }
  if (C->shard == 0) C->sample(fmt("list_directory ladder: every entry count 1..70, 95..97, 127..129, 255..257, 299..301, 511..513, 540..542 (<= %d) x {plain, odd names}", ladder.back()));
}

static void unlink_ladder_case(uint64_t idx, const char* shape, const string& what, const std::function<void(const string&)>& build) {
  string arena = g_dir + fmt("/ull_%" PRIu64, idx);
  if (::mkdir(arena.c_str(), 0755)) harness_fail("mkdir arena");
  write_file_raw(arena + "/keep.txt", "keep me");
  ::mkdir((arena + "/keepdir").c_str(), 0755);
  write_file_raw(arena + "/keepdir/inner.txt", "inner");
  write_file_raw(arena + "/tree.sibling", "name shares the prefix of the tree");
  string root = arena + "/tree";
  if (::mkdir(root.c_str(), 0755)) harness_fail("mkdir root");
  build(root);
  std::map<string, string> before = survey(arena);
  std::map<string, string> expect;
  for (auto& kv : before)
    if (kv.first != root && kv.first.compare(0, root.size() + 1, root + "/") != 0) expect.insert(kv);
  size_t nodes = before.size() - expect.size() - 1;
  FdGuard g;
  string kase = fmt("unlink(tree, true): %s (%zu nodes below the root) next to sibling files; seed %" PRIu64 " case %" PRIu64, what.c_str(), nodes, C->seed, idx);
  bool threw = false;
  string msg;
  try {
    vf::poison_errno();
    phosg::unlink(root, true);
  } catch (const std::exception& e) {
    threw = true;
    msg = e.what();
  }
  C->evaluations++;
  std::map<string, string> after = survey(arena);
  if (threw) C->violation("unlink_recursive:throws", "unlink(path,true) threw on a removable tree: " + msg, kase);
  string left, gone, changed;
  for (auto& kv : after)
    if (!expect.count(kv.first)) left = kv.first;
  for (auto& kv : expect) {
    auto it = after.find(kv.first);
    if (it == after.end()) gone = kv.first;
    else if (it->second != kv.second) changed = kv.first;
  }
  if (!left.empty()) C->violation("unlink_recursive:something-left", fmt("still present after unlink(recursive): %zu-character path ...%s", left.size(), left.substr(left.size() > 60 ? left.size() - 60 : 0).c_str()), kase);
  if (!gone.empty()) C->violation("unlink_recursive:removed-outside-tree", "an entry outside the tree disappeared: " + gone, kase);
  if (!changed.empty()) C->violation("unlink_recursive:changed-outside-tree", "an entry outside the tree changed: " + changed, kase);
  if (!threw && left.empty() && gone.empty() && changed.empty()) C->cls(fmt("unlink_recursive:ladder:%s", shape));
  g.check("unlink_recursive", kase);
  std::map<string, string> rest = survey(arena);
  for (auto it = rest.rbegin(); it != rest.rend(); ++it)
    if (::unlink(it->first.c_str())) ::rmdir(it->first.c_str());
  ::rmdir(arena.c_str());
}

static void part_unlink_ladder() {
  uint64_t idx = 0;
  // flat directories of every size on the ladder
  for (int cnt : size_ladder(C->qt(301, 1025))) {
    if (!C->mine(idx++)) continue;
    vf::Rng cr(C->seed * 1000003ULL + idx * 7919ULL + 23);
    C->crumb_n("unlink(recursive)/ladder/flat", cnt);
    unlink_ladder_case(idx, fmt("flat:%s-entries", ladder_bucket((size_t)cnt)).c_str(), fmt("a directory with exactly %d entries (files, empty directories, dangling symlinks)", cnt), [&](const string& root) {
      for (int j = 0; j < cnt; j++) make_entry(root + "/" + (cr.chance(1, 5) ? rnd_name(cr, (size_t)j) : "e" + std::to_string(j)), (int)cr.below(5));
    });
  }
  // chains: nesting depth ladder (a file and sometimes a few more entries at every level); paths stay far below PATH_MAX
  std::vector<int> depths;
  for (int d = 1; d <= 40; d++) depths.push_back(d);
  for (int d : {63, 64, 65, 100, 127, 128, 129, 200, 300}) depths.push_back(d);
  if (C->thorough())
    for (int d : {400, 511, 512, 513, 700}) depths.push_back(d);
  for (int depth : depths)
    for (int width = 0; width < 2; width++) {
      if (!C->mine(idx++)) continue;
      vf::Rng cr(C->seed * 1000003ULL + idx * 7919ULL + 25);
      C->crumb_n("unlink(recursive)/ladder/chain", depth, width);
      unlink_ladder_case(idx, fmt("depth%s", depth <= 6 ? "1-6" : depth <= 16 ? "7-16" : depth <= 64 ? "17-64" : ">64").c_str(),
          fmt("a chain of %d nested directories, %s", depth, width ? "each level also holding 0..4 files/symlinks/empty directories" : "one file at the bottom"), [&](const string& root) {
            string p = root;
            for (int lv = 0; lv < depth; lv++) {
              if (width) {
                int n = (int)cr.below(5);
                for (int j = 0; j < n; j++) make_entry(p + "/" + "x" + std::to_string(j), (int)cr.below(5));
              }
              p += "/d";
              if (::mkdir(p.c_str(), 0755)) harness_fail("mkdir chain");
            }
            make_entry(p + "/bottom", 2);
          });
    }
  if (C->shard == 0) C->sample("unlink(recursive) ladders: flat directories with every entry count 1..70, 95..97, 127..129, 255..257, 299..301; chains of nesting depth 1..40, 63..65, 100, 127..129, 200, 300");
}

// ---- N scoped_fd objects in a regrowing std::vector ----------------------------------------------------------
// Ownership model without timing demands: a descriptor is "released" when, under the language rules, no live object
// can still own it in a close-exactly-once design that closes at the latest on destruction; every close() must hit a
// released descriptor (or one of an object that was just destroyed), no descriptor may be closed while an object holds
// it, and when all objects are gone every descriptor has been closed exactly once.
static void scoped_fd_many_case(uint64_t idx, int N, int devnull, const string& path) {
  vf::Rng cr(C->seed * 1000003ULL + idx * 7919ULL + 31);
  FdGuard g;
  io::CloseScope cs;
  string kase = fmt("std::vector<scoped_fd>: %d x push_back/emplace_back (vector regrows by moving), then %d random erase/swap/move-assign/pop_back/insert/=int operations, then %s; seed %" PRIu64 " case %" PRIu64, N,
      N / 2 + 3, idx % 2 ? "clear()" : "scope exit", C->seed, idx);
  std::multiset<int> pending;  // released, close() not seen yet
  size_t seen = 0;
  bool bad = false;
  std::vector<int> held;
  auto newfd = [&]() {
    int f = ::dup(devnull);
    if (f < 0) harness_fail("dup");
    return f;
  };
  auto release = [&](int f) {
    if (f >= 0) pending.insert(f);
  };
  auto step = [&](const char* opname, bool check_held) {
    const std::vector<int>& log = io::cm().closes;
    C->evaluations++;
    for (; seen < log.size() && !bad; seen++) {
      auto it = pending.find(log[seen]);
      if (it == pending.end()) {
        bool is_held = std::find(held.begin(), held.end(), log[seen]) != held.end();
        C->violation(fmt("scoped_fd_many:%s:%s", is_held ? "held-descriptor-closed" : "extra-close", opname), fmt("close(%d) although %s", log[seen], is_held ? "a live object owns that descriptor" : "no object owned it any more (closed twice?)"), kase + fmt(" (at '%s')", opname));
        bad = true;
      } else
        pending.erase(it);
    }
    if (!bad && io::cm().failures) {
      C->violation(fmt("scoped_fd_many:close-failed(EBADF):%s", opname), "a close() issued by scoped_fd failed: descriptor already closed", kase);
      bad = true;
    }
    if (!bad && check_held)
      for (int f : held)
        if (f >= 0 && fcntl(f, F_GETFD) < 0) {
          C->violation(fmt("scoped_fd_many:held-descriptor-closed:%s", opname), fmt("a live object holds fd %d which is not open", f), kase);
          bad = true;
          break;
        }
  };
  {
    std::vector<phosg::scoped_fd> v;
    for (int i = 0; i < N && !bad; i++) {
      C->crumb_n("scoped_fd/many/push", idx, N, i);
      vf::poison_errno();
      if (i % 5 == 4) {
        v.emplace_back(path, O_RDONLY);
        held.push_back((int)v.back());
      } else {
        int f = newfd();
        if (i % 2) v.push_back(phosg::scoped_fd(f));
        else v.emplace_back(f);
        held.push_back(f);
      }
      size_t sz = v.size();
      step("push_back", (sz & (sz - 1)) == 0 || sz == (size_t)N);  // held descriptors verified after every power-of-two size
    }
    int nops = N / 2 + 3;
    for (int q = 0; q < nops && !bad && !v.empty(); q++) {
      int op = (int)cr.below(6);
      size_t i = cr.below(v.size()), j = cr.below(v.size());
      C->crumb_n("scoped_fd/many/op", idx, N, q, op, i, j);
      vf::poison_errno();
      const char* opname = "";
      switch (op) {
        case 0:
          opname = "erase";
          release(held[i]);
          v.erase(v.begin() + (long)i);
          held.erase(held.begin() + (long)i);
          break;
        case 1:
          opname = "swap";
          if (i == j) continue;
          std::swap(v[i], v[j]);
          std::swap(held[i], held[j]);
          break;
        case 2:
          opname = "move-assign";
          if (i == j) continue;
          release(held[i]);
          v[i] = std::move(v[j]);
          held[i] = held[j];
          held[j] = -1;
          break;
        case 3:
          opname = "pop_back";
          release(held.back());
          v.pop_back();
          held.pop_back();
          break;
        case 4: {
          opname = "insert";
          int f = newfd();
          v.insert(v.begin() + (long)i, phosg::scoped_fd(f));
          held.insert(held.begin() + (long)i, f);
          break;
        }
        default: {
          opname = "assign-int";
          int f = newfd();
          release(held[i]);
          v[i] = f;
          held[i] = f;
        }
      }
      step(opname, q % 8 == 7);
    }
    if (!bad) step("before-destruction", true);
    for (int f : held) release(f);
    held.clear();
    if (idx % 2) v.clear();
  }
  if (!bad) {
    step("destruction", false);
    if (!bad && !pending.empty()) {
      C->violation("scoped_fd_many:descriptor-not-closed", fmt("%zu descriptor(s) were never closed although every scoped_fd object is gone (e.g. fd %d)", pending.size(), *pending.begin()), kase);
      bad = true;
    }
  }
  size_t before = C->nviol();
  g.check("scoped_fd_many", kase);
  if (!bad && C->nviol() == before) C->cls(fmt("scoped_fd_many:%s-objects", ladder_bucket((size_t)N)));
}

static void part_scoped_fd_many() {
  int devnull = ::open("/dev/null", O_RDONLY);
  if (devnull < 0) harness_fail("open /dev/null");
  string path = g_dir + "/sfdm_target";
  write_file_raw(path, "x");
  uint64_t idx = 0;
  const int reps = C->qt(4, 24);
  struct rlimit rl;
  if (getrlimit(RLIMIT_NOFILE, &rl)) harness_fail("getrlimit");
  for (int N : size_ladder(C->qt(301, 1025)))
    for (int rep = 0; rep < reps; rep++) {
      if (!C->mine(idx++)) continue;
      if ((rlim_t)N + 128 > rl.rlim_cur) {
        C->count("scoped_fd_many:skipped(descriptor limit)");
        continue;
      }
      scoped_fd_many_case(idx, N, devnull, path);
    }
  __real_close(devnull);
  if (C->shard == 0) C->sample("scoped_fd: N objects in a std::vector (N = 1..70, 95..97, 127..129, 255..257, 299..301) through regrowth, erase, swap, move-assign, pop_back, insert, =int, destruction: every descriptor closed exactly once, none while held");
}

// ---- fgets loops over streams with N lines -------------------------------------------------------------------
static void part_fgets_manylines() {
  const std::vector<int> ladder = size_ladder(C->qt(513, 4097));
  std::vector<int> counts = {0};
  counts.insert(counts.end(), ladder.begin(), ladder.end());
  uint64_t idx = 0;
  static const char* PN[6] = {"empty lines", "1-character lines", "lengths cycling 0..20", "lengths 14..17", "random lengths 0..40 with a few of 254..257 and 1000", "63-character lines (64 lines per 4096-byte stdio block)"};
  for (int L : counts)
    for (int pattern = 0; pattern < 6; pattern++)
      for (int term = 0; term < 2; term++)
        for (int src = 0; src < 2; src++, idx++) {
          if (!C->mine(idx)) continue;
          vf::Rng cr(C->seed * 1000003ULL + idx * 7919ULL + 41);
          string payload;
          for (int j = 0; j < L; j++) {
            size_t len = pattern == 0 ? 0 : pattern == 1 ? 1 : pattern == 2 ? (size_t)(j % 21) : pattern == 3 ? (size_t)(14 + j % 4) : pattern == 5 ? 63
                : cr.chance(1, 40)   ? (size_t)(254 + cr.below(4))
                : cr.chance(1, 200) ? 1000
                                    : cr.below(41);
            payload += rnd_payload(cr, len, false);
            if (j + 1 < L || term) payload += "\n";
          }
          string shape = fmt("many-lines:%s:%s", ladder_bucket((size_t)L), term ? "terminated" : "unterminated");
          if (src == 0) {
            bool cycle;
            io::Plan p = random_plan(cr, payload.size(), &cycle);
            int bm = (int)cr.below(io::BUF_MODES);
            io::Cookie ck;
            FILE* f = io::open_cookie(&ck, payload, p, cycle, bm);
            C->crumb_n("fgets/cookie/many-lines", L, pattern, term);
            judge_fgets(f, payload, "cookie", shape, [&] { return fmt("fgets loop over %d lines (%s, last line %s); ", L, PN[pattern], term ? "terminated" : "unterminated") + cookie_case("fgets(f) until \"\"", ck, p, cycle, bm); });
            fclose(f);
          } else {
            string path = g_dir + "/fgets_many.txt";
            write_file_raw(path, payload);
            auto f = phosg::fopen_unique(path, "rb");
            C->crumb_n("fgets/fopen/many-lines", L, pattern, term);
            judge_fgets(f.get(), payload, "fopen", shape, [&] { return fmt("fgets loop over a regular file of %d lines (%s, last line %s), %zu bytes", L, PN[pattern], term ? "terminated" : "unterminated", payload.size()); });
          }
        }
  if (C->shard == 0) C->sample(fmt("fgets line-count ladder: streams of N lines for N = 0..70, 95..97, 127..129, 255..257, ... <= %d x 6 line-length patterns x {terminated, unterminated} x {fopencookie with random plan, regular file}", ladder.back()));
}

// ---- long stream histories (cursor model) ----------------------------------------------------------------------
static string hist_str_rle(const std::vector<int>& ops) {
  string s;
  for (size_t i = 0; i < ops.size();) {
    size_t j = i;
    while (j < ops.size() && ops[j] == ops[i]) j++;
    s += j - i > 1 ? fmt("%s x%zu ", HOPN[ops[i]], j - i) : string(HOPN[ops[i]]) + " ";
    i = j;
  }
  return s;
}

static void part_stream_histories_long() {
  const std::vector<int> ladder = size_ladder(301);
  uint64_t n = C->qt<uint64_t>(960, 20000);
  for (uint64_t idx = 0; idx < n; idx++) {
    if (!C->mine(idx)) continue;
    vf::Rng cr(C->seed * 1000003ULL + idx * 7919ULL + 51);
    size_t L = (size_t)ladder[cr.below(ladder.size())];
    string payload = hist_payload(cr.chance(1, 4) ? cr.below(3000) : 8000 + cr.below(90000), (unsigned)cr.below(8));
    std::vector<int> ops;
    while (ops.size() < L) {
      static const int POOL[10] = {H_FGETS, H_FGETS, H_FGETS, H_FREADX1, H_FREADX7, H_FREADX300, H_FREAD5, H_FREAD5000, H_FGETCX, H_FGETCX};
      int op = POOL[cr.below(10)];
      size_t run = cr.chance(1, 2) ? 1 : (size_t)ladder[cr.below(ladder.size())] % 40 + 1;
      if (op == H_FREAD5000 || op == H_FREADX300) run = 1 + run % 3;
      for (size_t q = 0; q < run && ops.size() < L; q++) ops.push_back(op);
    }
    if (cr.chance(3, 4)) ops.push_back(H_READALL);
    if (cr.chance(1, 4)) ops.push_back((int)cr.below(H_NOPS));  // one more call at end of stream
    int kind = (int)(idx % 3);
    C->crumb_n("stream-history/long", idx, L, payload.size(), (uint64_t)kind);
    if (kind == 0) {
      string path = g_dir + "/hist_long.txt";
      write_file_raw(path, payload);
      auto f = phosg::fopen_unique(path, "rb");
      run_stream_history(f.get(), payload, ops, "fopen", [&] { return fmt("one FILE* from fopen_unique on a %zu-byte regular file, %zu calls: ", payload.size(), ops.size()) + hist_str_rle(ops); });
    } else if (kind == 1 && payload.size() <= 60000) {
      int fd = loaded_pipe(payload);
      if (fd < 0) continue;
      auto f = phosg::fdopen_unique(fd, "rb");
      run_stream_history(f.get(), payload, ops, "fdopen-pipe", [&] { return fmt("one FILE* from fdopen_unique on a pipe holding %zu bytes (writer closed), %zu calls: ", payload.size(), ops.size()) + hist_str_rle(ops); });
    } else {
      bool cycle;
      io::Plan p = random_plan(cr, payload.size(), &cycle);
      int bm = (int)cr.below(io::BUF_MODES);
      if (bm == io::BUF_NONE && payload.size() > 20000) bm = io::BUF_DEFAULT;
      io::Cookie ck;
      FILE* f = io::open_cookie(&ck, payload, p, cycle, bm);
      run_stream_history(f, payload, ops, "cookie", [&] { return fmt("one fopencookie stream (%s, plan %s) of %zu bytes, %zu calls: ", io::bufmode_name(bm), io::plan_str(p, cycle).c_str(), payload.size(), ops.size()) + hist_str_rle(ops); });
      fclose(f);
    }
    C->cls(fmt("stream_history:long:%s-calls", ladder_bucket(L)));
  }
  if (C->shard == 0) C->sample("long stream histories: 1..301 calls (runs of fgets / freadx / fread / fgetcx, then read_all) on one stream (regular file, loaded pipe, fopencookie with a random plan) against the cursor model");
}
