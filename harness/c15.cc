// C15 — subprocess I/O (run_process, Subprocess::communicate) complete and deadlock-free.
//
// Structure
//   shard process (monitor)  --fork-->  scenario process (SP, runs the real phosg call with the --wrap shims
//   and the result oracle)  --fork/exec (inside phosg)-->  c15_child (scripted, writes a receipt file).
// The monitor samples /proc/<SP>/{syscall,stat,wchan,fd} and /proc/<child>/{syscall,stat,wchan,fd,io} every 50 ms and
// owns the state-based hang witnesses; the SP owns the value oracles (result fields, receipt, fd diff, ECHILD).
// Wall-clock never decides a verdict: a hang without a witness is inconclusive (re-run once, then exit 2).
#include <dirent.h>
#include <errno.h>
#include <poll.h>
#include <sanitizer/lsan_interface.h>
#include <signal.h>
#include <sys/prctl.h>
#include <sys/time.h>
#include <sys/stat.h>
#include <sys/wait.h>
#include <time.h>

#include <algorithm>
#include <map>
#include <set>
#include <stdexcept>
#include <string>
#include <vector>

#include "Process.hh"
#include "common.hh"

using namespace std;
using vf::fmt;

// ------------------------------------------------------------------------------------------------
// shared memory between monitor and SP

// K_WAITB counts only blocking waitpid calls (no WNOHANG): the only waitpid calls a signal can interrupt
enum { K_WAITPID = 0, K_POLL = 1, K_READ = 2, K_WRITE = 3, K_KILL = 4, K_WAITB = 5, K_NKINDS = 6 };
static const char* KIND_NAMES[] = {"waitpid", "poll", "read", "write", "kill", "waitpid-blocking"};

struct Shm {
  volatile int32_t child_pid;
  volatile int32_t nforks;
  volatile int32_t phase;  // 0 setup, 1 inside the phosg call, 2 oracle, 3 done
  volatile uint64_t calls[K_NKINDS];
  volatile uint64_t rd_bytes, wr_bytes;
  volatile uint64_t poll_timeout_ms_sum;  // sum of the timeouts of poll() calls that returned 0 (lower bound of elapsed time)
  volatile int32_t last_poll_timeout;
  volatile int32_t sigs[8];
  volatile int32_t nsigs;
  volatile int32_t pipe_fds[8];
  volatile int32_t npipes;
  volatile int32_t reaped;        // waitpid() inside the call has returned the child's pid
  volatile uint64_t t0_ns;        // CLOCK_MONOTONIC when the scenario process entered the phosg call
  volatile uint64_t timeout_us;   // run_process timeout of this scenario (0 = none / generous)
  volatile uint64_t t_term_ns;    // when the first signal was sent
  volatile int32_t kill_sent;     // SIGKILL has been sent
  volatile int32_t late_nosig;    // loop iterations begun > timeout + 5 s after t0 with no signal sent yet
  volatile int32_t eintr_injected[K_NKINDS];  // calls answered with -1/EINTR by the plan without being performed
  volatile int32_t eintr_observed[K_NKINDS];  // real calls that came back with EINTR (signal storm / sibling SIGCHLD)
  volatile uint64_t short_deadline_us;  // slow-parent scenarios: the deadline/timeout the long delay must outlast
  volatile uint64_t exited_seen_ns;     // first time the sleeping parent-side shim saw the child as a zombie (or already reaped)
  volatile int32_t late_nokill;   // loop iterations begun > 10 s after the first signal, child not SIGKILLed yet
  // deadline-relative delays (MODE_UNTIL_DEADLINE) and what the parent asks of poll() while a timeout is pending
  volatile uint64_t t_pipe_ns;      // first pipe() of the call: run_process read its start time between t0_ns and this
  volatile uint64_t t_term_hi_ns;   // first wrapped call after the first signal: the grace period began before this
  volatile int32_t dl_seen[4];      // qualifying calls seen per plan item
  volatile int32_t dl_fired[4];     // the item's delay was placed (the call began before the deadline and resumed after it)
  volatile int64_t dl_resumed_after_us[4];  // how far past the (upper bound of the) deadline the delayed call resumed
  volatile int32_t poll_no_timeout_pending;  // poll() calls with a negative / > 1 h timeout while a finite run_process timeout is pending
  volatile int32_t poll_min_timeout, poll_max_timeout, poll_any;
  volatile uint32_t rec_len;
  char rec[48 * 1024];
};
static Shm* g_shm;
static volatile bool g_active = false;  // true only while the SP is inside the phosg call

// MODE_PAST_DEADLINE: one long delay that ends 300 ms after the call's deadline/timeout has passed (slow parent)
// MODE_UNTIL_DEADLINE: a delay positioned relative to the run_process timeout: the k-th call of its kind that is issued
// before the deadline, inside the last `win_us` before it (0 = any time before it) and after the parent has read
// `after_rd` bytes of child output sleeps until the deadline + `us` (eps).  phase 1 = the same relative to the end of the
// grace period that follows the first signal (SIGTERM-surviving child).
enum { MODE_SLEEP = 0, MODE_SETTLE = 1, MODE_EINTR = 2, MODE_PAST_DEADLINE = 3, MODE_UNTIL_DEADLINE = 4 };
static const uint64_t GRACE_US = 5000000ULL;  // run_process' SIGTERM -> SIGKILL grace (used to position delays, never as a verdict)
enum { SIG_NONE = 0, SIG_ALARM_STORM = 1, SIG_SIBLING_CHLD = 2 };
struct Delay {
  int kind;
  uint32_t k;  // 1-based call number of that kind
  int mode;
  uint32_t us;
  uint32_t win_us = 0;    // MODE_UNTIL_DEADLINE: only calls issued within this window before the deadline qualify
  uint64_t after_rd = 0;  // MODE_UNTIL_DEADLINE: only calls issued after the parent has read this many bytes qualify
  int phase = 0;          // MODE_UNTIL_DEADLINE: 0 = the timeout itself, 1 = the grace period after the first signal
};
struct Plan {
  Delay items[4];
  int n = 0;
  uint32_t all_us = 0;  // delay before every wrapped call
  int sig = SIG_NONE;   // real signals (handler without SA_RESTART) arriving in the parent during the call
  string str() const {
    string r;
    for (int i = 0; i < n; i++) {
      if (!r.empty()) r += ",";
      r += fmt("%s#%u:", KIND_NAMES[items[i].kind], items[i].k);
      if (items[i].mode == MODE_UNTIL_DEADLINE) {
        r += fmt("until-%s+%uus", items[i].phase ? "grace-end" : "deadline", items[i].us);
        if (items[i].win_us) r += fmt("(first in the last %u ms before it)", items[i].win_us / 1000);
        if (items[i].after_rd) r += fmt("(after %" PRIu64 " bytes read)", items[i].after_rd);
        continue;
      }
      r += items[i].mode == MODE_SETTLE ? string("settle") : items[i].mode == MODE_EINTR ? string("EINTR")
           : items[i].mode == MODE_PAST_DEADLINE ? string("until-deadline+300ms") : fmt("%uus", items[i].us);
    }
    if (all_us) r += fmt("%sall:%uus", r.empty() ? "" : ",", all_us);
    if (sig) r += string(r.empty() ? "" : ",") + (sig == SIG_ALARM_STORM ? "signals:SIGALRM-every-3ms" : "signals:SIGCHLD-from-3-siblings");
    return r.empty() ? "none" : r;
  }
  string cls() const {
    if (sig) return sig == SIG_ALARM_STORM ? "plan:signals:sigalrm-storm" : "plan:signals:sibling-sigchld";
    if (n >= 1 && items[0].mode == MODE_PAST_DEADLINE) return fmt("plan:%s:past-deadline", KIND_NAMES[items[0].kind]);
    if (n >= 1 && items[0].mode == MODE_UNTIL_DEADLINE)
      return fmt("plan:%s:straddles-%s:%s:eps=%s", KIND_NAMES[items[0].kind], items[0].phase ? "grace-end" : "deadline",
                 items[0].after_rd ? "after-output-read" : "time-window", items[0].us >= 10000 ? "20ms" : "1ms");
    if (n >= 1 && items[0].mode == MODE_EINTR) return fmt("plan:%s:eintr%s", KIND_NAMES[items[0].kind], n > 1 ? "-multi" : "");
    if (n == 0 && !all_us) return "plan:none";
    if (n == 0) return "plan:all-calls";
    if (n > 1) return "plan:random-multi";
    return fmt("plan:%s:%s", KIND_NAMES[items[0].kind], items[0].mode == MODE_SETTLE ? "settle" : items[0].us >= 10000 ? "20ms" : "1ms");
  }
};
static Plan g_plan;

static uint64_t mono_ns() {
  struct timespec ts;
  clock_gettime(CLOCK_MONOTONIC, &ts);
  return (uint64_t)ts.tv_sec * 1000000000ULL + ts.tv_nsec;
}

static void sleep_us(uint64_t us) {
  struct timespec ts;
  ts.tv_sec = us / 1000000;
  ts.tv_nsec = (us % 1000000) * 1000;
  while (nanosleep(&ts, &ts) < 0 && errno == EINTR) {
  }
}

extern "C" {
pid_t __real_waitpid(pid_t, int*, int);
int __real_poll(struct pollfd*, nfds_t, int);
ssize_t __real_read(int, void*, size_t);
ssize_t __real_write(int, const void*, size_t);
pid_t __real_fork(void);
int __real_pipe(int*);
int __real_kill(pid_t, int);
}

static string slurp(const char* path, size_t max = 4096) {
  int fd = open(path, O_RDONLY | O_CLOEXEC);
  if (fd < 0) return "";
  string r(max, '\0');
  size_t off = 0;
  for (;;) {
    ssize_t n = __real_read(fd, &r[off], max - off);
    if (n <= 0) break;
    off += n;
    if (off == max) break;
  }
  close(fd);
  r.resize(off);
  return r;
}

struct ProcStat {
  bool ok = false;
  char state = '?';
  int ppid = -1;
  string comm;
};
static ProcStat proc_stat(pid_t pid) {
  ProcStat ps;
  string s = slurp(fmt("/proc/%d/stat", pid).c_str(), 1024);
  size_t l = s.find('('), r = s.rfind(')');
  if (l == string::npos || r == string::npos || r + 2 >= s.size()) return ps;
  ps.comm = s.substr(l + 1, r - l - 1);
  ps.state = s[r + 2];
  ps.ppid = atoi(s.c_str() + r + 4);
  ps.ok = true;
  return ps;
}

struct Sys {
  bool ok = false;       // a syscall number could be read (task is inside a syscall and not on a CPU)
  long nr = -1;
  unsigned long a0 = 0, a1 = 0, a2 = 0;
  string line;
};
static Sys proc_syscall(pid_t pid) {
  Sys y;
  y.line = slurp(fmt("/proc/%d/syscall", pid).c_str(), 512);
  while (!y.line.empty() && (y.line.back() == '\n' || y.line.back() == ' ')) y.line.pop_back();
  if (y.line.empty() || !(isdigit((unsigned char)y.line[0]))) return y;
  if (sscanf(y.line.c_str(), "%ld %lx %lx %lx", &y.nr, &y.a0, &y.a1, &y.a2) >= 1) y.ok = true;
  return y;
}

// "pipe:[123]" -> 123, else 0
static uint64_t pipe_inode(pid_t pid, int fd) {
  char buf[128];
  ssize_t n = readlink(fmt("/proc/%d/fd/%d", pid, fd).c_str(), buf, sizeof(buf) - 1);
  if (n <= 0) return 0;
  buf[n] = 0;
  if (strncmp(buf, "pipe:[", 6)) return 0;
  return strtoull(buf + 6, nullptr, 10);
}

static map<int, string> list_fds(pid_t pid) {
  map<int, string> r;
  string dir = pid ? fmt("/proc/%d/fd", pid) : string("/proc/self/fd");
  DIR* d = opendir(dir.c_str());
  if (!d) return r;
  int self = dirfd(d);
  while (struct dirent* e = readdir(d)) {
    if (e->d_name[0] == '.') continue;
    int fd = atoi(e->d_name);
    if (!pid && fd == self) continue;
    char buf[256];
    ssize_t n = readlink((dir + "/" + e->d_name).c_str(), buf, sizeof(buf) - 1);
    if (n < 0) n = 0;
    buf[n] = 0;
    r[fd] = buf;
  }
  closedir(d);
  return r;
}

// Delay of variable length: until the child has become a zombie or is blocked in read/write (bounded by a count).
static void wait_child_settled() {
  pid_t pid = g_shm->child_pid;
  if (pid <= 0) return;
  for (int i = 0; i < 800; i++) {
    ProcStat ps = proc_stat(pid);
    if (!ps.ok || ps.state == 'Z') return;
    if (ps.state == 'S' && ps.comm == "c15_child") {
      Sys y = proc_syscall(pid);
      if (y.ok && (y.nr == 0 || y.nr == 1)) return;
    }
    sleep_us(500);
  }
}

// Sleeps until 300 ms after the deadline of the call and, while doing so, watches the child: the first moment it is
// seen as a zombie (exit complete, pipe ends closed) is the evidence for "the child had finished in time".
static void sleep_past_deadline() {
  const uint64_t target = g_shm->t0_ns + (g_shm->short_deadline_us + 300000ULL) * 1000ULL;
  for (;;) {
    if (!g_shm->exited_seen_ns) {
      pid_t pid = g_shm->child_pid;
      if (g_shm->reaped) {
        g_shm->exited_seen_ns = mono_ns();
      } else if (pid > 0) {
        ProcStat ps = proc_stat(pid);
        if (ps.ok && ps.state == 'Z') g_shm->exited_seen_ns = mono_ns();
      }
    }
    if (mono_ns() >= target) return;
    sleep_us(1000);
  }
}

// Deadline-relative delay.  The deadline run_process works with lies between lo = t0 + T (t0 read just before the call)
// and hi = (first pipe() of the call) + T, because it reads its start time between those two moments; a call qualifies
// only if it begins before lo and it is resumed only after hi + eps, so the delay really straddles the deadline.
static void apply_deadline_delay(int kind) {
  for (int i = 0; i < g_plan.n; i++) {
    const Delay& d = g_plan.items[i];
    if (d.mode != MODE_UNTIL_DEADLINE || d.kind != kind || g_shm->dl_fired[i]) continue;
    const uint64_t T = g_shm->timeout_us;
    if (!T) continue;
    uint64_t lo, hi;
    if (d.phase == 0) {
      if (g_shm->nsigs || !g_shm->t_pipe_ns) continue;
      lo = g_shm->t0_ns + T * 1000ULL;
      hi = g_shm->t_pipe_ns + T * 1000ULL;
    } else {
      if (!g_shm->nsigs || g_shm->kill_sent || !g_shm->t_term_hi_ns) continue;
      lo = g_shm->t_term_ns + GRACE_US * 1000ULL;
      hi = g_shm->t_term_hi_ns + GRACE_US * 1000ULL;
    }
    const uint64_t t = mono_ns();
    if (t >= lo) continue;
    if (d.win_us && t + (uint64_t)d.win_us * 1000ULL < lo) continue;
    if (g_shm->rd_bytes < d.after_rd) continue;
    int seen = g_shm->dl_seen[i] + 1;
    g_shm->dl_seen[i] = seen;
    if ((uint32_t)seen != d.k) continue;
    const uint64_t target = hi + (uint64_t)d.us * 1000ULL;
    for (;;) {
      uint64_t n = mono_ns();
      if (n >= target) break;
      sleep_us((target - n) / 1000 + 1);
    }
    g_shm->dl_resumed_after_us[i] = (int64_t)((mono_ns() - hi) / 1000);
    g_shm->dl_fired[i] = 1;
  }
}

// every shim passes here first
static inline void shim_enter() {
  if (g_shm->nsigs && !g_shm->t_term_hi_ns) g_shm->t_term_hi_ns = mono_ns();
}

static void apply_delay(int kind, uint64_t k) {
  shim_enter();
  apply_deadline_delay(kind);
  for (int i = 0; i < g_plan.n; i++) {
    const Delay& d = g_plan.items[i];
    if (d.mode == MODE_UNTIL_DEADLINE) continue;
    if (d.kind == kind && d.k == k) {
      if (d.mode == MODE_PAST_DEADLINE) sleep_past_deadline();
      else if (d.mode == MODE_SETTLE) wait_child_settled();
      else if (d.mode == MODE_SLEEP) sleep_us(d.us);
    }
  }
  if (g_plan.all_us) sleep_us(g_plan.all_us);
}

// EINTR as a fault: the k-th call of this kind is not performed and fails as if a signal handler had run
static bool inject_eintr(int kind, uint64_t k) {
  for (int i = 0; i < g_plan.n; i++) {
    const Delay& d = g_plan.items[i];
    if (d.kind == kind && d.k == k && d.mode == MODE_EINTR) {
      g_shm->eintr_injected[kind] = g_shm->eintr_injected[kind] + 1;
      return true;
    }
  }
  return false;
}
static inline void note_eintr(int kind, long r) {
  if (r < 0 && errno == EINTR) g_shm->eintr_observed[kind] = g_shm->eintr_observed[kind] + 1;
}

extern "C" pid_t __wrap_waitpid(pid_t p, int* st, int opt) {
  if (!g_active) return __real_waitpid(p, st, opt);
  uint64_t k = ++g_shm->calls[K_WAITPID];
  // run_process calls waitpid once per loop iteration: stamp iterations that begin long after the deadline.
  // A correct loop signals the child in the first iteration that begins after the deadline, so it can be caught
  // here at most once without a signal; the monitor asks for three.
  if (g_shm->timeout_us) {
    uint64_t now = mono_ns();
    if (g_shm->nsigs == 0) {
      if (now > g_shm->t0_ns + (g_shm->timeout_us + 5000000ULL) * 1000ULL) g_shm->late_nosig = g_shm->late_nosig + 1;
    } else if (!g_shm->kill_sent && now > g_shm->t_term_ns + 10000000000ULL) {
      g_shm->late_nokill = g_shm->late_nokill + 1;
    }
  }
  apply_delay(K_WAITPID, k);
  const bool blocking = !(opt & WNOHANG);
  if (blocking) {
    uint64_t kb = ++g_shm->calls[K_WAITB];
    if (inject_eintr(K_WAITB, kb)) {
      // what the kernel does when a signal is already pending on entry: a child that has exited is still returned,
      // otherwise the call fails with EINTR instead of sleeping
      pid_t r0 = __real_waitpid(p, st, opt | WNOHANG);
      if (r0 != 0) {
        if (r0 > 0 && r0 == g_shm->child_pid) g_shm->reaped = 1;
        return r0;
      }
      errno = EINTR;
      return -1;
    }
  }
  pid_t r = __real_waitpid(p, st, opt);
  if (blocking) note_eintr(K_WAITB, r);
  if (r > 0 && r == g_shm->child_pid) {
    int e = errno;
    g_shm->reaped = 1;
    errno = e;
  }
  return r;
}
extern "C" int __wrap_poll(struct pollfd* fds, nfds_t n, int timeout) {
  if (!g_active) return __real_poll(fds, n, timeout);
  uint64_t k = ++g_shm->calls[K_POLL];
  g_shm->last_poll_timeout = timeout;
  if (!g_shm->poll_any || timeout < g_shm->poll_min_timeout) g_shm->poll_min_timeout = timeout;
  if (!g_shm->poll_any || timeout > g_shm->poll_max_timeout) g_shm->poll_max_timeout = timeout;
  g_shm->poll_any = 1;
  // counted, not judged: a poll() that cannot return on its own while run_process still has a timeout to enforce
  if (g_shm->timeout_us && !g_shm->kill_sent && !g_shm->reaped && (timeout < 0 || timeout > 3600000))
    g_shm->poll_no_timeout_pending = g_shm->poll_no_timeout_pending + 1;
  apply_delay(K_POLL, k);
  if (inject_eintr(K_POLL, k)) {
    // as the kernel does with a signal pending on entry: descriptors that are ready now are still reported
    // (so a poll(0) over data that is already there cannot fail), otherwise EINTR instead of sleeping
    int r0 = __real_poll(fds, n, 0);
    if (r0 != 0) return r0;
    errno = EINTR;
    return -1;
  }
  int r = __real_poll(fds, n, timeout);
  note_eintr(K_POLL, r);
  if (r == 0 && timeout > 0) g_shm->poll_timeout_ms_sum += timeout;
  return r;
}
extern "C" ssize_t __wrap_read(int fd, void* b, size_t n) {
  if (!g_active) return __real_read(fd, b, n);
  uint64_t k = ++g_shm->calls[K_READ];
  apply_delay(K_READ, k);
  if (inject_eintr(K_READ, k)) {
    errno = EINTR;
    return -1;
  }
  ssize_t r = __real_read(fd, b, n);
  note_eintr(K_READ, r);
  if (r > 0) g_shm->rd_bytes += r;
  return r;
}
extern "C" ssize_t __wrap_write(int fd, const void* b, size_t n) {
  if (!g_active) return __real_write(fd, b, n);
  uint64_t k = ++g_shm->calls[K_WRITE];
  apply_delay(K_WRITE, k);
  if (inject_eintr(K_WRITE, k)) {
    errno = EINTR;
    return -1;
  }
  ssize_t r = __real_write(fd, b, n);
  note_eintr(K_WRITE, r);
  if (r > 0) g_shm->wr_bytes += r;
  return r;
}
extern "C" pid_t __wrap_fork(void) {
  if (!g_active) return __real_fork();
  pid_t p = __real_fork();
  if (p == 0) {
    g_active = false;
  } else if (p > 0) {
    g_shm->child_pid = p;
    g_shm->nforks = g_shm->nforks + 1;
  }
  return p;
}
extern "C" int __wrap_pipe(int* fds) {
  int r = __real_pipe(fds);
  if (g_active && !g_shm->t_pipe_ns) g_shm->t_pipe_ns = mono_ns();
  if (g_active && r == 0 && g_shm->npipes < 4) {
    int i = g_shm->npipes;
    g_shm->pipe_fds[2 * i] = fds[0];
    g_shm->pipe_fds[2 * i + 1] = fds[1];
    g_shm->npipes = i + 1;
  }
  return r;
}
extern "C" int __wrap_kill(pid_t p, int sig) {
  if (g_active) {
    g_shm->calls[K_KILL] = g_shm->calls[K_KILL] + 1;
    if (g_shm->nsigs == 0) g_shm->t_term_ns = mono_ns();
    if (sig == SIGKILL) g_shm->kill_sent = 1;
    if (g_shm->nsigs < 8) {
      g_shm->sigs[g_shm->nsigs] = sig;
      g_shm->nsigs = g_shm->nsigs + 1;
    } else {
      g_shm->nsigs = 8;
    }
  }
  return __real_kill(p, sig);
}

// ------------------------------------------------------------------------------------------------
// PRNG streams shared with c15_child.c and FNV

struct Stream {
  uint64_t s, cur = 0;
  int avail = 0;
  explicit Stream(uint64_t seed) : s(seed) {}
  uint64_t next() {
    uint64_t z = (s += 0x9E3779B97F4A7C15ULL);
    z = (z ^ (z >> 30)) * 0xBF58476D1CE4E5B9ULL;
    z = (z ^ (z >> 27)) * 0x94D049BB133111EBULL;
    return z ^ (z >> 31);
  }
  void gen(string& out, size_t n) {
    size_t o = out.size();
    out.resize(o + n);
    for (size_t i = 0; i < n; i++) {
      if (!avail) {
        cur = next();
        avail = 8;
      }
      out[o + i] = (char)(cur & 0xFF);
      cur >>= 8;
      avail--;
    }
  }
};

static uint64_t fnv1a(const char* p, size_t n) {
  uint64_t h = 0xcbf29ce484222325ULL;
  for (size_t i = 0; i < n; i++) {
    h ^= (uint8_t)p[i];
    h *= 0x100000001b3ULL;
  }
  return h;
}

// ------------------------------------------------------------------------------------------------
// scenarios

static const size_t SIZES[10] = {0, 1, 4095, 4096, 4097, 65535, 65536, 65537, 131072, 1048576};

static const char* bucket(size_t n) {
  if (n == 0) return "0";
  if (n <= 4097) return n == 1 ? "1" : "~4K";
  if (n <= 65537) return "~64K";
  return n >= 1048576 ? "1M" : "128K";
}

enum Api { RP = 0, CM = 1, LIFE = 2, RPN = 3, SELFTEST = 4 };
static const char* API_NAMES[] = {"run_process", "communicate", "lifecycle", "run_process_repeat", "selftest"};

struct Scenario {
  uint64_t index = 0;
  Api api = RP;
  string beh;
  vector<string> ops;
  size_t payload = 0;
  size_t vol = 0;
  bool stdin_null = false;
  bool check = false;
  uint64_t timeout_us = 0;  // run_process timeout / communicate deadline (0 = none)
  bool ptr_overload = false;
  bool slow_parent = false;  // short deadline + one delay that outlasts it; judged only if the child was seen to finish in time
  bool presettle = false;    // communicate is called only after the child has exited / blocked
  int life_kind = 0;
  Plan plan;
  uint64_t key = 0;
  vector<string> tags;  // extra coverage classes

  string ops_str() const {
    string r;
    for (auto& o : ops) r += (r.empty() ? "" : " ") + o;
    return r;
  }
  string describe(const vf::Ctx& c) const {
    return fmt("case=%" PRIu64 " seed=%" PRIu64 " tier=%s api=%s beh=%s P=%zu%s V=%zu check=%d timeout_us=%" PRIu64 " plan=%s key=%#" PRIx64 " script=[%s]",
               index, c.seed, c.tier.c_str(), API_NAMES[api], beh.c_str(), payload, stdin_null ? "(nullptr)" : "", vol, (int)check,
               timeout_us, plan.str().c_str(), key, ops_str().c_str());
  }
};

struct Expect {
  string out, err;
  int status = 0;
  size_t consumed = 0;
  bool reads_to_eof = false;
  bool blocks_forever = false;
  bool ignores_term = false;
};

static Expect model(const Scenario& sc, const string& payload) {
  Expect e;
  Stream s1(sc.key * 2 + 1), s2(sc.key * 2 + 2);
  for (const string& op : sc.ops) {
    long long a[4] = {0, 0, 0, 0};
    bool star = false;
    {
      const char* p = op.c_str() + 1;
      int k = 0;
      while (*p == ':' && k < 4) {
        p++;
        if (*p == '*') {
          star = true;
          a[k++] = -1;
          p++;
        } else {
          char* end;
          a[k++] = strtoll(p, &end, 10);
          p = end;
        }
      }
    }
    switch (op[0]) {
      case 'R':
        if (star) {
          e.consumed = payload.size();
          e.reads_to_eof = true;
        } else {
          size_t want = (size_t)a[0];
          size_t left = payload.size() - e.consumed;
          if (want > left) {
            e.reads_to_eof = true;
            want = left;
          }
          e.consumed += want;
        }
        break;
      case 'E':
        e.out.append(payload, e.consumed, string::npos);
        e.consumed = payload.size();
        e.reads_to_eof = true;
        break;
      case 'W':
        (a[0] == 1 ? s1 : s2).gen(a[0] == 1 ? e.out : e.err, (size_t)a[1]);
        break;
      case 'S':
        if (a[0] >= 60000) {
          e.blocks_forever = true;
          return e;
        }
        break;
      case 'X':
        e.status = ((int)a[0] & 0xFF) << 8;
        return e;
      case 'K':
        e.status = (int)a[0];
        return e;
      case 'T':
        e.ignores_term = true;
        break;
      case 'Y':
        // ticks for ever: whatever was returned must be a prefix of the stream
        (a[0] == 1 ? s1 : s2).gen(a[0] == 1 ? e.out : e.err, 1 << 16);
        e.blocks_forever = true;
        return e;
      case 'H':  // survives SIGTERM, writes a[1] bytes some time after the first one
        e.ignores_term = true;
        (a[0] == 1 ? s1 : s2).gen(a[0] == 1 ? e.out : e.err, (size_t)a[1]);
        break;
      case 'C':  // closes a descriptor: the scripts never use it afterwards
      case 'G':  // the grandchild writes nothing
      default:
        break;
    }
  }
  return e;
}

static string W(int fd, size_t n, size_t chunk = 65536, unsigned delay_us = 0) {
  return fmt("W:%d:%zu:%zu:%u", fd, n, chunk, delay_us);
}

// behaviour -> script.  `v` selects a variation (exit code, chunking) deterministically.
static const char* RP_BEH[] = {"cat", "read-all-then-write", "write-then-read", "exit-before-poll", "slow-reader",
                               "close-stdin-early-linger", "pause-then-write", "signal-mid-write", "huge-stderr",
                               "no-output", "close-stdout-early", "partial-read", "dribble", "interleave-out-err"};
static const int N_RP_BEH = 14;
static const char* CM_BEH[] = {"cat", "read-all-then-write", "write-then-read", "exit-before-poll", "slow-reader",
                               "close-stdin-early-linger", "pause-then-write", "signal-mid-write", "no-output",
                               "close-stdout-early", "partial-read", "dribble"};
static const int N_CM_BEH = 12;

static void make_script(Scenario& sc, const string& beh, size_t P, size_t V, unsigned v) {
  static const int codes[] = {0, 0, 1, 0, 255, 3, 0, 42};
  static const int sigs[] = {SIGKILL, SIGTERM, SIGUSR1, SIGINT};
  string X = fmt("X:%d", codes[v % 8]);
  sc.beh = beh;
  sc.payload = P;
  sc.vol = V;
  auto& o = sc.ops;
  o.clear();
  if (beh == "cat") {
    static const size_t ch[] = {4096, 65536, 1000, 16384};
    o = {fmt("E:%zu", ch[v % 4]), X};
  } else if (beh == "read-all-then-write") {
    o = {"R:*:65536:0", W(1, V, v % 2 ? 4096 : 65536), W(2, SIZES[(v * 3 + 1) % 10] % 70000, 8192), X};
  } else if (beh == "write-then-read") {
    o = {W(1, V), "R:*:65536:0", X};
  } else if (beh == "exit-before-poll") {
    o = {W(1, V), W(2, V % 5000), X};
  } else if (beh == "slow-reader") {
    o = {fmt("R:*:%d:%d", P > 200000 ? 16384 : 1024, 300), W(1, V), X};
  } else if (beh == "close-stdin-early-linger") {
    o = {"C:0", "S:120", W(1, V), X};
  } else if (beh == "pause-then-write") {
    o = {"R:*:65536:0", sc.api == RP ? "S:1150" : "S:250", W(1, V, 8192), X};
  } else if (beh == "signal-mid-write") {
    if (v % 2) o.push_back("R:*:65536:0");
    o.push_back(W(1, V));
    o.push_back(fmt("K:%d", sigs[(v / 2) % 4]));
    o.push_back(W(1, 100));
  } else if (beh == "huge-stderr") {
    if (v % 2) o.push_back("R:*:65536:0");
    o.push_back(W(2, V));
    o.push_back(X);
  } else if (beh == "no-output") {
    o = {"R:*:65536:0", X};
  } else if (beh == "close-stdout-early") {
    o = {W(1, V), "C:1", "R:*:65536:0", "S:40", X};
  } else if (beh == "partial-read") {
    size_t n = v % 2 ? P / 2 : (P < 4096 ? P : 4096);
    if (n == 0) n = 1;
    o = {fmt("R:%zu:65536:0", n), W(1, V), X};
  } else if (beh == "dribble") {
    size_t n = V < 300 ? V : 300;
    sc.vol = n;
    o = {W(1, n, 1, 150), "R:*:65536:0", W(2, n / 2, 7, 100), W(1, n, 3, 0), X};
  } else if (beh == "interleave-out-err") {
    size_t q = V / 4;
    o = {W(1, q), W(2, q), W(1, V - 3 * q, 4096), "R:*:65536:0", W(2, q, 1024), W(1, q), W(2, q), X};
  }
}

static uint64_t mix(uint64_t a, uint64_t b) {
  vf::Rng r(a * 0x9E3779B97F4A7C15ULL ^ (b + 0x632BE59BD9B4E019ULL));
  return r.next();
}

static vector<Plan> plan_catalogue() {
  vector<Plan> v;
  v.push_back(Plan());
  for (int kind = 0; kind < 4; kind++)
    for (uint32_t k = 1; k <= 3; k++)
      for (int m = 0; m < 3; m++) {
        Plan p;
        p.n = 1;
        p.items[0] = Delay{kind, k, m == 2 ? MODE_SETTLE : MODE_SLEEP, m == 0 ? 1000u : 20000u};
        v.push_back(p);
      }
  Plan all;
  all.all_us = 1000;
  v.push_back(all);
  return v;
}

static Plan random_plan(uint64_t h) {
  vf::Rng r(h);
  Plan p;
  p.n = 2 + (int)r.below(2);
  for (int i = 0; i < p.n; i++) {
    int m = (int)r.below(3);
    p.items[i] = Delay{(int)r.below(4), (uint32_t)(1 + r.below(6)), m == 2 ? MODE_SETTLE : MODE_SLEEP, m == 0 ? 1000u : 20000u};
  }
  return p;
}

static Plan single(int kind, uint32_t k, int mode, uint32_t us) {
  Plan p;
  p.n = 1;
  p.items[0] = Delay{kind, k, mode, us};
  return p;
}

static vector<Scenario> build_scenarios(const vf::Ctx& c) {
  vector<Scenario> out;
  vector<Plan> plans = plan_catalogue();
  const size_t NP = plans.size();
  const uint64_t seed = c.seed;
  auto finish = [&](Scenario& sc) {
    sc.index = out.size();
    sc.key = mix(seed, sc.index) | 1;
    out.push_back(sc);
  };
  auto pick_plan = [&](uint64_t salt) -> Plan {
    uint64_t h = mix(seed * 31 + 7, salt);
    if (h % 8 == 0) return random_plan(h);
    return plans[(salt * 7 + seed * 13) % NP];
  };
  const bool quick = c.quick();

  // ---- run_process: behaviours x (P, V) x plans
  for (int b = 0; b < N_RP_BEH; b++) {
    for (int pi = 0; pi < 10; pi++) {
      for (int vi = 0; vi < 10; vi++) {
        if (quick && vi != (pi * 3 + b) % 10) continue;
        int nplans = quick ? 1 : 3;
        for (int pl = 0; pl < nplans; pl++) {
          Scenario sc;
          sc.api = RP;
          unsigned v = (unsigned)(mix(seed, b * 1000 + pi * 10 + vi) >> 7) + pl;
          make_script(sc, RP_BEH[b], SIZES[pi], SIZES[vi], v);
          uint64_t salt = (uint64_t)out.size();
          sc.plan = pl == 0 && !quick ? Plan() : pick_plan(salt);
          sc.check = ((pi + vi + b + pl) % 3) == 0;
          sc.stdin_null = SIZES[pi] == 0 && ((b + vi + pl) % 2 == 0);
          // a generous timeout that never expires must not change anything
          sc.timeout_us = ((pi + 2 * vi + b + pl) % 5 == 0) ? 600000000ULL : 0;
          finish(sc);
        }
      }
    }
  }
  // ---- run_process: targeted race plans (child exit vs. parent poll/wait made deterministic with `settle`)
  {
    static const size_t vols[] = {1, 4096, 65536, 65537, 300000};
    static const int kinds[] = {K_WAITPID, K_POLL, K_READ};
    for (size_t V : vols)
      for (int kind : kinds)
        for (uint32_t k = 1; k <= 2; k++) {
          if (quick && k == 2 && V != 65536) continue;
          Scenario sc;
          sc.api = RP;
          make_script(sc, "exit-before-poll", 0, V, 0);
          sc.stdin_null = true;
          sc.plan = single(kind, k, MODE_SETTLE, 0);
          finish(sc);
        }
    static const size_t pays[] = {1, 65537, 1048576};
    for (size_t P : pays)
      for (int kind : {K_POLL, K_WRITE, K_WAITPID})
        for (int m = 0; m < 2; m++) {
          if (quick && m == 1 && P != 65537) continue;
          Scenario sc;
          sc.api = RP;
          make_script(sc, "close-stdin-early-linger", P, 5000, 0);
          sc.plan = single(kind, 1, m ? MODE_SLEEP : MODE_SETTLE, 20000);
          finish(sc);
          // child that exits without ever touching stdin
          Scenario s2;
          s2.api = RP;
          make_script(s2, "exit-before-poll", P, 10, 2);
          s2.plan = single(kind, 1, m ? MODE_SLEEP : MODE_SETTLE, 20000);
          s2.check = (m == 0);
          finish(s2);
        }
  }
  // ---- run_process: timeouts (child never finishes on its own)
  {
    int n_plain = quick ? 3 : 8;
    for (int i = 0; i < n_plain; i++) {
      Scenario sc;
      sc.api = RP;
      sc.beh = "timeout";
      sc.payload = i % 2 ? 70000 : 0;
      sc.vol = 2000;
      sc.ops = {W(1, 2000), W(2, 100), "S:600000", W(1, 5), "X:0"};
      if (i % 3 == 1) sc.ops.insert(sc.ops.begin(), "R:*:65536:0");
      sc.timeout_us = 300000 + 250000 * (i % 3);
      sc.check = (i % 4 == 3);
      sc.plan = pick_plan(9000 + i);
      finish(sc);
    }
    int n_ign = quick ? 1 : 3;
    for (int i = 0; i < n_ign; i++) {
      Scenario sc;
      sc.api = RP;
      sc.beh = "timeout-sigterm-ignored";
      sc.payload = 0;
      sc.vol = 10;
      sc.ops = {"T", W(1, 10), "S:600000", "X:0"};
      sc.timeout_us = 2500000;
      sc.plan = i == 2 ? pick_plan(9100) : Plan();
      finish(sc);
    }
  }
  // ---- run_process: timeouts against children whose poll set is never quiet (ticking output, a closed stream that
  //      reports POLLHUP/POLLERR on every poll): the timeout must still end the child
  {
    struct NB { const char* name; vector<string> ops; };
    const NB nbs[] = {
        {"timeout-ticking-stdout", {W(1, 50), "Y:1:150"}},
        {"timeout-ticking-stderr", {"Y:2:250"}},
        {"timeout-closed-stdout-hangs", {W(1, 100), "C:1", "S:600000"}},
        {"timeout-closed-stderr-hangs", {"C:2", W(1, 7), "S:600000"}},
        {"timeout-closed-stdin-hangs", {"C:0", "S:600000"}},
        {"timeout-ticking-sigterm-ignored", {"T", "Y:1:200"}},
    };
    int nbi = 0;
    for (const NB& nb : nbs) {
      nbi++;
      for (int pay = 0; pay < 2; pay++)
        for (int to = 0; to < 2; to++) {
          bool ign = string(nb.name).find("ignored") != string::npos;
          if (quick && (ign ? (pay || to) : (to != (nbi + pay) % 2))) continue;
          Scenario sc;
          sc.api = RP;
          sc.beh = nb.name;
          sc.ops = nb.ops;
          sc.payload = pay ? 200000 : 0;
          sc.stdin_null = !pay && (to == 0);
          sc.vol = 100;
          sc.timeout_us = ign ? 1500000 : (to ? 1000000 : 300000);
          sc.check = (pay + to) == 2;
          sc.plan = (pay == to) ? Plan() : pick_plan(9400 + out.size());
          finish(sc);
        }
    }
  }
  // ---- a grandchild keeps the write ends of the child's stdout/stderr open after the child has exited
  //      (background job / daemonising child): the result is the child's bytes and status, and nothing may spin
  {
    static const size_t vols[] = {10, 5000, 65536, 200000};
    for (size_t V : vols)
      for (int never = 0; never < 2; never++)
        for (int pl = 0; pl < (quick ? 1 : 3); pl++) {
          Scenario sc;
          sc.api = RP;
          sc.beh = never ? "lingering-writer-never-closes" : "lingering-writer-2.5s";
          sc.payload = pl == 1 ? 3000 : 0;
          sc.stdin_null = pl == 2;
          sc.vol = V;
          sc.ops = {never ? "G:20000" : "G:2500", W(1, V), W(2, V % 3000 + 5), fmt("X:%d", pl == 0 ? 3 : 0)};
          if (pl == 1) sc.ops.insert(sc.ops.begin() + 1, "R:*:65536:0");
          sc.check = pl == 2;
          sc.plan = pl == 0 ? Plan() : pick_plan(9500 + out.size());
          finish(sc);
        }
    static const size_t cvols[] = {10, 5000, 70000};
    for (size_t V : cvols)
      for (int mode = 0; mode < 3; mode++) {  // 0: 2.5 s linger, no deadline; 1: 2.5 s linger, deadline; 2: never closes, no deadline
        Scenario sc;
        sc.api = CM;
        sc.beh = mode == 2 ? "lingering-writer-never-closes" : "lingering-writer-2.5s";
        sc.payload = V == 5000 ? 2000 : 0;
        sc.vol = V;
        // the pause makes sure the parent is back in poll() when the child exits (otherwise it is a race whether the
        // parent notices the exit at the top of its loop)
        sc.ops = {mode == 2 ? "G:20000" : "G:2500", "R:*:65536:0", W(1, V), "S:300", fmt("X:%d", mode)};
        sc.timeout_us = mode == 1 ? 60000000ULL : 0;
        sc.ptr_overload = mode == 1;
        sc.plan = quick || mode == 0 ? Plan() : pick_plan(9600 + out.size());
        finish(sc);
      }
  }
  // ---- slow parent, short deadline: the child finishes in time (its exit is observed before the deadline), but one delay
  //      at the parent's k-th waitpid/poll/read outlasts the deadline, so the parent notices the exit only afterwards.
  //      The child finished in time, so the result must be its complete output: no "timed out", no truncation.
  {
    static const int kinds[] = {K_WAITPID, K_POLL, K_READ};
    int n = 0;
    auto add = [&](Api api, const vector<string>& ops, size_t P, size_t V, uint64_t dl_us, int kind, uint32_t k, bool presettle) {
      Scenario sc;
      sc.api = api;
      sc.beh = V > 65536 ? "slow-parent-big-output" : P ? "slow-parent-after-stdin" : presettle ? "slow-parent-child-already-exited" : "slow-parent";
      sc.ops = ops;
      sc.payload = P;
      sc.stdin_null = (api == RP && P == 0);
      sc.vol = V;
      sc.timeout_us = dl_us;
      sc.slow_parent = true;
      sc.presettle = presettle;
      sc.ptr_overload = (n % 2) == 0;
      sc.plan = single(kind, k, MODE_PAST_DEADLINE, 0);
      n++;
      finish(sc);
    };
    static const size_t vols[] = {1, 4096, 60000};
    for (size_t V : vols)
      for (int pre = 0; pre < 2; pre++)
        for (int d = 0; d < 2; d++)
          for (int kind : kinds)
            for (uint32_t k = 1; k <= 3; k++) {
              if (quick && (n++ % 4) != 0) continue;
              add(CM, {W(1, V), fmt("X:%d", (int)k)}, 0, V, d ? 500000 : 250000, kind, k, pre == 1);
            }
    // 200000 bytes need a reader that keeps up: the delay comes when less than a pipe-full is left
    for (int kind : kinds)
      for (uint32_t k : {36u, 42u, 47u}) {
        if (quick && k == 42) continue;
        add(CM, {W(1, 200000), "X:0"}, 0, 200000, 500000, kind, k, false);
      }
    // the child first reads a small payload to EOF: the delay comes after stdin has been written and closed
    for (int kind : kinds)
      for (uint32_t k : {3u, 4u}) add(CM, {"R:*:65536:0", W(1, 5000), "X:0"}, 100, 5000, 500000, kind, k, false);
    // run_process: the timeout passes while the parent is delayed, the child had already exited
    for (size_t V : vols)
      for (int kind : kinds)
        for (uint32_t k = 1; k <= 2; k++) {
          if (quick && (n++ % 2) != 0) continue;
          add(RP, {W(1, V), W(2, V % 1000), fmt("X:%d", (int)k)}, 0, V, 400000, kind, k, false);
        }
  }
  // ---- EINTR: a signal handler installed without SA_RESTART runs in the parent during the call.  Injected
  //      deterministically at the calls a signal can really interrupt (poll; waitpid without WNOHANG), and produced for
  //      real by a 3 ms SIGALRM interval timer or by three sibling children exiting (SIGCHLD) during the call.
  {
    auto E = [&](int kind, uint32_t k) { return single(kind, k, MODE_EINTR, 0); };
    auto E2 = [&](int k1, uint32_t n1, int k2, uint32_t n2) {
      Plan p;
      p.n = 2;
      p.items[0] = Delay{k1, n1, MODE_EINTR, 0};
      p.items[1] = Delay{k2, n2, MODE_EINTR, 0};
      return p;
    };
    Plan storm, sibling;
    storm.sig = SIG_ALARM_STORM;
    sibling.sig = SIG_SIBLING_CHLD;
    const bool probe_all = c.arg("eintr") == "all";  // also at read/write and WNOHANG sites (cannot happen for real: probe only)
    vector<Plan> rp_plans = {E(K_POLL, 1), E(K_POLL, 2), E(K_POLL, 3), E(K_POLL, 5), E2(K_POLL, 1, K_POLL, 2), storm, sibling};
    if (probe_all) {
      rp_plans = {E(K_READ, 1), E(K_READ, 2), E(K_READ, 3), E(K_WRITE, 1), E(K_WRITE, 2), E(K_WAITPID, 1), E(K_WAITPID, 3)};
    }
    static const char* rbeh[] = {"cat", "read-all-then-write", "exit-before-poll", "pause-then-write", "close-stdout-early", "huge-stderr",
                                 "close-stdin-early-linger"};
    static const size_t pairs[3][2] = {{4096, 65537}, {1048576, 4095}, {0, 131072}};
    for (int b = 0; b < 7; b++)
      for (int pi = 0; pi < 3; pi++)
        for (size_t pl = 0; pl < rp_plans.size(); pl++) {
          if (quick && (b + pi + pl) % 3 != 0) continue;
          Scenario sc;
          sc.api = RP;
          make_script(sc, rbeh[b], pairs[pi][0], pairs[pi][1], (unsigned)(b + pi + pl));
          sc.plan = rp_plans[pl];
          sc.check = (b + pl) % 4 == 0;
          finish(sc);
        }
    vector<Plan> cm_plans = {E(K_POLL, 1), E(K_POLL, 2), E(K_POLL, 4), E(K_WAITB, 1), E2(K_WAITB, 1, K_WAITB, 2), storm, sibling};
    if (probe_all) cm_plans = {E(K_READ, 1), E(K_READ, 2), E(K_WRITE, 1), E(K_WRITE, 2), E(K_WAITPID, 1), E(K_WAITPID, 2), E(K_READ, 4)};
    static const char* cbeh[] = {"cat", "close-stdout-early", "read-all-then-write", "close-stdin-early-linger", "pause-then-write", "no-output",
                                 "closes-stdout-then-lingers"};
    static const size_t cpairs[2][2] = {{4097, 65536}, {131072, 10}};
    for (int b = 0; b < 7; b++)
      for (int pi = 0; pi < 2; pi++)
        for (int dl = 0; dl < 2; dl++)
          for (size_t pl = 0; pl < cm_plans.size(); pl++) {
            if (quick && (b + pi + dl + pl) % 3 != 0) continue;
            Scenario sc;
            sc.api = CM;
            if (b == 6) {
              // reaches communicate's blocking wait(): both descriptors are finished with while the child lingers
              sc.beh = cbeh[b];
              sc.payload = cpairs[pi][0];
              sc.vol = cpairs[pi][1];
              sc.ops = {W(1, sc.vol), "C:1", "R:*:65536:0", "S:250", fmt("X:%d", pi)};
            } else {
              make_script(sc, cbeh[b], cpairs[pi][0], cpairs[pi][1], (unsigned)(b + pi + pl));
            }
            sc.timeout_us = dl ? 60000000ULL : 0;
            sc.ptr_overload = (pl + dl) % 2;
            sc.plan = cm_plans[pl];
            finish(sc);
          }
    if (!probe_all) {
      // the destructor's kill + blocking wait, a plain blocking wait(), kill() + wait()
      for (int k : {0, 2, 4})
        for (int pl = 0; pl < 3; pl++) {
          Scenario sc;
          sc.api = LIFE;
          sc.life_kind = k;
          sc.beh = k == 0 ? "destroy-sleeping" : k == 2 ? "wait-exit-code" : "kill-then-wait";
          if (k == 2) sc.ops = {"S:200", "X:7"};
          else sc.ops = {"S:600000"};
          sc.plan = pl == 0 ? E(K_WAITB, 1) : pl == 1 ? storm : sibling;
          finish(sc);
        }
      for (int pl = 0; pl < 2; pl++) {
        Scenario sc;
        sc.api = CM;
        sc.beh = "deadline-expires";
        sc.payload = 100;
        sc.vol = 500;
        sc.ops = {W(1, 500), "S:600000", "X:0"};
        sc.timeout_us = 300000;
        sc.plan = pl ? storm : E(K_WAITB, 1);
        finish(sc);
      }
      for (int pl = 0; pl < 2; pl++) {
        Scenario sc;
        sc.api = RP;
        sc.beh = pl ? "timeout-ticking-stdout" : "timeout";
        sc.vol = 100;
        if (pl) sc.ops = {W(1, 50), "Y:1:150"};
        else sc.ops = {W(1, 2000), "S:600000", "X:0"};
        sc.stdin_null = true;
        sc.timeout_us = 400000;
        sc.plan = pl ? sibling : storm;
        finish(sc);
      }
    }
  }
  // ---- run_process called repeatedly in one process: descriptors must not accumulate
  for (int i = 0; i < (quick ? 2 : 6); i++) {
    Scenario sc;
    sc.api = RPN;
    sc.beh = "repeat";
    sc.payload = i % 2 ? 5000 : 0;
    sc.vol = 100 + i;
    sc.plan = i < 2 ? Plan() : pick_plan(9200 + i);
    finish(sc);
  }
  // ---- Subprocess::communicate: behaviours x (P, V) x {no deadline, deadline}
  for (int b = 0; b < N_CM_BEH; b++) {
    for (int pi = 0; pi < 10; pi++) {
      for (int vi = 0; vi < 10; vi++) {
        if (quick) {
          if (vi != (pi * 3 + b + 1) % 10) continue;
          if ((pi + b) % 5 == 4 && pi != 9) continue;  // thin out, but keep every 1 MiB payload
        }
        for (int dl = 0; dl < 2; dl++) {
          Scenario sc;
          sc.api = CM;
          unsigned v = (unsigned)(mix(seed + 99, b * 1000 + pi * 10 + vi) >> 9);
          make_script(sc, CM_BEH[b], SIZES[pi], SIZES[vi], v);
          // a deadline that a child finishing on its own never reaches (scripted sleeps total < 0.5 s); kept below the
          // monitor's watchdog so that a call that merely sits out its deadline ends by itself
          sc.timeout_us = dl ? 60000000ULL : 0;
          sc.ptr_overload = ((pi + vi + dl) % 2) == 0;
          uint64_t salt = (uint64_t)out.size();
          sc.plan = (!quick && (salt % 3 == 0)) ? Plan() : pick_plan(salt);
          finish(sc);
        }
      }
    }
  }
  // ---- communicate: the deadline expires (child never finishes): must not hang, child ended and reaped
  for (int i = 0; i < (quick ? 2 : 6); i++) {
    Scenario sc;
    sc.api = CM;
    sc.beh = "deadline-expires";
    sc.payload = i % 2 ? 3000 : 0;
    sc.vol = 500;
    sc.ops = {W(1, 500), "S:600000", "X:0"};
    sc.timeout_us = 250000 + 100000 * i;
    sc.plan = i < 2 ? Plan() : pick_plan(9300 + i);
    finish(sc);
  }
  // ---- Subprocess life cycle: every child reaped
  for (int k = 0; k < 5; k++) {
    Scenario sc;
    sc.api = LIFE;
    sc.life_kind = k;
    static const char* names[] = {"destroy-sleeping", "destroy-blocked-on-stdin", "wait-exit-code", "wait-signal", "kill-then-wait"};
    sc.beh = names[k];
    switch (k) {
      case 0: sc.ops = {"S:600000"}; break;
      case 1: sc.ops = {"R:*:4096:0", "X:0"}; break;
      case 2: sc.ops = {"S:150", "X:7"}; break;
      case 3: sc.ops = {"K:15"}; break;
      case 4: sc.ops = {"S:600000"}; break;
    }
    finish(sc);
  }
  // ---- monitor self-test: a parent that deadlocks on purpose; the witness must fire (else the run is inconclusive)
  {
    Scenario sc;
    sc.api = SELFTEST;
    sc.beh = "deliberate-deadlock";
    sc.payload = 1048576;
    sc.vol = 1048576;
    sc.ops = {"E:4096"};
    finish(sc);
  }
  // New families are appended here so that the indices (and with them the seeded plan choice) of everything above stay put.

  // ---- delays positioned relative to the run_process deadline: the first (or second) waitpid / poll / read / write
  //      that the parent issues shortly before the deadline - or right after it has consumed the child's last output -
  //      is held until the deadline + eps, so the deadline passes *between two particular parent system calls*.
  //      Children: one late burst and then silence (stdout / stderr / after consuming stdin / in two pieces), silent
  //      throughout, chatty, slow reader of a big payload (keeps POLLOUT coming), closes stdout after the burst; and
  //      the same relative to the end of the SIGTERM grace period for children that survive SIGTERM.
  {
    auto DL = [&](int kind, uint32_t k, uint32_t eps_us, uint32_t win_us, uint64_t after_rd, int phase) {
      Plan p;
      p.n = 1;
      Delay d{kind, k, MODE_UNTIL_DEADLINE, eps_us};
      d.win_us = win_us;
      d.after_rd = after_rd;
      d.phase = phase;
      p.items[0] = d;
      return p;
    };
    struct DC {
      const char* name;
      vector<string> ops;
      size_t payload;      // 0 = stdin nullptr
      uint64_t T;
      int kind;
      uint32_t k, win_us;
      uint64_t after_rd;
      int phase;
      int in_quick;        // 0 thorough only, 1 quick with one eps (alternating), 2 quick with both eps
    };
    const string HANG = "S:600000";
    const vector<DC> dcs = {
        // one burst, then silence: the delayed call is the first of its kind after the burst has been read
        {"deadline-late-burst-then-silent", {"S:200", W(1, 64), HANG}, 0, 1500000, K_WAITPID, 1, 0, 64, 0, 2},
        {"deadline-late-burst-then-silent", {"S:200", W(1, 64), HANG}, 0, 1500000, K_POLL, 1, 0, 64, 0, 1},
        {"deadline-late-burst-then-silent", {"S:200", W(1, 64), HANG}, 0, 1500000, K_WAITPID, 2, 0, 64, 0, 0},
        {"deadline-late-burst-stderr-then-silent", {"S:200", W(2, 64), HANG}, 0, 1500000, K_WAITPID, 1, 0, 64, 0, 1},
        {"deadline-late-burst-stderr-then-silent", {"S:200", W(2, 64), HANG}, 0, 1500000, K_POLL, 1, 0, 64, 0, 0},
        {"deadline-two-bursts-then-silent", {"S:200", W(1, 64, 32, 80000), HANG}, 0, 1500000, K_READ, 1, 0, 32, 0, 2},
        {"deadline-two-bursts-then-silent", {"S:200", W(1, 64, 32, 80000), HANG}, 0, 1500000, K_WAITPID, 1, 0, 32, 0, 1},
        {"deadline-burst-after-stdin-then-silent", {"R:*:65536:0", "S:200", W(1, 64), HANG}, 70000, 1500000, K_WAITPID, 1, 0, 64, 0, 2},
        {"deadline-burst-after-stdin-then-silent", {"R:*:65536:0", "S:200", W(1, 64), HANG}, 1048576, 1500000, K_POLL, 1, 0, 64, 0, 0},
        {"deadline-burst-closes-stdout-then-silent", {"S:200", W(1, 64), "C:1", HANG}, 0, 1500000, K_WAITPID, 1, 0, 64, 0, 1},
        {"deadline-burst-closes-both-then-silent", {"S:200", W(1, 64), "C:2", "C:1", HANG}, 0, 1500000, K_POLL, 1, 0, 64, 0, 0},
        {"deadline-burst-then-silent-sigterm-ignored", {"T", "S:200", W(1, 64), HANG}, 0, 1500000, K_WAITPID, 1, 0, 64, 0, 0},
        // silent throughout: the parent wakes once a second; the call that follows such a wake-up inside the window
        {"deadline-silent", {HANG}, 0, 1500000, K_WAITPID, 1, 700000, 0, 0, 2},
        {"deadline-silent", {HANG}, 0, 1500000, K_POLL, 1, 700000, 0, 0, 1},
        {"deadline-silent", {"R:*:65536:0", HANG}, 65537, 2500000, K_WAITPID, 1, 700000, 0, 0, 0},
        // chatty: there is always a call of every kind inside the window
        {"deadline-chatty", {"Y:1:25"}, 0, 600000, K_WAITPID, 1, 100000, 0, 0, 1},
        {"deadline-chatty", {"Y:1:25"}, 0, 600000, K_POLL, 1, 100000, 0, 0, 1},
        {"deadline-chatty", {"Y:1:25"}, 0, 600000, K_READ, 1, 100000, 0, 0, 1},
        {"deadline-chatty", {"Y:2:25"}, 0, 600000, K_READ, 2, 100000, 0, 0, 0},
        {"deadline-chatty", {"Y:1:25"}, 0, 600000, K_WAITPID, 2, 100000, 0, 0, 0},
        // slow reader of a payload far beyond the pipe capacity: POLLOUT keeps coming, the parent keeps writing
        {"deadline-slow-reader-big-payload", {"R:*:4096:4000", HANG}, 1048576, 600000, K_WRITE, 1, 150000, 0, 0, 2},
        {"deadline-slow-reader-big-payload", {"R:*:4096:4000", HANG}, 1048576, 600000, K_WRITE, 2, 150000, 0, 0, 1},
        {"deadline-slow-reader-big-payload", {"R:*:4096:4000", HANG}, 1048576, 600000, K_WAITPID, 1, 150000, 0, 0, 1},
        {"deadline-slow-reader-big-payload", {"R:*:4096:4000", HANG}, 1048576, 600000, K_POLL, 1, 150000, 0, 0, 0},
        // SIGTERM-surviving children: the same around the end of the grace period (a burst 4.4 s after SIGTERM / silence)
        {"grace-late-burst-then-silent", {W(1, 10), "H:1:64:4400", HANG}, 0, 500000, K_WAITPID, 1, 0, 74, 1, 1},
        {"grace-late-burst-then-silent", {W(1, 10), "H:1:64:4400", HANG}, 0, 500000, K_POLL, 1, 0, 74, 1, 0},
        {"grace-silent", {"T", HANG}, 0, 500000, K_WAITPID, 1, 1100000, 0, 1, 1},
        {"grace-silent", {"T", HANG}, 0, 500000, K_POLL, 1, 1100000, 0, 1, 0},
    };
    int n = 0, j = 0;
    for (const DC& dc : dcs) {
      j++;
      for (int e = 0; e < 2; e++) {
        n++;
        if (quick && (dc.in_quick == 0 || (dc.in_quick == 1 && e != (dc.phase ? 1 : j % 2)))) continue;
        for (int var = 0; var < (quick ? 1 : 2); var++) {
          Scenario sc;
          sc.api = RP;
          sc.beh = dc.name;
          sc.ops = dc.ops;
          sc.payload = dc.payload;
          sc.stdin_null = dc.payload == 0 && (n + var) % 2 == 0;
          sc.vol = 64;
          sc.timeout_us = dc.T + (var ? 700000 : 0);
          sc.check = (n + var) % 3 == 0;
          sc.plan = DL(dc.kind, dc.k, e ? 20000 : 1000, dc.win_us, dc.after_rd, dc.phase);
          finish(sc);
        }
      }
    }
  }
  // ---- timeouts against children that have closed both outputs (or everything) and then hang or read slowly
  {
    struct NB { const char* name; vector<string> ops; size_t pay; };
    const NB nbs[] = {
        {"timeout-closed-both-outputs-hangs", {"C:1", "C:2", "S:600000"}, 0},
        {"timeout-closed-both-outputs-hangs", {W(1, 100), "C:2", "C:1", "S:600000"}, 200000},
        {"timeout-closed-all-hangs", {"C:0", "C:2", "C:1", "S:600000"}, 200000},
        {"timeout-closed-both-outputs-reads-slowly", {"C:2", "C:1", "R:*:4096:20000", "S:600000"}, 1048576},
    };
    int i = 0, j = 0;
    for (const NB& nb : nbs) {
      j++;
      for (int to = 0; to < 2; to++) {
        i++;
        if (quick && to != j % 2) continue;
        Scenario sc;
        sc.api = RP;
        sc.beh = nb.name;
        sc.ops = nb.ops;
        sc.payload = nb.pay;
        sc.stdin_null = nb.pay == 0 && to == 0;
        sc.vol = 100;
        sc.timeout_us = to ? 1000000 : 300000;
        sc.check = i % 3 == 0;
        sc.plan = (i % 2) ? Plan() : pick_plan(9700 + out.size());
        finish(sc);
      }
    }
  }
  // ---- children that close descriptors in unusual orders while they keep running: every ordered subset of
  //      {stdin, stdout, stderr} x every placement of those closes {before, between, after} the reading and the writing
  //      phase (either phase order), payload and volume on both sides of the pipe capacity, four ways of ending
  //      (exit code, linger 150 ms then exit, signal, linger > the parent's 1 s poll period then exit).
  {
    struct Pat { int n; int fd[3]; int pos[3]; };
    vector<Pat> pats;
    static const int perms[16][4] = {{0, 0, 0, 0}, {1, 0, 0, 0}, {1, 1, 0, 0}, {1, 2, 0, 0}, {2, 0, 1, 0}, {2, 1, 0, 0}, {2, 0, 2, 0}, {2, 2, 0, 0},
                                     {2, 1, 2, 0}, {2, 2, 1, 0}, {3, 0, 1, 2}, {3, 0, 2, 1}, {3, 1, 0, 2}, {3, 1, 2, 0}, {3, 2, 0, 1}, {3, 2, 1, 0}};
    for (auto& pm : perms) {
      int m = pm[0];
      for (int p0 = 0; p0 < 3; p0++)
        for (int p1 = p0; p1 < 3; p1++)
          for (int p2 = p1; p2 < 3; p2++) {
            if (m < 3 && p2 != p1) continue;
            if (m < 2 && p1 != p0) continue;
            if (m < 1 && p0 != 0) continue;
            pats.push_back(Pat{m, {pm[1], pm[2], pm[3]}, {p0, p1, p2}});
          }
    }
    static const size_t PS[5] = {0, 1, 65536, 65537, 1048576};
    static const size_t V2S[4] = {0, 1, 5000, 65537};
    static const char* SETN[8] = {"none", "stdin", "stdout", "stdin+stdout", "stderr", "stdin+stderr", "both-outputs", "all"};
    static const char* FDN[3] = {"in", "out", "err"};
    static const char* POSN[3] = {"before", "between", "after"};
    // order: 0 = read phase then write phase, 1 = write phase then read phase
    auto build = [&](Scenario& sc, Api api, const Pat& pt, int order, size_t P, size_t V, size_t V2, int endk, unsigned v) {
      sc.api = api;
      sc.payload = P;
      sc.vol = V;
      bool closed[3] = {false, false, false};
      int mask = 0;
      string ord, when;
      for (int i = 0; i < pt.n; i++) {
        mask |= 1 << pt.fd[i];
        ord += string(i ? ">" : "") + FDN[pt.fd[i]];
        when += string(i ? "," : "") + POSN[pt.pos[i]];
      }
      sc.beh = string("closes-") + SETN[mask];
      sc.tags = {fmt("closes:order:%s", pt.n ? ord.c_str() : "none"), fmt("closes:when:%s", pt.n ? when.c_str() : "never"),
                 fmt("closes:phases:%s", order ? "write-then-read" : "read-then-write"), fmt("closes:end:%d", endk)};
      auto& o = sc.ops;
      auto closes = [&](int pos) {
        for (int i = 0; i < pt.n; i++)
          if (pt.pos[i] == pos) {
            o.push_back(fmt("C:%d", pt.fd[i]));
            closed[pt.fd[i]] = true;
          }
      };
      auto rd = [&]() {
        if (!closed[0]) o.push_back(v % 3 == 0 ? "R:*:4096:0" : "R:*:65536:0");
      };
      auto wr = [&]() {
        if (!closed[1] && V) o.push_back(W(1, V, v % 2 ? 4096 : 65536));
        if (closed[1]) sc.vol = 0;  // nothing reaches stdout
        if (!closed[2] && V2) o.push_back(W(2, V2, 8192));
      };
      closes(0);
      if (order) wr(); else rd();
      closes(1);
      if (order) rd(); else wr();
      closes(2);
      static const int codes[] = {0, 3, 0, 255, 1, 0};
      static const int sigs[] = {SIGKILL, SIGTERM, SIGUSR1, SIGINT};
      switch (endk) {
        case 0: o.push_back(fmt("X:%d", codes[v % 6])); break;
        case 1: o.push_back("S:150"); o.push_back(fmt("X:%d", codes[v % 6])); break;
        case 2: o.push_back(fmt("K:%d", sigs[v % 4])); break;
        default: o.push_back("S:1100"); o.push_back(fmt("X:%d", codes[v % 6])); break;
      }
      // both outputs closed before a read phase that is still to come: the case in which "nothing left to read" is
      // not "nothing left to do"
      int before_read = 0;  // descriptors closed before the read phase (positions <= limit)
      for (int i = 0; i < pt.n; i++)
        if (pt.pos[i] <= (order ? 1 : 0)) before_read |= 1 << pt.fd[i];
      if (before_read == 6) sc.tags.push_back(fmt("closes:%s:both-outputs-closed-before-reading:P=%s", API_NAMES[api], bucket(P)));
    };
    uint64_t idx = 0;
    const int orders = quick ? 1 : 2, npay = quick ? 1 : 5;
    for (const Pat& pt : pats) {
      for (int oi = 0; oi < orders; oi++)
        for (int pi = 0; pi < npay; pi++) {
          idx++;
          uint64_t h = mix(seed + 5, idx);
          int order = quick ? (int)(idx % 2) : oi;
          size_t P = quick ? PS[(idx + idx / 5) % 5] : PS[pi];
          size_t V = PS[(idx * 2 + idx / 5 + 1) % 5];
          int endk = idx % 8 == 7 ? 3 : (int)(idx % 3);
          {
            Scenario sc;
            build(sc, RP, pt, order, P, V, V2S[(idx + idx / 4) % 4], endk, (unsigned)(h >> 8));
            sc.stdin_null = P == 0 && (idx % 2 == 0);
            sc.check = idx % 3 == 0;
            sc.timeout_us = idx % 5 == 0 ? 600000000ULL : 0;
            sc.plan = (!quick && idx % 2) ? Plan() : pick_plan(9800 + out.size());
            finish(sc);
          }
          if (!quick || idx % 3 == seed % 3) {
            Scenario sc;
            build(sc, CM, pt, order, P, V, V2S[idx % 3], endk == 3 ? 1 : endk, (unsigned)(h >> 12));
            sc.timeout_us = (idx / 3) % 2 ? 60000000ULL : 0;
            sc.ptr_overload = idx % 2;
            sc.plan = (!quick && idx % 4 == 1) ? Plan() : pick_plan(9900 + out.size());
            finish(sc);
          }
        }
    }
    // targeted: both outputs closed (either order, optionally stdin afterwards) before a payload beyond the pipe capacity
    // is consumed; stdout closed while stderr keeps flowing; through communicate: stdout closed before the payload is read
    {
      const Pat both[] = {{2, {1, 2, 0}, {0, 0, 0}}, {2, {2, 1, 0}, {0, 0, 0}}, {3, {2, 1, 0}, {0, 0, 1}}, {3, {1, 2, 0}, {0, 0, 2}}};
      int t = 0;
      for (const Pat& pt : both)
        for (size_t P : {(size_t)65537, (size_t)1048576, (size_t)200000})
          for (int endk = 0; endk < 3; endk++) {
            t++;
            if (quick && (pt.n == 3 || P == 200000) && (t % 3)) continue;
            Scenario sc;
            build(sc, RP, pt, 0, P, 0, 0, endk, (unsigned)t);
            sc.check = t % 4 == 0;
            sc.plan = t % 2 ? Plan() : pick_plan(9950 + out.size());
            finish(sc);
          }
      const Pat outonly[] = {{1, {1, 0, 0}, {0, 0, 0}}, {1, {1, 0, 0}, {1, 0, 0}}};
      for (const Pat& pt : outonly)
        for (int order = 0; order < 2; order++) {
          Scenario sc;
          build(sc, RP, pt, order, order ? 65537 : 1048576, 5000, order ? 1048576 : 65537, order, (unsigned)order + 1);
          sc.plan = order ? pick_plan(9960 + out.size()) : Plan();
          finish(sc);
        }
      const Pat cm[] = {{1, {1, 0, 0}, {0, 0, 0}}, {2, {1, 2, 0}, {0, 0, 0}}, {2, {2, 1, 0}, {0, 0, 0}}};
      for (const Pat& pt : cm)
        for (size_t P : {(size_t)65537, (size_t)1048576})
          for (int dl = 0; dl < 2; dl++) {
            t++;
            Scenario sc;
            build(sc, CM, pt, 0, P, 0, 0, t % 3, (unsigned)t);
            sc.timeout_us = dl ? 60000000ULL : 0;
            sc.ptr_overload = t % 2;
            sc.plan = t % 2 ? Plan() : pick_plan(9970 + out.size());
            finish(sc);
          }
    }
  }
  return out;
}

// ------------------------------------------------------------------------------------------------
// SP side: records and oracles

static void rec(char kind, const string& key, const string& what = "") {
  string w = what;
  for (char& ch : w)
    if (ch == '\n' || ch == '\t' || ch == '\r') ch = ' ';
  if (w.size() > 900) w.resize(900);
  string line = string(1, kind) + "\t" + key + "\t" + w + "\n";
  uint32_t o = g_shm->rec_len;
  if (o + line.size() >= sizeof(g_shm->rec)) return;
  memcpy(g_shm->rec + o, line.data(), line.size());
  g_shm->rec_len = o + line.size();
}
static string g_viol_prefix;  // "probe-unrealistic-eintr:" when EINTR is injected where no signal could cause it
static void viol(const string& key, const string& what) { rec('V', g_viol_prefix + key, what); }
static void cls(const string& key) { rec('C', key); }
static void cnt(const string& key) { rec('N', key); }

static string printable(const string& s, size_t max = 80) {
  string r;
  for (unsigned char ch : s) {
    if (r.size() >= max) {
      r += "...";
      break;
    }
    if (ch >= 0x20 && ch < 0x7F) r.push_back(ch);
    else r += fmt("\\x%02x", ch);
  }
  return r;
}

// compares a returned stream with the scripted one; prefix_ok: the child was cut short by a timeout
static void cmp_stream(const string& api, const char* name, const string& got, const string& exp, bool prefix_ok) {
  if (got == exp) return;
  size_t m = min(got.size(), exp.size());
  size_t d = 0;
  while (d < m && got[d] == exp[d]) d++;
  string what = fmt("%s: got %zu bytes, child wrote %zu bytes, first difference at offset %zu", name, got.size(), exp.size(), d);
  if (d == got.size() && got.size() < exp.size()) {
    if (prefix_ok) return;
    viol(api + ":" + name + ":truncated", what);
  } else if (d == exp.size() && got.size() > exp.size()) {
    viol(api + ":" + name + ":extra-bytes", what);
  } else {
    viol(api + ":" + name + ":corrupt", what);
  }
}

static string status_str(int st) {
  if (st < 0) return fmt("%d", st);
  if (WIFEXITED(st)) return fmt("exit(%d)", WEXITSTATUS(st));
  if (WIFSIGNALED(st)) return fmt("signal(%d)", WTERMSIG(st));
  return fmt("raw(%#x)", st);
}

static string exc_class(const string& msg) {
  string head = msg.substr(0, msg.find(':'));
  for (char& ch : head)
    if (ch == ' ') ch = '-';
  if (head.size() > 40) head.resize(40);
  if (msg.find(": 32 ") != string::npos || msg.find("Broken pipe") != string::npos) head += ":EPIPE";
  return head;
}

static string g_child_path;
static string g_receipt;

static vector<string> make_cmd(const Scenario& sc) {
  vector<string> cmd = {g_child_path, fmt("%" PRIu64, sc.key), g_receipt};
  for (auto& o : sc.ops) cmd.push_back(o);
  return cmd;
}

static void check_receipt(const string& api, const Expect& e, const string& payload) {
  string r = slurp(g_receipt.c_str(), 512);
  unlink(g_receipt.c_str());
  if (r.empty()) {
    viol(api + ":stdin:no-receipt", "the child left no receipt although it ran its script to the end");
    return;
  }
  unsigned long long count = 0, h = 0;
  int eof = 0;
  char note[128] = "";
  if (sscanf(r.c_str(), "%llu %llx %d %127[^\n]", &count, &h, &eof, note) < 4) {
    viol(api + ":stdin:no-receipt", "unparsable receipt: " + printable(r));
    return;
  }
  string what = fmt("child read %llu bytes (fnv %016llx, eof=%d, note '%s'); script should have consumed %zu of the %zu payload bytes%s",
                    count, h, eof, note, e.consumed, payload.size(), e.reads_to_eof ? " and then seen EOF" : "");
  if (strcmp(note, "ok")) {
    viol(api + ":child-write-failed", what);
    return;
  }
  if (count < e.consumed) viol(api + ":stdin:short-delivery", what);
  else if (count > e.consumed) viol(api + ":stdin:extra-bytes", what);
  else if (h != fnv1a(payload.data(), e.consumed)) viol(api + ":stdin:corrupt", what);
  else if (e.reads_to_eof && !eof) viol(api + ":stdin:no-eof", what);
}

static void check_reaped(const string& api, pid_t child) {
  int st = 0;
  errno = 0;
  pid_t r = __real_waitpid(-1, &st, WNOHANG);
  if (r == -1 && errno == ECHILD) {
    cls("monitor:reaped:ECHILD");
  } else if (r == 0) {
    viol(api + ":reap:child-still-running", fmt("waitpid(-1, WNOHANG) == 0 after the call: child %d was neither ended nor reaped", child));
  } else if (r > 0) {
    viol(api + ":reap:zombie-left", fmt("waitpid(-1, WNOHANG) reaped pid %d (%s) after the call", r, status_str(st).c_str()));
  } else {
    viol(api + ":reap:waitpid-error", fmt("errno %d", errno));
  }
  // drain whatever else is there so that nothing is left behind
  while (__real_waitpid(-1, &st, WNOHANG) > 0) {
  }
}

static string fd_role(int fd) {
  static const char* roles[] = {"child-stdin-read", "stdin-write", "stdout-read", "child-stdout-write", "stderr-read", "child-stderr-write"};
  for (int i = 0; i < g_shm->npipes * 2 && i < 6; i++)
    if (g_shm->pipe_fds[i] == fd) return roles[i];
  return "other";
}

static void check_fds(const string& api, const map<int, string>& before) {
  map<int, string> after = list_fds(0);
  int leaks = 0;
  for (auto& kv : after) {
    auto it = before.find(kv.first);
    if (it != before.end() && it->second == kv.second) continue;
    leaks++;
    viol(api + ":fd-leak:" + fd_role(kv.first), fmt("descriptor %d -> %s is open after the call and was not before (%zu open before, %zu after)",
                                                     kv.first, kv.second.c_str(), before.size(), after.size()));
  }
  if (!leaks) cls("monitor:fds:conserved");
}

static double mono() {
  struct timespec ts;
  clock_gettime(CLOCK_MONOTONIC, &ts);
  return ts.tv_sec + ts.tv_nsec * 1e-9;
}

// Real signals in the parent during the call (handler without SA_RESTART): a 3 ms SIGALRM interval timer, or three
// sibling children of the scenario process that exit 20 / 100 / 300 ms into the call (SIGCHLD).
static volatile sig_atomic_t g_sig_count = 0;
static void on_signal(int) { g_sig_count = g_sig_count + 1; }
struct SignalEnv {
  int mode = SIG_NONE;
  pid_t sibs[3] = {0, 0, 0};
  void start(int m) {
    mode = m;
    if (!mode) return;
    struct sigaction sa;
    memset(&sa, 0, sizeof(sa));
    sa.sa_handler = on_signal;
    sigemptyset(&sa.sa_mask);
    sa.sa_flags = 0;  // no SA_RESTART
    if (mode == SIG_ALARM_STORM) {
      sigaction(SIGALRM, &sa, nullptr);
      struct itimerval it = {{0, 3000}, {0, 3000}};
      setitimer(ITIMER_REAL, &it, nullptr);  // not inherited by fork(); the exec'd child never sees it
    } else {
      sigaction(SIGCHLD, &sa, nullptr);
      static const unsigned delays_ms[3] = {20, 100, 300};
      for (int i = 0; i < 3; i++) {
        pid_t p = __real_fork();
        if (p == 0) {
          prctl(PR_SET_PDEATHSIG, SIGKILL);
          sleep_us(delays_ms[i] * 1000ULL);
          _exit(0);
        }
        sibs[i] = p;
      }
    }
  }
  void stop() {
    if (!mode) return;
    if (mode == SIG_ALARM_STORM) {
      struct itimerval it = {{0, 0}, {0, 0}};
      setitimer(ITIMER_REAL, &it, nullptr);
    } else {
      for (pid_t p : sibs)
        if (p > 0)
          while (__real_waitpid(p, nullptr, 0) < 0 && errno == EINTR) {
          }
      signal(SIGCHLD, SIG_DFL);
    }
    rec('N', "signals:delivered-to-parent", fmt("%d", (int)g_sig_count));
    mode = SIG_NONE;
  }
};
static SignalEnv g_sigenv;

// slow-parent scenarios: was the child seen as a zombie at least 20 ms before the deadline (counted from just before
// the call, i.e. earlier than phosg starts counting)?
static bool finished_in_time(const Scenario& sc, string* what) {
  uint64_t seen = g_shm->exited_seen_ns, t0 = g_shm->t0_ns;
  bool ok = seen && seen + 20000000ULL < t0 + sc.timeout_us * 1000ULL;
  if (what) {
    if (!seen) *what = "the child's exit was not observed during the delay";
    else *what = fmt("child seen as a zombie %.1f ms after the call began, deadline %.0f ms", ((double)seen - (double)t0) / 1e6, sc.timeout_us / 1e3);
  }
  cls(ok ? "slow-parent:judged-child-finished-in-time" : "slow-parent:skipped-child-not-seen-in-time");
  return ok;
}

static void sp_run_process(const Scenario& sc) {
  const string api = "run_process";
  string payload;
  if (!sc.stdin_null) Stream(sc.key * 2).gen(payload, sc.payload);
  Expect e = model(sc, payload);
  vector<string> cmd = make_cmd(sc);
  map<int, string> before = list_fds(0);
  phosg::SubprocessResult res;
  bool threw = false;
  string msg;
  g_shm->phase = 1;
  g_shm->t0_ns = mono_ns();
  g_sigenv.start(sc.plan.sig);
  g_active = true;
  vf::poison_errno();
  try {
    res = phosg::run_process(cmd, sc.stdin_null ? nullptr : &payload, sc.check, nullptr, nullptr, sc.timeout_us);
  } catch (const std::exception& ex) {
    threw = true;
    msg = ex.what();
  }
  g_active = false;
  g_sigenv.stop();
  g_shm->phase = 2;
  pid_t child = g_shm->child_pid;

  const bool timed = e.blocks_forever;  // only a timeout can end this child
  string in_time_what;
  if (sc.slow_parent && !finished_in_time(sc, &in_time_what)) {
    // the timeout may legitimately have ended the child (slow exec on a loaded machine): nothing to conclude about values
    rec('I', "run_process:slow-parent-child-not-in-time", in_time_what);
    unlink(g_receipt.c_str());
    check_reaped(api, child);
    check_fds(api, before);
    return;
  }
  bool check_throw = msg.compare(0, 21, "command returned code") == 0;
  int got_status = -1;
  if (threw) {
    if (check_throw) {
      got_status = atoi(msg.c_str() + 21);
      if (!sc.check) viol(api + ":check:throws-with-check-disabled", msg.substr(0, 60));
      else if (got_status == 0) viol(api + ":check:throws-on-zero-status", msg.substr(0, 60));
      else cls("run_process:outcome:check-throw");
    } else if (sc.check && (e.status != 0 || timed)) {
      // the statement allows a throw here whatever its text
      cls("run_process:outcome:other-throw-while-check");
    } else {
      viol(api + ":exception:" + exc_class(msg), "threw instead of returning a result: " + printable(msg, 160));
    }
  } else {
    got_status = res.exit_status;
    if (sc.check && res.exit_status != 0)
      viol(api + ":check:no-throw-on-nonzero-status", "check=true, returned status " + status_str(res.exit_status));
    cls("run_process:outcome:result");
  }
  if (timed) {
    if (got_status >= 0) {
      if (!(WIFSIGNALED(got_status) && (WTERMSIG(got_status) == SIGTERM || WTERMSIG(got_status) == SIGKILL)))
        viol(api + ":timeout:status", "child that never finishes, timeout set: status " + status_str(got_status));
      else
        cls(fmt("run_process:timeout:ended-by-signal-%d%s", WTERMSIG(got_status), e.ignores_term ? ":sigterm-ignored" : ""));
    }
    if (child > 0 && __real_kill(child, 0) == 0) {
      ProcStat ps = proc_stat(child);
      if (ps.ok && ps.ppid == getpid() && ps.state != 'Z')
        viol(api + ":timeout:child-still-alive", fmt("run_process returned but child %d is in state %c", child, ps.state));
    }
    if (!threw) {
      cmp_stream(api, "stdout", res.stdout_contents, e.out, true);
      cmp_stream(api, "stderr", res.stderr_contents, e.err, true);
    }
  } else {
    if (got_status >= 0 && got_status != e.status)
      viol(api + ":status:mismatch", "returned " + status_str(got_status) + ", child was scripted to end with " + status_str(e.status));
    if (!threw) {
      cmp_stream(api, "stdout", res.stdout_contents, e.out, false);
      cmp_stream(api, "stderr", res.stderr_contents, e.err, false);
    }
    // an unexpected exception makes the Subprocess destructor kill the child: its receipt says nothing then
    if (!threw || check_throw) check_receipt(api, e, payload);
    else unlink(g_receipt.c_str());
  }
  check_reaped(api, child);
  check_fds(api, before);
  if (g_shm->nforks != 1) viol(api + ":forks", fmt("%d forks", g_shm->nforks));
}

static void sp_repeat(const Scenario& sc) {
  const string api = "run_process";
  map<int, string> before = list_fds(0);
  const int N = 24;
  size_t leaked_after_first = 0;
  for (int i = 0; i < N; i++) {
    Scenario s = sc;
    s.key = mix(sc.key, i) | 1;
    s.api = RP;
    static const char* behs[] = {"cat", "exit-before-poll", "read-all-then-write", "no-output", "huge-stderr", "close-stdin-early-linger"};
    make_script(s, behs[i % 6], sc.payload, sc.vol + 1000 * (i % 5), i);
    for (auto& o : s.ops)
      if (o == "S:120") o = "S:5";
    string payload;
    Stream(s.key * 2).gen(payload, s.payload);
    Expect e = model(s, payload);
    vector<string> cmd = make_cmd(s);
    g_shm->npipes = 0;
    g_shm->reaped = 0;
    g_shm->child_pid = 0;
    g_active = true;
    g_shm->phase = 1;
    vf::poison_errno();
    try {
      auto res = phosg::run_process(cmd, &payload, false);
      g_active = false;
      if (res.stdout_contents != e.out) cmp_stream(api, "stdout", res.stdout_contents, e.out, false);
      if (res.exit_status != e.status) viol(api + ":status:mismatch", "repeat: " + status_str(res.exit_status));
    } catch (const std::exception& ex) {
      g_active = false;
      viol(api + ":exception:" + exc_class(ex.what()), "threw instead of returning a result: " + printable(ex.what(), 160));
    }
    g_shm->phase = 2;
    unlink(g_receipt.c_str());
    if (i == 0) leaked_after_first = list_fds(0).size() - before.size();
  }
  size_t after = list_fds(0).size();
  if (after != before.size())
    viol(api + ":fd-growth:repeated-calls", fmt("%zu descriptors open before %d calls, %zu after (%zu more after the first call)",
                                                before.size(), N, after, leaked_after_first));
  else
    cls("monitor:fds:conserved-over-repeats");
  check_reaped(api, g_shm->child_pid);
}

static void sp_communicate(const Scenario& sc) {
  const string api = sc.beh == "deadline-expires" ? "communicate:deadline-expires"
                                                  : (sc.timeout_us ? "communicate:deadline" : "communicate:no-deadline");
  string payload;
  Stream(sc.key * 2).gen(payload, sc.payload);
  Expect e = model(sc, payload);
  vector<string> cmd = make_cmd(sc);
  int devnull = open("/dev/null", O_WRONLY);
  bool threw = false;
  string msg, out;
  int status = -1;
  pid_t child = 0;
  double t0 = mono(), t1 = t0;
  {
    g_shm->phase = 1;
    g_sigenv.start(sc.plan.sig);
    g_active = true;  // constructor forks inside
    vf::poison_errno();
    try {
      // communicate never reads stderr: give it a pipe only when everything the script writes there fits into one
      const bool err_pipe = e.err.size() <= 16384 && (sc.index % 2 == 0);
      cls(err_pipe ? "communicate:stderr=pipe" : "communicate:stderr=devnull");
      phosg::Subprocess sp(cmd, -1, -1, err_pipe ? -1 : devnull);
      child = sp.pid();
      try {
        if (sc.presettle) {
          // use the object later: the child has long exited (or is blocked) when communicate is called
          g_active = false;
          for (int i = 0; i < 20; i++) {
            wait_child_settled();
            ProcStat ps = proc_stat(child);
            if (!ps.ok || ps.state == 'Z') break;
          }
          g_active = true;
        }
        g_shm->t0_ns = mono_ns();
        t0 = mono();
        vf::poison_errno();
        if (sc.ptr_overload) out = sp.communicate(payload.data(), payload.size(), sc.timeout_us);
        else out = sp.communicate(payload, sc.timeout_us);
        t1 = mono();
        status = sp.wait(true);
      } catch (const std::exception& ex) {
        t1 = mono();
        threw = true;
        msg = ex.what();
      }
    } catch (const std::exception& ex) {
      threw = true;
      msg = string("(constructor/destructor) ") + ex.what();
    }
    g_active = false;
    g_sigenv.stop();
    g_shm->phase = 2;
  }
  close(devnull);
  if (e.blocks_forever) {
    // the deadline must fire: either outcome is fine for the statement as long as nothing hangs and the child is gone
    cls(threw ? "communicate:deadline-expires:threw" : "communicate:deadline-expires:returned");
    if (!threw) cmp_stream(api, "stdout", out, e.out, true);
    if (child > 0 && __real_kill(child, 0) == 0) {
      ProcStat ps = proc_stat(child);
      if (ps.ok && ps.ppid == getpid() && ps.state != 'Z')
        viol(api + ":child-still-alive", fmt("Subprocess destroyed but child %d is in state %c", child, ps.state));
    }
  } else if (threw) {
    bool timed_out = msg.find("timed out") != string::npos;
    string itw;
    if (timed_out && sc.slow_parent && finished_in_time(sc, &itw)) {
      viol(api + ":threw-timed-out", fmt("threw '%s' although the child had finished in time (%s); the parent was merely slow (%s)", msg.c_str(),
                                          itw.c_str(), sc.plan.str().c_str()));
    } else if (timed_out && sc.timeout_us && (t1 - t0) * 1e6 >= (double)sc.timeout_us) {
      // the deadline really passed (overloaded machine): nothing can be concluded from this execution
      rec('I', "communicate:deadline-really-expired", fmt("%.1fs", t1 - t0));
    } else if (timed_out) {
      viol(api + ":threw-timed-out", fmt("threw '%s' after %.3f s although %s and the child finishes on its own", msg.c_str(), t1 - t0,
                                          sc.timeout_us ? fmt("the deadline is %.0f s away", sc.timeout_us / 1e6).c_str() : "no deadline was given"));
    } else {
      viol(api + ":exception:" + exc_class(msg), "threw instead of returning stdout: " + printable(msg, 160));
    }
  } else {
    if (sc.slow_parent) finished_in_time(sc, nullptr);  // coverage class only: a normal return is always judged in full
    cmp_stream(api, "stdout", out, e.out, false);
    if (status >= 0 && status != e.status) cnt("communicate:status-differs-from-script");
    cls("communicate:outcome:result");
  }
  unlink(g_receipt.c_str());
  check_reaped(api, child);
}

static void sp_lifecycle(const Scenario& sc) {
  const string api = "lifecycle";
  vector<string> cmd = make_cmd(sc);
  pid_t child = 0;
  g_shm->phase = 1;
  g_sigenv.start(sc.plan.sig);
  g_active = true;
  vf::poison_errno();
  try {
    phosg::Subprocess sp(cmd);
    child = sp.pid();
    if (sc.life_kind == 2) {
      int st = sp.wait();
      int st2 = sp.wait();
      int st3 = sp.wait(true);
      if (st != (7 << 8) || st2 != st || st3 != st)
        viol(api + ":wait:status", fmt("wait() gave %s, %s, %s for a child that exits with 7", status_str(st).c_str(), status_str(st2).c_str(), status_str(st3).c_str()));
    } else if (sc.life_kind == 3) {
      int st = sp.wait();
      if (st != SIGTERM) viol(api + ":wait:status", "wait() gave " + status_str(st) + " for a child that kills itself with SIGTERM");
    } else if (sc.life_kind == 4) {
      sp.kill(SIGTERM);
      int st = sp.wait();
      if (st != SIGTERM) viol(api + ":wait:status", "kill(SIGTERM); wait() gave " + status_str(st));
    }
  } catch (const std::exception& ex) {
    viol(api + ":exception:" + exc_class(ex.what()), printable(ex.what(), 160));
  }
  g_active = false;
  g_sigenv.stop();
  g_shm->phase = 2;
  unlink(g_receipt.c_str());
  if (child > 0 && __real_kill(child, 0) == 0) {
    ProcStat ps = proc_stat(child);
    if (ps.ok && ps.ppid == getpid() && ps.state != 'Z')
      viol(api + ":child-still-alive", fmt("Subprocess destroyed but child %d is in state %c", child, ps.state));
  }
  check_reaped(api, child);
}

// Not phosg: a deliberately wrong parent (blocking write of 1 MiB to a cat-like child whose output nobody reads).
// Exists only to prove in every run that the /proc sampling and the witness logic work in this environment.
static void sp_selftest(const Scenario& sc) {
  vector<string> cmd = make_cmd(sc);
  vector<char*> argv;
  for (auto& a : cmd) argv.push_back((char*)a.c_str());
  argv.push_back(nullptr);
  int in[2], out[2];
  if (__real_pipe(in) || __real_pipe(out)) _exit(3);
  g_shm->phase = 1;
  g_active = true;
  pid_t pid = __wrap_fork();
  if (pid == 0) {
    dup2(in[0], 0);
    dup2(out[1], 1);
    close(in[0]);
    close(in[1]);
    close(out[0]);
    close(out[1]);
    execv(argv[0], argv.data());
    _exit(127);
  }
  close(in[0]);
  close(out[1]);
  string big(1 << 20, 'x');
  ssize_t n = __wrap_write(in[1], big.data(), big.size());
  g_active = false;
  g_shm->phase = 2;
  viol("selftest:write-returned", fmt("the deliberately deadlocking write returned %zd", n));
  __real_kill(pid, SIGKILL);
  __real_waitpid(pid, nullptr, 0);
}

static void sp_main(const Scenario& sc) {
  prctl(PR_SET_PDEATHSIG, SIGKILL);
  setpgid(0, 0);  // own process group: the monitor kills the whole group (lingering grandchildren) afterwards
  g_shm->timeout_us = (sc.api == RP && sc.timeout_us && sc.timeout_us < 100000000ULL) ? sc.timeout_us : 0;
  g_shm->short_deadline_us = sc.slow_parent ? sc.timeout_us : 0;
  g_plan = sc.plan;
  for (int i = 0; i < sc.plan.n; i++)
    if (sc.plan.items[i].mode == MODE_EINTR && sc.plan.items[i].kind != K_POLL && sc.plan.items[i].kind != K_WAITB)
      g_viol_prefix = "probe-unrealistic-eintr:";
  unlink(g_receipt.c_str());
  switch (sc.api) {
    case RP: sp_run_process(sc); break;
    case RPN: sp_repeat(sc); break;
    case CM: sp_communicate(sc); break;
    case LIFE: sp_lifecycle(sc); break;
    case SELFTEST: sp_selftest(sc); break;
  }
  for (int k = 0; k < K_NKINDS; k++)
    if (g_shm->calls[k]) rec('N', fmt("shim:%s-calls", KIND_NAMES[k]), fmt("%" PRIu64, (uint64_t)g_shm->calls[k]));
  for (int k = 0; k < K_NKINDS; k++) {
    if (g_shm->eintr_injected[k]) cls(fmt("eintr:injected:%s", KIND_NAMES[k]));
    if (g_shm->eintr_observed[k]) cls(fmt("eintr:observed:%s", KIND_NAMES[k]));
  }
  rec('N', "shim:bytes-read", fmt("%" PRIu64, (uint64_t)g_shm->rd_bytes));
  rec('N', "shim:bytes-written", fmt("%" PRIu64, (uint64_t)g_shm->wr_bytes));
  if (g_shm->nsigs) {
    // distinct signals in order of first use (the count of repeated SIGKILLs depends on timing)
    string s = "run:signals-sent";
    set<int> seen;
    for (int i = 0; i < g_shm->nsigs; i++)
      if (seen.insert((int)g_shm->sigs[i]).second) s += fmt(":%d", (int)g_shm->sigs[i]);
    cls(s);
  }
  if (__lsan_do_recoverable_leak_check()) viol(string(API_NAMES[sc.api]) + ":memory-leak", "LeakSanitizer reported a leak in the scenario process (see stderr)");
  g_shm->phase = 3;
}

// ------------------------------------------------------------------------------------------------
// monitor side

struct Witness {
  bool found = false;
  string key, what;
};

struct Sampler {
  pid_t sp;
  const Scenario& sc;
  int consec = 0;
  int rconsec = 0;            // consecutive samples: child reaped, call not returned, no byte moved
  uint64_t rbytes = 0, rprev_calls = 0, rcalls0 = 0;
  int zconsec = 0;            // consecutive samples: child exited (zombie), parent blocked for ever in one call
  int tconsec = 0;            // consecutive samples: deadline (or grace) long past, parent in one call that has no timeout, child alive
  uint64_t tcalls = 0, tbytes = 0;
  uint64_t zcalls = 0;
  uint64_t last_bytes = ~0ULL;
  uint64_t window_calls0 = 0;
  uint64_t prev_calls = 0;
  string first_line;
  uint64_t samples = 0, blocked_samples = 0;
  Sampler(pid_t p, const Scenario& s) : sp(p), sc(s) {}

  static const char* sysname(long nr) {
    switch (nr) {
      case 0: return "read";
      case 1: return "write";
      case 7: return "poll";
      case 271: return "ppoll";
      case 61: return "wait4";
      case 247: return "waitid";
      default: return "other";
    }
  }

  // One observation.  Returns a witness when the stall condition has held for 100 consecutive samples.
  Witness sample() {
    Witness w;
    samples++;
    if (g_shm->phase != 1) {
      consec = 0;
      return w;
    }
    pid_t child = g_shm->child_pid;
    uint64_t calls = 0;
    for (int k = 0; k < 4; k++) calls += g_shm->calls[k];
    uint64_t bytes = g_shm->rd_bytes + g_shm->wr_bytes;

    // (T) timeout witness: the parent's own completed poll timeouts prove that the deadline passed long ago
    if (sc.api == RP && sc.timeout_us && sc.timeout_us < 100000000ULL && child > 0) {
      uint64_t bound = sc.timeout_us / 1000 + 20000;
      if (g_shm->poll_timeout_ms_sum >= bound) {
        ProcStat cs = proc_stat(child);
        if (cs.ok && cs.state != 'Z' && cs.ppid == sp) {
          w.found = true;
          w.key = "run_process:timeout:child-not-ended";
          w.what = fmt("timeout_usecs=%" PRIu64 ": the parent has sat through %" PRIu64 " ms of poll() timeouts (a lower bound of the elapsed time), "
                       "child %d is still alive (state %c); signals sent so far: %d",
                       sc.timeout_us, (uint64_t)g_shm->poll_timeout_ms_sum, child, cs.state, (int)g_shm->nsigs);
          return w;
        }
      }
    }

    // (T2) by the parent's own clock readings at the top of its loop, three or more iterations began more than 5 s
    // after the deadline without any signal having been sent (resp. > 10 s after SIGTERM without SIGKILL)
    if (sc.api == RP && g_shm->timeout_us && child > 0 && !g_shm->reaped && (g_shm->late_nosig >= 3 || g_shm->late_nokill >= 3)) {
      ProcStat cs = proc_stat(child);
      if (cs.ok && cs.state != 'Z' && cs.ppid == sp) {
        bool nosig = g_shm->late_nosig >= 3;
        w.found = true;
        w.key = nosig ? "run_process:timeout:no-signal-after-deadline" : "run_process:timeout:no-sigkill-after-grace";
        w.what = fmt("timeout_usecs=%" PRIu64 ": %d loop iterations (waitpid calls) began more than %s, child %d is alive (state %c, syscall '%s'); "
                     "signals sent: %d; the parent has made %" PRIu64 " poll calls, %" PRIu64 " ms of them timed out; parent syscall '%s'",
                     sc.timeout_us, nosig ? (int)g_shm->late_nosig : (int)g_shm->late_nokill,
                     nosig ? "5 s after the deadline without any signal having been sent" : "10 s after SIGTERM without SIGKILL having been sent",
                     child, cs.state, proc_syscall(child).line.c_str(), (int)g_shm->nsigs, (uint64_t)g_shm->calls[K_POLL],
                     (uint64_t)g_shm->poll_timeout_ms_sum, proc_syscall(sp).line.c_str());
        return w;
      }
    }
    // (T3) a timeout is pending, its deadline (by an upper bound: first pipe() of the call + timeout) passed more than 5 s
    // ago without any signal having been sent - resp. the grace period began more than 10 s ago without SIGKILL - and the
    // parent sits in ONE system call that cannot return on its own: poll() with a negative (or > 1 h) timeout, wait4
    // without WNOHANG, a blocking read/write.  The child is alive and no byte moves, so nothing will ever wake the parent:
    // the timeout cannot end the child.  100 consecutive samples, same call throughout.
    if (sc.api == RP && g_shm->timeout_us && child > 0 && !g_shm->reaped && g_shm->t_pipe_ns) {
      const uint64_t now = mono_ns();
      const bool nosig = g_shm->nsigs == 0;
      const bool late = nosig ? now > g_shm->t_pipe_ns + (g_shm->timeout_us + 5000000ULL) * 1000ULL
                              : (!g_shm->kill_sent && g_shm->t_term_hi_ns && now > g_shm->t_term_hi_ns + 10000000000ULL);
      bool blocked = false;
      Sys py;
      ProcStat ps, cs;
      if (late) {
        ps = proc_stat(sp);
        cs = proc_stat(child);
        if (ps.ok && ps.state == 'S' && cs.ok && cs.state != 'Z' && cs.ppid == sp) {
          py = proc_syscall(sp);
          if (py.ok) {
            if (py.nr == 7) blocked = (int)py.a2 < 0 || (int)py.a2 > 3600000;
            else if (py.nr == 271) blocked = py.a2 == 0;  // ppoll(..., NULL timeout, ...)
            else if (py.nr == 61) blocked = !((int)py.a2 & WNOHANG);
            else if (py.nr == 0 || py.nr == 1) blocked = true;
          }
        }
      }
      if (blocked && (tconsec == 0 || (calls == tcalls && bytes == tbytes))) {
        if (tconsec == 0) {
          tcalls = calls;
          tbytes = bytes;
        }
        if (++tconsec >= 100) {
          w.found = true;
          w.key = fmt("run_process:timeout:parent-blocked-without-timeout:%s:%s", sysname(py.nr),
                      nosig ? "no-signal-after-deadline" : "no-sigkill-after-grace");
          w.what = fmt("timeout_usecs=%" PRIu64 ": for 100 consecutive samples, all taken more than %s, parent %d stayed in one system call that "
                       "cannot return on its own: '%s' wchan=%s (poll timeouts requested so far: min %d ms, max %d ms, last %d ms; %d poll calls with a "
                       "negative or > 1 h timeout while the timeout was pending); child %d is alive (state %c, syscall '%s'), no byte moved; signals sent: %d",
                       sc.timeout_us, nosig ? "5 s after the deadline with no signal sent" : "10 s after the first signal with no SIGKILL sent", sp,
                       py.line.c_str(), slurp(fmt("/proc/%d/wchan", sp).c_str(), 64).c_str(), (int)g_shm->poll_min_timeout, (int)g_shm->poll_max_timeout,
                       (int)g_shm->last_poll_timeout, (int)g_shm->poll_no_timeout_pending, child, cs.state, proc_syscall(child).line.c_str(), (int)g_shm->nsigs);
          return w;
        }
      } else {
        tconsec = 0;
      }
    }
    // (R) the child has been reaped (waitpid returned it) but the call does not return: the parent keeps making calls,
    // or sits in one without a timeout, and no byte moves.  After the reap a correct parent only drains what is in the
    // pipes (every read moves bytes or ends the drain) and returns.
    if (g_shm->reaped) {
      const bool advancing = calls != rprev_calls;
      rprev_calls = calls;
      ProcStat ps = proc_stat(sp);
      Sys py;
      bool blocked_forever = false;
      if (ps.ok && ps.state == 'S') {
        py = proc_syscall(sp);
        blocked_forever = py.ok && ((py.nr == 7 && (int)py.a2 == -1) || py.nr == 0 || py.nr == 1);
      }
      if ((advancing || blocked_forever) && (rconsec == 0 || bytes == rbytes)) {
        if (rconsec == 0) {
          rbytes = bytes;
          rcalls0 = calls;
        }
        if (++rconsec >= 100) {
          string api = sc.api == CM ? (sc.timeout_us ? "communicate:deadline" : "communicate:no-deadline") : API_NAMES[sc.api];
          w.found = true;
          w.key = fmt("%s:hang:after-child-reaped:parent-%s", api.c_str(), calls != rcalls0 ? "spinning" : sysname(py.nr));
          w.what = fmt("for 100 consecutive samples (>= 5 s) after waitpid() had returned the child, the call did not return and no byte "
                       "moved while the parent made %" PRIu64 " further waitpid/poll/read/write calls (read calls so far: %" PRIu64
                       "); parent state %c syscall '%s'; holders of the pipes: parent fds %s",
                       calls - rcalls0, (uint64_t)g_shm->calls[K_READ], ps.ok ? ps.state : '?', proc_syscall(sp).line.c_str(),
                       [&] { string r; for (auto& kv : list_fds(sp)) if (kv.second.compare(0, 5, "pipe:") == 0) r += fmt("%d->%s ", kv.first, kv.second.c_str()); return r; }().c_str());
          return w;
        }
      } else {
        rconsec = 0;
      }
      consec = 0;
      zconsec = 0;
      return w;
    }
    if (child <= 0) {
      consec = 0;
      return w;
    }
    // (Z) the child has exited but the parent sits in one call that has no timeout and never reaps it.  In a correct
    // parent the child's exit closes its pipe ends, which wakes every poll/read/write on them at once.
    {
      ProcStat ps0 = proc_stat(sp), cs0 = proc_stat(child);
      bool z = false;
      Sys py0;
      if (ps0.ok && cs0.ok && cs0.ppid == sp && cs0.state == 'Z' && ps0.state == 'S') {
        py0 = proc_syscall(sp);
        bool infinite_poll = py0.ok && (py0.nr == 7) && ((int)py0.a2 == -1);
        bool blocking_io = py0.ok && (py0.nr == 0 || py0.nr == 1);
        z = infinite_poll || blocking_io;
      }
      if (z && (zconsec == 0 || calls == zcalls)) {
        if (zconsec == 0) zcalls = calls;
        if (++zconsec >= 100) {
          string api = sc.api == CM ? (sc.timeout_us ? "communicate:deadline" : "communicate:no-deadline") : API_NAMES[sc.api];
          w.found = true;
          w.key = fmt("%s:hang:parent-%s:child-exited-unreaped", api.c_str(), sysname(py0.nr));
          w.what = fmt("for 100 consecutive samples (>= 5 s) child %d has been a zombie while parent %d stayed blocked in one system call "
                       "without a timeout: '%s' wchan=%s; nothing can wake it: the child's exit did not close the pipe (the parent itself "
                       "still holds the other end?); parent fds: %s",
                       child, sp, py0.line.c_str(), slurp(fmt("/proc/%d/wchan", sp).c_str(), 64).c_str(),
                       [&] { string r; for (auto& kv : list_fds(sp)) r += fmt("%d->%s ", kv.first, kv.second.c_str()); return r; }().c_str());
          return w;
        }
      } else {
        zconsec = 0;
      }
    }
    // The parent must be either blocked in write/poll/wait, or demonstrably executing its loop (its wrapped-call
    // counters advanced since the previous sample) without moving a byte.  A parent that is merely starved of CPU
    // (runnable, counters not advancing) does not count: the sample resets the window.
    const bool advancing = calls != prev_calls;
    prev_calls = calls;
    ProcStat ps = proc_stat(sp), cs = proc_stat(child);
    if (!ps.ok || !cs.ok || cs.state != 'S' || cs.ppid != sp) {
      consec = 0;
      return w;
    }
    Sys py = proc_syscall(sp), cy = proc_syscall(child);
    if (!cy.ok) {
      consec = 0;
      return w;
    }
    bool p_blocked = ps.state == 'S' && py.ok && (py.nr == 1 || py.nr == 7 || py.nr == 271 || py.nr == 61 || py.nr == 247);
    bool c_blocked = (cy.nr == 0 || cy.nr == 1) && cy.a0 <= 2;
    if (!(p_blocked || advancing) || !c_blocked) {
      consec = 0;
      return w;
    }
    // the child's pipe must lead to the parent, and a parent write must go to the child's stdin
    uint64_t cino = pipe_inode(child, (int)cy.a0);
    if (!cino) {
      consec = 0;
      return w;
    }
    bool shared = false;
    for (auto& kv : list_fds(sp))
      if (kv.second == fmt("pipe:[%" PRIu64 "]", cino)) shared = true;
    if (!shared) {
      consec = 0;
      return w;
    }
    if (p_blocked && py.nr == 1) {
      uint64_t pino = pipe_inode(sp, (int)py.a0);
      if (!pino || pino != pipe_inode(child, 0)) {
        consec = 0;
        return w;
      }
    }
    // child-side byte counters (rchar+wchar) as well, when readable
    string io = slurp(fmt("/proc/%d/io", child).c_str(), 512);
    uint64_t cio = 0;
    {
      unsigned long long r = 0, wr = 0;
      if (sscanf(io.c_str(), "rchar: %llu wchar: %llu", &r, &wr) == 2) cio = r + wr;
    }
    uint64_t total = bytes + cio;
    blocked_samples++;
    if (consec == 0 || total != last_bytes) {
      consec = 1;
      last_bytes = total;
      window_calls0 = calls;
      first_line = py.line;
      return w;
    }
    consec++;
    if (consec >= 100) {
      bool same_call = calls == window_calls0;
      string api = sc.api == CM ? (sc.timeout_us ? "communicate:deadline" : "communicate:no-deadline") : API_NAMES[sc.api];
      w.found = true;
      w.key = fmt("%s:%s:parent-%s:child-%s-fd%lu", api.c_str(), same_call ? "deadlock" : "stall", p_blocked ? sysname(py.nr) : "spinning",
                  sysname(cy.nr), cy.a0);
      string pw = slurp(fmt("/proc/%d/wchan", sp).c_str(), 64), cw = slurp(fmt("/proc/%d/wchan", child).c_str(), 64);
      w.what = fmt("for 100 consecutive samples (>= 5 s) no byte moved in either direction%s; parent %d: syscall '%s' wchan=%s; "
                   "child %d: syscall '%s' wchan=%s on pipe:[%" PRIu64 "] whose other end the parent holds; bytes moved before: parent r/w %" PRIu64 "/%" PRIu64,
                   same_call ? " and the parent never left that system call"
                             : fmt(" while the parent went through %" PRIu64 " waitpid/poll/read/write calls", calls - window_calls0).c_str(),
                   sp, py.line.c_str(), pw.c_str(), child, cy.line.c_str(), cw.c_str(), cino, (uint64_t)g_shm->rd_bytes, (uint64_t)g_shm->wr_bytes);
      return w;
    }
    return w;
  }
};

// The scenario process goes first: if the child died first, the parent would wake up, see EOF and report a
// "truncated" result that is only an artefact of the kill order.
static void kill_scenario(pid_t sp) {
  pid_t child = g_shm->child_pid;
  bool ours = false;
  if (child > 0) {
    ProcStat cs = proc_stat(child);
    ours = cs.ok && cs.ppid == sp;
  }
  __real_kill(sp, SIGKILL);
  if (ours) __real_kill(child, SIGKILL);
}

struct Outcome {
  bool hung = false;       // watchdog fired without a witness
  bool selftest_failed = false;
  string hung_state;
};

static Outcome run_scenario(vf::Ctx& c, const Scenario& sc, bool verbose) {
  Outcome oc;
  string kase = sc.describe(c);
  memset((void*)g_shm, 0, sizeof(Shm));
  int done[2];
  if (pipe2(done, O_CLOEXEC)) {
    fprintf(stderr, "[harness-error] pipe2: %s\n", strerror(errno));
    exit(3);
  }
  fflush(stderr);
  pid_t sp = __real_fork();
  if (sp < 0) {
    fprintf(stderr, "[harness-error] fork: %s\n", strerror(errno));
    exit(3);
  }
  if (sp == 0) {
    close(done[0]);
    sp_main(sc);
    _exit(0);
  }
  close(done[1]);
  Sampler sm(sp, sc);
  Witness wit;
  const uint64_t WATCHDOG_SAMPLES = 2400;  // inconclusive, never a verdict
  for (;;) {
    struct pollfd pfd = {done[0], POLLIN, 0};
    int r = __real_poll(&pfd, 1, 50);
    if (r > 0) break;
    wit = sm.sample();
    if (wit.found) break;
    if (sm.samples >= WATCHDOG_SAMPLES) {
      oc.hung = true;
      pid_t child = g_shm->child_pid;
      oc.hung_state = fmt("parent syscall '%s' state %c; child %d syscall '%s' state %c; phase %d", proc_syscall(sp).line.c_str(), proc_stat(sp).state,
                          child, child > 0 ? proc_syscall(child).line.c_str() : "", child > 0 ? proc_stat(child).state : '-', (int)g_shm->phase);
      break;
    }
  }
  close(done[0]);
  if (wit.found || oc.hung) kill_scenario(sp);
  // The scenario process is its own group leader; while it is unreaped (zombie or just killed) its pid cannot be
  // reused, so this reaches exactly its descendants: scripted children and lingering grandchildren.
  __real_kill(-sp, SIGKILL);
  int st = 0;
  while (__real_waitpid(sp, &st, 0) < 0 && errno == EINTR) {
  }
  // the scripted child dies with its parent (PR_SET_PDEATHSIG); nothing else to clean up.

  if (oc.hung) return oc;
  // straight from the shared memory, so that they survive a scenario process killed by a witness
  for (int i = 0; i < sc.plan.n; i++) {
    const Delay& d = sc.plan.items[i];
    if (d.mode != MODE_UNTIL_DEADLINE) continue;
    string what = fmt("%s:%s:%s", KIND_NAMES[d.kind], d.phase ? "grace-end" : "deadline", d.after_rd ? "after-output-read" : "time-window");
    if (g_shm->dl_fired[i]) {
      c.cls("deadline-delay:placed:" + what);
      c.count("deadline-delay:placed");
      c.count("deadline-delay:resumed-after-deadline-us-sum", (uint64_t)g_shm->dl_resumed_after_us[i]);
    } else {
      c.count("deadline-delay:not-placed:" + what);
    }
  }
  if (g_shm->poll_no_timeout_pending) c.count("shim:poll-without-timeout-while-run_process-timeout-pending", (uint64_t)g_shm->poll_no_timeout_pending);
  if (sc.api == RP && g_shm->timeout_us && g_shm->poll_any)
    c.cls(fmt("run_process:poll-timeouts-requested:min=%s:max=%s", g_shm->poll_min_timeout < 0 ? "negative" : g_shm->poll_min_timeout == 0 ? "0" : g_shm->poll_min_timeout < 1000 ? "<1s" : "1s+",
              g_shm->poll_max_timeout < 0 ? "negative" : g_shm->poll_max_timeout <= 1000 ? "<=1s" : ">1s"));
  // records written by the SP
  string recs((const char*)g_shm->rec, g_shm->rec_len);
  size_t pos = 0;
  size_t nviol = 0;
  while (pos < recs.size()) {
    size_t nl = recs.find('\n', pos);
    if (nl == string::npos) break;
    string line = recs.substr(pos, nl - pos);
    pos = nl + 1;
    size_t t1 = line.find('\t'), t2 = line.find('\t', t1 + 1);
    if (t1 == string::npos || t2 == string::npos) continue;
    string key = line.substr(t1 + 1, t2 - t1 - 1), what = line.substr(t2 + 1);
    switch (line[0]) {
      case 'V':
        // once a hang witness made the monitor kill the scenario, whatever the dying process still reported is moot
        if (wit.found) break;
        c.violation(key, what, kase);
        nviol++;
        if (verbose) fprintf(stderr, "  VIOL %s: %s\n", key.c_str(), what.c_str());
        break;
      case 'C': c.cls(key); break;
      case 'N': c.count(key, what.empty() ? 1 : strtoull(what.c_str(), nullptr, 10)); break;
      case 'I': c.count("inconclusive:" + key); break;
    }
  }
  if (sc.api == SELFTEST) {
    if (wit.found && wit.key == "selftest:deadlock:parent-write:child-write-fd1") {
      c.cls("monitor:witness-selftest:deadlock-detected");
      c.sample("self-test witness: " + wit.what, 8);
    } else {
      oc.selftest_failed = true;
      oc.hung_state = wit.found ? "unexpected witness " + wit.key : string("no witness, scenario process ended with status ") + status_str(st);
    }
    return oc;
  }
  if (wit.found) {
    c.violation(wit.key, wit.what, kase);
    c.count("witness:" + wit.key);
    if (verbose) fprintf(stderr, "  WITNESS %s: %s\n", wit.key.c_str(), wit.what.c_str());
  } else if (WIFSIGNALED(st)) {
    c.violation(fmt("%s:scenario-process-died:signal%d", API_NAMES[sc.api], WTERMSIG(st)), "the process running the phosg call was killed by a signal", kase);
  } else if (WEXITSTATUS(st) != 0) {
    c.violation(fmt("%s:scenario-process-died:exit%d", API_NAMES[sc.api], WEXITSTATUS(st)),
                "the process running the phosg call exited abnormally (77/78 = sanitizer report on stderr)", kase);
  } else if (g_shm->phase != 3) {
    c.violation(fmt("%s:scenario-process-died:early-exit", API_NAMES[sc.api]), "scenario process exited 0 before finishing", kase);
  }
  c.count("monitor:samples", sm.samples);
  c.count("monitor:samples-both-blocked", sm.blocked_samples);
  if (verbose) fprintf(stderr, "%s -> %zu violation(s)%s\n", kase.c_str(), nviol, wit.found ? " + witness" : "");
  return oc;
}

int main(int argc, char** argv) {
  vf::Ctx& c = vf::init(argc, argv);
  signal(SIGPIPE, SIG_IGN);
  g_child_path = c.arg("child");
  if (g_child_path.empty() || access(g_child_path.c_str(), X_OK)) {
    fprintf(stderr, "[harness-error] --arg child=<path to c15_child> missing or not executable\n");
    return 3;
  }
  g_shm = (Shm*)mmap(nullptr, sizeof(Shm), PROT_READ | PROT_WRITE, MAP_SHARED | MAP_ANONYMOUS, -1, 0);
  if (g_shm == MAP_FAILED) {
    fprintf(stderr, "[harness-error] mmap\n");
    return 3;
  }
  char cwd[1024];
  if (!getcwd(cwd, sizeof(cwd))) strcpy(cwd, "/tmp");
  g_receipt = fmt("%s/c15_receipt_%u_%d.txt", cwd, c.shard, (int)getpid());

  vector<Scenario> all = build_scenarios(c);
  bool verbose = !c.arg("verbose").empty();
  long only = c.arg("case").empty() ? -1 : atol(c.arg("case").c_str());
  string only_api = c.arg("only");
  // debugging aids: list=1 prints every scenario of the tier; from=<index> / beh=<substring> restrict the run
  if (!c.arg("list").empty()) {
    for (const Scenario& sc : all) printf("%s\n", sc.describe(c).c_str());
    return 0;
  }
  long from = c.arg("from").empty() ? 0 : atol(c.arg("from").c_str());
  string beh_filter = c.arg("beh");
  vector<string> hung;
  for (const Scenario& sc : all) {
    if (only >= 0) {
      if ((long)sc.index != only) continue;
    } else if (!c.mine(sc.index))
      continue;
    if ((long)sc.index < from) continue;
    if (!beh_filter.empty() && sc.beh.find(beh_filter) == string::npos) continue;
    if (!only_api.empty() && only_api != API_NAMES[sc.api]) continue;
    string kase = sc.describe(c);
    c.crumb_s(kase);
    c.evaluations++;
    Outcome oc = run_scenario(c, sc, verbose);
    if (oc.hung) {
      c.count("watchdog:first-hang");
      fprintf(stderr, "[c15] watchdog (no witness), re-running once: %s | %s\n", kase.c_str(), oc.hung_state.c_str());
      oc = run_scenario(c, sc, verbose);
      if (oc.hung) hung.push_back(kase + " | " + oc.hung_state);
    }
    if (oc.selftest_failed) hung.push_back("monitor self-test failed: " + oc.hung_state);
    c.cls(fmt("%s:%s:P=%s", API_NAMES[sc.api], sc.beh.c_str(), sc.stdin_null ? "nullptr" : bucket(sc.payload)));
    c.cls(fmt("%s:%s:V=%s", API_NAMES[sc.api], sc.beh.c_str(), bucket(sc.vol)));
    if (sc.api == CM) c.cls(fmt("communicate:%s:%s", sc.timeout_us ? "deadline" : "no-deadline", sc.beh.c_str()));
    c.cls(sc.plan.cls());
    for (auto& t : sc.tags) c.cls(t);
    if (sc.api == RP) c.cls(fmt("run_process:check=%d:stdin=%s:timeout=%s", (int)sc.check, sc.stdin_null ? "nullptr" : "data",
                                sc.timeout_us == 0 ? "none" : sc.timeout_us > 100000000ULL ? "generous" : "short"));
    if (c.samples.size() < 4 && (sc.index % 37 == c.shard % 37)) c.sample(kase);
  }
  c.count("scenarios:total-in-tier", c.shard == 0 ? all.size() : 0);
  if (!hung.empty()) {
    int rc = c.finish();
    (void)rc;
    for (auto& h : hung) fprintf(stderr, "[harness-error] inconclusive (scenario hung twice without a deadlock witness, or monitor self-test failed): %s\n", h.c_str());
    return 2;
  }
  return c.finish();
}
