// C11 — cold-start stage: the *first* calls of the C11 functions in a fresh process, made by several threads at once.
//
// Everything lazily initialised on first use (function-local statics, "build the table once" flags, caches) is cold only
// once per process image; the other C11 stages call every function on the main thread before they start their threads,
// so they only ever see warm state.  Here the parent process NEVER calls a C11 function (this TU has no early-call probe
// and main() only reads the case file); for every TRIAL record it forks a child.  The child is a fresh state as far as the
// C11 functions are concerned.  It starts N threads (N = 2..8, from the record) behind a spin barrier; the first thing each
// thread does after the barrier (and a per-thread delay of 0..~2 us, so that "just entered" meets "half way through" and "about
// to return" in different trials) is a call into phosg on its first record, then its remaining records (histories such as
// "std alphabet after a custom alphabet").  Then the child repeats every record single-threaded (warm) and compares; the cold
// results are sent to the parent, which appends them to the observation log, where the Python oracle (base64 / strictness
// predicate / urllib / unescaper) judges them like any other record.  netloc round trips are compared in the thread.
//
// Built as asan (values, memory errors in the init path) and tsan (an unsynchronised first-use initialisation is a data race
// whenever two threads pass through it, whatever values come out).  The counters that measure first-call overlap are
// relaxed atomics: they add no happens-before edges.
//
// case file: as for c11.cc; TRIAL record (op 12): flag = nthreads, payload  u16 nrecords, u8 exit_mode, u8 kindlen, kind,
//            u32 delay[nthreads]; the next nrecords records belong to the trial; record j is run by thread j % nthreads.
// obs file:  per TRIAL one field (status 0 = child completed, 5 = child died/hung: the trial's records have NO fields),
//            then the fields of the trial's records in record order (as c11.cc writes them).
#include <poll.h>
#include <sched.h>
#include <signal.h>
#include <sys/wait.h>
#include <time.h>

#include <map>

#include "c11_exec.hh"

struct Rec {
  uint8_t op, flag;
  const uint8_t* pay;
  uint32_t len;
};

struct Trial {
  unsigned index;
  unsigned nthreads;
  uint8_t exit_mode;
  string kind;
  vector<uint32_t> delay;
  vector<Rec> recs;
};

struct Slot {
  vector<size_t> mine;            // record indices of this thread, in execution order
  vector<vector<Field>> results;  // per own record
  vector<Viol> viols;
  uint64_t evaluations = 0;
  unsigned rank = 0;            // order of entry into the first call (0 = first)
  bool entered_before_any_return = false;
};

static string show_field(const Field& f) {
  static const char* st[] = {"returned", "threw invalid_argument", "threw other std::exception", "threw non-std", "(skipped)"};
  return fmt("%s %s", st[f.status <= 4 ? f.status : 3], f.bytes.size() <= 120 ? vf::hex(f.bytes).c_str() : (vf::hex(f.bytes.substr(0, 120)) + "...").c_str());
}

static vector<Field> run_rec(const Rec& r, vector<Viol>& sink, uint64_t& evals, const char* keyprefix) {
  if (r.op == NETLOC) {
    NetlocRec nr = parse_netloc_record(r.pay, r.len);
    evals += netloc_roundtrips(nr, sink, false, keyprefix);
    return {};
  }
  vector<Field> f = exec_record(r.op, r.flag, r.pay, r.len);
  evals += f.size();
  return f;
}

static inline void cpu_relax() {
#if defined(__x86_64__) || defined(__i386__)
  __asm__ __volatile__("pause" ::: "memory");
#else
  __asm__ __volatile__("" ::: "memory");
#endif
}

static void worker(const Trial* t, Slot* s, unsigned delay, atomic<unsigned>* ready, atomic<bool>* go, atomic<unsigned>* entered, atomic<unsigned>* returned) {
  s->results.resize(s->mine.size());
  ready->fetch_add(1);
  unsigned spins = 0;
  while (!go->load(std::memory_order_acquire)) {
    cpu_relax();
    if (++spins > 4000) {  // ~0.1 ms of spinning, then let somebody else run (the machine may be oversubscribed)
      sched_yield();
      spins = 0;
    }
  }
  for (unsigned i = 0; i < delay; i++) cpu_relax();
  for (size_t k = 0; k < s->mine.size(); k++) {
    if (k == 0) {  // bracket the very first call into phosg of this thread
      s->rank = entered->fetch_add(1, std::memory_order_relaxed);
      s->entered_before_any_return = returned->load(std::memory_order_relaxed) == 0;
      tl_first_call_returned = returned;
    }
    s->results[k] = run_rec(t->recs[s->mine[k]], s->viols, s->evaluations, "cold-start:");
  }
}

static void put_u32(string& b, uint32_t v) { b.append((const char*)&v, 4); }
static void put_str(string& b, const string& s) {
  put_u32(b, (uint32_t)s.size());
  b += s;
}

// Runs in the forked child.  Returns the blob for the parent.
static string run_trial_child(const Trial& t) {
  unsigned n = t.nthreads;
  vector<Slot> slots(n);
  for (size_t j = 0; j < t.recs.size(); j++) slots[j % n].mine.push_back(j);
  atomic<unsigned> ready{0}, entered{0}, returned{0};
  atomic<bool> go{false};
  vector<thread> th;
  for (unsigned i = 0; i < n; i++) th.emplace_back(worker, &t, &slots[i], t.delay[i], &ready, &go, &entered, &returned);
  unsigned spins = 0;
  while (ready.load() < n) {
    cpu_relax();
    if (++spins > 1000) {
      sched_yield();
      spins = 0;
    }
  }
  go.store(true, std::memory_order_release);
  for (auto& x : th) x.join();

  // warm single-threaded repeat of every record: a pure function gives the same answer
  vector<Viol> viols;
  uint64_t evals = 0;
  unsigned overlapping = 0;
  for (unsigned i = 0; i < n; i++) {
    evals += slots[i].evaluations;
    for (auto& v : slots[i].viols) viols.push_back(v);
    if (slots[i].rank >= 1 && slots[i].entered_before_any_return) overlapping++;
  }
  string obs;
  for (size_t j = 0; j < t.recs.size(); j++) {
    const Rec& r = t.recs[j];
    Slot& s = slots[j % n];
    size_t k = j / n;
    const vector<Field>& cold = s.results[k];
    for (auto& f : cold) {
      obs.push_back((char)f.status);
      put_u32(obs, (uint32_t)f.bytes.size());
      obs += f.bytes;
    }
    vector<Viol> wsink;
    vector<Field> warm = run_rec(r, wsink, evals, "cold-start:warm-repeat:");
    for (auto& v : wsink) viols.push_back(v);
    for (size_t i = 0; i < cold.size() && i < warm.size(); i++) {
      if (cold[i] == warm[i]) continue;
      if (viols.size() < 20)
        viols.push_back({fmt("cold-start:%s:%s-call-differs-from-warm-repeat", op_name(r.op), k == 0 ? "first" : "later"),
            fmt("%s called by one of %u threads right after process start returned something else than the same call repeated single-threaded afterwards", op_name(r.op), n),
            fmt("trial=%u kind=%s threads=%u thread=%u call#%zu op=%s flag=%u(%s) field=%zu input(hex)=%s cold=[%s] warm=[%s]", t.index, t.kind.c_str(), n, (unsigned)(j % n), k,
                op_name(r.op), r.flag, alpha_name(r.flag), i, vf::hex(r.pay, r.len < 100 ? r.len : 100).c_str(), show_field(cold[i]).c_str(), show_field(warm[i]).c_str())});
    }
  }
  string blob = "C11T";
  put_str(blob, obs);
  put_u32(blob, (uint32_t)viols.size());
  for (auto& v : viols) {
    put_str(blob, v.key);
    put_str(blob, v.what);
    put_str(blob, v.kase);
  }
  put_u32(blob, (uint32_t)evals);
  put_u32(blob, overlapping);
  blob += "DONE";
  return blob;
}

static bool get_u32(const string& b, size_t& p, uint32_t& v) {
  if (p + 4 > b.size()) return false;
  memcpy(&v, b.data() + p, 4);
  p += 4;
  return true;
}
static bool get_str(const string& b, size_t& p, string& s) {
  uint32_t n;
  if (!get_u32(b, p, n) || p + n > b.size()) return false;
  s.assign(b, p, n);
  p += n;
  return true;
}

static double now_s() {
  struct timespec ts;
  clock_gettime(CLOCK_MONOTONIC, &ts);
  return ts.tv_sec + ts.tv_nsec * 1e-9;
}

int main(int argc, char** argv) {
  vf::Ctx& c = vf::init(argc, argv);
  C = &c;
  string base = c.arg("cases"), obase = c.arg("obs");
  if (base.empty() || obase.empty()) {
    fprintf(stderr, "[harness-error] --arg cases=<prefix> --arg obs=<prefix> required\n");
    return 3;
  }
  string path = fmt("%s.%u.bin", base.c_str(), c.shard);
  FILE* f = fopen(path.c_str(), "rb");
  if (!f) {
    fprintf(stderr, "[harness-error] cannot open %s\n", path.c_str());
    return 3;
  }
  fseek(f, 0, SEEK_END);
  long sz = ftell(f);
  fseek(f, 0, SEEK_SET);
  vector<uint8_t> buf((size_t)sz);
  if (sz < 8 || fread(buf.data(), 1, (size_t)sz, f) != (size_t)sz || memcmp(buf.data(), "C11C", 4) != 0) {
    fprintf(stderr, "[harness-error] bad case file %s\n", path.c_str());
    return 3;
  }
  fclose(f);
  uint32_t nrec;
  memcpy(&nrec, buf.data() + 4, 4);
  size_t pos = 8;
  vector<Trial> trials;
  uint32_t expect = 0;
  for (uint32_t rec = 0; rec < nrec; rec++) {
    if (pos + 6 > buf.size()) {
      fprintf(stderr, "[harness-error] truncated case file\n");
      return 3;
    }
    uint8_t op = buf[pos], flag = buf[pos + 1];
    uint32_t len;
    memcpy(&len, &buf[pos + 2], 4);
    pos += 6;
    if (pos + len > buf.size()) {
      fprintf(stderr, "[harness-error] truncated case file\n");
      return 3;
    }
    const uint8_t* pay = &buf[pos];
    pos += len;
    if (op == TRIAL) {
      if (expect != 0 || len < 4 || flag < 2 || flag > 16) {
        fprintf(stderr, "[harness-error] malformed TRIAL record %u\n", rec);
        return 3;
      }
      Trial t;
      t.index = (unsigned)trials.size();
      t.nthreads = flag;
      uint16_t nr;
      memcpy(&nr, pay, 2);
      t.exit_mode = pay[2];
      uint8_t kl = pay[3];
      if (4 + (size_t)kl + 4 * (size_t)flag != len || nr < flag) {
        fprintf(stderr, "[harness-error] malformed TRIAL record %u (length)\n", rec);
        return 3;
      }
      t.kind.assign((const char*)pay + 4, kl);
      for (unsigned i = 0; i < flag; i++) {
        uint32_t d;
        memcpy(&d, pay + 4 + kl + 4 * i, 4);
        t.delay.push_back(d);
      }
      expect = nr;
      trials.push_back(t);
    } else if (op == ENC || op == DEC || op == ROT || op == URL || op == CTRL || op == QUOTES || op == NETLOC) {
      if (expect == 0 || trials.empty()) {
        fprintf(stderr, "[harness-error] record %u outside a trial\n", rec);
        return 3;
      }
      trials.back().recs.push_back({op, (uint8_t)(flag & 0x0F), pay, len});
      expect--;
    } else {
      fprintf(stderr, "[harness-error] op %u not allowed in a cold-start case file\n", op);
      return 3;
    }
  }
  if (expect != 0) {
    fprintf(stderr, "[harness-error] last trial is short of records\n");
    return 3;
  }

  string obs = "C11O";
  uint64_t collided_processes = 0, overlapping_threads = 0, completed = 0, died = 0, sanitizer_exit = 0;
  map<unsigned, uint64_t> collided_by_n;
  signal(SIGPIPE, SIG_IGN);
  for (const Trial& t : trials) {
    string desc = fmt("cold-start trial %u: kind=%s threads=%u records=%zu first-ops=", t.index, t.kind.c_str(), t.nthreads, t.recs.size());
    for (unsigned i = 0; i < t.nthreads; i++) desc += fmt("%s%s/%u", i ? "," : "", op_name(t.recs[i].op), t.recs[i].flag);
    c.crumb_s(desc);
    int pfd[2];
    if (pipe(pfd) != 0) {
      fprintf(stderr, "[harness-error] pipe\n");
      return 3;
    }
    fflush(stderr);
    pid_t pid = fork();
    if (pid < 0) {
      fprintf(stderr, "[harness-error] fork: %s\n", strerror(errno));
      return 3;
    }
    if (pid == 0) {
      close(pfd[0]);
      string blob = run_trial_child(t);
      size_t off = 0;
      while (off < blob.size()) {
        ssize_t w = write(pfd[1], blob.data() + off, blob.size() - off);
        if (w <= 0) _exit(3);
        off += (size_t)w;
      }
      close(pfd[1]);
      if (t.exit_mode) exit(0);  // full exit path: atexit handlers, static destructors, leak check
      _exit(0);
    }
    close(pfd[1]);
    string blob;
    bool hung = false;
    double deadline = now_s() + 300.0;
    for (;;) {
      struct pollfd pf = {pfd[0], POLLIN, 0};
      int pr = poll(&pf, 1, 1000);
      if (pr < 0 && errno == EINTR) continue;
      if (pr == 0) {
        if (now_s() > deadline) {
          hung = true;
          kill(pid, SIGKILL);
          break;
        }
        continue;
      }
      char tmp[65536];
      ssize_t rd = read(pfd[0], tmp, sizeof(tmp));
      if (rd < 0 && errno == EINTR) continue;
      if (rd <= 0) break;
      blob.append(tmp, (size_t)rd);
    }
    close(pfd[0]);
    int status = 0;
    while (waitpid(pid, &status, 0) < 0 && errno == EINTR) {
    }
    bool ok = blob.size() >= 8 && blob.compare(0, 4, "C11T") == 0 && blob.compare(blob.size() - 4, 4, "DONE") == 0;
    string tobs;
    vector<Viol> viols;
    uint32_t evals = 0, overlapping = 0;
    if (ok) {
      size_t p = 4;
      uint32_t nv = 0;
      ok = get_str(blob, p, tobs) && get_u32(blob, p, nv);
      for (uint32_t i = 0; ok && i < nv; i++) {
        Viol v;
        ok = get_str(blob, p, v.key) && get_str(blob, p, v.what) && get_str(blob, p, v.kase);
        if (ok) viols.push_back(v);
      }
      ok = ok && get_u32(blob, p, evals) && get_u32(blob, p, overlapping) && p + 4 == blob.size();
    }
    string how = hung ? "hung (killed after 300 s)" : WIFSIGNALED(status) ? fmt("killed by signal %d", WTERMSIG(status)) : fmt("exit status %d", WEXITSTATUS(status));
    if (ok) {
      completed++;
      c.evaluations += evals;
      for (auto& v : viols) c.violation(v.key, v.what, v.kase);
      if (overlapping) {
        collided_processes++;
        overlapping_threads += overlapping;
        collided_by_n[t.nthreads]++;
      }
      obs.push_back((char)0);
      put_u32(obs, 0);
      obs += tobs;
      // exit status of a completed child: 0, or a sanitizer's exit code (its report is on stderr; the driver turns it into the verdict)
      if (!(WIFEXITED(status) && WEXITSTATUS(status) == 0)) {
        bool san = WIFEXITED(status) && (WEXITSTATUS(status) == 66 || WEXITSTATUS(status) == 77 || WEXITSTATUS(status) == 78 || WEXITSTATUS(status) == 79);
        if (san)
          sanitizer_exit++;
        else
          c.violation("cold-start:process-died-after-results", "fresh process delivered its results and then did not exit normally", desc + " -> " + how);
      }
    } else {
      died++;
      obs.push_back((char)5);
      put_str(obs, how);
      bool san = !hung && WIFEXITED(status) && (WEXITSTATUS(status) == 66 || WEXITSTATUS(status) == 77 || WEXITSTATUS(status) == 78 || WEXITSTATUS(status) == 79);
      if (san)
        sanitizer_exit++;  // report on stderr, keyed by the driver
      else if (WIFEXITED(status) && WEXITSTATUS(status) == 3) {
        fprintf(stderr, "[harness-error] cold-start child could not deliver its results (%s)\n", desc.c_str());
        return 3;
      } else
        c.violation(hung ? "cold-start:process-hung" : "cold-start:process-died", "fresh process making its first C11 calls from several threads did not complete", desc + " -> " + how);
      if (died > 25) {
        fprintf(stderr, "cold-start: more than 25 child processes died; stopping this shard early\n");
        // the remaining trials get "died" markers so that the log stays in step
        for (size_t k = t.index + 1; k < trials.size(); k++) {
          obs.push_back((char)5);
          put_str(obs, "not run");
        }
        break;
      }
    }
    c.cls(fmt("first-call:threads%u", t.nthreads));
    c.cls(fmt("first-call:trial-kind:%s", t.kind.c_str()));
    for (unsigned i = 0; i < t.nthreads; i++)
      c.cls(fmt("first-call:%s:%s", op_name(t.recs[i].op), t.recs[i].op == ENC || t.recs[i].op == DEC ? alpha_name(t.recs[i].flag) : fmt("flag%u", t.recs[i].flag).c_str()));
  }
  c.count("cold_processes", trials.size());
  c.count("cold_processes_completed", completed);
  c.count("cold_processes_died", died);
  c.count("cold_processes_with_sanitizer_exit_code", sanitizer_exit);
  c.count("cold_processes_with_first_call_overlap", collided_processes);
  c.count("cold_threads_entering_first_call_before_any_return", overlapping_threads);
  for (auto& kv : collided_by_n) c.count(fmt("cold_overlap_processes_threads%u", kv.first), kv.second);
  c.sample(fmt("%zu fresh processes, each starting 2..8 threads whose first action is a C11 call; in %" PRIu64 " of them a second thread entered its first call before any first call had returned",
      trials.size(), collided_processes));
  FILE* o = fopen(fmt("%s.%u.bin", obase.c_str(), c.shard).c_str(), "wb");
  if (!o || fwrite(obs.data(), 1, obs.size(), o) != obs.size() || fclose(o) != 0) {
    fprintf(stderr, "[harness-error] cannot write observation log\n");
    return 3;
  }
  return c.finish();
}
