// C01 part `huge`: every positional / cursor accessor family at offsets, cursors and sizes beyond 2^31 / 2^32 bytes
// (2^31 .. 2^35+2^34 bits) over a sparse multi-GiB buffer.
//
// Region R (reader side, 6 GiB + 5 MiB): anonymous MAP_NORESERVE memory between two PROT_NONE guard pages.  Only
// "islands" of +-16 KiB around each threshold (2^28, 2^29, 2^30, 2^31, 2^32, 2^32+2^31 bytes = 2^31 .. 2^35+2^34 bits),
// the first 32 KiB and the last 32 KiB are ever written (a position-keyed byte pattern with NULs, LF and CRLF in it),
// everything else stays the kernel's zero page.  The oracle is a sparse page map (`Sparse`, untouched = 0) filled by
// the harness's own stores and decoded by the independent shift/mask decoder; all cursor arithmetic is uint64_t.
// Region D (writer side, same size): the islands are ordinary private pages pre-filled with a second pattern; the gaps
// between them are windows onto one 8 MiB memfd, so that a single raw transfer of more than 4 GiB (the only way the
// public API offers to move a BufferWriter cursor past 2^32, and the only affordable way to pass a size >= 2^32 to the
// pointer forms of read/readx/pread/preadx/write/pwrite) costs 8 MiB of memory, not 4 GiB.
//
// Work is split over at most two shards: item 0 = StringReader + BitReader families, item 1 = BufferWriter + transfers
// with sizes >= 2^32.  Nothing here calls StringWriter / BitWriter / the string-returning read forms with more than a few
// hundred bytes: those own their storage, so a > 4 GiB instance would need > 4 GiB of real memory (see notes/c01.md).
#pragma once

#include <signal.h>
#include <sys/mman.h>
#include <sys/time.h>

#include <algorithm>

#include "c01_bits.hh"
#include "c01_tables.hh"

namespace c01 {
namespace huge {

static const uint64_t PG = 4096;
static const uint64_t ISL = 16384;            // island radius around a threshold
static const uint64_t EDGE = 32768;           // island at the very beginning / end
static const uint64_t RSZ = (6ULL << 30) + (5ULL << 20);
static const uint64_t TH[] = {1ULL << 28, 1ULL << 29, 1ULL << 30, 1ULL << 31, 1ULL << 32, (1ULL << 32) + (1ULL << 31)};
static const char* const TH_NAME[] = {"2^28", "2^29", "2^30", "2^31", "2^32", "2^32+2^31", "end"};
static const int NTH = 6;  // index NTH = "end"

// ---- oracle side: sparse model of a huge byte array (no phosg) ---------------------------------------------------
struct Sparse {
  std::map<uint64_t, std::vector<uint8_t>> pages;
  uint8_t at(uint64_t pos) const {
    auto it = pages.find(pos / PG);
    return it == pages.end() ? 0 : it->second[pos % PG];
  }
  bool tracked(uint64_t pos) const { return pages.count(pos / PG) != 0; }
  void track(uint64_t page) {
    auto& p = pages[page];
    if (p.empty()) p.assign(PG, 0);
  }
  void set(uint64_t pos, uint8_t b) {
    track(pos / PG);
    pages[pos / PG][pos % PG] = b;
  }
  void get(uint64_t pos, uint8_t* out, size_t n) const {
    for (size_t i = 0; i < n; i++) out[i] = at(pos + i);
  }
  std::string str(uint64_t pos, size_t n) const {
    std::string s(n, '\0');
    for (size_t i = 0; i < n; i++) s[i] = (char)at(pos + i);
    return s;
  }
  uint64_t bits(uint64_t bitpos, unsigned n) const {  // MSB-first
    uint64_t v = 0;
    for (unsigned i = 0; i < n; i++) {
      uint64_t p = bitpos + i;
      v = (v << 1) | ((at(p >> 3) >> (7 - (p & 7))) & 1);
    }
    return v;
  }
};

static uint64_t g_salt = 0;
static inline uint64_t mix(uint64_t z) {
  z = (z ^ (z >> 30)) * 0xBF58476D1CE4E5B9ULL;
  z = (z ^ (z >> 27)) * 0x94D049BB133111EBULL;
  return z ^ (z >> 31);
}
// Reader-side pattern: keyed by the full 64-bit position (so bytes fetched from pos mod 2^32 / 2^31 differ), with a NUL
// every 29 bytes and a line end every 31 bytes (every other one CRLF); no other NUL / CR / LF.
static inline uint8_t pat(uint64_t pos) {
  if (pos % 31 == 11) return '\n';
  if ((pos + 1) % 31 == 11 && ((pos + 1) / 31) % 2 == 0) return '\r';
  if (pos % 29 == 7) return 0;
  uint8_t b = (uint8_t)mix(pos * 0x9E3779B97F4A7C15ULL + g_salt);
  if (b == 0 || b == '\n' || b == '\r') b ^= 0x55;
  return b;
}
// Writer-side pre-fill: never zero, different from pat
static inline uint8_t pat2(uint64_t pos) { return (uint8_t)(mix(pos * 0xD6E8FEB86659FD93ULL + g_salt + 99) | 1); }

struct Island {
  uint64_t lo, hi;
};

struct Region {
  uint8_t* map = nullptr;
  size_t map_len = 0;
  uint8_t* base = nullptr;
  uint64_t size = 0;
  std::vector<Island> isl;
  Sparse sh;
  ~Region() {
    if (map) munmap(map, map_len);
  }
  bool in_island(uint64_t pos) const {
    for (auto& i : isl)
      if (pos >= i.lo && pos < i.hi) return true;
    return false;
  }
};

static void harness_fail(const char* what) {
  fprintf(stderr, "[harness-error] huge: %s: %s\n", what, strerror(errno));
  exit(2);
}

static void make_region(Region& g, uint64_t size, uint8_t (*fill)(uint64_t)) {
  g.size = size;
  g.map_len = size + 2 * PG;
  void* p = mmap(nullptr, g.map_len, PROT_READ | PROT_WRITE, MAP_PRIVATE | MAP_ANONYMOUS | MAP_NORESERVE, -1, 0);
  if (p == MAP_FAILED) harness_fail("mmap of the sparse region");
  g.map = (uint8_t*)p;
  g.base = g.map + PG;
  if (mprotect(g.map, PG, PROT_NONE) || mprotect(g.base + size, PG, PROT_NONE)) harness_fail("mprotect guard pages");
  // untouched parts may be served by the huge zero page (cheap multi-GiB reads); islands must stay 4 KiB pages
  madvise(g.base, size, MADV_HUGEPAGE);
  g.isl.push_back({0, EDGE});
  for (int t = 0; t < NTH; t++) g.isl.push_back({TH[t] - ISL, TH[t] + ISL});
  // where an access near the end would land if its position were taken modulo 2^32 / 2^31: planted as well, so that such
  // an access meets distinctive bytes (and line terminators) instead of gigabytes of zeros
  const uint64_t PGM = ~(PG - 1);
  g.isl.push_back({((size & 0xFFFFFFFFULL) & PGM) - ISL, ((size & 0xFFFFFFFFULL) & PGM) + ISL});
  g.isl.push_back({((size & 0x7FFFFFFFULL) & PGM) - ISL, ((size & 0x7FFFFFFFULL) & PGM) + ISL});
  g.isl.push_back({size - EDGE, size});
  const uintptr_t H = 2u << 20;
  for (auto& i : g.isl) {
    uintptr_t a = ((uintptr_t)(g.base + i.lo)) & ~(H - 1), b = (((uintptr_t)(g.base + i.hi)) + H - 1) & ~(H - 1);
    if (a < (uintptr_t)g.base) a = (uintptr_t)g.base;
    if (b > (uintptr_t)(g.base + size)) b = (uintptr_t)(g.base + size);
    madvise((void*)a, b - a, MADV_NOHUGEPAGE);
  }
  for (auto& i : g.isl)
    for (uint64_t pos = i.lo; pos < i.hi; pos++) {
      uint8_t b = fill(pos);
      g.base[pos] = b;
      g.sh.set(pos, b);
    }
}

// Everything outside the islands becomes windows onto one small shared file: transfers of > 4 GiB then cost 8 MiB.
static void alias_gaps(Region& g) {
  const uint64_t WIN = 8ULL << 20;
  int fd = memfd_create("c01-huge-alias", 0);
  if (fd < 0 || ftruncate(fd, WIN)) harness_fail("memfd_create");
  uint64_t from = 0;
  std::vector<Island> s = g.isl;
  std::sort(s.begin(), s.end(), [](const Island& a, const Island& b) { return a.lo < b.lo; });
  s.push_back({g.size, g.size});
  uint64_t nmaps = 0;
  for (auto& i : s) {
    for (uint64_t o = from; o < i.lo; o += WIN) {
      uint64_t n = std::min(WIN, i.lo - o);
      if (mmap(g.base + o, n, PROT_READ | PROT_WRITE, MAP_SHARED | MAP_FIXED | MAP_POPULATE, fd, 0) == MAP_FAILED) harness_fail("mmap of an alias window");
      nmaps++;
    }
    from = std::max(from, i.hi);
  }
  close(fd);
  C->count("huge:alias-windows", nmaps);
}

// ---- reporting --------------------------------------------------------------------------------------------------
static const char* g_th = "?";  // threshold name of the case in flight
static std::string hx(uint64_t v) { return vf::fmt("0x%" PRIx64, v); }
static void bad(const std::string& key, const std::string& what, const std::string& detail) {
  C->violation("huge:" + key, what, vf::fmt("part=huge seed=%" PRIu64 " tier=%s threshold=%s (replay: --arg only=huge) :: ", C->seed, C->tier.c_str(), g_th) + detail);
}
static inline void cover(const char* family, int t) { cov_misc[vf::fmt("huge:%s:%s", family, TH_NAME[t])]++; }
static inline const char* rel(uint64_t off, uint64_t n, uint64_t T) { return off + n <= T ? "below" : off >= T ? "at-or-above" : "straddling"; }

// offsets just below, straddling and above threshold T for an access of n bytes; everything kept inside [0, size]
static std::vector<uint64_t> offsets_around(uint64_t T, uint64_t n, uint64_t size, bool is_end) {
  std::vector<uint64_t> v;
  if (is_end) {
    for (uint64_t d = 0; d <= 5; d++)
      if (size >= n + d) v.push_back(size - n - d);
  } else {
    for (uint64_t o = T - n - 3; o <= T + 3; o++)
      if (o + n <= size) v.push_back(o);
  }
  return v;
}

// ---- StringReader families --------------------------------------------------------------------------------------
struct RView {  // a reader over bytes [origin, origin+size) of region g
  const Region* g;
  uint64_t origin, size;
  const char* label;
};

static void observers(StringReader& r, const RView& v, uint64_t cur, const char* after);
// cursor after a call that moves it by a large distance: reported under the operation's own key, then resynchronised
static void cursor_is(StringReader& r, const RView& v, uint64_t want, const char* op, uint64_t from, uint64_t n) {
  if (r.where() != want) {
    bad(std::string("StringReader:") + op + ":advance", "cursor after a call with a distance / size of 2^31 bytes or more differs from the 64-bit model",
        vf::fmt("%s %s(%s) with the cursor at %s: where()=%s expected %s", v.label, op, hx(n).c_str(), hx(from).c_str(), hx(r.where()).c_str(), hx(want).c_str()));
    r.go(want);
  }
  observers(r, v, want, op);
}
static void observers(StringReader& r, const RView& v, uint64_t cur, const char* after) {
  if (r.where() != cur || r.size() != v.size || r.remaining() != v.size - cur || r.eof() != (cur >= v.size))
    bad("StringReader:observers", "where()/size()/remaining()/eof() differ from the 64-bit cursor model",
        vf::fmt("%s after %s: where()=%s size()=%s remaining()=%s eof()=%d; model cursor %s size %s", v.label, after, hx(r.where()).c_str(), hx(r.size()).c_str(),
            hx(r.remaining()).c_str(), (int)r.eof(), hx(cur).c_str(), hx(v.size).c_str()));
}

// all 42 typed reader kinds x get / peek / pget at one offset
static void typed_at(StringReader& r, const RView& v, uint64_t off, uint64_t T) {
  const uint8_t* saved = g_base;
  g_base = v.g->base + v.origin;
  for (int k = 0; k < NRK; k++) {
    const RKind& K = RK[k];
    uint64_t W = K.width;
    if (off + W > v.size) continue;
    uint8_t b[8];
    v.g->sh.get(v.origin + off, b, W);
    uint64_t exp = expect_read(K, b);
    uint64_t park = v.size - 1 - (off % 977);
    for (int mode = 0; mode < 3; mode++) {
      const char* nm = mode == 2 ? K.pname : K.gname;
      g_op = nm;
      C->crumb("huge %s %s mode=%d off=0x%" PRIx64 " threshold=%s", v.label, nm, mode, off, g_th);
      uint64_t got, want;
      if (mode == 2) {
        r.go(park);
        got = K.pget(r, off);
        want = park;
      } else {
        r.go(off);
        got = K.get(r, mode == 0, off);
        want = mode == 0 ? off + W : off;
      }
      got &= mask_bits(K.retbits);
      C->evaluations++;
      cov_r[mode][k]++;
      const char* fam = mode == 0 ? "get" : mode == 1 ? "peek" : "pget";
      if (got != exp)
        bad(vf::fmt("StringReader:%s:value", fam), "typed value read at a large offset differs from the independent decoder over the planted bytes",
            vf::fmt("%s %s at offset %s (%s the threshold) over bytes %s: returned 0x%" PRIx64 " expected 0x%" PRIx64, v.label, nm, hx(off).c_str(), rel(off, W, T), vf::hex(b, W).c_str(), got, exp));
      if (r.where() != want)
        bad(vf::fmt("StringReader:%s:%s", fam, mode == 0 ? "advance" : "moved-cursor"), "cursor after a typed read at a large offset differs from the 64-bit model",
            vf::fmt("%s %s at offset %s: where()=%s expected %s", v.label, nm, hx(off).c_str(), hx(r.where()).c_str(), hx(want).c_str()));
    }
  }
  g_base = saved;
}

static void raw_at(StringReader& r, const RView& v, uint64_t off, uint64_t n, vf::Rng& g) {
  const Sparse& sh = v.g->sh;
  const uint8_t* real = v.g->base + v.origin;
  std::string exp = sh.str(v.origin + off, n);
  auto where_is = [&](const char* op, uint64_t want) {
    if (r.where() != want) {
      bad(std::string("StringReader:") + op + ":advance", "cursor after a raw read / skip at a large offset differs from the 64-bit model",
          vf::fmt("%s %s at offset %s size %" PRIu64 ": where()=%s expected %s", v.label, op, hx(off).c_str(), n, hx(r.where()).c_str(), hx(want).c_str()));
      r.go(want);
    }
  };
  auto bytes_are = [&](const char* op, const void* p, size_t cnt) {
    if (cnt != n || bytes_differ(p, exp.data(), n))
      bad(std::string("StringReader:") + op + ":bytes", "bytes returned from a large offset are not the bytes planted there",
          vf::fmt("%s %s at offset %s size %" PRIu64 ": returned %zu bytes %s expected %s", v.label, op, hx(off).c_str(), n, cnt, vf::hex(p, cnt < 40 ? cnt : 40).c_str(), vf::hex(exp).c_str()));
  };
  std::vector<char> buf(n + 1);
  for (int a = 0; a < 2; a++) {
    bool adv = a == 0;
    uint64_t after = adv ? off + n : off;
    std::string s;
    size_t cnt;
    C->crumb("huge %s raw off=0x%" PRIx64 " n=%" PRIu64 " adv=%d threshold=%s", v.label, off, n, (int)adv, g_th);
    g_op = "read(size)";
    r.go(off);
    s = r.read(n, adv);
    bytes_are(g_op, s.data(), s.size());
    where_is(g_op, after);
    g_op = "readx(size)";
    r.go(off);
    s = r.readx(n, adv);
    bytes_are(g_op, s.data(), s.size());
    where_is(g_op, after);
    g_op = "read(ptr,size)";
    r.go(off);
    cnt = r.read(buf.data(), n, adv);
    bytes_are(g_op, buf.data(), cnt);
    where_is(g_op, after);
    if (!(n == 0 && off == v.size)) {  // zero-byte checked pointer read at the very end throws (observation in notes, C02's business)
      g_op = "readx(ptr,size)";
      r.go(off);
      r.readx(buf.data(), n, adv);
      bytes_are(g_op, buf.data(), n);
      where_is(g_op, after);
    }
    g_op = "getv";
    r.go(off);
    const void* p = r.getv(n, adv);
    if (p != real + off) bad("StringReader:getv:pointer", "pointer returned does not address the requested large offset", vf::fmt("%s getv(%" PRIu64 ") at %s: %p expected %p", v.label, n, hx(off).c_str(), p, (const void*)(real + off)));
    where_is(g_op, after);
    if (n >= 1) {
      g_op = "get<T>(advance,size)";
      r.go(off);
      uint8_t b0 = r.get<uint8_t>(adv, n);
      if (b0 != (uint8_t)exp[0]) bad("StringReader:get<T>(advance,size):value", "first byte differs", vf::fmt("%s at %s", v.label, hx(off).c_str()));
      where_is(g_op, after);
    }
    C->evaluations += 6;
  }
  uint64_t park = (off * 7 + 13) % (v.size + 1);
  r.go(park);
  C->crumb("huge %s positional raw off=0x%" PRIx64 " n=%" PRIu64 " threshold=%s", v.label, off, n, g_th);
  {
    std::string s;
    size_t cnt;
    g_op = "pread(off,size)";
    s = r.pread(off, n);
    bytes_are(g_op, s.data(), s.size());
    g_op = "preadx(off,size)";
    s = r.preadx(off, n);
    bytes_are(g_op, s.data(), s.size());
    g_op = "pread(off,ptr,size)";
    cnt = r.pread(off, buf.data(), n);
    bytes_are(g_op, buf.data(), cnt);
    if (off < v.size) {
      g_op = "preadx(off,ptr,size)";
      r.preadx(off, buf.data(), n);
      bytes_are(g_op, buf.data(), n);
    }
    g_op = "pgetv";
    const void* p = r.pgetv(off, n);
    if (p != real + off) bad("StringReader:pgetv:pointer", "pointer returned does not address the requested large offset", vf::fmt("%s pgetv(%s,%" PRIu64 "): %p expected %p", v.label, hx(off).c_str(), n, p, (const void*)(real + off)));
    where_is("positional-raw-read", park);
    C->evaluations += 5;
  }
  // peek / skip / skip_if at the cursor
  C->crumb("huge %s peek/skip/skip_if off=0x%" PRIx64 " n=%" PRIu64 " threshold=%s", v.label, off, n, g_th);
  g_op = "peek";
  r.go(off);
  const char* pk = r.peek(n);
  if ((const uint8_t*)pk != real + off) bad("StringReader:peek:pointer", "pointer returned does not address the cursor", vf::fmt("%s peek(%" PRIu64 ") at %s", v.label, n, hx(off).c_str()));
  where_is(g_op, off);
  g_op = "skip";
  r.skip(n);
  where_is(g_op, off + n);
  g_op = "skip_if";
  r.go(off);
  bool m = r.skip_if(exp.data(), n);
  if (!m) bad("StringReader:skip_if:result", "skip_if does not match the bytes planted at the cursor", vf::fmt("%s skip_if(%s) at %s", v.label, vf::hex(exp).c_str(), hx(off).c_str()));
  where_is(g_op, off + n);
  if (n) {
    std::string probe = exp;
    probe[g.below(n)] ^= (char)(1 << g.below(8));
    r.go(off);
    if (r.skip_if(probe.data(), n)) bad("StringReader:skip_if:result", "skip_if matches bytes that differ in one bit", vf::fmt("%s at %s", v.label, hx(off).c_str()));
    where_is(g_op, off);
  }
  C->evaluations += 4;
}

// cstr / line starting a little below the threshold (so that the body straddles it) wherever the island holds a terminator
static void text_at(StringReader& r, const RView& v, uint64_t start, uint64_t limit) {
  const Sparse& sh = v.g->sh;
  auto find = [&](uint8_t c, uint64_t& pos) {
    for (pos = start; pos < limit; pos++)
      if (sh.at(v.origin + pos) == c) return true;
    return false;
  };
  uint64_t z;
  if (find(0, z)) {
    std::string exp = sh.str(v.origin + start, z - start);
    for (int a = 0; a < 2; a++) {
      g_op = "get_cstr";
      C->crumb("huge %s get_cstr off=0x%" PRIx64 " adv=%d threshold=%s", v.label, start, a == 0, g_th);
      r.go(start);
      std::string got = r.get_cstr(a == 0);
      uint64_t want = a == 0 ? z + 1 : start;
      if (got != exp) bad("StringReader:get_cstr:value", "string read at a large offset differs from the planted bytes up to the first NUL", vf::fmt("%s get_cstr at %s: got %s expected %s", v.label, hx(start).c_str(), vf::hex(got.substr(0, 64)).c_str(), vf::hex(exp).c_str()));
      if (r.where() != want) bad("StringReader:get_cstr:advance", "cursor after get_cstr at a large offset differs from the 64-bit model", vf::fmt("%s get_cstr(%d) at %s: where()=%s expected %s", v.label, a == 0, hx(start).c_str(), hx(r.where()).c_str(), hx(want).c_str()));
    }
    g_op = "pget_cstr";
    r.go(5);
    std::string got = r.pget_cstr(start);
    if (got != exp) bad("StringReader:pget_cstr:value", "string read at a large offset differs from the planted bytes up to the first NUL", vf::fmt("%s pget_cstr(%s): got %s expected %s", v.label, hx(start).c_str(), vf::hex(got.substr(0, 64)).c_str(), vf::hex(exp).c_str()));
    if (r.where() != 5) bad("StringReader:pget_cstr:moved-cursor", "positional read moved the cursor", vf::fmt("%s pget_cstr(%s)", v.label, hx(start).c_str()));
    C->evaluations += 3;
  }
  uint64_t nl;
  bool have_nl = find('\n', nl);
  if (have_nl || limit == v.size) {
    uint64_t end = have_nl ? nl : v.size;
    if (start >= end && !have_nl) return;
    std::string exp = sh.str(v.origin + start, end - start);
    bool crlf = have_nl && !exp.empty() && exp.back() == '\r';
    if (crlf) exp.pop_back();
    if (!have_nl && !exp.empty() && exp.back() == '\r') return;  // ambiguous, never planted
    for (int a = 0; a < 2; a++) {
      g_op = "get_line";
      C->crumb("huge %s get_line off=0x%" PRIx64 " adv=%d threshold=%s", v.label, start, a == 0, g_th);
      r.go(start);
      std::string got = r.get_line(a == 0);
      uint64_t want = a == 0 ? end + (have_nl ? 1 : 0) : start;
      if (got != exp) bad("StringReader:get_line:value", "line read at a large offset differs from the planted bytes up to the terminator", vf::fmt("%s get_line at %s: got %s expected %s", v.label, hx(start).c_str(), vf::hex(got.substr(0, 64)).c_str(), vf::hex(exp).c_str()));
      if (r.where() != want) bad("StringReader:get_line:advance", "cursor after get_line at a large offset differs from the 64-bit model", vf::fmt("%s get_line(%d) at %s: where()=%s expected %s", v.label, a == 0, hx(start).c_str(), hx(r.where()).c_str(), hx(want).c_str()));
    }
    C->evaluations += 2;
    cov_misc[!have_nl ? "huge:line-shape:unterminated-last" : crlf ? "huge:line-shape:CRLF" : "huge:line-shape:LF"]++;
  }
}

static void reader_view(const RView& v, vf::Rng& g, bool with_text) {
  StringReader r(v.g->base + v.origin, v.size);
  observers(r, v, 0, "construction");
  for (int t = 0; t <= NTH; t++) {
    bool is_end = t == NTH;
    // thresholds are positions of the underlying region; inside a sub-view they sit at T - origin
    uint64_t T = is_end ? v.size : TH[t] - v.origin;
    if (!is_end && (TH[t] < v.origin + 64 || T + 64 > v.size)) continue;
    g_th = TH_NAME[t];
    for (uint64_t off : offsets_around(T, 8, v.size, is_end)) typed_at(r, v, off, T);
    for (uint64_t d = 1; d <= 8; d++)  // the narrower kinds right at the end as well
      if (is_end) typed_at(r, v, v.size - d, T);
    cover("typed", t);
    static const uint64_t sizes[] = {0, 1, 4, 13, 100};
    for (uint64_t n : sizes)
      for (uint64_t off : offsets_around(T, n, v.size, is_end))
        if (n == 0 || n == 13 || (off + n) % 2 == T % 2) raw_at(r, v, off, n, g);
    cover("raw-skip", t);
    if (with_text) {
      uint64_t limit = is_end ? v.size : T + ISL - 64;
      for (uint64_t start = T - 70; start < (is_end ? T : T + 3); start++) text_at(r, v, start, limit);
      cover("cstr-line", t);
    }
    // cursor set / observers
    for (int64_t d = -2; d <= 2; d++) {
      uint64_t x = T + d;
      if (x > v.size) continue;
      g_op = "go";
      vf::poison_errno();
      r.go(x);
      if (r.where() != x) bad("StringReader:go:cursor", "where() after go() to a large offset differs", vf::fmt("%s go(%s): where()=%s", v.label, hx(x).c_str(), hx(r.where()).c_str()));
      observers(r, v, x, "go");
      C->evaluations++;
    }
    // constructor start offset, truncate to just past the threshold
    if (!is_end) {
      g_op = "StringReader(ptr,size,offset)";
      StringReader c(v.g->base + v.origin, v.size, T + 5);
      if (c.where() != T + 5 || c.size() != v.size) bad("StringReader:ctor-offset", "constructor start offset / size not honoured", vf::fmt("%s offset %s: where()=%s", v.label, hx(T + 5).c_str(), hx(c.where()).c_str()));
      uint8_t e = v.g->sh.at(v.origin + T + 5);
      if (c.get_u8() != e || c.where() != T + 6) bad("StringReader:ctor-offset", "first read after construction at a large offset is wrong", vf::fmt("%s offset %s", v.label, hx(T + 5).c_str()));
      g_op = "truncate";
      C->crumb("huge %s truncate threshold=%s", v.label, g_th);
      StringReader tr = r;
      tr.truncate(T + 3);
      RView tv{v.g, v.origin, T + 3, "truncated reader"};
      tr.go(T + 1);
      observers(tr, tv, T + 1, "truncate");
      uint8_t b2[2];
      v.g->sh.get(v.origin + T + 1, b2, 2);
      uint16_t u = tr.get_u16b();
      if (u != dec(b2, 2, BIG)) bad("StringReader:truncate:last-bytes", "the last bytes below a truncation point beyond 2^31 read wrong", vf::fmt("%s truncate(%s)", v.label, hx(T + 3).c_str()));
      observers(tr, tv, T + 3, "read to the truncated end");
      typed_at(tr, tv, T - 5, T);
      C->evaluations += 3;
    }
    cover("cursor", t);
  }
  // large distances in a single call: skip / getv / peek / pgetv / get<T>(advance,size) - no data is touched
  g_th = "(large sizes)";
  static const uint64_t starts[] = {0, 5, (1ULL << 31) - 3, (1ULL << 32) - 1, (1ULL << 32) + 9};
  static const uint64_t dists[] = {(1ULL << 31) - 1, 1ULL << 31, (1ULL << 32) - 1, 1ULL << 32, (1ULL << 32) + 1, (1ULL << 32) + (1ULL << 31) + 7, ~0ULL};
  const uint8_t* real = v.g->base + v.origin;
  for (uint64_t a : starts)
    for (uint64_t n : dists) {
      if (n == ~0ULL) n = v.size > a ? v.size - a : 0;  // exactly to the end
      if (a > v.size || n > v.size - a) continue;
      C->crumb("huge %s large distance start=0x%" PRIx64 " n=0x%" PRIx64, v.label, a, n);
      g_op = "skip";
      r.go(a);
      r.skip(n);
      cursor_is(r, v, a + n, "skip", a, n);
      g_op = "getv";
      r.go(a);
      const void* p = r.getv(n);
      if (p != real + a) bad("StringReader:getv:pointer", "pointer returned for a large size does not address the cursor", vf::fmt("%s getv(%s) at %s", v.label, hx(n).c_str(), hx(a).c_str()));
      cursor_is(r, v, a + n, "getv", a, n);
      g_op = "peek";
      r.go(a);
      if ((const uint8_t*)r.peek(n) != real + a) bad("StringReader:peek:pointer", "pointer returned for a large size does not address the cursor", vf::fmt("%s peek(%s) at %s", v.label, hx(n).c_str(), hx(a).c_str()));
      cursor_is(r, v, a, "peek", a, n);
      g_op = "pgetv";
      if ((const uint8_t*)r.pgetv(a, n) != real + a) bad("StringReader:pgetv:pointer", "pointer returned for a large size does not address the offset", vf::fmt("%s pgetv(%s,%s)", v.label, hx(a).c_str(), hx(n).c_str()));
      if (n) {
        g_op = "get<T>(advance,size)";
        uint8_t b0 = r.get<uint8_t>(true, n);
        if (b0 != v.g->sh.at(v.origin + a)) bad("StringReader:get<T>(advance,size):value", "first byte differs", vf::fmt("%s at %s", v.label, hx(a).c_str()));
        cursor_is(r, v, a + n, "get<T>(advance,size)", a, n);
      }
      C->evaluations += 5;
      cov_misc[n >= (1ULL << 32) ? "huge:distance:>=2^32" : "huge:distance:2^31..2^32"]++;
    }
}

// sub-readers: start offsets and sizes beyond the thresholds
static void subs(const Region& R, vf::Rng& g) {
  StringReader r(R.base, R.size);
  for (int t = 0; t < NTH; t++) {
    g_th = TH_NAME[t];
    uint64_t T = TH[t];
    for (int variant = 0; variant < 8; variant++) {
      uint64_t off = (variant & 1) ? T - 3 : 5 + g.below(64);
      uint64_t n = (variant & 1) ? R.size - off - g.below(100) : T + 20 + g.below(64) - off;
      bool sized = variant & 2, x = variant & 4;
      g_op = x ? "subx" : "sub";
      C->crumb("huge sub variant=%d off=0x%" PRIx64 " n=0x%" PRIx64 " threshold=%s", variant, off, n, g_th);
      r.go(T + 1);
      StringReader s = sized ? (x ? r.subx(off, n) : r.sub(off, n)) : (x ? r.subx(off) : r.sub(off));
      uint64_t ssize = sized ? n : R.size - off;
      RView sv{&R, off, ssize, "sub-reader"};
      if (s.size() != ssize || s.where() != 0)
        bad("StringReader:sub:extent", "sub-reader with a large offset / size has the wrong extent", vf::fmt("%s(%s%s): size()=%s expected %s where()=%s", g_op, hx(off).c_str(), sized ? ("," + hx(n)).c_str() : "", hx(s.size()).c_str(), hx(ssize).c_str(), hx(s.where()).c_str()));
      else {
        observers(s, sv, 0, g_op);
        // the bytes either side of the threshold, seen through the sub-reader
        for (uint64_t po = T - 9; po <= T + 1; po += 2)
          if (po >= off && po - off + 8 <= ssize) typed_at(s, sv, po - off, T - off);
        // a sub-reader of the sub-reader
        if (ssize > 40) {
          StringReader s2 = s.sub(7, ssize - 20);
          RView sv2{&R, off + 7, ssize - 20, "sub-reader of a sub-reader"};
          if (s2.size() != ssize - 20) bad("StringReader:sub:extent", "nested sub-reader has the wrong extent", vf::fmt("size()=%s expected %s", hx(s2.size()).c_str(), hx(ssize - 20).c_str()));
          else if (T - 4 >= off + 7 && T - 4 - (off + 7) + 8 <= ssize - 20) typed_at(s2, sv2, T - 4 - (off + 7), T - off - 7);
        }
      }
      if (r.where() != T + 1) bad("StringReader:sub:moved-cursor", "creating a sub-reader moved the parent's cursor", g_op);
      // bit sub-readers: extent in bits (up to 2^35+), bits fetched beyond bit 2^31 .. 2^35 of the sub-range
      g_op = x ? "subx_bits" : "sub_bits";
      phosg::BitReader b = sized ? (x ? r.subx_bits(off, n) : r.sub_bits(off, n)) : (x ? r.subx_bits(off) : r.sub_bits(off));
      if (b.size() != ssize * 8 || b.where() != 0)
        bad("StringReader:sub_bits:extent", "bit sub-reader with a large offset / size has the wrong extent", vf::fmt("%s(%s%s): size()=%s expected %s", g_op, hx(off).c_str(), sized ? ("," + hx(n)).c_str() : "", hx(b.size()).c_str(), hx(ssize * 8).c_str()));
      else {
        // bit positions (relative to the sub-range) around every region threshold that lies inside it, and near its end
        std::vector<uint64_t> centers;
        for (int u = 0; u < NTH; u++)
          if (TH[u] >= off + 16 && TH[u] + 16 <= off + ssize) centers.push_back((TH[u] - off) * 8);
        centers.push_back(ssize * 8 - 100);
        for (int i = 0; i < 16; i++) {
          uint64_t bitpos = centers[g.below(centers.size())] - 40 + g.below(80);
          unsigned nb = 1 + (unsigned)g.below(64);
          if (bitpos + nb > ssize * 8) continue;
          uint64_t got = b.pread(bitpos, (uint8_t)nb), exp = R.sh.bits(off * 8 + bitpos, nb);
          if (got != exp) bad("StringReader:sub_bits:value", "bits read through a bit sub-reader at a large position differ from the MSB-first decoder", vf::fmt("%s(%s).pread(%s,%u)=0x%" PRIx64 " expected 0x%" PRIx64, g_op, hx(off).c_str(), hx(bitpos).c_str(), nb, got, exp));
          C->evaluations++;
        }
      }
      C->evaluations += 2;
    }
    cover("sub", t);
  }
}

// ---- BitReader families -----------------------------------------------------------------------------------------
static void bit_observers(phosg::BitReader& b, uint64_t total, uint64_t cur, const char* after) {
  if (b.where() != cur || b.size() != total || b.remaining() != total - cur || b.eof() != (cur >= total))
    bad("BitReader:observers", "where()/size()/remaining()/eof() differ from the 64-bit bit-cursor model",
        vf::fmt("after %s: where()=%s size()=%s remaining()=%s eof()=%d; model cursor %s size %s", after, hx(b.where()).c_str(), hx(b.size()).c_str(), hx(b.remaining()).c_str(), (int)b.eof(), hx(cur).c_str(), hx(total).c_str()));
}

static void bitreaders(const Region& R, vf::Rng& g) {
  const uint64_t total = R.size * 8;
  phosg::BitReader b(R.base, total);
  bit_observers(b, total, 0, "construction");
  static const unsigned widths[] = {0, 1, 2, 7, 8, 9, 15, 16, 17, 31, 32, 33, 47, 63, 64};
  for (int t = 0; t <= NTH; t++) {
    bool is_end = t == NTH;
    g_th = TH_NAME[t];
    const uint64_t BT = is_end ? total : TH[t] * 8;
    for (unsigned n : widths) {
      std::vector<uint64_t> starts;
      if (is_end) {
        for (uint64_t d = 0; d < 4; d++) starts.push_back(total - n - d);
      } else {
        for (uint64_t s = BT - n - 2; s <= BT + 2; s++) starts.push_back(s);
        for (int i = 0; i < 4; i++) starts.push_back(BT - 200 + g.below(400));
      }
      for (uint64_t s : starts) {
        uint64_t exp = R.sh.bits(s, n);
        for (int mode = 0; mode < 3; mode++) {
          uint64_t got, want;
          const char* fam;
          C->crumb("huge BitReader mode=%d start=0x%" PRIx64 " n=%u threshold=%s", mode, s, n, g_th);
          if (mode == 2) {
            g_op = "BitReader::pread";
            fam = "pread";
            uint64_t park = total - 1 - (s % 1009);
            b.go(park);
            got = b.pread(s, (uint8_t)n);
            want = park;
          } else {
            g_op = "BitReader::read";
            fam = "read";
            b.go(s);
            got = (n == 1 && mode == 0 && (s & 1)) ? b.read() : b.read((uint8_t)n, mode == 0);
            want = mode == 0 ? s + n : s;
          }
          C->evaluations++;
          if (got != exp)
            bad(vf::fmt("BitReader:%s:value", fam), "bits read at a large bit position differ from the MSB-first decoder over the planted bytes",
                vf::fmt("%s(%u bits%s) at bit %s (byte %s, %s bit 8*threshold): returned 0x%" PRIx64 " expected 0x%" PRIx64, fam, n, mode == 1 ? ", advance=false" : "", hx(s).c_str(), hx(s >> 3).c_str(), rel(s, n, BT), got, exp));
          if (b.where() != want) {
            bad(vf::fmt("BitReader:%s:%s", fam, mode == 0 ? "advance" : "moved-cursor"), "bit cursor after the call differs from the 64-bit model", vf::fmt("%s(%u) at bit %s: where()=%s expected %s", fam, n, hx(s).c_str(), hx(b.where()).c_str(), hx(want).c_str()));
            b.go(want);
          }
        }
      }
    }
    cover("bits-read", t);
    // single bits, one after the other, across the threshold (the sequence a bit-by-bit decoder produces)
    if (!is_end) {
      g_op = "BitReader::read";
      C->crumb("huge BitReader single-bit walk threshold=%s", g_th);
      b.go(BT - 96);
      for (uint64_t p = BT - 96; p < BT + 96; p++) {
        uint64_t got = b.read(1), exp = R.sh.bits(p, 1);
        C->evaluations++;
        if (got != exp || b.where() != p + 1) {
          bad(got != exp ? "BitReader:read:value" : "BitReader:read:advance", "a single bit read sequentially across a large threshold differs from the MSB-first decoder / the cursor model",
              vf::fmt("read(1) at bit %s: returned %" PRIu64 " expected %" PRIu64 ", where()=%s", hx(p).c_str(), got, exp, hx(b.where()).c_str()));
          b.go(p + 1);
        }
      }
    }
    // go / skip / constructor offset / truncate
    for (int64_t d = -2; d <= 2; d++) {
      uint64_t x = BT + d;
      if (x > total) continue;
      g_op = "BitReader::go";
      vf::poison_errno();
      b.go(x);
      if (b.where() != x) bad("BitReader:go:cursor", "where() after go() to a large bit offset differs", vf::fmt("go(%s): where()=%s", hx(x).c_str(), hx(b.where()).c_str()));
      bit_observers(b, total, x, "go");
      if (x >= 9) {
        g_op = "BitReader::skip";
        b.go(x - 9);
        b.skip(9);
        if (b.where() != x) {
          bad("BitReader:skip:advance", "bit cursor after a small skip across a large threshold differs from the 64-bit model", vf::fmt("skip(9) from bit %s: where()=%s", hx(x - 9).c_str(), hx(b.where()).c_str()));
          b.go(x);
        }
        bit_observers(b, total, x, "skip");
      }
      C->evaluations += 2;
    }
    if (!is_end) {
      g_op = "BitReader(ptr,bits,offset)";
      phosg::BitReader c(R.base, total, BT + 3);
      bit_observers(c, total, BT + 3, "construction with a start offset");
      uint64_t got = c.read(13), exp = R.sh.bits(BT + 3, 13);
      if (got != exp) bad("BitReader:ctor-offset", "first read after construction at a large bit offset is wrong", vf::fmt("offset %s: 0x%" PRIx64 " expected 0x%" PRIx64, hx(BT + 3).c_str(), got, exp));
      g_op = "BitReader::truncate";
      phosg::BitReader tr = b;
      tr.truncate(BT + 5);
      tr.go(BT + 1);
      bit_observers(tr, BT + 5, BT + 1, "truncate");
      got = tr.read(4);
      if (got != R.sh.bits(BT + 1, 4)) bad("BitReader:truncate:last-bits", "the last bits below a truncation point read wrong", hx(BT + 5));
      bit_observers(tr, BT + 5, BT + 5, "read to the truncated end");
      C->evaluations += 3;
    }
    cover("bits-cursor", t);
  }
  g_th = "(large sizes)";
  static const uint64_t starts[] = {0, 3, (1ULL << 31) - 1, (1ULL << 32) - 5, (1ULL << 35) - 1};
  static const uint64_t dists[] = {(1ULL << 31), (1ULL << 32) - 1, 1ULL << 32, (1ULL << 33) + 5, (1ULL << 35), (1ULL << 35) + (1ULL << 34) + 11, ~0ULL};
  for (uint64_t a : starts)
    for (uint64_t n : dists) {
      if (n == ~0ULL) n = total - a;
      if (n > total - a) continue;
      g_op = "BitReader::skip";
      C->crumb("huge BitReader skip start=0x%" PRIx64 " n=0x%" PRIx64, a, n);
      b.go(a);
      b.skip(n);
      if (b.where() != a + n) {
        bad("BitReader:skip:advance", "bit cursor after a skip of 2^31 bits or more differs from the 64-bit model", vf::fmt("skip(%s) from bit %s: where()=%s expected %s", hx(n).c_str(), hx(a).c_str(), hx(b.where()).c_str(), hx(a + n).c_str()));
        b.go(a + n);
      }
      bit_observers(b, total, a + n, "skip(large)");
      if (a + n + 8 <= total) {
        uint64_t got = b.read(8, false), exp = R.sh.bits(a + n, 8);
        if (got != exp) bad("BitReader:read:value", "bits read after a large skip differ from the MSB-first decoder", vf::fmt("skip(%s) from %s then read(8)=0x%" PRIx64 " expected 0x%" PRIx64, hx(n).c_str(), hx(a).c_str(), got, exp));
      }
      C->evaluations += 2;
      cov_misc[n >= (1ULL << 35) ? "huge:bit-distance:>=2^35" : n >= (1ULL << 32) ? "huge:bit-distance:2^32..2^35" : "huge:bit-distance:2^31..2^32"]++;
    }
}

// ---- BufferWriter -----------------------------------------------------------------------------------------------
// Compare every tracked (island) page of D with the shadow; a difference inside [lo,hi) is the operation's own result,
// one anywhere else is a write that landed in the wrong place (e.g. at the position modulo 2^32).
static bool sweep(Region& D, const char* op, uint64_t lo, uint64_t hi, const std::string& detail) {
  bool ok = true;
  for (auto& kv : D.sh.pages) {
    uint8_t* real = D.base + kv.first * PG;
    if (!memcmp(real, kv.second.data(), PG)) continue;
    ok = false;
    uint64_t first = 0;
    while (real[first] == kv.second[first]) first++;
    uint64_t pos = kv.first * PG + first;
    uint64_t a = first > 12 ? first - 12 : 0, e = std::min<uint64_t>(PG, first + 20);
    bool own = pos >= lo && pos < hi;
    bad(std::string("BufferWriter:") + op + (own ? ":bytes" : ":clobber"),
        own ? "bytes in the target range of a write at a large offset differ from the independent encoder" : "a write at a large offset changed bytes outside its target range",
        detail + vf::fmt(" :: first difference at %s: buffer %s expected %s (from %s)", hx(pos).c_str(), vf::hex(real + a, e - a).c_str(), vf::hex(kv.second.data() + a, e - a).c_str(), hx(kv.first * PG + a).c_str()));
    memcpy(real, kv.second.data(), PG);  // resynchronise
  }
  return ok;
}

static void model_write(Region& D, uint64_t pos, const uint8_t* b, size_t n) {
  for (size_t i = 0; i < n; i++)
    if (D.sh.tracked(pos + i)) D.sh.set(pos + i, b[i]);
}
// dest[d .. d+n) = src model [s .. s+n), tracked pages only
static void model_copy(Region& D, uint64_t d, const Sparse& src, uint64_t s, uint64_t n) {
  for (auto& kv : D.sh.pages) {
    uint64_t p0 = kv.first * PG, p1 = p0 + PG;
    uint64_t a = std::max(p0, d), e = std::min(p1, d + n);
    for (uint64_t p = a; p < e; p++) kv.second[p - p0] = src.at(s + (p - d));
  }
}

static void bw_positional(Region& D, vf::Rng& g) {
  BufferWriter w(D.base, D.size);
  uint64_t cur = 0;  // the private append cursor, observable only through where the next put lands
  auto put_marker = [&]() {
    uint8_t m = (uint8_t)(0xC0 | (cur & 0x3F));
    g_op = "put_u8";
    w.put_u8(m);
    model_write(D, cur, &m, 1);
    sweep(D, "put-after-positional-writes", cur, cur + 1, vf::fmt("put_u8 expected to land at %s (positional writes must not move the append cursor)", hx(cur).c_str()));
    cur++;
  };
  put_marker();
  for (int t = 0; t <= NTH; t++) {
    bool is_end = t == NTH;
    g_th = TH_NAME[t];
    uint64_t T = is_end ? D.size : TH[t];
    for (int k = 0; k < NWK; k++) {
      const WKind& K = WK[k];
      for (uint64_t off : offsets_around(T, K.width, D.size, is_end)) {
        if (!is_end && (off < T - K.width - 1 || off > T + 1)) continue;
        Val v = gen_val(g, K.base, K.width);
        uint8_t e[8];
        enc(e, v.bits, K.width, K.order);
        g_op = "pput_*";
        C->crumb("huge BufferWriter pput_%s off=0x%" PRIx64 " v=0x%" PRIx64 " threshold=%s", K.name, off, v.bits, g_th);
        K.bw_pput(w, off, v.bits);
        C->evaluations++;
        cov_w[1][1][k]++;
        model_write(D, off, e, K.width);
        sweep(D, "pput", off, off + K.width, vf::fmt("pput_%s(%s, 0x%" PRIx64 ") (%s the threshold), encoder bytes %s", K.name, hx(off).c_str(), v.bits, rel(off, K.width, T), vf::hex(e, K.width).c_str()));
      }
    }
    cover("bw-pput", t);
    static const uint64_t sizes[] = {0, 1, 4, 13, 100};
    for (uint64_t n : sizes)
      for (uint64_t off : offsets_around(T, n, D.size, is_end)) {
        std::string d = g.bytes(n);
        bool str = (off + n) & 1;
        g_op = str ? "pwrite(off,string)" : "pwrite(off,ptr,size)";
        C->crumb("huge BufferWriter %s off=0x%" PRIx64 " n=%" PRIu64 " threshold=%s", g_op, off, n, g_th);
        if (str) w.pwrite(off, d);
        else w.pwrite(off, d.data(), n);
        C->evaluations++;
        model_write(D, off, (const uint8_t*)d.data(), n);
        sweep(D, "pwrite", off, off + n, vf::fmt("%s at %s size %" PRIu64 " (%s the threshold)", g_op, hx(off).c_str(), n, rel(off, n, T)));
      }
    cover("bw-pwrite", t);
    put_marker();
  }
}

// Sequential writes: the append cursor is carried past 2^31, 2^32 and 2^32+2^31 by raw transfers from region R (whose
// planted bytes then reappear in D's islands), and every typed put kind is issued around each of them.
static void bw_sequential(Region& D, const Region& R, vf::Rng& g) {
  for (int scenario = 0; scenario < 2; scenario++) {
    BufferWriter w(D.base, D.size);
    uint64_t cur = 0;
    auto typed_puts = [&](uint64_t upto) {
      // typed puts in shuffled order until the cursor has passed `upto` by at least 16 bytes
      while (cur < upto + 16 && cur + 8 <= D.size) {
        int k = (int)g.below(NWK);
        const WKind& K = WK[k];
        Val v = gen_val(g, K.base, K.width);
        uint8_t e[8];
        enc(e, v.bits, K.width, K.order);
        g_op = "put_*";
        C->crumb("huge BufferWriter put_%s cursor=0x%" PRIx64 " v=0x%" PRIx64 " threshold=%s", K.name, cur, v.bits, g_th);
        K.bw_put(w, v.bits);
        C->evaluations++;
        cov_w[1][0][k]++;
        model_write(D, cur, e, K.width);
        sweep(D, "put", cur, cur + K.width, vf::fmt("scenario %d: put_%s(0x%" PRIx64 ") with the append cursor at %s (%s the threshold), encoder bytes %s", scenario, K.name, v.bits, hx(cur).c_str(), rel(cur, K.width, upto), vf::hex(e, K.width).c_str()));
        cur += K.width;
      }
    };
    auto transfer = [&](uint64_t n, bool as_pwrite) {
      // the same offsets in R are the source, so the source range is always inside R
      g_op = as_pwrite ? "pwrite(off,ptr,size)" : "write(ptr,size)";
      C->crumb("huge BufferWriter %s cursor=0x%" PRIx64 " n=0x%" PRIx64 " threshold=%s", g_op, cur, n, g_th);
      if (as_pwrite) w.pwrite(cur, R.base + cur, n);
      else w.write(R.base + cur, n);
      C->evaluations++;
      model_copy(D, cur, R.sh, cur, n);
      sweep(D, as_pwrite ? "pwrite(large)" : "write(large)", cur, cur + n, vf::fmt("scenario %d: %s of %s bytes at %s", scenario, g_op, hx(n).c_str(), hx(cur).c_str()));
      if (!as_pwrite) cur += n;
      cov_misc[n >= (1ULL << 32) ? "huge:transfer:BufferWriter:>=2^32" : "huge:transfer:BufferWriter:2^31..2^32"]++;
    };
    if (scenario == 0) {
      // threshold by threshold
      static const int order[] = {3, 4, 5, NTH};
      for (int t : order) {
        g_th = TH_NAME[t];
        uint64_t T = t == NTH ? D.size : TH[t];
        uint64_t stop = T - 21 - g.below(8);
        transfer(stop - cur, false);
        if (t == NTH) {
          C->crumb("huge BufferWriter put_u8 up to the end from cursor=0x%" PRIx64, cur);
          while (cur < D.size) {  // fill exactly to the end
            uint8_t m = (uint8_t)(0x80 | (cur & 0x7F));
            g_op = "put_u8";
            w.put_u8(m);
            model_write(D, cur, &m, 1);
            cur++;
          }
          sweep(D, "put", D.size - 32, D.size, "scenario 0: put_u8 up to the last byte of the buffer");
        } else {
          typed_puts(T);
        }
        cover("bw-put", t);
      }
    } else {
      // one transfer of more than 2^32 bytes, then typed puts; a positional transfer of more than 2^32 bytes
      g_th = "(large sizes)";
      typed_puts(0);
      transfer((1ULL << 32) + 50 + g.below(16), false);
      typed_puts(cur);
      uint64_t keep = cur;
      cur = 9;
      transfer((1ULL << 32) + 11, true);
      cur = keep;
      typed_puts(cur);
    }
  }
}

// Raw reads with a size >= 2^32 through the pointer forms, into D (islands are checked, the rest is alias windows)
static void reader_transfers(const Region& R, Region& D) {
  g_th = "(large sizes)";
  StringReader r(R.base, R.size);
  RView v{&R, 0, R.size, "StringReader(ptr, 6 GiB + 5 MiB)"};
  struct T4 {
    int form;  // 0 readx(ptr) 1 pread(off,ptr) 2 read(ptr) 3 preadx(off,ptr)
    uint64_t off, n;
  };
  std::vector<T4> plan = {{0, 3, (1ULL << 32) + 77}, {1, (1ULL << 31) - 7, (1ULL << 32) + 9}};
  if (C->thorough()) {
    plan.push_back({2, 33, (1ULL << 32) + (1ULL << 31) + 5});
    plan.push_back({3, 1, (1ULL << 32) + 1});
  }
  for (auto& p : plan) {
    static const char* const nm[] = {"readx(ptr,size)", "pread(off,ptr,size)", "read(ptr,size)", "preadx(off,ptr,size)"};
    g_op = nm[p.form];
    C->crumb("huge StringReader %s off=0x%" PRIx64 " n=0x%" PRIx64, g_op, p.off, p.n);
    uint64_t cnt = p.n, want;
    if (p.form == 0 || p.form == 2) {
      r.go(p.off);
      if (p.form == 0) r.readx(D.base, p.n);
      else cnt = r.read(D.base, p.n);
      want = p.off + p.n;
    } else {
      r.go(17);
      if (p.form == 1) cnt = r.pread(p.off, D.base, p.n);
      else r.preadx(p.off, D.base, p.n);
      want = 17;
    }
    C->evaluations++;
    if (cnt != p.n) bad(std::string("StringReader:") + g_op + ":count", "in-range raw read of more than 2^32 bytes returned a different count", vf::fmt("%s at %s size %s returned %s", g_op, hx(p.off).c_str(), hx(p.n).c_str(), hx(cnt).c_str()));
    cursor_is(r, v, want, g_op, p.off, p.n);
    r.go(0);
    model_copy(D, 0, R.sh, p.off, p.n);
    // reuse the sweep; report under the reader's name
    for (auto& kv : D.sh.pages) {
      uint8_t* real = D.base + kv.first * PG;
      if (!memcmp(real, kv.second.data(), PG)) continue;
      uint64_t first = 0;
      while (real[first] == kv.second[first]) first++;
      uint64_t pos = kv.first * PG + first;
      bad(std::string("StringReader:") + g_op + ":bytes", "bytes copied by a raw read of more than 2^32 bytes are not the bytes at the requested position",
          vf::fmt("%s at %s size %s: destination byte %s is %02x, expected %02x (= source byte %s)%s", g_op, hx(p.off).c_str(), hx(p.n).c_str(), hx(pos).c_str(), real[first], kv.second[first], hx(p.off + pos).c_str(),
              pos >= p.n ? " - beyond the requested size" : ""));
      memcpy(real, kv.second.data(), PG);
    }
    cov_misc["huge:transfer:StringReader:>=2^32"]++;
  }
  if (C->thorough()) {
    g_op = "skip_if";
    uint64_t a = 41, n = (1ULL << 32) + 5;
    C->crumb("huge StringReader skip_if n=0x%" PRIx64, n);
    r.go(a);
    bool m = r.skip_if(R.base + a, n);
    if (!m) bad("StringReader:skip_if:result", "skip_if over more than 2^32 identical bytes does not match", hx(n));
    cursor_is(r, v, a + n, "skip_if", a, n);
    C->evaluations++;
  }
}

// A defective accessor can turn a 30-byte read into a scan of gigabytes (e.g. get_line looking for its terminator at a
// wrapped position).  The part normally needs a few CPU-seconds; after CPU_BUDGET seconds of *process CPU time* (immune
// to machine load) the process exits with a distinctive code, which the driver reports as a violation (`crash:exit71`)
// together with the breadcrumb of the call in flight.
static const int CPU_BUDGET_S = 150;
static void on_budget(int) {
  static const char m[] = "\n[c01 huge] CPU budget exhausted inside one accessor call at a large offset (see breadcrumb): runaway read/scan\n";
  ssize_t r = write(2, m, sizeof(m) - 1);
  (void)r;
  _exit(71);
}
static void budget(bool on) {
  struct itimerval it;
  memset(&it, 0, sizeof(it));
  if (on) {
    signal(SIGPROF, on_budget);
    it.it_value.tv_sec = CPU_BUDGET_S;
  }
  setitimer(ITIMER_PROF, &it, nullptr);
  if (!on) signal(SIGPROF, SIG_DFL);
}

static void part_huge() {
  bool do_rd = C->mine(0), do_wr = C->mine(1);
  if (!do_rd && !do_wr) return;
  budget(true);
  g_salt = mix(C->seed * 0x51ED27ULL + 7);
  vf::Rng g = script_rng(9, C->shard);
  Region R;
  make_region(R, RSZ, pat);
  // the very end: an unterminated last line after a final NUL-terminated string
  for (uint64_t i = 0; i < 24; i++) {
    uint64_t pos = RSZ - 24 + i;
    uint8_t b = i == 3 ? 0 : (uint8_t)('a' + i);
    R.base[pos] = b;
    R.sh.set(pos, b);
  }
  C->count("huge:pages-planted:R", R.sh.pages.size());
  const uint8_t* saved_base = g_base;
  try {
    if (do_rd) {
      int rounds = C->qt(1, 3);
      for (int i = 0; i < rounds; i++) {
        RView whole{&R, 0, R.size, "StringReader(ptr, 6 GiB + 5 MiB)"};
        reader_view(whole, g, true);
        // the same data through a reader that starts at an odd offset (thresholds at T - origin)
        RView shifted{&R, 4099 + g.below(64), R.size - 4099 - 64 - g.below(64), "StringReader(ptr + ~4 KiB, 6 GiB)"};
        reader_view(shifted, g, false);
        subs(R, g);
        bitreaders(R, g);
      }
      misc("huge:readers-done");
    }
    if (do_wr) {
      Region D;
      make_region(D, RSZ, pat2);
      C->count("huge:pages-planted:D", D.sh.pages.size());
      int rounds = C->qt(1, 3);
      for (int i = 0; i < rounds; i++) bw_positional(D, g);
      alias_gaps(D);
      bw_sequential(D, R, g);
      reader_transfers(R, D);
      sweep(D, "final-sweep", 0, 0, "end of the writer scenarios");
      misc("huge:writers-done");
    }
  } catch (const std::exception& e) {
    bad(std::string(g_op) + ":unexpected-exception", "an in-range operation at a large offset / size threw", vf::fmt("during %s: %s", g_op, e.what()));
  }
  g_base = saved_base;
  budget(false);
}

}  // namespace huge
}  // namespace c01
