// Shared by c05.cc (case-file harness) and c05_fuzz.cc (libFuzzer target):
// run one JSON::parse entry point on an exact-size heap copy of the input, type the escaping
// exception with typeid, dump the returned value in the neutral tagged form.
#pragma once

#include <cxxabi.h>
#include <stdint.h>
#include <stdlib.h>
#include <string.h>

#include <stdexcept>
#include <string>
#include <typeinfo>

#include "JSON.hh"
#include "Strings.hh"
#include "common.hh"  // vf::poison_errno(): called right before every call into phosg

namespace c05 {

inline std::string demangle(const char* n) {
  int st = 0;
  char* d = abi::__cxa_demangle(n, nullptr, nullptr, &st);
  std::string r = (st == 0 && d) ? d : n;
  free(d);
  return r;
}

inline std::string hexs(const std::string& s) {
  static const char* d = "0123456789abcdef";
  std::string r;
  r.reserve(s.size() * 2);
  for (unsigned char c : s) {
    r.push_back(d[c >> 4]);
    r.push_back(d[c & 15]);
  }
  return r;
}

// tagged neutral dump of a phosg value through its public accessors:
//   null/true/false, "i<decimal>", "d<%a>", "s<hex bytes>", [..], {"k<hex key>": ..}
inline void tagged(const phosg::JSON& j, std::string& out) {
  char b[64];
  if (j.is_null()) out += "null";
  else if (j.is_bool()) out += j.as_bool() ? "true" : "false";
  else if (j.is_int()) {
    snprintf(b, sizeof(b), "\"i%lld\"", (long long)j.as_int());
    out += b;
  } else if (j.is_float()) {
    snprintf(b, sizeof(b), "\"d%a\"", j.as_float());
    out += b;
  } else if (j.is_string()) {
    out += "\"s" + hexs(j.as_string()) + "\"";
  } else if (j.is_list()) {
    out += "[";
    bool first = true;
    for (const auto& it : j.as_list()) {
      if (!first) out += ",";
      first = false;
      tagged(*it, out);
    }
    out += "]";
  } else {
    out += "{";
    bool first = true;
    for (const auto& it : j.as_dict()) {
      if (!first) out += ",";
      first = false;
      out += "\"k" + hexs(it.first) + "\":";
      tagged(*it.second, out);
    }
    out += "}";
  }
}

// Cost bound, not a correctness rule: JSON::parse multiplies once per unit of a decimal exponent, so
// "1e2000000000" is seconds of work (it terminates).  Inputs with an exponent of more than 4
// significant digits are outside what the harnesses execute; they are counted, never judged.
// (phosg takes an exponent after a digit, after '.' and directly after a leading '-'.)
inline bool costly_exponent(const char* d, size_t n) {
  for (size_t i = 0; i < n; i++) {
    if ((d[i] == 'e' || d[i] == 'E') && i > 0 && ((d[i - 1] >= '0' && d[i - 1] <= '9') || d[i - 1] == '.' || d[i - 1] == '-')) {
      size_t j = i + 1;
      if (j < n && (d[j] == '+' || d[j] == '-')) j++;
      while (j < n && d[j] == '0') j++;
      size_t k = j;
      while (k < n && d[k] >= '0' && d[k] <= '9') k++;
      if (k - j > 4) return true;
    }
  }
  return false;
}

struct Out {
  bool ok = false;
  bool allowed = true;   // exception (if any) is JSON::parse_error or std::out_of_range (or derived)
  std::string exc;       // "" when ok, else demangled dynamic type
  std::string what;
  size_t where = 0, size = 0;  // reader entry only
  std::string tag;       // tagged value when ok
};

// entry: 0 = parse(StringReader&), 1 = parse(const char*, size_t), 2 = parse(const std::string&)
inline Out run_entry(int entry, const std::string& doc, bool strict) {
  Out o;
  size_t n = doc.size();
  char* buf = new char[n];  // exact size: ASan red zones on both sides, also for n == 0
  memcpy(buf, doc.data(), n);
  try {
    phosg::JSON v;
    if (entry == 0) {
      vf::poison_errno();
      phosg::StringReader r(buf, n);
      try {
        vf::poison_errno();
        v = phosg::JSON::parse(r, strict);
      } catch (...) {
        o.where = r.where();
        o.size = r.size();
        throw;
      }
      o.where = r.where();
      o.size = r.size();
    } else if (entry == 1) {
      vf::poison_errno();
      v = phosg::JSON::parse(buf, n, strict);
    } else {
      vf::poison_errno();
      v = phosg::JSON::parse(doc, strict);
    }
    o.ok = true;
    vf::poison_errno();
    tagged(v, o.tag);
  } catch (const std::exception& e) {
    o.exc = demangle(typeid(e).name());
    o.what = e.what();
    o.allowed = dynamic_cast<const phosg::JSON::parse_error*>(&e) || dynamic_cast<const std::out_of_range*>(&e);
  } catch (...) {
    o.exc = "(not a std::exception)";
    o.allowed = false;
  }
  delete[] buf;
  return o;
}

struct Six {
  Out o[2][3];  // [strict][entry]
};

// Runs all six and applies the input-independent oracles; calls report(key, what) for each breach.
template <typename F>
inline void run_all(const std::string& doc, Six& s, F&& report) {
  for (int strict = 0; strict < 2; strict++) {
    for (int e = 0; e < 3; e++) {
      Out& o = s.o[strict][e] = run_entry(e, doc, strict);
      if (!o.ok && !o.allowed)
        report("totality:escape:" + o.exc, "JSON::parse let an exception escape that is neither JSON::parse_error nor std::out_of_range: " + o.exc + ": " + o.what + (strict ? " (strict mode" : " (default mode") + ", entry point " + (e == 0 ? "StringReader&" : e == 1 ? "const char*,size_t" : "const std::string&") + ")");
    }
    Out& r = s.o[strict][0];
    Out& p = s.o[strict][1];
    Out& q = s.o[strict][2];
    if (r.where > r.size) report("totality:reader-beyond-end", "StringReader::where() is beyond size() after JSON::parse(StringReader&)");
    if (p.ok != q.ok || p.exc != q.exc || p.tag != q.tag)
      report("entry-points:pointer-vs-string-disagree", "parse(const char*,size_t) and parse(const std::string&) disagree on the same bytes: " + (p.ok ? p.tag.substr(0, 200) : p.exc) + " vs " + (q.ok ? q.tag.substr(0, 200) : q.exc));
    if (!r.ok && (p.ok || q.ok))
      report("entry-points:reader-fails-string-accepts", "parse(StringReader&) throws " + r.exc + " but a string entry point accepts the same bytes");
    if (r.ok && p.ok && r.tag != p.tag)
      report("entry-points:reader-vs-string-value", "parse(StringReader&) and parse(const char*,size_t) return different values: " + r.tag.substr(0, 200) + " vs " + p.tag.substr(0, 200));
  }
}

inline const char* outcome_class(const Out& o) {
  if (o.ok) return "ok";
  if (o.exc == "phosg::JSON::parse_error") return "parse_error";
  if (o.exc == "std::out_of_range") return "out_of_range";
  return "other";
}

}  // namespace c05
