// C04 — JSON serialise -> parse is the identity for every value and every option set.
//
// The harness generates value trees in its OWN neutral representation (Node), builds the phosg
// JSON from it, and for each of the 64 SerializeOption combinations:
//   t = ser(v, o)
//   p = prs(t)                 (default mode; strict mode too when o is a subset of FORMAT|SORT_DICT_KEYS)
//   * parse must not throw
//   * p walked through the public accessors must have the same shape, int/float kinds, exact ints,
//     exact byte strings/keys, floats equal at six significant digits, zeros with the same sign bit (independent of operator==)
//   * float-free trees: p == v with phosg's own operator== ; trees with floats: p == parse(text with
//     sorted keys) (same doubles, different key order)
//   * ser(p, o|SORT) == ser(v, o|SORT)
// Every tree is also dumped in a tagged neutral form together with the text of the four standard
// option sets to c04.dump.<shard>.tsv; vf/oracles/c04.py compares them with CPython json.loads.
// Deep-copy monitor: copies are compared, address-walked for aliasing, mutated at a random path.
// Assignment monitor: every tree is copy- and move-assigned onto pre-loaded destinations of every kind
// (scalars, shorter/longer lists, dicts with disjoint/overlapping/superset/subset/same key sets, a deep
// tree, a polluted same-shape tree, a copy of the previous tree); dst must equal the source afterwards.
//
// Size families (run_sizes): container breadth, total node count, string / key length, total text length and nesting
// depth are laddered over 2^k-1, 2^k, 2^k+1, 3*2^(k-1): flat lists and dicts, dicts with long shared key prefixes, tables,
// a wide container at depth d of a chain, a chain at index i of a wide list, long strings / keys in five content styles,
// documents whose text is exactly 2^k-1 / 2^k / 2^k+1 bytes long, chains of 1..500 levels, random trees with log-uniform
// fan-out.  Heavy documents run a rotating subset of the masks (one standard mask + at least two others).
//
// Violation keys: <check>:<shape of the smallest failing subtree>:<default|strict>  (no numbers).  The shape carries
// ":wide" / ":long" / ":deep" when the smallest failing container prefix has more than 64 children, the smallest failing
// string / key prefix more than 64 bytes, the smallest failing chain tail more than 64 levels - i.e. when the failure
// depends on breadth, length or depth rather than on a particular value.
#include <math.h>
#include <time.h>

#include <algorithm>
#include <functional>
#include <map>
#include <set>
#include <stdexcept>

#include "JSON.hh"
#include "common.hh"
#include "vf_history.hh"

using namespace std;
using namespace phosg;
using vf::fmt;

static vf::Ctx* C;

// Every call into phosg is preceded by vf::poison_errno(): code that tests a stale errno shows up as a wrong result.
#define PE() vf::poison_errno()
static string ser(const JSON& j, uint32_t o) {
  PE();
  return j.serialize(o);
}
static JSON prs(const string& t, bool strict) {
  PE();
  return JSON::parse(t, strict);
}

// ------------------------------------------------------------------------------------------------
// neutral tree

struct Node {
  enum K { N, B, I, F, S, L, D } k = N;
  bool b = false;
  int64_t i = 0;
  double f = 0;
  string s;
  vector<Node> kids;
  vector<string> keys;  // for D, parallel to kids
};

static Node mk_null() { return Node(); }
static Node mk_bool(bool b) { Node n; n.k = Node::B; n.b = b; return n; }
static Node mk_int(int64_t v) { Node n; n.k = Node::I; n.i = v; return n; }
static Node mk_float(double v) { Node n; n.k = Node::F; n.f = v; return n; }
static Node mk_str(const string& s) { Node n; n.k = Node::S; n.s = s; return n; }
static Node mk_list() { Node n; n.k = Node::L; return n; }
static Node mk_dict() { Node n; n.k = Node::D; return n; }
static void dput(Node& d, const string& k, Node v) {
  d.keys.push_back(k);
  d.kids.push_back(std::move(v));
}

static JSON build(const Node& n) {
  PE();
  switch (n.k) {
    case Node::N: return JSON(nullptr);
    case Node::B: return JSON(n.b);
    case Node::I: return JSON(n.i);
    case Node::F: return JSON(n.f);
    case Node::S: return JSON(n.s);
    case Node::L: {
      JSON r = JSON::list();
      for (auto& k : n.kids) r.emplace_back(build(k));
      return r;
    }
    default: {
      JSON r = JSON::dict();
      for (size_t i = 0; i < n.kids.size(); i++) r.emplace(n.keys[i], build(n.kids[i]));
      return r;
    }
  }
}

static bool has_float(const Node& n) {
  if (n.k == Node::F) return true;
  for (auto& k : n.kids)
    if (has_float(k)) return true;
  return false;
}

static size_t count_nodes(const Node& n) {
  size_t t = 1;
  for (auto& k : n.kids) t += count_nodes(k);
  return t;
}

// tagged neutral dump (itself plain JSON so the Python side can read it with json.loads):
//   null/true/false, "i<decimal>", "d<%a>", "s<hex bytes>", [..], {"k<hex key>": ..}
static void tagged(const Node& n, string& out) {
  switch (n.k) {
    case Node::N: out += "null"; break;
    case Node::B: out += n.b ? "true" : "false"; break;
    case Node::I: out += fmt("\"i%" PRId64 "\"", n.i); break;
    case Node::F: out += fmt("\"d%a\"", n.f); break;
    case Node::S: out += "\"s" + vf::hex(n.s) + "\""; break;
    case Node::L:
      out += "[";
      for (size_t i = 0; i < n.kids.size(); i++) {
        if (i) out += ",";
        tagged(n.kids[i], out);
      }
      out += "]";
      break;
    case Node::D:
      out += "{";
      for (size_t i = 0; i < n.kids.size(); i++) {
        if (i) out += ",";
        out += "\"k" + vf::hex(n.keys[i]) + "\":";
        tagged(n.kids[i], out);
      }
      out += "}";
      break;
  }
}

// ------------------------------------------------------------------------------------------------
// shapes (used for coverage classes and violation keys)

static string str_class(const string& s) {
  if (s.empty()) return "empty";
  bool high = false, ctrl = false, named = false, del = false, bs = false, q = false;
  for (unsigned char c : s) {
    if (c >= 0x80) high = true;
    else if (c == 0x7F) del = true;
    else if (c == '\b' || c == '\f' || c == '\n' || c == '\r' || c == '\t') named = true;
    else if (c < 0x20) ctrl = true;
    else if (c == '\\') bs = true;
    else if (c == '"') q = true;
  }
  if (high) return "high";
  if (ctrl) return "ctrl";
  if (named) return "ctrl-named";
  if (del) return "del";
  if (bs) return "backslash";
  if (q) return "quote";
  return "ascii";
}

static string float_shape(double f) {
  if (f == 0) return signbit(f) ? "negzero" : "zero";
  char b[64];
  snprintf(b, sizeof(b), "%g", f);
  string s = b;
  bool dot = s.find('.') != string::npos;
  if (s.find("e+") != string::npos) return dot ? "exp+" : "exp+:integral-mantissa";
  if (s.find("e-") != string::npos) return dot ? "exp-" : "exp-:integral-mantissa";
  return dot ? "plain" : "plain:integral";
}

static string int_shape(int64_t v) {
  if (v == 0) return "zero";
  if (v == INT64_MIN) return "min";
  if (v == INT64_MAX) return "max";
  uint64_t a = v < 0 ? (uint64_t)0 - (uint64_t)v : (uint64_t)v;
  const char* sz = a < 10 ? "1digit" : a <= 0xFFFFFFFFULL ? "<=32bit" : "<=63bit";
  return string(v < 0 ? "neg:" : "pos:") + sz;
}

static string shape(const Node& n) {
  switch (n.k) {
    case Node::N: return "null";
    case Node::B: return "bool";
    case Node::I: return "int:" + int_shape(n.i);
    case Node::F: return "float:" + float_shape(n.f);
    case Node::S: return "string:" + str_class(n.s);
    case Node::L: return n.kids.empty() ? "list:empty" : "list";
    default: return n.kids.empty() ? "dict:empty" : "dict";
  }
}

static size_t g_cover_budget = 0;  // large documents: classes from the first few thousand nodes are enough
static void cover_leaves(const Node& n, int depth) {
  if (g_cover_budget == 0) return;
  g_cover_budget--;
  if (n.k == Node::L || n.k == Node::D) {
    C->cls("gen:" + shape(n) + (depth == 0 ? ":root" : ":nested"));
    if (n.k == Node::D)
      for (auto& k : n.keys) C->cls("gen:key:" + str_class(k));
    for (auto& k : n.kids) cover_leaves(k, depth + 1);
  } else
    C->cls("gen:" + shape(n));
}

// ------------------------------------------------------------------------------------------------
// comparison of a parsed JSON with the neutral tree via public accessors only

static string sig6(double f) {
  char b[64];
  snprintf(b, sizeof(b), "%.5e", f);
  return b;
}

// returns "" or "<check>" ; fills where with a human-readable path
// the path is rendered only when something differs (wide containers: no per-element string work)
struct PathRef {
  const PathRef* up;
  const Node* parent;
  size_t index;
};
static string render_path(const PathRef* p) {
  if (!p) return "$";
  string head = render_path(p->up);
  if (p->parent->k == Node::D) return head + "{" + vf::hex(p->parent->keys[p->index].substr(0, 64)) + (p->parent->keys[p->index].size() > 64 ? "..." : "") + "}";
  return head + fmt("[%zu]", p->index);
}

static string walk_cmp(const Node& n, const JSON& j, string& where, const PathRef* path = nullptr) {
  PE();
  auto bad = [&](const char* chk, const string& detail) {
    where = render_path(path) + ": " + detail;
    return string(chk);
  };
  switch (n.k) {
    case Node::N:
      if (!j.is_null()) return bad("kind-differs", "expected null");
      return "";
    case Node::B:
      if (!j.is_bool()) return bad("kind-differs", "expected bool");
      if (j.as_bool() != n.b) return bad("value-differs", "bool");
      return "";
    case Node::I:
      if (!j.is_int()) return bad("kind-differs", j.is_float() ? "int came back as float" : "expected int");
      if (j.as_int() != n.i) return bad("value-differs", fmt("int %" PRId64 " came back as %" PRId64, n.i, j.as_int()));
      return "";
    case Node::F: {
      if (!j.is_float()) return bad("kind-differs", j.is_int() ? "float came back as int" : "expected float");
      double g = j.as_float();
      if (n.f == 0 && g == 0) {
        if (signbit(n.f) != signbit(g)) return bad("value-differs", fmt("zero %a came back as %a (sign bit lost)", n.f, g));
        return "";
      }
      if (sig6(g) != sig6(n.f)) return bad("value-differs", fmt("float %a (%.17g) came back as %a (%.17g)", n.f, n.f, g, g));
      return "";
    }
    case Node::S:
      if (!j.is_string()) return bad("kind-differs", "expected string");
      if (j.as_string() != n.s) return bad("value-differs", "string " + vf::hex(n.s) + " came back as " + vf::hex(j.as_string()));
      return "";
    case Node::L: {
      if (!j.is_list()) return bad("kind-differs", "expected list");
      if (j.size() != n.kids.size()) return bad("value-differs", fmt("list size %zu came back as %zu", n.kids.size(), j.size()));
      for (size_t i = 0; i < n.kids.size(); i++) {
        PathRef here{path, &n, i};
        string r = walk_cmp(n.kids[i], j.at(i), where, &here);
        if (!r.empty()) return r;
      }
      return "";
    }
    default: {
      if (!j.is_dict()) return bad("kind-differs", "expected dict");
      if (j.size() != n.kids.size()) return bad("value-differs", fmt("dict size %zu came back as %zu", n.kids.size(), j.size()));
      for (size_t i = 0; i < n.kids.size(); i++) {
        if (!j.contains(n.keys[i])) return bad("value-differs", "key " + vf::hex(n.keys[i]) + " missing");
        PathRef here{path, &n, i};
        string r = walk_cmp(n.kids[i], j.at(n.keys[i]), where, &here);
        if (!r.empty()) return r;
      }
      return "";
    }
  }
}

static bool is_std(uint32_t o) { return (o & ~(uint32_t)(JSON::FORMAT | JSON::SORT_DICT_KEYS)) == 0; }

struct Outcome {
  string check;   // "" = fine
  string detail;  // human text
};

// the full per-(value, options, mode) pipeline.  `fl` = tree contains floats.
static Outcome run_one(const Node& n, const JSON& v, uint32_t o, bool strict, bool fl, const string* text_in = nullptr) {
  Outcome out;
  string t = text_in ? *text_in : ser(v, o);
  string ts = (o & JSON::SORT_DICT_KEYS) ? t : ser(v, o | JSON::SORT_DICT_KEYS);
  JSON p;
  try {
    p = prs(t, strict);
  } catch (const exception& e) {
    out.check = "parse-throws";
    out.detail = string(typeid(e).name()) + ": " + e.what();
    return out;
  }
  string where;
  string r = walk_cmp(n, p, where);
  if (!r.empty()) {
    out.check = r;
    out.detail = where;
    return out;
  }
  PE();
  if (!fl) {
    if (!(p == v) || !(v == p) || (p != v)) {
      out.check = "operator==-false";
      out.detail = "parse(serialize(v)) == v is false although every accessor agrees";
      return out;
    }
  } else {
    JSON p2;
    try {
      p2 = prs(ts, strict && is_std(o));
    } catch (const exception& e) {
      out.check = "parse-throws";
      out.detail = string("(sorted text) ") + typeid(e).name() + ": " + e.what();
      return out;
    }
    PE();
    if (!(p == p2) || (p != p2)) {
      out.check = "operator==-false";
      out.detail = "parse(text) == parse(text with sorted keys) is false";
      return out;
    }
  }
  string rs = ser(p, o | JSON::SORT_DICT_KEYS);
  if (rs != ts) {
    out.check = "reserialize-differs";
    size_t k = 0;
    while (k < rs.size() && k < ts.size() && rs[k] == ts[k]) k++;
    out.detail = fmt("first difference at byte %zu: original ...", k) + vf::hex(ts.substr(k > 8 ? k - 8 : 0, 24)) + " reparsed ..." + vf::hex(rs.substr(k > 8 ? k - 8 : 0, 24));
    return out;
  }
  return out;
}

// smallest subtree that fails the same way on its own.  Wide containers (> 64 children) and long strings / keys
// (> 64 bytes) are first shrunk to their shortest failing prefix by bisection (prefix(lo) passes, prefix(hi) fails);
// when that prefix is still wide / long the failure depends on breadth or length and the key says so (":wide", ":long").
static const size_t kWide = 64;

static Node truncated(const Node& n, size_t m) {
  Node t;
  t.k = n.k;
  t.kids.assign(n.kids.begin(), n.kids.begin() + m);
  if (n.k == Node::D) t.keys.assign(n.keys.begin(), n.keys.begin() + m);
  return t;
}

static bool fails_alone(const Node& n, uint32_t o, bool strict) {
  JSON v = build(n);
  return !run_one(n, v, o, strict, has_float(n)).check.empty();
}

static const Node* g_hint_node = nullptr;  // last wide container shrunk by blame() and its shortest failing prefix
static size_t g_hint_m = 0;

static Node blame(const Node& n, uint32_t o, bool strict, string& keyshape, string& note) {
  if (n.k == Node::S && n.s.size() > kWide) {
    size_t lo = 0, hi = n.s.size();
    if (fails_alone(mk_str(""), o, strict)) hi = 0;
    while (hi - lo > 1) {
      size_t mid = lo + (hi - lo) / 2;
      if (fails_alone(mk_str(n.s.substr(0, mid)), o, strict)) hi = mid;
      else lo = mid;
    }
    Node t = mk_str(n.s.substr(0, hi));
    keyshape = shape(t) + (hi > kWide ? ":long" : "");
    note += fmt(" [string of %zu bytes: shortest failing prefix has %zu bytes]", n.s.size(), hi);
    return t;
  }
  if ((n.k == Node::L || n.k == Node::D) && n.kids.size() > kWide) {
    size_t lo = 0, hi = n.kids.size();
    // the same document usually fails the same way under the next mask / parser mode: try the previous answer first
    if (g_hint_node == &n && g_hint_m >= 1 && g_hint_m <= hi && fails_alone(truncated(n, g_hint_m), o, strict) &&
        !fails_alone(truncated(n, g_hint_m - 1), o, strict)) {
      hi = g_hint_m;
      lo = hi - 1;
    } else if (fails_alone(truncated(n, 0), o, strict))
      hi = 0;
    while (hi - lo > 1) {
      size_t mid = lo + (hi - lo) / 2;
      if (fails_alone(truncated(n, mid), o, strict)) hi = mid;
      else lo = mid;
    }
    g_hint_node = &n;
    g_hint_m = hi;
    note += fmt(" [%s of %zu children: shortest failing prefix has %zu children]", n.k == Node::L ? "list" : "dict", n.kids.size(), hi);
    if (hi == 0) {
      keyshape = shape(truncated(n, 0));
      return truncated(n, 0);
    }
    if (hi <= kWide) return blame(truncated(n, hi), o, strict, keyshape, note);
    // still wide: is it the last child (or its key) on its own?
    if (fails_alone(n.kids[hi - 1], o, strict)) return blame(n.kids[hi - 1], o, strict, keyshape, note);
    if (n.k == Node::D) {
      Node d = mk_dict();
      dput(d, n.keys[hi - 1], mk_null());
      if (fails_alone(d, o, strict)) return blame(d, o, strict, keyshape, note);
    }
    keyshape = shape(n) + ":wide";
    return truncated(n, hi);
  }
  if (n.kids.size() == 1) {
    // a chain: bisect on the level instead of re-testing every tail (tail(lo) fails, tail(hi) passes)
    vector<const Node*> spine;
    const Node* c = &n;
    while (c->kids.size() == 1) {
      spine.push_back(c);
      c = &c->kids[0];
    }
    if (spine.size() > kWide) {
      if (fails_alone(*c, o, strict)) return blame(*c, o, strict, keyshape, note);
      size_t lo = 0, hi = spine.size();
      while (hi - lo > 1) {
        size_t mid = lo + (hi - lo) / 2;
        if (fails_alone(*spine[mid], o, strict)) lo = mid;
        else hi = mid;
      }
      const Node& s = *spine[lo];
      size_t levels = spine.size() - lo;
      note += fmt(" [chain of %zu levels: shortest failing tail has %zu levels]", spine.size(), levels);
      if (levels <= kWide) return blame(s, o, strict, keyshape, note);
      if (s.k == Node::D) {
        Node d = mk_dict();
        dput(d, s.keys[0], mk_null());
        if (fails_alone(d, o, strict)) return blame(d, o, strict, keyshape, note);
      }
      keyshape = shape(s) + ":deep";
      return s;
    }
  }
  for (size_t i = 0; i < n.kids.size(); i++) {
    const Node& k = n.kids[i];
    if (fails_alone(k, o, strict)) return blame(k, o, strict, keyshape, note);
  }
  if (n.k == Node::D) {
    for (auto& key : n.keys) {
      Node d = mk_dict();
      dput(d, key, mk_null());
      if (fails_alone(d, o, strict)) {
        string cls = str_class(key);
        if (key.size() > kWide) {
          // shortest failing key prefix
          size_t lo = 0, hi = key.size();
          auto kf = [&](size_t m) {
            Node x = mk_dict();
            dput(x, key.substr(0, m), mk_null());
            return fails_alone(x, o, strict);
          };
          if (kf(0)) hi = 0;
          while (hi - lo > 1) {
            size_t mid = lo + (hi - lo) / 2;
            if (kf(mid)) hi = mid;
            else lo = mid;
          }
          note += fmt(" [key of %zu bytes: shortest failing prefix has %zu bytes]", key.size(), hi);
          Node x = mk_dict();
          dput(x, key.substr(0, hi), mk_null());
          keyshape = "key:" + str_class(key.substr(0, hi)) + (hi > kWide ? ":long" : "");
          return x;
        }
        keyshape = "key:" + cls;
        return d;
      }
    }
  }
  keyshape = shape(n);
  return n;
}

static string opt_names(uint32_t o) {
  string s;
  if (o & JSON::HEX_INTEGERS) s += "HEX_INTEGERS|";
  if (o & JSON::ONE_CHARACTER_TRIVIAL_CONSTANTS) s += "ONE_CHARACTER_TRIVIAL_CONSTANTS|";
  if (o & JSON::FORMAT) s += "FORMAT|";
  if (o & JSON::SORT_DICT_KEYS) s += "SORT_DICT_KEYS|";
  if (o & JSON::HEX_ESCAPE_CODES) s += "HEX_ESCAPE_CODES|";
  if (o & JSON::ESCAPE_CONTROLS_ONLY) s += "ESCAPE_CONTROLS_ONLY|";
  if (s.empty()) return "0";
  s.pop_back();
  return s;
}

// ------------------------------------------------------------------------------------------------
// deep-copy monitor

static bool aliases(const JSON& a, const JSON& b) {
  PE();
  if (&a == &b) return true;
  if (a.is_list() && b.is_list()) {
    size_t n = min(a.size(), b.size());
    for (size_t i = 0; i < n; i++)
      if (aliases(a.at(i), b.at(i))) return true;
  } else if (a.is_dict() && b.is_dict()) {
    for (const auto& it : a.as_dict()) {
      auto f = b.as_dict().find(it.first);
      if (f != b.as_dict().end() && aliases(*it.second, *f->second)) return true;
    }
  } else if (a.is_string() && b.is_string()) {
    if (a.as_string().data() == b.as_string().data()) return true;
  }
  return false;
}

// mutate j somewhere (random path); returns a description; the new value is certainly different
static string mutate(JSON& j, vf::Rng& r, int depth = 0) {
  PE();
  if (j.is_list() && !j.empty() && r.chance(3, 4)) {
    size_t i = r.below(j.size());
    return fmt("[%zu]", i) + mutate(j.at(i), r, depth + 1);
  }
  if (j.is_dict() && !j.empty() && r.chance(3, 4)) {
    size_t i = r.below(j.size());
    auto it = j.as_dict().begin();
    std::advance(it, i);
    return "{" + vf::hex(it->first) + "}" + mutate(*it->second, r, depth + 1);
  }
  if (j.is_list()) {
    j.emplace_back(JSON("appended"));
    return ":list-append";
  }
  if (j.is_dict()) {
    string k = "new";
    while (j.contains(k)) k += "_";
    j.emplace(k, JSON((int64_t)1));
    return ":dict-insert";
  }
  if (j.is_null()) {
    j = JSON(true);
    return ":null->true";
  }
  if (j.is_bool()) {
    j = JSON(!j.as_bool());
    return ":bool-flip";
  }
  if (j.is_int()) {
    j = JSON((int64_t)((uint64_t)j.as_int() + 1));
    return ":int+1";
  }
  if (j.is_float()) {
    j = JSON("was-float");
    return ":float->string";
  }
  j.as_string() += "x";
  return ":string-append";
}

static void copy_monitor(const Node& n, const JSON& v, vf::Rng& r, const string& desc) {
  C->evaluations++;
  string before = ser(v, JSON::SORT_DICT_KEYS);
  PE();
  JSON pristine(v);   // copy constructor
  JSON assigned;
  PE();
  assigned = v;       // copy assignment
  PE();
  JSON victim(v);
  string where;
  string kind = n.k == Node::L ? "list" : n.k == Node::D ? "dict" : "leaf";
  PE();
  if (!(pristine == v) || !(assigned == v) || (pristine != v))
    C->violation("copy:not-equal-to-source:" + kind, "JSON(v) == v is false", desc);
  string w1 = walk_cmp(n, pristine, where);
  if (!w1.empty()) C->violation("copy:differs-from-source:" + kind, "copy does not hold the source's value: " + where, desc);
  string w2 = walk_cmp(n, assigned, where);
  if (!w2.empty()) C->violation("copy:differs-from-source:" + kind, "assigned copy does not hold the source's value: " + where, desc);
  if ((n.k == Node::L || n.k == Node::D) && !n.kids.empty()) {
    if (aliases(v, pristine) || aliases(v, assigned) || aliases(pristine, assigned))
      C->violation("copy:aliases-source:" + kind, "a copy shares a child object with its source", desc);
  }
  PE();
  string m = mutate(victim, r);
  PE();
  if (victim == v || !(victim != v) || v == victim)
    C->violation("copy:mutated-copy-still-equal" + m.substr(m.rfind(':')), "after mutating the copy at " + m + " it still compares equal to the source", desc);
  PE();
  if (!(pristine == v)) C->violation("copy:source-changed:" + kind, "mutating a copy changed the source (compared with a second pristine copy)", desc + " mutated at " + m);
  if (ser(v, JSON::SORT_DICT_KEYS) != before) C->violation("copy:source-changed:" + kind, "mutating a copy changed the source's serialisation", desc + " mutated at " + m);
  string w3 = walk_cmp(n, v, where);
  if (!w3.empty()) C->violation("copy:source-changed:" + kind, "source no longer holds the generated value: " + where, desc + " mutated at " + m);
  // self-consistency of the move path used everywhere above
  PE();
  JSON moved(std::move(assigned));
  PE();
  if (!(moved == v)) C->violation("copy:moved-differs:" + kind, "moved-from copy differs", desc);
  C->cls("copy:mutate" + m.substr(m.rfind(':')));
  C->cls("copy:" + kind);
}

static Node chain_fwd(int depth) {
  Node cur = mk_int(7);
  for (int i = 0; i < depth; i++) {
    Node p = (i & 1) ? mk_dict() : mk_list();
    if (i & 1) dput(p, string(1, (char)('a' + i % 26)), std::move(cur));
    else p.kids.push_back(std::move(cur));
    cur = std::move(p);
  }
  return cur;
}

// ------------------------------------------------------------------------------------------------
// history-aware assignment monitor: "copies are deep and compare equal to their source" must also
// hold when the destination of operator= already holds a value.  Every tree S is copy-assigned and
// move-assigned onto pre-loaded destinations of every kind.  Self-assignment is left out: the class
// does not document it as supported.  (Old children of the destination are freed by the assignment,
// so their addresses may legitimately be reused; exactly-once freeing is ASan/LSan's job.)

static string unique_key(const Node& d, const Node* other, string k) {
  auto has = [](const Node* n, const string& key) {
    if (!n || n->k != Node::D) return false;
    for (auto& x : n->keys)
      if (x == key) return true;
    return false;
  };
  while (has(&d, k) || has(other, k)) k += "_";
  return k;
}

// same shape as n, but every scalar changed, every list one element longer, every dict one key richer
static Node pollute(const Node& n) {
  switch (n.k) {
    case Node::N: return mk_bool(true);
    case Node::B: return mk_bool(!n.b);
    case Node::I: return mk_int((int64_t)((uint64_t)n.i + 1));
    case Node::F: return mk_str("was-float");
    case Node::S: return mk_str(n.s + "x");
    case Node::L: {
      Node r = mk_list();
      for (auto& k : n.kids) r.kids.push_back(pollute(k));
      r.kids.push_back(mk_str("stale-item"));
      return r;
    }
    default: {
      Node r = mk_dict();
      for (size_t i = 0; i < n.kids.size(); i++) dput(r, n.keys[i], pollute(n.kids[i]));
      dput(r, unique_key(r, nullptr, "stale-key"), mk_int(-1));
      return r;
    }
  }
}

struct Dest {
  string kind;
  Node node;
};

static vector<Dest> destinations(const Node& n) {
  vector<Dest> d;
  d.push_back({"null", mk_null()});
  d.push_back({"bool", mk_bool(true)});
  d.push_back({"int", mk_int(-42)});
  d.push_back({"float", mk_float(2.5)});
  d.push_back({"string", mk_str("old string value, long enough to be heap allocated")});
  d.push_back({"list-empty", mk_list()});
  size_t sz = n.k == Node::L ? n.kids.size() : 2;
  {
    Node shorter = mk_list(), longer = mk_list();
    for (size_t i = 0; i + 1 < sz; i++) shorter.kids.push_back(mk_int((int64_t)i));
    if (sz == 0 || shorter.kids.empty()) shorter.kids.push_back(mk_str("only"));
    for (size_t i = 0; i < sz + 2; i++) longer.kids.push_back(i & 1 ? mk_str("old") : mk_list());
    d.push_back({n.k == Node::L && sz > 1 ? "list-shorter" : "list-short", shorter});
    d.push_back({"list-longer", longer});
  }
  d.push_back({"dict-empty", mk_dict()});
  {
    Node disjoint = mk_dict();
    for (int i = 0; i < 3; i++) dput(disjoint, unique_key(disjoint, &n, fmt("old-key-%d", i)), i == 1 ? mk_list() : mk_int(i));
    d.push_back({"dict-disjoint-keys", disjoint});
    if (n.k == Node::D && !n.keys.empty()) {
      Node overlap = mk_dict(), superset = mk_dict(), subset = mk_dict(), same = mk_dict();
      for (size_t i = 0; i < n.keys.size(); i++) {
        if (i < (n.keys.size() + 1) / 2) {
          dput(overlap, n.keys[i], mk_str("old"));
          dput(subset, n.keys[i], mk_int(7));
        }
        dput(superset, n.keys[i], i & 1 ? mk_null() : mk_dict());
        dput(same, n.keys[i], mk_float(0.25));
      }
      dput(overlap, unique_key(overlap, &n, "extra-a"), mk_int(1));
      dput(overlap, unique_key(overlap, &n, "extra-b"), mk_list());
      dput(superset, unique_key(superset, &n, "extra-a"), mk_int(1));
      dput(superset, unique_key(superset, &n, ""), mk_str("empty-or-extra key"));
      d.push_back({"dict-overlapping-keys", overlap});
      d.push_back({"dict-superset-keys", superset});
      d.push_back({"dict-subset-keys", subset});
      d.push_back({"dict-same-keys", same});
    }
  }
  d.push_back({"deep-tree", chain_fwd(30)});
  if (n.k == Node::L || n.k == Node::D) d.push_back({"polluted-same-shape", pollute(n)});
  return d;
}

static JSON g_prev;
static bool g_have_prev = false;

static void check_assigned(const char* op, const string& kind, const Node& n, const JSON& v, JSON& dst, const string& sorted_v,
    vf::Rng& r, const string& desc, bool mutate_too) {
  string pre = string(op) + ":onto-" + kind + ":";
  string where;
  string w = walk_cmp(n, dst, where);
  if (!w.empty()) C->violation(pre + "differs", string("after ") + op + " the destination does not hold the source's value (" + w + "): " + where, desc);
  string sd = ser(dst, JSON::SORT_DICT_KEYS);
  if (sd != sorted_v) {
    size_t k = 0;
    while (k < sd.size() && k < sorted_v.size() && sd[k] == sorted_v[k]) k++;
    C->violation(pre + "differs", fmt("serialize(dst, SORT_DICT_KEYS) != serialize(src, SORT_DICT_KEYS); first difference at byte %zu: dst ...", k) + sd.substr(k > 10 ? k - 10 : 0, 60) + " src ..." + sorted_v.substr(k > 10 ? k - 10 : 0, 60), desc);
  }
  if ((dst.is_list() || dst.is_dict()) && (v.is_list() || v.is_dict()) && dst.size() != v.size())
    C->violation(pre + "differs", fmt("size() %zu after assignment, source has %zu", dst.size(), v.size()), desc);
  PE();
  if (!(dst == v) || !(v == dst) || (dst != v) || (v != dst)) C->violation(pre + "not-equal", "dst == src is false (or != true) after the assignment", desc);
  if (aliases(v, dst)) C->violation(pre + "aliases-source", "the destination shares a child object or string buffer with the source", desc);
  if (mutate_too) {
    PE();
    string m = mutate(dst, r);
    PE();
    if (dst == v || v == dst) C->violation(pre + "mutated-still-equal", "after mutating the destination at " + m + " it still compares equal to the source", desc);
    if (ser(v, JSON::SORT_DICT_KEYS) != sorted_v || !walk_cmp(n, v, where).empty())
      C->violation(pre + "source-changed", "mutating the assigned destination at " + m + " changed the source", desc);
  }
}

static void assign_monitor(const Node& n, const JSON& v, vf::Rng& r, const string& desc) {
  string sorted_v = ser(v, JSON::SORT_DICT_KEYS);
  const char* sk = n.k == Node::L ? "list" : n.k == Node::D ? "dict" : "scalar";
  vector<Dest> dests = destinations(n);
  for (auto& d : dests) {
    string dtag;
    tagged(d.node, dtag);
    string dd = "destination pre-loaded with " + (dtag.size() > 300 ? dtag.substr(0, 300) + "..." : dtag) + "; source " + desc;
    C->evaluations += 2;
    C->crumb_s("copy-assign onto " + d.kind + " " + dd.substr(0, 3000));
    {
      JSON dst = build(d.node);
      PE();
      dst = v;
      check_assigned("copy-assign", d.kind, n, v, dst, sorted_v, r, dd, true);
    }
    C->crumb_s("move-assign onto " + d.kind + " " + dd.substr(0, 3000));
    {
      PE();
      JSON tmp(v);
      JSON dst = build(d.node);
      PE();
      dst = std::move(tmp);
      check_assigned("move-assign", d.kind, n, v, dst, sorted_v, r, dd, false);
    }
    C->cls(string("assign:onto-") + d.kind + ":" + sk);
  }
  // onto a previous copy of a different tree, then remember a copy of this one
  if (g_have_prev) {
    C->evaluations += 2;
    string dd = "destination is a copy of the previously processed tree; source " + desc;
    C->crumb_s("copy-assign onto previous tree " + dd.substr(0, 3000));
    {
      PE();
      JSON dst(g_prev);
      PE();
      dst = v;
      check_assigned("copy-assign", "previous-tree", n, v, dst, sorted_v, r, dd, true);
    }
    {
      PE();
      JSON tmp(v);
      PE();
      g_prev = std::move(tmp);  // move-assign onto the previous tree itself
      check_assigned("move-assign", "previous-tree", n, v, g_prev, sorted_v, r, dd, false);
    }
    C->cls(string("assign:onto-previous-tree:") + sk);
  } else {
    PE();
    g_prev = v;
    g_have_prev = true;
  }
}

// ------------------------------------------------------------------------------------------------
// generators

static const int64_t kInts[] = {0, 1, -1, 2, -2, 9, 10, -10, 99, 100, 127, 128, 255, 256, -128, -129, 32767, 32768, 65535, 65536,
    2147483647LL, 2147483648LL, -2147483648LL, -2147483649LL, 4294967295LL, 4294967296LL, 9007199254740992LL, 9007199254740993LL,
    999999999999999999LL, 1000000000000000000LL, INT64_MAX, INT64_MAX - 1, INT64_MIN, INT64_MIN + 1, 0x7FFFFFFFFFFFFFF0LL,
    (int64_t)0x8000000000000010ULL, 0x0123456789ABCDEFLL, -0x0123456789ABCDEFLL, 0xABCDEF, -0xabcdef};

static int64_t gen_int(vf::Rng& r) {
  switch (r.below(6)) {
    case 0: return kInts[r.below(sizeof(kInts) / sizeof(kInts[0]))];
    case 1: return r.range(-1000, 1000);
    case 2: {
      int k = r.below(64);
      int64_t p = (int64_t)(1ULL << k);
      int d = (int)r.below(3) - 1;
      int64_t v = (int64_t)((uint64_t)p + (uint64_t)(int64_t)d);
      return r.chance(1, 2) ? v : (int64_t)((uint64_t)0 - (uint64_t)v);
    }
    default: return (int64_t)r.interesting();
  }
}

static bool usable(double f) { return f == 0 || isnormal(f); }

static double from_text(const string& s) { return strtod(s.c_str(), nullptr); }

static double gen_float(vf::Rng& r) {
  for (;;) {
    double f = 0;
    switch (r.below(9)) {
      case 0: {  // 1-6 digit mantissa times 10^e, e over the whole range
        int digits = 1 + r.below(6);
        uint64_t m = 1 + r.below(999999);
        string ms = to_string(m).substr(0, digits);
        string t = ms.substr(0, 1) + "." + (ms.size() > 1 ? ms.substr(1) : "0") + "e" + to_string(r.range(-300, 300));
        f = from_text(t);
        break;
      }
      case 1: {  // 17 significant digits
        string t = to_string(1 + r.below(9)) + ".";
        for (int i = 0; i < 16; i++) t += (char)('0' + r.below(10));
        t += "e" + to_string(r.range(-300, 300));
        f = from_text(t);
        break;
      }
      case 2: {  // random bit pattern, normal
        uint64_t bits = r.next();
        memcpy(&f, &bits, 8);
        break;
      }
      case 3: f = (double)r.range(-2000000, 2000000); break;                      // integral, around the %g 1e+06 switch
      case 4: f = (double)(int64_t)r.interesting(); break;                          // large integral
      case 5: f = from_text("1e" + to_string(r.range(-300, 300))); break;           // exact powers of ten
      case 6: f = (double)r.range(-99999, 99999) / (double)(r.chance(1, 2) ? 10 : 1000); break;  // plain decimals
      case 7: {
        static const double k[] = {0.0, -0.0, 0.5, 1.4, -10.5, 1e5, 1e6, 999999.0, 999999.5, 1234567.0, 100000.0, 123456.0, 2e6, 1e-4, 1e-5,
            0.0001234, 0.00001234, 1e20, 1e-7, 1e100, 1e-100, 1.7976931348623157e308, 2.2250738585072014e-308, 9.5e-5, 9.99999e-5, 9.999995e-5,
            0.1, 0.2, 0.3, 1.0 / 3.0, 2.0 / 3.0, 3.141592653589793, 6.02214076e23, 6.62607015e-34, 1e15, 1e16, 1e17, 9007199254740993.0, 1e21, 1e22, 1e23};
        f = k[r.below(sizeof(k) / sizeof(k[0]))];
        break;
      }
      default: f = ((double)(int64_t)r.next() / 9.2e18) * pow(10.0, (double)r.range(-12, 12)); break;
    }
    if (r.chance(1, 3)) f = -f;
    if (usable(f)) return f;
  }
}

static string gen_str(vf::Rng& r) {
  static const char special[] = {'"', '\\', '/', '\b', '\f', '\n', '\r', '\t', 0x00, 0x01, 0x1f, 0x7f, (char)0x80, (char)0xff, 'u', 'x', (char)0xc3, (char)0xa9, ' ', 'n'};
  size_t len = r.chance(1, 10) ? 0 : r.chance(1, 12) ? 20 + r.below(60) : 1 + r.below(12);
  int style = r.below(4);
  string s;
  for (size_t i = 0; i < len; i++) {
    int st = style == 3 ? (int)r.below(3) : style;
    if (st == 0) s.push_back((char)r.next());
    else if (st == 1) s.push_back((char)(0x20 + r.below(0x5f)));
    else s.push_back(special[r.below(sizeof(special))]);
  }
  return s;
}

static Node gen_tree(vf::Rng& r, int depth, int maxdepth, int& budget) {
  budget--;
  bool container = depth < maxdepth && budget > 0 && r.chance(depth == 0 ? 7 : 4, 10);
  if (container) {
    bool dict = r.chance(1, 2);
    Node n = dict ? mk_dict() : mk_list();
    if (r.chance(3, 20)) return n;  // empty
    size_t want = 1 + r.below(depth == 0 ? 8 : 5);
    set<string> used;
    for (size_t i = 0; i < want && budget > 0; i++) {
      Node k = gen_tree(r, depth + 1, maxdepth, budget);
      if (dict) {
        string key = gen_str(r);
        if (!used.insert(key).second) continue;
        dput(n, key, std::move(k));
      } else
        n.kids.push_back(std::move(k));
    }
    return n;
  }
  switch (r.below(12)) {
    case 0: return mk_null();
    case 1: return mk_bool(r.chance(1, 2));
    case 2: case 3: case 4: return mk_int(gen_int(r));
    case 5: case 6: case 7: case 8: return mk_float(gen_float(r));
    default: return mk_str(gen_str(r));
  }
}

static Node chain(int depth, int kind, Node leaf) {
  Node cur = std::move(leaf);
  for (int i = 0; i < depth; i++) {
    bool dict = kind == 1 || (kind == 2 && (i & 1));
    Node p = dict ? mk_dict() : mk_list();
    if (dict) dput(p, i % 7 == 0 ? string("k\"\\") : string(1, (char)('a' + i % 26)), std::move(cur));
    else p.kids.push_back(std::move(cur));
    cur = std::move(p);
  }
  return cur;
}

// systematic (seed-independent) trees
static vector<Node> systematic() {
  vector<Node> v;
  // all 256 single-byte strings and keys
  for (int b = 0; b < 256; b++) {
    Node d = mk_dict();
    Node l = mk_list();
    l.kids.push_back(mk_str(string(1, (char)b)));
    l.kids.push_back(mk_str(string("a") + (char)b + "z"));
    l.kids.push_back(mk_str(string(2, (char)b)));
    dput(d, string(1, (char)b), std::move(l));
    dput(d, string("k") + (char)b + (char)b, mk_int(b));
    v.push_back(std::move(d));
  }
  // scalars as roots
  v.push_back(mk_null());
  v.push_back(mk_bool(true));
  v.push_back(mk_bool(false));
  v.push_back(mk_str(""));
  for (int64_t i : kInts) v.push_back(mk_int(i));
  // boundary integers in one list and as dict values
  {
    Node l = mk_list(), d = mk_dict();
    for (int64_t i : kInts) l.kids.push_back(mk_int(i));
    for (int k = 0; k < 64; k++)
      for (int dl = -1; dl <= 1; dl++) {
        int64_t x = (int64_t)((1ULL << k) + (uint64_t)(int64_t)dl);
        l.kids.push_back(mk_int(x));
        l.kids.push_back(mk_int((int64_t)((uint64_t)0 - (uint64_t)x)));
        dput(d, fmt("p%d%+d", k, dl), mk_int(x));
      }
    v.push_back(std::move(l));
    v.push_back(std::move(d));
  }
  // floats m*10^e for every e in [-300,300]
  static const char* mant[] = {"1", "2", "1.5", "9.99999", "1.23456", "5", "1.00001", "7.5"};
  for (int e0 = -300; e0 <= 300; e0 += 10) {
    Node l = mk_list();
    for (int e = e0; e < e0 + 10 && e <= 300; e++)
      for (const char* m : mant) {
        double f = from_text(string(m) + "e" + to_string(e));
        if (usable(f)) l.kids.push_back(mk_float((e & 1) ? -f : f));
      }
    v.push_back(std::move(l));
  }
  {
    Node l = mk_list();
    for (double f : {0.0, -0.0, 0.5, 1.4, -10.5, 1e5, 1e6, 999999.0, 999999.5, 100000.0, 123456.0, 2e6, 1e-4, 1e-5, 1e20, 1e-7, 1e15, 1e16,
             1.7976931348623157e308, 2.2250738585072014e-308})
      l.kids.push_back(mk_float(f));
    v.push_back(l);
    for (auto& k : l.kids) v.push_back(k);  // each as a root as well
  }
  // empty containers at every position
  {
    Node e1 = mk_list(), e2 = mk_dict();
    v.push_back(e1);
    v.push_back(e2);
    Node l = mk_list();
    l.kids = {e1, e2, mk_int(1), e1, e2};
    v.push_back(l);
    Node d = mk_dict();
    dput(d, "", e1);
    dput(d, "a", e2);
    dput(d, "b", l);
    dput(d, "c", mk_null());
    v.push_back(d);
    Node l2 = mk_list();
    l2.kids = {d, l, e2, e1};
    v.push_back(l2);
    Node l3 = mk_list();
    l3.kids = {e1};
    v.push_back(l3);
    Node d3 = mk_dict();
    dput(d3, "only", e2);
    v.push_back(d3);
  }
  // degenerate deep chains
  for (int kind = 0; kind < 3; kind++) {
    v.push_back(chain(200, kind, mk_int(7)));
    v.push_back(chain(200, kind, kind == 0 ? mk_list() : mk_dict()));
    v.push_back(chain(120, kind, mk_float(1.5e-7)));
    v.push_back(chain(60, kind, mk_str(string("\x01\xff\"\\ end", 9))));
  }
  return v;
}

// ------------------------------------------------------------------------------------------------

static FILE* dumpf = nullptr;

// Which option masks a tree is run with.  Ordinary trees: all 64.  Large documents (size families): one standard mask
// (rotating over 0, FORMAT, SORT_DICT_KEYS, FORMAT|SORT_DICT_KEYS; default + strict parser, CPython comparison) plus a
// rotating selection of the other masks; the number of masks shrinks with the document's weight so that the work per
// document stays bounded (case counts, never seconds).
struct Plan {
  vector<uint32_t> opts;
  bool assign = true;
  string family;  // "" for the ordinary trees
};

static Plan full_plan() {
  Plan p;
  for (uint32_t o = 0; o < 64; o++) p.opts.push_back(o);
  return p;
}

static Plan sized_plan(uint64_t idx, uint64_t weight, uint64_t w0, int must_opt, const string& family) {
  Plan p;
  p.family = family;
  p.assign = weight <= 4096;
  if (weight <= w0) {
    for (uint32_t o = 0; o < 64; o++) p.opts.push_back(o);
    return p;
  }
  size_t k = (size_t)(64 * w0 / weight);
  if (k < 2) k = 2;
  static const uint32_t stdm[4] = {0, JSON::FORMAT, JSON::SORT_DICT_KEYS, JSON::FORMAT | JSON::SORT_DICT_KEYS};
  set<uint32_t> have;
  auto add = [&](uint32_t o) {
    if (have.insert(o).second) p.opts.push_back(o);
  };
  if (must_opt >= 0) add((uint32_t)must_opt);
  add(stdm[idx & 3]);
  for (uint64_t j = 0; p.opts.size() < k + 1 && j < 64; j++) add((uint32_t)(((idx * 5 + j) * 37 + 11) & 63));
  return p;
}

static uint64_t g_blame_spent = 0;                    // bytes of tagged text of the large documents shrunk so far
static const uint64_t kBlameBudget = 4 * 1024 * 1024;  // a case count in disguise: about forty 4097-element lists or four 2^16-element ones

static void process(uint64_t idx, const Node& n, vf::Rng& r, const char* origin, const Plan& plan) {
  g_hint_node = nullptr;
  JSON v = build(n);
  bool fl = has_float(n);
  g_cover_budget = 4096;
  cover_leaves(n, 0);
  string tg;
  tagged(n, tg);
  string desc = fmt("tree #%" PRIu64 " (%s, seed %" PRIu64 ") tagged=", idx, origin, C->seed) + (tg.size() > 1500 ? tg.substr(0, 1500) + "..." : tg);
  if (dumpf) {
    fprintf(dumpf, "T\t%" PRIu64 "\t", idx);
    fwrite(tg.data(), 1, tg.size(), dumpf);
    fprintf(dumpf, "\t%s\n", plan.family.c_str());
  }
  for (uint32_t o : plan.opts) {
    C->crumb_s(fmt("serialize opts=0x%02x ", o) + desc);
    string t = ser(v, o);
    bool std_o = is_std(o);
    if (std_o && dumpf) {
      string hx = vf::hex(t);
      fprintf(dumpf, "X\t%" PRIu64 "\t%u\t", idx, o);
      fwrite(hx.data(), 1, hx.size(), dumpf);
      fputc('\n', dumpf);
    }
    for (int strict = 0; strict <= (std_o ? 1 : 0); strict++) {
      C->evaluations++;
      C->crumb_s(fmt("parse opts=0x%02x strict=%d text=", o, strict) + vf::hex(t.substr(0, 1200)) + " " + desc.substr(0, 1500));
      Outcome oc = run_one(n, v, o, strict, fl, &t);
      C->cls(fmt("opt%02x:%s", o, strict ? "strict" : "default"));
      if (!oc.check.empty() && tg.size() > 32768 && g_blame_spent > kBlameBudget) {
        // shrinking a large document costs several more round trips of its size; the work spent on that is bounded per
        // process.  Further failures of large documents are still reported, under one key per check and parser mode.
        C->count("large_document_failures_not_shrunk");
        C->violation(oc.check + ":large-document-not-shrunk:" + (strict ? "strict" : "default"),
            oc.check + " (" + oc.detail + ") with options " + opt_names(o) + (strict ? ", strict parser" : ", default parser"),
            fmt("text of %zu bytes: ", t.size()) + t.substr(0, 200) + "...; in " + desc.substr(0, 600));
      } else if (!oc.check.empty()) {
        if (tg.size() > 32768) g_blame_spent += tg.size();
        string ks, note;
        Node b = blame(n, o, strict, ks, note);
        string bt;
        tagged(b, bt);
        string btext = ser(build(b), o);
        C->violation(oc.check + ":" + ks + ":" + (strict ? "strict" : "default"),
            oc.check + " (" + oc.detail + ") with options " + opt_names(o) + (strict ? ", strict parser" : ", default parser") + note,
            fmt("smallest failing value (%zu children, %zu bytes of text) ", b.kids.size(), btext.size()) + (bt.size() > 300 ? bt.substr(0, 300) + "..." : bt) + " serialises to hex " + vf::hex(btext.substr(0, 200)) + " = \"" + btext.substr(0, 200) + "\"; in " + desc.substr(0, 600));
      }
    }
  }
  copy_monitor(n, v, r, desc.substr(0, 900));
  if (plan.assign) assign_monitor(n, v, r, desc.substr(0, 600));
  if (idx < 3 || (idx % 977) == 0) C->sample(fmt("opts 0..63 x {default,strict-if-standard} on %s", desc.substr(0, 300).c_str()), 8);
}

// ------------------------------------------------------------------------------------------------
// size families: container breadth, total node count, string / key length, total text length, nesting depth.
// The laddered quantity takes the values 2^k-1, 2^k, 2^k+1, 3*2^(k-1), 3*2^(k-1)+1; contents are seeded.

struct SizeCase {
  string family;   // coverage class / dump tag
  uint64_t size;   // the laddered quantity (children, bytes, levels)
  uint64_t est;    // estimated weight, for the deterministic shard balance only
  int must_opt;    // -1, or an option mask that has to be part of the plan (text-length tuning)
  std::function<Node(vf::Rng&)> make;
};

// km: 2^k-1 only up to k == km; dense: also 3*2^(k-1)+1
static vector<size_t> ladder(int k0, int k1, int km, bool dense) {
  vector<size_t> v;
  for (int k = k0; k <= k1; k++) {
    size_t p = (size_t)1 << k;
    if (k <= km) v.push_back(p - 1);
    v.push_back(p);
    v.push_back(p + 1);
    if (k < k1) {
      v.push_back(3 * (p >> 1));
      if (dense) v.push_back(3 * (p >> 1) + 1);
    }
  }
  return v;
}

static int log2_floor(uint64_t n) {
  int k = 0;
  while (n >>= 1) k++;
  return k;
}

static Node hetero_elem(vf::Rng& r) {
  switch (r.below(16)) {
    case 0: return mk_null();
    case 1: return mk_bool(r.chance(1, 2));
    case 2: case 3: case 4: return mk_int(gen_int(r));
    case 5: case 6: case 7: return mk_float(gen_float(r));
    case 8: case 9: case 10: return mk_str(gen_str(r));
    case 11: return mk_list();
    case 12: return mk_dict();
    case 13: {
      Node l = mk_list();
      l.kids.push_back(mk_int(gen_int(r)));
      l.kids.push_back(mk_str(gen_str(r)));
      return l;
    }
    case 14: {
      Node d = mk_dict();
      dput(d, "a", mk_float(gen_float(r)));
      string k = gen_str(r);
      if (k != "a") dput(d, k, mk_null());
      return d;
    }
    default: {
      Node l = mk_list();
      Node d = mk_dict();
      dput(d, "", mk_list());
      l.kids.push_back(std::move(d));
      return l;
    }
  }
}

// style 0: heterogeneous; 1 ints; 2 floats; 3 short strings; 4 empty containers; 5 null/bool
static Node styled_elem(vf::Rng& r, int style) {
  switch (style) {
    case 1: return mk_int(gen_int(r));
    case 2: return mk_float(gen_float(r));
    case 3: return mk_str(gen_str(r));
    case 4: return r.chance(1, 2) ? mk_list() : mk_dict();
    case 5: return r.chance(1, 2) ? mk_null() : mk_bool(r.chance(1, 2));
    default: return hetero_elem(r);
  }
}

static Node wide_list(vf::Rng& r, size_t n, int style = 0) {
  Node l = mk_list();
  l.kids.reserve(n);
  for (size_t i = 0; i < n; i++) l.kids.push_back(styled_elem(r, style));
  return l;
}

static string be_bytes(size_t i, int nbytes) {
  string s;
  for (int b = nbytes - 1; b >= 0; b--) s.push_back((char)(i >> (8 * b)));
  return s;
}

// unique keys by construction.  0: "k<i>"; 1: random bytes + "#<i>"; 2: raw 3-byte big-endian index (every byte value,
// NUL, quote, backslash, high); 3: "key-%08zx"
static string wide_key(vf::Rng& r, size_t i, int keystyle) {
  switch (keystyle) {
    case 0: return fmt("k%zu", i);
    case 1: return gen_str(r) + fmt("#%zu", i);
    case 2: return be_bytes(i, 3);
    default: return fmt("key-%08zx", i);
  }
}

static Node wide_dict(vf::Rng& r, size_t n, int keystyle, int style = 0) {
  Node d = mk_dict();
  d.kids.reserve(n);
  d.keys.reserve(n);
  for (size_t i = 0; i < n; i++) dput(d, wide_key(r, i, keystyle), styled_elem(r, style));
  return d;
}

// many keys sharing one long prefix (all byte values) and differing only in a short suffix
static Node prefix_dict(vf::Rng& r, size_t n, size_t plen, int sufstyle) {
  string prefix = r.bytes(plen);
  Node d = mk_dict();
  for (size_t i = 0; i < n; i++) {
    string suf = sufstyle == 0 ? be_bytes(i, 2) : sufstyle == 1 ? fmt("%zu", i) : be_bytes(i, 2) + prefix.substr(0, 8);
    dput(d, prefix + suf, styled_elem(r, 0));
  }
  return d;
}

// rows x cols; kind 0 list of lists, 1 list of dicts, 2 dict of lists, 3 dict of dicts
static Node table(vf::Rng& r, size_t rows, size_t cols, int kind) {
  bool outer_dict = kind >= 2, inner_dict = kind & 1;
  Node t = outer_dict ? mk_dict() : mk_list();
  int style = (int)r.below(3);  // 0 hetero, 1 ints, 2 floats
  for (size_t i = 0; i < rows; i++) {
    Node row = inner_dict ? mk_dict() : mk_list();
    for (size_t j = 0; j < cols; j++) {
      Node e = styled_elem(r, style);
      if (inner_dict) dput(row, fmt("c%zu", j), std::move(e));
      else row.kids.push_back(std::move(e));
    }
    if (outer_dict) dput(t, fmt("row%zu", i), std::move(row));
    else t.kids.push_back(std::move(row));
  }
  return t;
}

// 0 every byte value (random); 1 printable ASCII; 2 escape-heavy; 3 one repeated byte (rotating); 4 mostly ASCII with rare specials
static string long_string(vf::Rng& r, size_t len, int style) {
  static const char special[] = {'"', '\\', '/', '\b', '\f', '\n', '\r', '\t', 0x00, 0x01, 0x1f, 0x7f, (char)0x80, (char)0xff};
  string s;
  s.reserve(len);
  char rep = (char)r.next();
  for (size_t i = 0; i < len; i++) {
    switch (style) {
      case 0: s.push_back((char)r.next()); break;
      case 1: s.push_back((char)(0x20 + r.below(0x5f))); break;
      case 2: s.push_back(special[r.below(sizeof(special))]); break;
      case 3: s.push_back(rep); break;
      default: s.push_back(r.chance(1, 64) ? (char)r.next() : (char)('a' + r.below(26))); break;
    }
  }
  return s;
}

// a document whose text under option mask `o` is exactly `target` bytes long (when reachable): either dominated by one
// pad string or by many small elements, the pad string doing the exact tuning
static Node text_of_length(vf::Rng& r, size_t target, uint32_t o, bool element_dominated) {
  auto len_of = [&](const Node& n) { return ser(build(n), o).size(); };
  Node doc = mk_list();
  if (target >= 96 && !element_dominated) {
    doc.kids.push_back(mk_int(gen_int(r)));
    doc.kids.push_back(mk_float(gen_float(r)));
    Node d = mk_dict();
    dput(d, gen_str(r), mk_null());
    doc.kids.push_back(std::move(d));
  }
  doc.kids.push_back(mk_str(""));  // the pad, last
  if (element_dominated && target >= 96) {
    // per-element cost measured on the real serializer
    Node two = doc;
    two.kids.insert(two.kids.begin(), mk_int(7));
    Node three = two;
    three.kids.insert(three.kids.begin(), mk_int(7));
    size_t l2 = len_of(two), l3 = len_of(three);
    size_t per = l3 - l2;
    size_t base = l2 - per;
    size_t m = per ? (target - base - 8) / per : 0;
    Node big = mk_list();
    big.kids.reserve(m + 1);
    for (size_t i = 0; i < m; i++) big.kids.push_back(mk_int((int64_t)r.below(10)));
    big.kids.push_back(mk_str(""));
    doc = std::move(big);
  }
  size_t base = len_of(doc);
  if (base <= target) doc.kids.back().s = long_string(r, target - base, 1);
  // pad characters must take one byte of text each: printable ASCII without quote / backslash
  for (char& ch : doc.kids.back().s)
    if (ch == '"' || ch == '\\') ch = '_';
  return doc;
}

static Node gen_wide(vf::Rng& r, int depth, int maxdepth, int64_t& budget, int fanbits) {
  budget--;
  bool container = depth < maxdepth && budget > 0 && (depth == 0 || r.chance(3, 10));
  if (!container) return styled_elem(r, (int)r.below(2) ? 0 : 1 + (int)r.below(5));
  bool dict = r.chance(1, 2);
  Node n = dict ? mk_dict() : mk_list();
  size_t want = (size_t)r.below(((uint64_t)1 << r.below(fanbits + 1)) + 1);  // log-uniform fan-out, 0 allowed
  int ks = (int)r.below(4);
  for (size_t i = 0; i < want && budget > 0; i++) {
    Node k = gen_wide(r, depth + 1, maxdepth, budget, fanbits);
    if (dict) dput(n, wide_key(r, i, ks), std::move(k));
    else n.kids.push_back(std::move(k));
  }
  return n;
}

static vector<SizeCase> size_cases(bool quick) {
  vector<SizeCase> v;
  auto add = [&](const string& fam, uint64_t size, uint64_t est, std::function<Node(vf::Rng&)> mk, int must = -1) {
    v.push_back({fam, size, est, must, std::move(mk)});
  };
  // est: rough cost in "list elements" (a dict entry ~ 4, a random string byte ~ 1/8, an ASCII byte ~ 1/32)
  const int KL = quick ? 16 : 19;   // lists up to 2^KL + 1
  const int KD = quick ? 15 : 17;   // dicts up to 2^KD + 1
  const int KS = quick ? 20 : 22;   // string / key bytes up to 2^KS + 1
  const int KSR = quick ? 15 : 19;  // ... with every byte value / escape-heavy content
  const int KT = quick ? 20 : 22;   // total text length
  const int KTE = quick ? 16 : 20;  // ... element-dominated
  const int KM = quick ? 12 : 30;   // 2^k - 1 up to here
  const bool dense = !quick;
  size_t z = 0;

  // 1. wide flat lists, heterogeneous; at the exact powers of two also one homogeneous style (rotating)
  for (size_t n : ladder(4, KL, KM, dense)) {
    add("list", n, n, [n](vf::Rng& r) { return wide_list(r, n, 0); });
    if ((n & (n - 1)) == 0 && (!quick || n <= 8192)) {
      int style = 1 + (int)(z++ % 5);
      add("list-homogeneous", n, n, [n, style](vf::Rng& r) { return wide_list(r, n, style); });
    }
  }
  // 2. wide flat dicts, four key styles rotating, heterogeneous values
  for (size_t n : ladder(4, KD, KM, dense)) {
    if (quick && n > 8193 && (n & (n - 1)) != 0 && n != ((size_t)1 << KD) + 1) continue;  // quick: above 2^13 the exact powers and the top + 1
    int ks = (int)(z++ % 4);
    add("dict", n, 4 * n, [n, ks](vf::Rng& r) { return wide_dict(r, n, ks, 0); });
  }
  // 3. many keys sharing a long prefix
  {
    static const size_t plens[] = {15, 64, 255, 256, 1024, 4096, 65536};
    for (int k = 4; k <= (quick ? 12 : 15); k++)
      for (int d = 0; d <= 1; d++) {
        size_t n = ((size_t)1 << k) + d;
        for (int t = 0; t < (quick ? 1 : 2); t++) {
          size_t pl = plens[z++ % 7];
          while (pl * n > ((size_t)1 << (quick ? 17 : 21))) pl /= 2;
          if (pl < 8) pl = 8;
          int ss = (int)(z % 3);
          add("dict-shared-prefix", n, 4 * n + n * pl / 8, [n, pl, ss](vf::Rng& r) { return prefix_dict(r, n, pl, ss); });
        }
      }
  }
  // 4. wide inside wide
  for (int a : {10, 12, 14, 16, 18}) {
    if (a > KL) continue;
    size_t total = (size_t)1 << a;
    int nth = 0;
    for (size_t cols : {(size_t)3, (size_t)16, (size_t)200, (size_t)256, (size_t)4097, total / 3}) {
      size_t rows = total / cols + 1;
      nth++;
      if (rows < 2) continue;
      if (quick && a == 14 && (nth == 2 || nth == 4)) continue;
      if (quick && a == 16 && nth != 2) continue;
      add("table:list-of-lists", rows * cols, rows * cols, [rows, cols](vf::Rng& r) { return table(r, rows, cols, 0); });
      int kind = 1 + (int)(z++ % 3);
      static const char* kn[] = {"", "table:list-of-dicts", "table:dict-of-lists", "table:dict-of-dicts"};
      if (a <= (quick ? 12 : 16) || (a == 14 && nth == 5))
        add(kn[kind], rows * cols, 3 * rows * cols, [rows, cols, kind](vf::Rng& r) { return table(r, rows, cols, kind); });
    }
  }
  // 5. a wide container at depth d of a chain.  serialize() copies the text once per level and FORMAT indents every line
  //    by 2*d, so the work grows like n*d^2: that product is what is bounded.
  for (int d : {1, 2, 7, 64, 200, 450}) {
    uint64_t cap = (uint64_t)1 << (quick ? 23 : 26);
    vector<size_t> ns = {17, 1025, 4097, ((size_t)1 << 15) + 1};
    size_t top = 1;
    while ((uint64_t)(2 * top + 1) * d * d <= cap && top < 4096) top *= 2;
    if (d >= 64) ns.push_back(top + 1);  // the widest container this depth can afford
    for (size_t n : ns) {
      if ((uint64_t)n * d * d > cap) continue;
      if (quick && n > 4097 && d != 2) continue;
      int kind = (int)(z++ % 3);
      bool dict = ((z / 3) & 1) && n <= 4097;
      add(dict ? "wide-dict-at-depth" : "wide-list-at-depth", n, (dict ? 4 : 1) * n + (uint64_t)n * d * d / 128, [d, n, kind, dict](vf::Rng& r) {
        return chain(d, kind, dict ? wide_dict(r, n, (int)r.below(4)) : wide_list(r, n));
      });
    }
  }
  // 6. a deep chain at index i of a wide list; and lists whose every element is a chain
  for (size_t n : {(size_t)65, (size_t)4099, ((size_t)1 << 14) + 3, ((size_t)1 << 15) + 3})
    for (int d : {10, 120, 450})
      for (int pos = 0; pos < 3; pos++) {
        bool one_pos = d == 450 || n > 4099 || (n == 4099 && d == 120 && quick);  // one position per (n, d), rotating
        if (one_pos && pos != (int)(((n >> 12) + d / 10) % 3)) continue;
        if (quick && ((n > 4099 && d == 450) || (n > 20000 && d != 10))) continue;
        size_t at = pos == 0 ? 0 : pos == 1 ? n / 2 : n - 1;
        int kind = (int)(z++ % 3);
        add("chain-in-wide-list", n, n + (uint64_t)d * d * d / 2048, [n, d, at, kind](vf::Rng& r) {
          Node l = wide_list(r, n);
          l.kids[at] = chain(d, kind, mk_int(gen_int(r)));
          return l;
        });
      }
  for (size_t n : {(size_t)300, (size_t)4100})
    add("list-of-chains", n, n * 4, [n](vf::Rng& r) {
      Node l = mk_list();
      for (size_t i = 0; i < n; i++) l.kids.push_back(chain(3, (int)(i % 3), hetero_elem(r)));
      return l;
    });
  // 7. long strings and long keys.  Content styles: 0 every byte value, 1 printable ASCII, 2 escape-heavy, 3 one repeated byte,
  //    4 mostly ASCII with rare specials; the expensive styles (one printf per byte inside phosg) stop at 2^KSR.
  for (size_t len : ladder(4, KS, KM, dense)) {
    bool big = len > ((size_t)1 << KSR) + 1;
    if (quick && big && (len & (len - 1)) != 0 && ((len - 1) & (len - 2)) != 0) continue;  // quick: 2^k and 2^k+1 only up there
    static const int cheap[] = {1, 4, 1, 4};
    int style = big ? cheap[z % 4] : (int)(z % 5);
    z++;
    uint64_t est = (style == 1 || style == 4) ? len / 32 : len / 8;
    bool root = !big || (z & 1);
    bool kv = !big || !(z & 1);
    if (root) add("string:root", len, est, [len, style](vf::Rng& r) { return mk_str(long_string(r, len, style)); });
    int style2 = big ? cheap[(z + 1) % 4] : (int)(z % 5);
    if (kv)
      add("string:key-and-value", len, 2 * est, [len, style, style2](vf::Rng& r) {
        Node d = mk_dict();
        Node l = mk_list();
        l.kids.push_back(mk_str("a"));
        l.kids.push_back(mk_str(long_string(r, len, style2)));
        l.kids.push_back(mk_int(1));
        dput(d, long_string(r, len, style), std::move(l));
        dput(d, "z", mk_null());
        return d;
      });
  }
  // 8. total text length 2^k-1, 2^k, 2^k+1 under a rotating option mask
  {
    static const uint32_t tune[] = {0, JSON::FORMAT, JSON::HEX_INTEGERS, JSON::FORMAT | JSON::SORT_DICT_KEYS, JSON::ESCAPE_CONTROLS_ONLY,
        JSON::ONE_CHARACTER_TRIVIAL_CONSTANTS | JSON::FORMAT, JSON::SORT_DICT_KEYS, JSON::HEX_ESCAPE_CODES};
    for (int k = 4; k <= KT; k++)
      for (int d = -1; d <= 1; d++) {
        size_t target = ((size_t)1 << k) + d;
        uint32_t o = tune[z++ % 8];
        add("textlen:pad", target, target / 32, [target, o](vf::Rng& r) { return text_of_length(r, target, o, false); }, (int)o);
        if (k >= 7 && k <= KTE && !(quick && k > 13 && d < 0)) {
          uint32_t o2 = tune[z++ % 8];
          add("textlen:elements", target, target / 3, [target, o2](vf::Rng& r) { return text_of_length(r, target, o2, true); }, (int)o2);
        }
      }
  }
  // 9. nesting depth ladder (the unchanged parser is recursive: stay at or below 500 levels, as C05 does)
  {
    vector<int> depths;
    for (int d = 1; d <= 17; d++) depths.push_back(d);
    for (int d : {31, 32, 33, 63, 64, 65, 100, 127, 128, 129, 200, 255, 256, 257, 300, 400, 499, 500}) depths.push_back(d);
    if (!quick)
      for (int d : {150, 199, 250, 350, 450}) depths.push_back(d);
    for (int d : depths)
      for (int kind = 0; kind < 3; kind++) {
        bool all_kinds = d <= 33 || d == 64 || d == 128 || d == 256 || !quick;
        if (d == 500 && kind != 1) all_kinds = true;  // quick: 500 as list and alternating chain, 499 as dict chain
        if (!all_kinds && kind != d % 3) continue;
        int leaf = (int)(z++ % 4);
        add("depth", d, d + (uint64_t)d * d * d / 2048, [d, kind, leaf](vf::Rng& r) {
          Node lf = leaf == 0 ? mk_int(gen_int(r)) : leaf == 1 ? (kind == 1 ? mk_dict() : mk_list()) : leaf == 2 ? mk_float(gen_float(r)) : mk_str(gen_str(r));
          return chain(d, kind, std::move(lf));
        });
      }
  }
  // 10. seeded random trees with log-uniform fan-out and node budgets between the ladder points
  {
    size_t count = quick ? 48 : 600;
    int nb = quick ? 8 : 10;
    for (size_t i = 0; i < count; i++) {
      int bits = 6 + (int)(i % nb);  // node budget below 2^bits
      add("random-wide", (uint64_t)1 << bits, (uint64_t)2 << bits, [bits](vf::Rng& r) {
        int64_t budget = (int64_t)(((uint64_t)1 << (bits - 1)) + r.below((uint64_t)1 << (bits - 1)));
        return gen_wide(r, 0, 1 + (int)r.below(5), budget, bits);
      });
    }
  }
  return v;
}

static size_t total_bytes(const Node& n) {
  size_t t = n.s.size();
  for (auto& k : n.keys) t += k.size();
  for (auto& k : n.kids) t += total_bytes(k);
  return t;
}

static size_t max_breadth(const Node& n) {
  size_t t = n.kids.size();
  for (auto& k : n.kids) t = max(t, max_breadth(k));
  return t;
}

static void run_sizes(vf::Ctx& c, uint64_t& idx) {
  vector<SizeCase> cases = size_cases(c.quick());
  string only_family = c.arg("family", "");  // debugging aid: run one family only
  bool timing = c.arg("timing", "0") != "0";  // debugging aid: per-case CPU time on stderr (never used as a bound)
  uint64_t w0 = strtoull(c.arg("w0", c.quick() ? "128" : "512").c_str(), nullptr, 0);
  // deterministic balance: every shard computes the same greedy assignment from the estimated weights
  vector<uint64_t> load(c.nshards, 0);
  uint64_t n_cases = 0, n_nodes = 0, n_bytes = 0, widest = 0, longest_text = 0;
  for (auto& sc : cases) {
    uint64_t i = idx++;
    unsigned best = 0;
    for (unsigned s = 1; s < c.nshards; s++)
      if (load[s] < load[best]) best = s;
    uint64_t cost = sc.est <= w0 ? sc.est * 64 : std::max<uint64_t>(sc.est * 6, w0 * 64);  // 3 masks + per-tree monitors
    load[best] += cost + 2000;
    if (best != c.shard) continue;
    if (!only_family.empty() && sc.family.compare(0, only_family.size(), only_family) != 0) continue;
    clock_t t0 = clock();
    vf::Rng r(c.seed * 0x9E3779B1ULL + i * 0x2545F491ULL + 4242);
    c.crumb_s(fmt("building size case #%" PRIu64 " family=%s size=%" PRIu64, i, sc.family.c_str(), sc.size));
    Node n = sc.make(r);
    size_t nodes = count_nodes(n), bytes = total_bytes(n);
    size_t fl = ser(build(n), JSON::FORMAT).size();
    uint64_t weight = std::max<uint64_t>(nodes + bytes / 8, fl / 8);
    Plan plan = sized_plan(i, weight, w0, sc.must_opt, sc.family);
    process(i, n, r, ("size family " + sc.family + fmt(" size=%" PRIu64, sc.size)).c_str(), plan);
    c.cls(fmt("size:%s:2^%d", sc.family.c_str(), log2_floor(sc.size)));
    c.cls(fmt("size:masks:%s", plan.opts.size() == 64 ? "all64" : "rotating-subset"));
    if (sc.must_opt >= 0) c.cls(ser(build(n), (uint32_t)sc.must_opt).size() == sc.size ? "size:textlen:exact" : "size:textlen:inexact");
    if (timing) fprintf(stderr, "[timing] %s size=%" PRIu64 " nodes=%zu bytes=%zu fmt_text=%zu masks=%zu cpu_ms=%ld\n", sc.family.c_str(), sc.size, nodes, bytes, fl, plan.opts.size(), (long)((clock() - t0) * 1000 / CLOCKS_PER_SEC));
    n_cases++;
    n_nodes += nodes;
    n_bytes += bytes;
    widest = std::max<uint64_t>(widest, max_breadth(n));
    longest_text = std::max<uint64_t>(longest_text, fl);
  }
  c.count("size_cases", n_cases);
  c.count("size_cases_nodes", n_nodes);
  c.count("size_cases_string_bytes", n_bytes);
  c.count(fmt("size_widest_container_shard%02u", c.shard), widest);
  c.count(fmt("size_longest_text_shard%02u", c.shard), longest_text);
}

// ------------------------------------------------------------------------------------------------
// prior history: serialize() formats numbers and escapes through phosg's shared printf helpers.  What those return may
// depend on what the SAME THREAD formatted earlier (a scratch buffer that only grows, an exact-fit test, trimming), and the
// main workload's thread formats long texts early and stays in one region of that hidden state.  This part runs, on a FRESH
// thread right after exactly one earlier unrelated use of the helpers (vf::priors()), a ladder of leaf values and small
// containers whose serialised texts cover every length a number / constant / escape / small document can have under every
// number-affecting option - first in INCREASING order of text length (a state that only grows passes through every size
// with a candidate of exactly that length), then, on another fresh thread, in DECREASING order.  Oracle: the same run_one().

struct PriorCase {
  size_t atom;
  uint32_t o;
  size_t textlen;
  string cls;
};

static vector<Node> prior_atoms() {
  vector<Node> v;
  // integers: every decimal digit count 1..19 and every hex digit count 1..16 (lowest, highest and a mixed-digit value), both signs
  vector<int64_t> ints;
  {
    set<int64_t> seen;
    auto add1 = [&](int64_t x) {
      if (seen.insert(x).second) ints.push_back(x);
    };
    auto addpm = [&](uint64_t a) {
      if (a <= (uint64_t)INT64_MAX) add1((int64_t)a);
      if (a <= (uint64_t)1 << 63) add1((int64_t)((uint64_t)0 - a));
    };
    add1(0);
    uint64_t p = 1;
    for (int d = 1; d <= 19; d++) {
      addpm(p);
      addpm(strtoull(string("1234567890123456789").substr(0, d).c_str(), nullptr, 10));
      if (d < 19) {
        addpm(p * 10 - 1);
        p *= 10;
      }
    }
    for (int h = 1; h <= 16; h++) {
      addpm((uint64_t)1 << (4 * (h - 1)));
      addpm(h == 16 ? ~(uint64_t)0 : (((uint64_t)1 << (4 * h)) - 1));
      addpm((h & 1 ? 0xFEDCBA9876543210ULL : 0x7A5C3E1F9B2D4680ULL) >> (4 * (16 - h)));
    }
    addpm((uint64_t)INT64_MAX);
    addpm((uint64_t)1 << 63);
  }
  for (int64_t x : ints) v.push_back(mk_int(x));
  // floats: up to two per (shape of the %g text, length of the %g text)
  vector<double> floats;
  {
    vector<double> pool = {0.0, -0.0, 0.5, 0.25, 0.125, 12.5, 123.25, 1234.5, 12345.5, 0.0001, 0.00012345, 0.001, 0.015, 1, 10, 100, 1000, 10000, 100000,
        123456, 999999, 12, 123, 1234, 12345};
    static const char* mant[] = {"1", "2", "5", "9", "1.5", "2.5", "1.25", "9.75", "1.234", "1.2345", "1.23456", "9.99999", "1.23457"};
    static const int exps[] = {-300, -100, -10, -7, -5, -4, -3, -1, 0, 1, 2, 3, 4, 5, 6, 7, 10, 15, 20, 100, 300};
    for (const char* m : mant)
      for (int e : exps) pool.push_back(from_text(string(m) + "e" + to_string(e)));
    map<string, int> taken;
    for (int neg = 0; neg < 2; neg++)
      for (double f0 : pool) {
        double f = neg ? -f0 : f0;
        if (!usable(f)) continue;
        char b[64];
        int len = snprintf(b, sizeof(b), "%g", f);
        if (taken[float_shape(f) + fmt(":%d", len)]++ < 2) floats.push_back(f);
      }
  }
  for (double f : floats) v.push_back(mk_float(f));
  // trivial constants
  v.push_back(mk_null());
  v.push_back(mk_bool(true));
  v.push_back(mk_bool(false));
  // strings: plain ASCII of every length 0..22 (text of 2..24 characters), and short ones that need escapes
  for (size_t n = 0; n <= 22; n++) v.push_back(mk_str(string("abcdefghijklmnopqrstuvwxyz").substr(0, n)));
  vector<string> esc;
  for (int b : {0x01, 0x1f, 0x7f, 0x80, 0xff, 0x00, 0x0b}) {
    string c1(1, (char)b);
    for (const string& s : {c1, "a" + c1, c1 + c1, c1 + "z" + c1 + c1, "\n" + c1 + "\"", c1 + c1 + c1 + c1}) esc.push_back(s);
  }
  for (auto& s : esc) v.push_back(mk_str(s));
  // small containers over the leaves above
  size_t leaves = v.size();
  for (size_t i = 0; i < leaves; i += 13) {
    Node l = mk_list();
    l.kids.push_back(v[i]);
    v.push_back(l);
    Node d = mk_dict();
    dput(d, esc[(i / 13) % esc.size()], v[(i * 7 + 3) % leaves]);
    v.push_back(d);
  }
  for (size_t i = 2; i + 2 < leaves; i += 23) {
    Node l = mk_list(), d = mk_dict(), in = mk_list();
    l.kids = {v[i], v[(i * 3 + 1) % leaves], v[(i * 11 + 2) % leaves]};
    in.kids = {v[i + 1]};
    dput(d, "a", in);
    dput(d, esc[i % esc.size()] + "k", v[i + 2]);
    dput(d, "", l);
    v.push_back(l);
    v.push_back(d);
  }
  for (size_t n = 1; n <= 12; n++) {  // "[1,2,...]": text of 3, 5, ... 25 characters
    Node l = mk_list();
    for (size_t i = 0; i < n; i++) l.kids.push_back(mk_int((int64_t)((i + n) % 10)));
    v.push_back(l);
  }
  {
    Node l = mk_list(), d = mk_dict();
    l.kids = {mk_null(), mk_bool(true), mk_bool(false)};
    dput(d, "n", mk_null());
    dput(d, "t", mk_bool(true));
    dput(d, "f", mk_bool(false));
    v.push_back(l);
    v.push_back(d);
    v.push_back(mk_list());
    v.push_back(mk_dict());
  }
  return v;
}

static void run_prior_history(vf::Ctx& c, uint64_t& idx) {
  const vector<Node> atoms = prior_atoms();
  vector<string> tags(atoms.size());
  vector<char> fls(atoms.size());
  for (size_t a = 0; a < atoms.size(); a++) {
    tagged(atoms[a], tags[a]);
    fls[a] = has_float(atoms[a]);
  }
  // plan: (atom, mask) cases ordered by the length of the serialised text (measured here, on the main thread; this is
  // workload ordering only, nothing is judged with it)
  vector<PriorCase> plan;
  // masks: a leaf gets the options that change its text (plus none, all, and for floats a rotating one); containers get each
  // option alone, the standard FORMAT|SORT_DICT_KEYS, all, and a rotating one
  for (size_t a = 0; a < atoms.size(); a++) {
    const Node& n = atoms[a];
    set<uint32_t> masks = {0, 0x3f};
    switch (n.k) {
      case Node::I: masks.insert(JSON::HEX_INTEGERS); break;
      case Node::F: masks.insert((uint32_t)((a * 37 + 11) & 63)); break;
      case Node::N: case Node::B: masks.insert(JSON::ONE_CHARACTER_TRIVIAL_CONSTANTS); break;
      case Node::S: masks.insert(JSON::HEX_ESCAPE_CODES); masks.insert(JSON::ESCAPE_CONTROLS_ONLY); break;
      default:
        masks.insert({JSON::HEX_INTEGERS, JSON::ONE_CHARACTER_TRIVIAL_CONSTANTS, JSON::FORMAT | JSON::SORT_DICT_KEYS, (uint32_t)((a * 37 + 11) & 63)});
        masks.insert((a & 1) ? JSON::HEX_ESCAPE_CODES : JSON::ESCAPE_CONTROLS_ONLY);
        break;
    }
    JSON v = build(n);
    for (uint32_t o : masks) {
      PriorCase pc{a, o, ser(v, o).size(), ""};
      size_t L = pc.textlen;
      switch (n.k) {
        case Node::I: pc.cls = fmt("prior:textlen:int-%s:%zu", (o & JSON::HEX_INTEGERS) ? "hex" : "dec", L); break;
        case Node::F: pc.cls = "prior:textlen:float:" + float_shape(n.f) + fmt(":%zu", L); break;
        case Node::N: case Node::B: pc.cls = fmt("prior:textlen:trivial:%zu", L); break;
        case Node::S: pc.cls = "prior:textlen:string:" + str_class(n.s) + (str_class(n.s) == "ascii" || n.s.empty() ? fmt(":%zu", L) : string()); break;
        default: pc.cls = fmt("prior:textlen:document:%zu", L < 33 ? L : (size_t)33); break;
      }
      plan.push_back(std::move(pc));
    }
  }
  std::stable_sort(plan.begin(), plan.end(), [](const PriorCase& x, const PriorCase& y) { return x.textlen < y.textlen; });
  c.count("prior_history_atoms", c.shard == 0 ? atoms.size() : 0);
  c.count("prior_history_cases_per_thread", c.shard == 0 ? plan.size() : 0);

  for (int descending = 0; descending < 2; descending++) {
    const char* order = descending ? "decreasing" : "increasing";
    auto mini = [&](const vf::Prior& p) {
      for (size_t k = 0; k < plan.size(); k++) {
        const PriorCase& pc = plan[descending ? plan.size() - 1 - k : k];
        const Node& n = atoms[pc.atom];
        uint32_t o = pc.o;
        uint64_t i = idx++;
        c.crumb_s(fmt("prior-history: fresh thread, prior=%s, %s text length, case %zu: serialize opts=0x%02x tagged=", p.name.c_str(), order, k, o) + tags[pc.atom]);
        JSON v = build(n);
        string t = ser(v, o);
        bool std_o = is_std(o);
        if (std_o && dumpf && !descending) {  // CPython comparison: the increasing pass is enough
          fprintf(dumpf, "T\t%" PRIu64 "\t%s\tprior-history\n", i, tags[pc.atom].c_str());
          string hx = vf::hex(t);
          fprintf(dumpf, "X\t%" PRIu64 "\t%u\t%s\n", i, o, hx.c_str());
        }
        for (int strict = 0; strict <= (std_o ? 1 : 0); strict++) {
          c.evaluations++;
          Outcome oc = run_one(n, v, o, strict, fls[pc.atom], &t);
          if (oc.check.empty()) continue;
          string ks, note;
          Node b = blame(n, o, strict, ks, note);
          string bt;
          tagged(b, bt);
          c.violation("prior-history:" + p.family + ":" + oc.check + ":" + ks + ":" + (strict ? "strict" : "default"),
              oc.check + " (" + oc.detail + ") with options " + opt_names(o) + (strict ? ", strict parser" : ", default parser") +
                  " on a thread whose only earlier use of phosg was: " + p.name,
              fmt("fresh thread; prior %s; then the prior-history ladder in %s order of text length up to case %zu of %zu (every earlier text on this thread had %s %zu characters); ",
                  p.name.c_str(), order, k, plan.size(), descending ? "at least" : "at most", pc.textlen) +
                  "value " + tags[pc.atom] + " serialises to hex " + vf::hex(t.substr(0, 200)) + " = \"" + t.substr(0, 200) + "\"; smallest failing value " + bt);
        }
        c.cls(pc.cls);
      }
      c.cls(string("prior:order:") + order);
      c.cls("prior:family:" + p.family);
    };
    size_t threads = vf::for_each_prior(c, mini, c.nshards, c.shard, c.qt((size_t)2, (size_t)12));
    c.count(string("prior_history_threads_") + order, threads);
  }
  if (c.shard == 0) c.sample(fmt("prior-history: %zu (value, mask) cases per fresh thread, text lengths %zu..%zu, after each of %zu priors", plan.size(), plan.front().textlen, plan.back().textlen, vf::priors().size()), 9);
}

int main(int argc, char** argv) {
  vf::Ctx& c = vf::init(argc, argv);
  C = &c;
  string dump = c.arg("dump", "1");
  if (dump != "0") {
    string fn = fmt("c04.dump.%u.tsv", c.shard);
    dumpf = fopen(fn.c_str(), "w");
    if (!dumpf) {
      fprintf(stderr, "[harness-error] cannot create %s\n", fn.c_str());
      return 3;
    }
  }
  uint64_t idx = 0;
  string only = c.arg("only", "");  // debugging aid: only=prior-history runs that part alone
  if (only == "prior-history") {
    run_prior_history(c, idx);
    if (dumpf) fclose(dumpf);
    return c.finish();
  }
  vector<Node> sys = systematic();
  for (auto& n : sys) {
    uint64_t i = idx++;
    if (!c.mine(i)) continue;
    vf::Rng r(c.seed * 7919 + i);
    process(i, n, r, "systematic", full_plan());
  }
  c.count("systematic_trees", c.shard == 0 ? sys.size() : 0);
  uint64_t ntrees = strtoull(c.arg("trees", c.quick() ? "2000" : "100000").c_str(), nullptr, 0);
  uint64_t nodes = 0;
  for (uint64_t k = 0; k < ntrees; k++) {
    uint64_t i = idx++;
    if (!c.mine(i)) continue;
    vf::Rng r(c.seed * 0x9E3779B1ULL + k * 0x632BE5ABULL + 99);
    int budget = r.chance(1, 6) ? 40 : 4 + (int)r.below(20);
    int maxdepth = 1 + (int)r.below(6);
    Node n = gen_tree(r, 0, maxdepth, budget);
    nodes += count_nodes(n);
    process(i, n, r, "random", full_plan());
  }
  c.count("random_trees_nodes", nodes);
  if (c.arg("sizes", "1") != "0") run_sizes(c, idx);
  if (c.arg("priors", "1") != "0") run_prior_history(c, idx);
  if (dumpf) fclose(dumpf);
  return c.finish();
}
