// C04 — JSON serialise -> parse is the identity for every value and every option set.
//
// The harness generates value trees in its OWN neutral representation (Node), builds the phosg
// JSON from it, and for each of the 64 SerializeOption combinations:
//   t = ser(v, o)
//   p = prs(t)                 (default mode; strict mode too when o is a subset of FORMAT|SORT_DICT_KEYS)
//   * parse must not throw
//   * p walked through the public accessors must have the same shape, int/float kinds, exact ints,
//     exact byte strings/keys, floats equal at six significant digits, zeros with the same sign bit (independent of operator==)
//   * float-free trees: p == v with phosg's own operator== ; trees with floats: p == parse(text with
//     sorted keys) (same doubles, different key order)
//   * ser(p, o|SORT) == ser(v, o|SORT)
// Every tree is also dumped in a tagged neutral form together with the text of the four standard
// option sets to c04.dump.<shard>.tsv; vf/oracles/c04.py compares them with CPython json.loads.
// Deep-copy monitor: copies are compared, address-walked for aliasing, mutated at a random path.
// Assignment monitor: every tree is copy- and move-assigned onto pre-loaded destinations of every kind
// (scalars, shorter/longer lists, dicts with disjoint/overlapping/superset/subset/same key sets, a deep
// tree, a polluted same-shape tree, a copy of the previous tree); dst must equal the source afterwards.
//
// Violation keys: <check>:<shape of the smallest failing subtree>:<default|strict>  (no numbers).
#include <math.h>

#include <functional>
#include <set>
#include <stdexcept>

#include "JSON.hh"
#include "common.hh"

using namespace std;
using namespace phosg;
using vf::fmt;

static vf::Ctx* C;

// Every call into phosg is preceded by vf::poison_errno(): code that tests a stale errno shows up as a wrong result.
#define PE() vf::poison_errno()
static string ser(const JSON& j, uint32_t o) {
  PE();
  return j.serialize(o);
}
static JSON prs(const string& t, bool strict) {
  PE();
  return JSON::parse(t, strict);
}

// ------------------------------------------------------------------------------------------------
// neutral tree

struct Node {
  enum K { N, B, I, F, S, L, D } k = N;
  bool b = false;
  int64_t i = 0;
  double f = 0;
  string s;
  vector<Node> kids;
  vector<string> keys;  // for D, parallel to kids
};

static Node mk_null() { return Node(); }
static Node mk_bool(bool b) { Node n; n.k = Node::B; n.b = b; return n; }
static Node mk_int(int64_t v) { Node n; n.k = Node::I; n.i = v; return n; }
static Node mk_float(double v) { Node n; n.k = Node::F; n.f = v; return n; }
static Node mk_str(const string& s) { Node n; n.k = Node::S; n.s = s; return n; }
static Node mk_list() { Node n; n.k = Node::L; return n; }
static Node mk_dict() { Node n; n.k = Node::D; return n; }
static void dput(Node& d, const string& k, Node v) {
  d.keys.push_back(k);
  d.kids.push_back(std::move(v));
}

static JSON build(const Node& n) {
  PE();
  switch (n.k) {
    case Node::N: return JSON(nullptr);
    case Node::B: return JSON(n.b);
    case Node::I: return JSON(n.i);
    case Node::F: return JSON(n.f);
    case Node::S: return JSON(n.s);
    case Node::L: {
      JSON r = JSON::list();
      for (auto& k : n.kids) r.emplace_back(build(k));
      return r;
    }
    default: {
      JSON r = JSON::dict();
      for (size_t i = 0; i < n.kids.size(); i++) r.emplace(n.keys[i], build(n.kids[i]));
      return r;
    }
  }
}

static bool has_float(const Node& n) {
  if (n.k == Node::F) return true;
  for (auto& k : n.kids)
    if (has_float(k)) return true;
  return false;
}

static size_t count_nodes(const Node& n) {
  size_t t = 1;
  for (auto& k : n.kids) t += count_nodes(k);
  return t;
}

// tagged neutral dump (itself plain JSON so the Python side can read it with json.loads):
//   null/true/false, "i<decimal>", "d<%a>", "s<hex bytes>", [..], {"k<hex key>": ..}
static void tagged(const Node& n, string& out) {
  switch (n.k) {
    case Node::N: out += "null"; break;
    case Node::B: out += n.b ? "true" : "false"; break;
    case Node::I: out += fmt("\"i%" PRId64 "\"", n.i); break;
    case Node::F: out += fmt("\"d%a\"", n.f); break;
    case Node::S: out += "\"s" + vf::hex(n.s) + "\""; break;
    case Node::L:
      out += "[";
      for (size_t i = 0; i < n.kids.size(); i++) {
        if (i) out += ",";
        tagged(n.kids[i], out);
      }
      out += "]";
      break;
    case Node::D:
      out += "{";
      for (size_t i = 0; i < n.kids.size(); i++) {
        if (i) out += ",";
        out += "\"k" + vf::hex(n.keys[i]) + "\":";
        tagged(n.kids[i], out);
      }
      out += "}";
      break;
  }
}

// ------------------------------------------------------------------------------------------------
// shapes (used for coverage classes and violation keys)

static string str_class(const string& s) {
  if (s.empty()) return "empty";
  bool high = false, ctrl = false, named = false, del = false, bs = false, q = false;
  for (unsigned char c : s) {
    if (c >= 0x80) high = true;
    else if (c == 0x7F) del = true;
    else if (c == '\b' || c == '\f' || c == '\n' || c == '\r' || c == '\t') named = true;
    else if (c < 0x20) ctrl = true;
    else if (c == '\\') bs = true;
    else if (c == '"') q = true;
  }
  if (high) return "high";
  if (ctrl) return "ctrl";
  if (named) return "ctrl-named";
  if (del) return "del";
  if (bs) return "backslash";
  if (q) return "quote";
  return "ascii";
}

static string float_shape(double f) {
  if (f == 0) return signbit(f) ? "negzero" : "zero";
  char b[64];
  snprintf(b, sizeof(b), "%g", f);
  string s = b;
  bool dot = s.find('.') != string::npos;
  if (s.find("e+") != string::npos) return dot ? "exp+" : "exp+:integral-mantissa";
  if (s.find("e-") != string::npos) return dot ? "exp-" : "exp-:integral-mantissa";
  return dot ? "plain" : "plain:integral";
}

static string int_shape(int64_t v) {
  if (v == 0) return "zero";
  if (v == INT64_MIN) return "min";
  if (v == INT64_MAX) return "max";
  uint64_t a = v < 0 ? (uint64_t)0 - (uint64_t)v : (uint64_t)v;
  const char* sz = a < 10 ? "1digit" : a <= 0xFFFFFFFFULL ? "<=32bit" : "<=63bit";
  return string(v < 0 ? "neg:" : "pos:") + sz;
}

static string shape(const Node& n) {
  switch (n.k) {
    case Node::N: return "null";
    case Node::B: return "bool";
    case Node::I: return "int:" + int_shape(n.i);
    case Node::F: return "float:" + float_shape(n.f);
    case Node::S: return "string:" + str_class(n.s);
    case Node::L: return n.kids.empty() ? "list:empty" : "list";
    default: return n.kids.empty() ? "dict:empty" : "dict";
  }
}

static void cover_leaves(const Node& n, int depth) {
  if (n.k == Node::L || n.k == Node::D) {
    C->cls("gen:" + shape(n) + (depth == 0 ? ":root" : ":nested"));
    if (n.k == Node::D)
      for (auto& k : n.keys) C->cls("gen:key:" + str_class(k));
    for (auto& k : n.kids) cover_leaves(k, depth + 1);
  } else
    C->cls("gen:" + shape(n));
}

// ------------------------------------------------------------------------------------------------
// comparison of a parsed JSON with the neutral tree via public accessors only

static string sig6(double f) {
  char b[64];
  snprintf(b, sizeof(b), "%.5e", f);
  return b;
}

// returns "" or "<check>" ; fills where with a human-readable path
static string walk_cmp(const Node& n, const JSON& j, string& where, const string& path) {
  PE();
  auto bad = [&](const char* chk, const string& detail) {
    where = path + ": " + detail;
    return string(chk);
  };
  switch (n.k) {
    case Node::N:
      if (!j.is_null()) return bad("kind-differs", "expected null");
      return "";
    case Node::B:
      if (!j.is_bool()) return bad("kind-differs", "expected bool");
      if (j.as_bool() != n.b) return bad("value-differs", "bool");
      return "";
    case Node::I:
      if (!j.is_int()) return bad("kind-differs", j.is_float() ? "int came back as float" : "expected int");
      if (j.as_int() != n.i) return bad("value-differs", fmt("int %" PRId64 " came back as %" PRId64, n.i, j.as_int()));
      return "";
    case Node::F: {
      if (!j.is_float()) return bad("kind-differs", j.is_int() ? "float came back as int" : "expected float");
      double g = j.as_float();
      if (n.f == 0 && g == 0) {
        if (signbit(n.f) != signbit(g)) return bad("value-differs", fmt("zero %a came back as %a (sign bit lost)", n.f, g));
        return "";
      }
      if (sig6(g) != sig6(n.f)) return bad("value-differs", fmt("float %a (%.17g) came back as %a (%.17g)", n.f, n.f, g, g));
      return "";
    }
    case Node::S:
      if (!j.is_string()) return bad("kind-differs", "expected string");
      if (j.as_string() != n.s) return bad("value-differs", "string " + vf::hex(n.s) + " came back as " + vf::hex(j.as_string()));
      return "";
    case Node::L: {
      if (!j.is_list()) return bad("kind-differs", "expected list");
      if (j.size() != n.kids.size()) return bad("value-differs", fmt("list size %zu came back as %zu", n.kids.size(), j.size()));
      for (size_t i = 0; i < n.kids.size(); i++) {
        string r = walk_cmp(n.kids[i], j.at(i), where, path + fmt("[%zu]", i));
        if (!r.empty()) return r;
      }
      return "";
    }
    default: {
      if (!j.is_dict()) return bad("kind-differs", "expected dict");
      if (j.size() != n.kids.size()) return bad("value-differs", fmt("dict size %zu came back as %zu", n.kids.size(), j.size()));
      for (size_t i = 0; i < n.kids.size(); i++) {
        if (!j.contains(n.keys[i])) return bad("value-differs", "key " + vf::hex(n.keys[i]) + " missing");
        string r = walk_cmp(n.kids[i], j.at(n.keys[i]), where, path + "{" + vf::hex(n.keys[i]) + "}");
        if (!r.empty()) return r;
      }
      return "";
    }
  }
}

static bool is_std(uint32_t o) { return (o & ~(uint32_t)(JSON::FORMAT | JSON::SORT_DICT_KEYS)) == 0; }

struct Outcome {
  string check;   // "" = fine
  string detail;  // human text
};

// the full per-(value, options, mode) pipeline.  `fl` = tree contains floats.
static Outcome run_one(const Node& n, const JSON& v, uint32_t o, bool strict, bool fl, const string* text_in = nullptr) {
  Outcome out;
  string t = text_in ? *text_in : ser(v, o);
  string ts = (o & JSON::SORT_DICT_KEYS) ? t : ser(v, o | JSON::SORT_DICT_KEYS);
  JSON p;
  try {
    p = prs(t, strict);
  } catch (const exception& e) {
    out.check = "parse-throws";
    out.detail = string(typeid(e).name()) + ": " + e.what();
    return out;
  }
  string where;
  string r = walk_cmp(n, p, where, "$");
  if (!r.empty()) {
    out.check = r;
    out.detail = where;
    return out;
  }
  PE();
  if (!fl) {
    if (!(p == v) || !(v == p) || (p != v)) {
      out.check = "operator==-false";
      out.detail = "parse(serialize(v)) == v is false although every accessor agrees";
      return out;
    }
  } else {
    JSON p2;
    try {
      p2 = prs(ts, strict && is_std(o));
    } catch (const exception& e) {
      out.check = "parse-throws";
      out.detail = string("(sorted text) ") + typeid(e).name() + ": " + e.what();
      return out;
    }
    PE();
    if (!(p == p2) || (p != p2)) {
      out.check = "operator==-false";
      out.detail = "parse(text) == parse(text with sorted keys) is false";
      return out;
    }
  }
  string rs = ser(p, o | JSON::SORT_DICT_KEYS);
  if (rs != ts) {
    out.check = "reserialize-differs";
    size_t k = 0;
    while (k < rs.size() && k < ts.size() && rs[k] == ts[k]) k++;
    out.detail = fmt("first difference at byte %zu: original ...", k) + vf::hex(ts.substr(k > 8 ? k - 8 : 0, 24)) + " reparsed ..." + vf::hex(rs.substr(k > 8 ? k - 8 : 0, 24));
    return out;
  }
  return out;
}

// smallest subtree that fails the same way on its own
static const Node* blame(const Node& n, uint32_t o, bool strict, string& keyshape) {
  for (size_t i = 0; i < n.kids.size(); i++) {
    const Node& k = n.kids[i];
    JSON kv = build(k);
    if (!run_one(k, kv, o, strict, has_float(k)).check.empty()) return blame(k, o, strict, keyshape);
  }
  if (n.k == Node::D) {
    for (auto& key : n.keys) {
      Node d = mk_dict();
      dput(d, key, mk_null());
      JSON dv = build(d);
      if (!run_one(d, dv, o, strict, false).check.empty()) {
        keyshape = "key:" + str_class(key);
        return &n;
      }
    }
  }
  keyshape = shape(n);
  return &n;
}

static string opt_names(uint32_t o) {
  string s;
  if (o & JSON::HEX_INTEGERS) s += "HEX_INTEGERS|";
  if (o & JSON::ONE_CHARACTER_TRIVIAL_CONSTANTS) s += "ONE_CHARACTER_TRIVIAL_CONSTANTS|";
  if (o & JSON::FORMAT) s += "FORMAT|";
  if (o & JSON::SORT_DICT_KEYS) s += "SORT_DICT_KEYS|";
  if (o & JSON::HEX_ESCAPE_CODES) s += "HEX_ESCAPE_CODES|";
  if (o & JSON::ESCAPE_CONTROLS_ONLY) s += "ESCAPE_CONTROLS_ONLY|";
  if (s.empty()) return "0";
  s.pop_back();
  return s;
}

// ------------------------------------------------------------------------------------------------
// deep-copy monitor

static bool aliases(const JSON& a, const JSON& b) {
  PE();
  if (&a == &b) return true;
  if (a.is_list() && b.is_list()) {
    size_t n = min(a.size(), b.size());
    for (size_t i = 0; i < n; i++)
      if (aliases(a.at(i), b.at(i))) return true;
  } else if (a.is_dict() && b.is_dict()) {
    for (const auto& it : a.as_dict()) {
      auto f = b.as_dict().find(it.first);
      if (f != b.as_dict().end() && aliases(*it.second, *f->second)) return true;
    }
  } else if (a.is_string() && b.is_string()) {
    if (a.as_string().data() == b.as_string().data()) return true;
  }
  return false;
}

// mutate j somewhere (random path); returns a description; the new value is certainly different
static string mutate(JSON& j, vf::Rng& r, int depth = 0) {
  PE();
  if (j.is_list() && !j.empty() && r.chance(3, 4)) {
    size_t i = r.below(j.size());
    return fmt("[%zu]", i) + mutate(j.at(i), r, depth + 1);
  }
  if (j.is_dict() && !j.empty() && r.chance(3, 4)) {
    size_t i = r.below(j.size());
    auto it = j.as_dict().begin();
    std::advance(it, i);
    return "{" + vf::hex(it->first) + "}" + mutate(*it->second, r, depth + 1);
  }
  if (j.is_list()) {
    j.emplace_back(JSON("appended"));
    return ":list-append";
  }
  if (j.is_dict()) {
    string k = "new";
    while (j.contains(k)) k += "_";
    j.emplace(k, JSON((int64_t)1));
    return ":dict-insert";
  }
  if (j.is_null()) {
    j = JSON(true);
    return ":null->true";
  }
  if (j.is_bool()) {
    j = JSON(!j.as_bool());
    return ":bool-flip";
  }
  if (j.is_int()) {
    j = JSON((int64_t)((uint64_t)j.as_int() + 1));
    return ":int+1";
  }
  if (j.is_float()) {
    j = JSON("was-float");
    return ":float->string";
  }
  j.as_string() += "x";
  return ":string-append";
}

static void copy_monitor(const Node& n, const JSON& v, vf::Rng& r, const string& desc) {
  C->evaluations++;
  string before = ser(v, JSON::SORT_DICT_KEYS);
  PE();
  JSON pristine(v);   // copy constructor
  JSON assigned;
  PE();
  assigned = v;       // copy assignment
  PE();
  JSON victim(v);
  string where;
  string kind = n.k == Node::L ? "list" : n.k == Node::D ? "dict" : "leaf";
  PE();
  if (!(pristine == v) || !(assigned == v) || (pristine != v))
    C->violation("copy:not-equal-to-source:" + kind, "JSON(v) == v is false", desc);
  string w1 = walk_cmp(n, pristine, where, "$");
  if (!w1.empty()) C->violation("copy:differs-from-source:" + kind, "copy does not hold the source's value: " + where, desc);
  string w2 = walk_cmp(n, assigned, where, "$");
  if (!w2.empty()) C->violation("copy:differs-from-source:" + kind, "assigned copy does not hold the source's value: " + where, desc);
  if ((n.k == Node::L || n.k == Node::D) && !n.kids.empty()) {
    if (aliases(v, pristine) || aliases(v, assigned) || aliases(pristine, assigned))
      C->violation("copy:aliases-source:" + kind, "a copy shares a child object with its source", desc);
  }
  PE();
  string m = mutate(victim, r);
  PE();
  if (victim == v || !(victim != v) || v == victim)
    C->violation("copy:mutated-copy-still-equal" + m.substr(m.rfind(':')), "after mutating the copy at " + m + " it still compares equal to the source", desc);
  PE();
  if (!(pristine == v)) C->violation("copy:source-changed:" + kind, "mutating a copy changed the source (compared with a second pristine copy)", desc + " mutated at " + m);
  if (ser(v, JSON::SORT_DICT_KEYS) != before) C->violation("copy:source-changed:" + kind, "mutating a copy changed the source's serialisation", desc + " mutated at " + m);
  string w3 = walk_cmp(n, v, where, "$");
  if (!w3.empty()) C->violation("copy:source-changed:" + kind, "source no longer holds the generated value: " + where, desc + " mutated at " + m);
  // self-consistency of the move path used everywhere above
  PE();
  JSON moved(std::move(assigned));
  PE();
  if (!(moved == v)) C->violation("copy:moved-differs:" + kind, "moved-from copy differs", desc);
  C->cls("copy:mutate" + m.substr(m.rfind(':')));
  C->cls("copy:" + kind);
}

static Node chain_fwd(int depth) {
  Node cur = mk_int(7);
  for (int i = 0; i < depth; i++) {
    Node p = (i & 1) ? mk_dict() : mk_list();
    if (i & 1) dput(p, string(1, (char)('a' + i % 26)), std::move(cur));
    else p.kids.push_back(std::move(cur));
    cur = std::move(p);
  }
  return cur;
}

// ------------------------------------------------------------------------------------------------
// history-aware assignment monitor: "copies are deep and compare equal to their source" must also
// hold when the destination of operator= already holds a value.  Every tree S is copy-assigned and
// move-assigned onto pre-loaded destinations of every kind.  Self-assignment is left out: the class
// does not document it as supported.  (Old children of the destination are freed by the assignment,
// so their addresses may legitimately be reused; exactly-once freeing is ASan/LSan's job.)

static string unique_key(const Node& d, const Node* other, string k) {
  auto has = [](const Node* n, const string& key) {
    if (!n || n->k != Node::D) return false;
    for (auto& x : n->keys)
      if (x == key) return true;
    return false;
  };
  while (has(&d, k) || has(other, k)) k += "_";
  return k;
}

// same shape as n, but every scalar changed, every list one element longer, every dict one key richer
static Node pollute(const Node& n) {
  switch (n.k) {
    case Node::N: return mk_bool(true);
    case Node::B: return mk_bool(!n.b);
    case Node::I: return mk_int((int64_t)((uint64_t)n.i + 1));
    case Node::F: return mk_str("was-float");
    case Node::S: return mk_str(n.s + "x");
    case Node::L: {
      Node r = mk_list();
      for (auto& k : n.kids) r.kids.push_back(pollute(k));
      r.kids.push_back(mk_str("stale-item"));
      return r;
    }
    default: {
      Node r = mk_dict();
      for (size_t i = 0; i < n.kids.size(); i++) dput(r, n.keys[i], pollute(n.kids[i]));
      dput(r, unique_key(r, nullptr, "stale-key"), mk_int(-1));
      return r;
    }
  }
}

struct Dest {
  string kind;
  Node node;
};

static vector<Dest> destinations(const Node& n) {
  vector<Dest> d;
  d.push_back({"null", mk_null()});
  d.push_back({"bool", mk_bool(true)});
  d.push_back({"int", mk_int(-42)});
  d.push_back({"float", mk_float(2.5)});
  d.push_back({"string", mk_str("old string value, long enough to be heap allocated")});
  d.push_back({"list-empty", mk_list()});
  size_t sz = n.k == Node::L ? n.kids.size() : 2;
  {
    Node shorter = mk_list(), longer = mk_list();
    for (size_t i = 0; i + 1 < sz; i++) shorter.kids.push_back(mk_int((int64_t)i));
    if (sz == 0 || shorter.kids.empty()) shorter.kids.push_back(mk_str("only"));
    for (size_t i = 0; i < sz + 2; i++) longer.kids.push_back(i & 1 ? mk_str("old") : mk_list());
    d.push_back({n.k == Node::L && sz > 1 ? "list-shorter" : "list-short", shorter});
    d.push_back({"list-longer", longer});
  }
  d.push_back({"dict-empty", mk_dict()});
  {
    Node disjoint = mk_dict();
    for (int i = 0; i < 3; i++) dput(disjoint, unique_key(disjoint, &n, fmt("old-key-%d", i)), i == 1 ? mk_list() : mk_int(i));
    d.push_back({"dict-disjoint-keys", disjoint});
    if (n.k == Node::D && !n.keys.empty()) {
      Node overlap = mk_dict(), superset = mk_dict(), subset = mk_dict(), same = mk_dict();
      for (size_t i = 0; i < n.keys.size(); i++) {
        if (i < (n.keys.size() + 1) / 2) {
          dput(overlap, n.keys[i], mk_str("old"));
          dput(subset, n.keys[i], mk_int(7));
        }
        dput(superset, n.keys[i], i & 1 ? mk_null() : mk_dict());
        dput(same, n.keys[i], mk_float(0.25));
      }
      dput(overlap, unique_key(overlap, &n, "extra-a"), mk_int(1));
      dput(overlap, unique_key(overlap, &n, "extra-b"), mk_list());
      dput(superset, unique_key(superset, &n, "extra-a"), mk_int(1));
      dput(superset, unique_key(superset, &n, ""), mk_str("empty-or-extra key"));
      d.push_back({"dict-overlapping-keys", overlap});
      d.push_back({"dict-superset-keys", superset});
      d.push_back({"dict-subset-keys", subset});
      d.push_back({"dict-same-keys", same});
    }
  }
  d.push_back({"deep-tree", chain_fwd(30)});
  if (n.k == Node::L || n.k == Node::D) d.push_back({"polluted-same-shape", pollute(n)});
  return d;
}

static JSON g_prev;
static bool g_have_prev = false;

static void check_assigned(const char* op, const string& kind, const Node& n, const JSON& v, JSON& dst, const string& sorted_v,
    vf::Rng& r, const string& desc, bool mutate_too) {
  string pre = string(op) + ":onto-" + kind + ":";
  string where;
  string w = walk_cmp(n, dst, where, "$");
  if (!w.empty()) C->violation(pre + "differs", string("after ") + op + " the destination does not hold the source's value (" + w + "): " + where, desc);
  string sd = ser(dst, JSON::SORT_DICT_KEYS);
  if (sd != sorted_v) {
    size_t k = 0;
    while (k < sd.size() && k < sorted_v.size() && sd[k] == sorted_v[k]) k++;
    C->violation(pre + "differs", fmt("serialize(dst, SORT_DICT_KEYS) != serialize(src, SORT_DICT_KEYS); first difference at byte %zu: dst ...", k) + sd.substr(k > 10 ? k - 10 : 0, 60) + " src ..." + sorted_v.substr(k > 10 ? k - 10 : 0, 60), desc);
  }
  if ((dst.is_list() || dst.is_dict()) && (v.is_list() || v.is_dict()) && dst.size() != v.size())
    C->violation(pre + "differs", fmt("size() %zu after assignment, source has %zu", dst.size(), v.size()), desc);
  PE();
  if (!(dst == v) || !(v == dst) || (dst != v) || (v != dst)) C->violation(pre + "not-equal", "dst == src is false (or != true) after the assignment", desc);
  if (aliases(v, dst)) C->violation(pre + "aliases-source", "the destination shares a child object or string buffer with the source", desc);
  if (mutate_too) {
    PE();
    string m = mutate(dst, r);
    PE();
    if (dst == v || v == dst) C->violation(pre + "mutated-still-equal", "after mutating the destination at " + m + " it still compares equal to the source", desc);
    if (ser(v, JSON::SORT_DICT_KEYS) != sorted_v || !walk_cmp(n, v, where, "$").empty())
      C->violation(pre + "source-changed", "mutating the assigned destination at " + m + " changed the source", desc);
  }
}

static void assign_monitor(const Node& n, const JSON& v, vf::Rng& r, const string& desc) {
  string sorted_v = ser(v, JSON::SORT_DICT_KEYS);
  const char* sk = n.k == Node::L ? "list" : n.k == Node::D ? "dict" : "scalar";
  vector<Dest> dests = destinations(n);
  for (auto& d : dests) {
    string dtag;
    tagged(d.node, dtag);
    string dd = "destination pre-loaded with " + (dtag.size() > 300 ? dtag.substr(0, 300) + "..." : dtag) + "; source " + desc;
    C->evaluations += 2;
    C->crumb_s("copy-assign onto " + d.kind + " " + dd.substr(0, 3000));
    {
      JSON dst = build(d.node);
      PE();
      dst = v;
      check_assigned("copy-assign", d.kind, n, v, dst, sorted_v, r, dd, true);
    }
    C->crumb_s("move-assign onto " + d.kind + " " + dd.substr(0, 3000));
    {
      PE();
      JSON tmp(v);
      JSON dst = build(d.node);
      PE();
      dst = std::move(tmp);
      check_assigned("move-assign", d.kind, n, v, dst, sorted_v, r, dd, false);
    }
    C->cls(string("assign:onto-") + d.kind + ":" + sk);
  }
  // onto a previous copy of a different tree, then remember a copy of this one
  if (g_have_prev) {
    C->evaluations += 2;
    string dd = "destination is a copy of the previously processed tree; source " + desc;
    C->crumb_s("copy-assign onto previous tree " + dd.substr(0, 3000));
    {
      PE();
      JSON dst(g_prev);
      PE();
      dst = v;
      check_assigned("copy-assign", "previous-tree", n, v, dst, sorted_v, r, dd, true);
    }
    {
      PE();
      JSON tmp(v);
      PE();
      g_prev = std::move(tmp);  // move-assign onto the previous tree itself
      check_assigned("move-assign", "previous-tree", n, v, g_prev, sorted_v, r, dd, false);
    }
    C->cls(string("assign:onto-previous-tree:") + sk);
  } else {
    PE();
    g_prev = v;
    g_have_prev = true;
  }
}

// ------------------------------------------------------------------------------------------------
// generators

static const int64_t kInts[] = {0, 1, -1, 2, -2, 9, 10, -10, 99, 100, 127, 128, 255, 256, -128, -129, 32767, 32768, 65535, 65536,
    2147483647LL, 2147483648LL, -2147483648LL, -2147483649LL, 4294967295LL, 4294967296LL, 9007199254740992LL, 9007199254740993LL,
    999999999999999999LL, 1000000000000000000LL, INT64_MAX, INT64_MAX - 1, INT64_MIN, INT64_MIN + 1, 0x7FFFFFFFFFFFFFF0LL,
    (int64_t)0x8000000000000010ULL, 0x0123456789ABCDEFLL, -0x0123456789ABCDEFLL, 0xABCDEF, -0xabcdef};

static int64_t gen_int(vf::Rng& r) {
  switch (r.below(6)) {
    case 0: return kInts[r.below(sizeof(kInts) / sizeof(kInts[0]))];
    case 1: return r.range(-1000, 1000);
    case 2: {
      int k = r.below(64);
      int64_t p = (int64_t)(1ULL << k);
      int d = (int)r.below(3) - 1;
      int64_t v = (int64_t)((uint64_t)p + (uint64_t)(int64_t)d);
      return r.chance(1, 2) ? v : (int64_t)((uint64_t)0 - (uint64_t)v);
    }
    default: return (int64_t)r.interesting();
  }
}

static bool usable(double f) { return f == 0 || isnormal(f); }

static double from_text(const string& s) { return strtod(s.c_str(), nullptr); }

static double gen_float(vf::Rng& r) {
  for (;;) {
    double f = 0;
    switch (r.below(9)) {
      case 0: {  // 1-6 digit mantissa times 10^e, e over the whole range
        int digits = 1 + r.below(6);
        uint64_t m = 1 + r.below(999999);
        string ms = to_string(m).substr(0, digits);
        string t = ms.substr(0, 1) + "." + (ms.size() > 1 ? ms.substr(1) : "0") + "e" + to_string(r.range(-300, 300));
        f = from_text(t);
        break;
      }
      case 1: {  // 17 significant digits
        string t = to_string(1 + r.below(9)) + ".";
        for (int i = 0; i < 16; i++) t += (char)('0' + r.below(10));
        t += "e" + to_string(r.range(-300, 300));
        f = from_text(t);
        break;
      }
      case 2: {  // random bit pattern, normal
        uint64_t bits = r.next();
        memcpy(&f, &bits, 8);
        break;
      }
      case 3: f = (double)r.range(-2000000, 2000000); break;                      // integral, around the %g 1e+06 switch
      case 4: f = (double)(int64_t)r.interesting(); break;                          // large integral
      case 5: f = from_text("1e" + to_string(r.range(-300, 300))); break;           // exact powers of ten
      case 6: f = (double)r.range(-99999, 99999) / (double)(r.chance(1, 2) ? 10 : 1000); break;  // plain decimals
      case 7: {
        static const double k[] = {0.0, -0.0, 0.5, 1.4, -10.5, 1e5, 1e6, 999999.0, 999999.5, 1234567.0, 100000.0, 123456.0, 2e6, 1e-4, 1e-5,
            0.0001234, 0.00001234, 1e20, 1e-7, 1e100, 1e-100, 1.7976931348623157e308, 2.2250738585072014e-308, 9.5e-5, 9.99999e-5, 9.999995e-5,
            0.1, 0.2, 0.3, 1.0 / 3.0, 2.0 / 3.0, 3.141592653589793, 6.02214076e23, 6.62607015e-34, 1e15, 1e16, 1e17, 9007199254740993.0, 1e21, 1e22, 1e23};
        f = k[r.below(sizeof(k) / sizeof(k[0]))];
        break;
      }
      default: f = ((double)(int64_t)r.next() / 9.2e18) * pow(10.0, (double)r.range(-12, 12)); break;
    }
    if (r.chance(1, 3)) f = -f;
    if (usable(f)) return f;
  }
}

static string gen_str(vf::Rng& r) {
  static const char special[] = {'"', '\\', '/', '\b', '\f', '\n', '\r', '\t', 0x00, 0x01, 0x1f, 0x7f, (char)0x80, (char)0xff, 'u', 'x', (char)0xc3, (char)0xa9, ' ', 'n'};
  size_t len = r.chance(1, 10) ? 0 : r.chance(1, 12) ? 20 + r.below(60) : 1 + r.below(12);
  int style = r.below(4);
  string s;
  for (size_t i = 0; i < len; i++) {
    int st = style == 3 ? (int)r.below(3) : style;
    if (st == 0) s.push_back((char)r.next());
    else if (st == 1) s.push_back((char)(0x20 + r.below(0x5f)));
    else s.push_back(special[r.below(sizeof(special))]);
  }
  return s;
}

static Node gen_tree(vf::Rng& r, int depth, int maxdepth, int& budget) {
  budget--;
  bool container = depth < maxdepth && budget > 0 && r.chance(depth == 0 ? 7 : 4, 10);
  if (container) {
    bool dict = r.chance(1, 2);
    Node n = dict ? mk_dict() : mk_list();
    if (r.chance(3, 20)) return n;  // empty
    size_t want = 1 + r.below(depth == 0 ? 8 : 5);
    set<string> used;
    for (size_t i = 0; i < want && budget > 0; i++) {
      Node k = gen_tree(r, depth + 1, maxdepth, budget);
      if (dict) {
        string key = gen_str(r);
        if (!used.insert(key).second) continue;
        dput(n, key, std::move(k));
      } else
        n.kids.push_back(std::move(k));
    }
    return n;
  }
  switch (r.below(12)) {
    case 0: return mk_null();
    case 1: return mk_bool(r.chance(1, 2));
    case 2: case 3: case 4: return mk_int(gen_int(r));
    case 5: case 6: case 7: case 8: return mk_float(gen_float(r));
    default: return mk_str(gen_str(r));
  }
}

static Node chain(int depth, int kind, Node leaf) {
  Node cur = std::move(leaf);
  for (int i = 0; i < depth; i++) {
    bool dict = kind == 1 || (kind == 2 && (i & 1));
    Node p = dict ? mk_dict() : mk_list();
    if (dict) dput(p, i % 7 == 0 ? string("k\"\\") : string(1, (char)('a' + i % 26)), std::move(cur));
    else p.kids.push_back(std::move(cur));
    cur = std::move(p);
  }
  return cur;
}

// systematic (seed-independent) trees
static vector<Node> systematic() {
  vector<Node> v;
  // all 256 single-byte strings and keys
  for (int b = 0; b < 256; b++) {
    Node d = mk_dict();
    Node l = mk_list();
    l.kids.push_back(mk_str(string(1, (char)b)));
    l.kids.push_back(mk_str(string("a") + (char)b + "z"));
    l.kids.push_back(mk_str(string(2, (char)b)));
    dput(d, string(1, (char)b), std::move(l));
    dput(d, string("k") + (char)b + (char)b, mk_int(b));
    v.push_back(std::move(d));
  }
  // scalars as roots
  v.push_back(mk_null());
  v.push_back(mk_bool(true));
  v.push_back(mk_bool(false));
  v.push_back(mk_str(""));
  for (int64_t i : kInts) v.push_back(mk_int(i));
  // boundary integers in one list and as dict values
  {
    Node l = mk_list(), d = mk_dict();
    for (int64_t i : kInts) l.kids.push_back(mk_int(i));
    for (int k = 0; k < 64; k++)
      for (int dl = -1; dl <= 1; dl++) {
        int64_t x = (int64_t)((1ULL << k) + (uint64_t)(int64_t)dl);
        l.kids.push_back(mk_int(x));
        l.kids.push_back(mk_int((int64_t)((uint64_t)0 - (uint64_t)x)));
        dput(d, fmt("p%d%+d", k, dl), mk_int(x));
      }
    v.push_back(std::move(l));
    v.push_back(std::move(d));
  }
  // floats m*10^e for every e in [-300,300]
  static const char* mant[] = {"1", "2", "1.5", "9.99999", "1.23456", "5", "1.00001", "7.5"};
  for (int e0 = -300; e0 <= 300; e0 += 10) {
    Node l = mk_list();
    for (int e = e0; e < e0 + 10 && e <= 300; e++)
      for (const char* m : mant) {
        double f = from_text(string(m) + "e" + to_string(e));
        if (usable(f)) l.kids.push_back(mk_float((e & 1) ? -f : f));
      }
    v.push_back(std::move(l));
  }
  {
    Node l = mk_list();
    for (double f : {0.0, -0.0, 0.5, 1.4, -10.5, 1e5, 1e6, 999999.0, 999999.5, 100000.0, 123456.0, 2e6, 1e-4, 1e-5, 1e20, 1e-7, 1e15, 1e16,
             1.7976931348623157e308, 2.2250738585072014e-308})
      l.kids.push_back(mk_float(f));
    v.push_back(l);
    for (auto& k : l.kids) v.push_back(k);  // each as a root as well
  }
  // empty containers at every position
  {
    Node e1 = mk_list(), e2 = mk_dict();
    v.push_back(e1);
    v.push_back(e2);
    Node l = mk_list();
    l.kids = {e1, e2, mk_int(1), e1, e2};
    v.push_back(l);
    Node d = mk_dict();
    dput(d, "", e1);
    dput(d, "a", e2);
    dput(d, "b", l);
    dput(d, "c", mk_null());
    v.push_back(d);
    Node l2 = mk_list();
    l2.kids = {d, l, e2, e1};
    v.push_back(l2);
    Node l3 = mk_list();
    l3.kids = {e1};
    v.push_back(l3);
    Node d3 = mk_dict();
    dput(d3, "only", e2);
    v.push_back(d3);
  }
  // degenerate deep chains
  for (int kind = 0; kind < 3; kind++) {
    v.push_back(chain(200, kind, mk_int(7)));
    v.push_back(chain(200, kind, kind == 0 ? mk_list() : mk_dict()));
    v.push_back(chain(120, kind, mk_float(1.5e-7)));
    v.push_back(chain(60, kind, mk_str(string("\x01\xff\"\\ end", 9))));
  }
  return v;
}

// ------------------------------------------------------------------------------------------------

static FILE* dumpf = nullptr;

static void process(uint64_t idx, const Node& n, vf::Rng& r, const char* origin) {
  JSON v = build(n);
  bool fl = has_float(n);
  cover_leaves(n, 0);
  string tg;
  tagged(n, tg);
  string desc = fmt("tree #%" PRIu64 " (%s, seed %" PRIu64 ") tagged=", idx, origin, C->seed) + (tg.size() > 1500 ? tg.substr(0, 1500) + "..." : tg);
  if (dumpf) fprintf(dumpf, "T\t%" PRIu64 "\t%s\n", idx, tg.c_str());
  for (uint32_t o = 0; o < 64; o++) {
    C->crumb_s(fmt("serialize opts=0x%02x ", o) + desc);
    string t = ser(v, o);
    bool std_o = is_std(o);
    if (std_o && dumpf) fprintf(dumpf, "X\t%" PRIu64 "\t%u\t%s\n", idx, o, vf::hex(t).c_str());
    for (int strict = 0; strict <= (std_o ? 1 : 0); strict++) {
      C->evaluations++;
      C->crumb_s(fmt("parse opts=0x%02x strict=%d text=", o, strict) + vf::hex(t.substr(0, 1200)) + " " + desc.substr(0, 1500));
      Outcome oc = run_one(n, v, o, strict, fl, &t);
      C->cls(fmt("opt%02x:%s", o, strict ? "strict" : "default"));
      if (!oc.check.empty()) {
        string ks;
        const Node* b = blame(n, o, strict, ks);
        string bt;
        tagged(*b, bt);
        string btext = ser(build(*b), o);
        C->violation(oc.check + ":" + ks + ":" + (strict ? "strict" : "default"),
            oc.check + " (" + oc.detail + ") with options " + opt_names(o) + (strict ? ", strict parser" : ", default parser"),
            "smallest failing value " + (bt.size() > 300 ? bt.substr(0, 300) + "..." : bt) + " serialises to hex " + vf::hex(btext.substr(0, 200)) + " = \"" + btext.substr(0, 200) + "\"; in " + desc.substr(0, 600));
      }
    }
  }
  copy_monitor(n, v, r, desc.substr(0, 900));
  assign_monitor(n, v, r, desc.substr(0, 600));
  if (idx < 3 || (idx % 977) == 0) C->sample(fmt("opts 0..63 x {default,strict-if-standard} on %s", desc.substr(0, 300).c_str()), 8);
}

int main(int argc, char** argv) {
  vf::Ctx& c = vf::init(argc, argv);
  C = &c;
  string dump = c.arg("dump", "1");
  if (dump != "0") {
    string fn = fmt("c04.dump.%u.tsv", c.shard);
    dumpf = fopen(fn.c_str(), "w");
    if (!dumpf) {
      fprintf(stderr, "[harness-error] cannot create %s\n", fn.c_str());
      return 3;
    }
  }
  uint64_t idx = 0;
  vector<Node> sys = systematic();
  for (auto& n : sys) {
    uint64_t i = idx++;
    if (!c.mine(i)) continue;
    vf::Rng r(c.seed * 7919 + i);
    process(i, n, r, "systematic");
  }
  c.count("systematic_trees", c.shard == 0 ? sys.size() : 0);
  uint64_t ntrees = strtoull(c.arg("trees", c.quick() ? "2000" : "100000").c_str(), nullptr, 0);
  uint64_t nodes = 0;
  for (uint64_t k = 0; k < ntrees; k++) {
    uint64_t i = idx++;
    if (!c.mine(i)) continue;
    vf::Rng r(c.seed * 0x9E3779B1ULL + k * 0x632BE5ABULL + 99);
    int budget = r.chance(1, 6) ? 40 : 4 + (int)r.below(20);
    int maxdepth = 1 + (int)r.below(6);
    Node n = gen_tree(r, 0, maxdepth, budget);
    nodes += count_nodes(n);
    process(i, n, r, "random");
  }
  c.count("random_trees_nodes", nodes);
  if (dumpf) fclose(dumpf);
  return c.finish();
}
