// C06 — image codecs: executor for the Python-generated case files.
//
// The Python side (vf/oracles/c06.py) owns the pixel arrays, writes every input container itself
// and judges everything this program dumps.  This program only runs the real phosg code:
//   load cases: the full file through every requested delivery channel - fmemopen, a real pipe (not
//               seekable), a real file via fdopen / fopen / Image(const char*) / Image(const std::string&) -
//               raw pixels dumped; then EVERY prefix length 0..len-1 is loaded: exception, or decode
//               compared with the full decode (differing decodes are dumped); LSan recoverable leak
//               check after every `leakevery` cases (each LSan pass costs ~30 ms, so not after every file).
//   save cases: Image built from the given pixel array, save(COLOR_PPM|WINDOWS_BITMAP|PNG) bytes
//               dumped; save(FILE*), save(const char* filename), save(const std::string& filename) must
//               write the same bytes; PPM/BMP loaded back (round trip) through the same channels and
//               given the same prefix enumeration.  F_HISTORY cases: the pixels are routed through every
//               way an Image can come to hold them (copy/move ctor, copy/move assignment onto
//               default-constructed and differently formatted images, raw-data ctors, load,
//               set_channel_width/set_has_alpha) and saved again: same bytes as the direct save for the
//               pixel-preserving routes, exact save->load round trip of the reported state for all.
//   ladder cases (kind 2): encoded-size ladder for the PNG writer, see run_ladder_case().
// vf::poison_errno() runs before every call into phosg (crumb_* does it, plus load_with/do_save/alt_save).
// One process handles one (family file, shard); a sanitizer abort therefore only loses the rest of
// that family's shard (the orchestrator restarts it after the crashed case).
//
// args: in=<case file> obs=<observation file> start=<first case index> limit=<max cases>
//       maxprefix=<largest file length that gets the prefix enumeration>
#include <cxxabi.h>
#include <errno.h>
#include <pthread.h>
#include <signal.h>
#include <sys/stat.h>
#include <sys/syscall.h>

#include <exception>
#include <functional>
#include <memory>
#include <stdexcept>
#include <string>
#include <typeinfo>

#include "Image.hh"
#include "common.hh"

#if defined(__SANITIZE_ADDRESS__)
#include <sanitizer/lsan_interface.h>
#define C06_HAVE_LSAN 1
#else
#define C06_HAVE_LSAN 0
#endif

using namespace std;
using phosg::Image;
using vf::fmt;

static vf::Ctx* C;

[[noreturn]] static void harness_error(const string& s) {
  fprintf(stderr, "[harness-error] c06: %s\n", s.c_str());
  exit(3);
}

// ------------------------------------------------------------------------------------------------
// little-endian field reader / record writer

struct Rd {
  const uint8_t* p;
  const uint8_t* end;
  uint64_t u(int n) {
    if (end - p < n) harness_error("case file truncated");
    uint64_t v = 0;
    for (int i = 0; i < n; i++) v |= (uint64_t)p[i] << (8 * i);
    p += n;
    return v;
  }
  string bytes(size_t n) {
    if ((size_t)(end - p) < n) harness_error("case file truncated (bytes)");
    string s((const char*)p, n);
    p += n;
    return s;
  }
};

struct Rec {
  string s;
  Rec(uint8_t type, uint32_t case_id) {
    u(type, 1);
    u(case_id, 4);
  }
  Rec& u(uint64_t v, int n) {
    for (int i = 0; i < n; i++) s.push_back((char)(v >> (8 * i)));
    return *this;
  }
  Rec& blob(const string& b) {  // u32 length + bytes
    u(b.size(), 4);
    s += b;
    return *this;
  }
};

static int obs_fd = -1;
static void emit(const Rec& r) {
  string out;
  uint32_t n = r.s.size();
  for (int i = 0; i < 4; i++) out.push_back((char)(n >> (8 * i)));
  out += r.s;
  const char* p = out.data();
  size_t left = out.size();
  while (left) {
    ssize_t w = write(obs_fd, p, left);
    if (w < 0) {
      if (errno == EINTR) continue;
      harness_error(fmt("write obs: %s", strerror(errno)));
    }
    p += w;
    left -= w;
  }
}

enum : uint8_t {
  R_BEGIN = 0,
  R_LOAD = 1,     // full-file load result
  R_PSUM = 2,     // prefix enumeration summary
  R_PDIFF = 3,    // a prefix that decoded to something else than the full decode
  R_SAVE = 4,     // bytes produced by save()
  R_RT = 5,       // round-trip load of saved bytes
  R_END = 6,      // case finished
  R_DONE = 7,     // process finished normally
  R_LEAK = 8,     // result of the LSan recoverable leak check over a batch of cases
  R_ROUTE = 9,    // object-history route: how the image came to hold its pixels + the state it reports
  R_RSAVE = 10,   // save of a route's image (payload omitted when identical to the direct image's save)
  R_RLOAD = 11,   // load of a route's saved bytes
  R_LADDER = 12,  // one probe of the encoded-size ladder: pixel recipe (L) + the PNG the real writer produced
};

// ------------------------------------------------------------------------------------------------

struct Img {
  bool ok = false;
  string exc_type, exc_what;
  uint32_t w = 0, h = 0;
  uint8_t alpha = 0, cw = 0;
  string data;
  bool same_as(const Img& o) const {
    return ok && o.ok && w == o.w && h == o.h && alpha == o.alpha && cw == o.cw && data == o.data;
  }
};

static string demangle(const char* n) {
  int st = 0;
  char* d = abi::__cxa_demangle(n, nullptr, nullptr, &st);
  string r = (st == 0 && d) ? d : n;
  free(d);
  return r;
}

static void put_img(Rec& r, const Img& im) {
  r.u(im.ok ? 0 : 1, 1);
  if (im.ok) {
    r.u(im.w, 4).u(im.h, 4).u(im.alpha, 1).u(im.cw, 1).blob(im.data);
  } else {
    r.blob(im.exc_type).blob(im.exc_what.substr(0, 300));
  }
}

// Delivery channels.  MEM: fmemopen buffer.  FILE: fdopen() of a real file cut with ftruncate.
// FOPEN: fopen(path).  PATH / PATHSTR: the path-based constructors Image(const char*) / Image(const std::string&).
// PIPE: the read end of a real pipe (not seekable: fseek/ftell fail with ESPIPE), i.e. what Image(stdin) sees.
enum StreamKind : uint8_t { S_MEM = 0, S_FILE = 1, S_PIPE = 2, S_FOPEN = 3, S_PATH = 4, S_PATHSTR = 5 };
static const char* const KIND_NAMES[] = {"mem", "file", "pipe", "fopen", "path", "pathstr"};

static string tmp_path(const char* tag) { return fmt("./c06_%s_%d.tmp", tag, (int)getpid()); }

static void write_all(int fd, const char* p, size_t n) {
  while (n) {
    ssize_t w = write(fd, p, n);
    if (w < 0) {
      if (errno == EINTR) continue;
      harness_error(fmt("write: %s", strerror(errno)));
    }
    p += w;
    n -= w;
  }
}

static string read_file(const string& path) {
  FILE* f = fopen(path.c_str(), "rb");
  if (!f) harness_error(fmt("cannot reopen %s: %s", path.c_str(), strerror(errno)));
  string r;
  char buf[65536];
  size_t n;
  while ((n = fread(buf, 1, sizeof(buf), f)) > 0) r.append(buf, n);
  fclose(f);
  return r;
}

// A real named file that is cut to the wanted length for each load.
struct TruncFile {
  int fd = -1;
  string path;
  void open_with(const string& bytes) {
    close_it();
    path = tmp_path("trunc");
    fd = open(path.c_str(), O_RDWR | O_CREAT | O_TRUNC, 0600);
    if (fd < 0) harness_error(fmt("open %s: %s", path.c_str(), strerror(errno)));
    write_all(fd, bytes.data(), bytes.size());
  }
  void cut(size_t n) {
    if (ftruncate(fd, n) != 0) harness_error("ftruncate");
  }
  FILE* stream(size_t n) {
    cut(n);
    if (lseek(fd, 0, SEEK_SET) != 0) harness_error("lseek");
    int d = dup(fd);
    if (d < 0) harness_error("dup");
    FILE* f = fdopen(d, "rb");
    if (!f) harness_error("fdopen");
    return f;
  }
  void close_it() {
    if (fd >= 0) {
      close(fd);
      unlink(path.c_str());
    }
    fd = -1;
  }
  ~TruncFile() { close_it(); }
};

static FILE* mem_stream(const string& bytes, size_t n) {
  FILE* f = n ? fmemopen((void*)bytes.data(), n, "rb") : nullptr;
  if (!f) {
    // zero-length prefix: fmemopen may refuse size 0; an empty stream is an empty stream
    f = fopen("/dev/null", "rb");
    if (!f) harness_error("cannot open /dev/null");
  }
  return f;
}

// Read end of a pipe holding the first n bytes; the write end is closed, so the reader sees EOF after them.
// Files larger than the pipe capacity are fed by a writer thread.
struct PipeFeed {
  FILE* f = nullptr;
  pthread_t th;
  bool threaded = false;
  int wfd = -1;
  const char* p = nullptr;
  size_t n = 0;
  static void* feeder(void* arg) {
    PipeFeed* self = (PipeFeed*)arg;
    const char* q = self->p;
    size_t left = self->n;
    while (left) {
      ssize_t w = write(self->wfd, q, left);
      if (w < 0) {
        if (errno == EINTR) continue;
        break;  // EPIPE: the reader gave up early (exception) - fine
      }
      q += w;
      left -= w;
    }
    close(self->wfd);
    return nullptr;
  }
  FILE* open_with(const string& bytes, size_t len) {
    int fds[2];
    if (pipe(fds) != 0) harness_error(fmt("pipe: %s", strerror(errno)));
    p = bytes.data();
    n = len;
    wfd = fds[1];
    if (len <= 60000) {
      write_all(wfd, p, n);
      close(wfd);
    } else {
      threaded = true;
      if (pthread_create(&th, nullptr, feeder, this) != 0) harness_error("pthread_create");
    }
    f = fdopen(fds[0], "rb");
    if (!f) harness_error("fdopen pipe");
    return f;
  }
  void finish() {  // after the reader closed its end
    if (threaded) pthread_join(th, nullptr);
    threaded = false;
  }
};

static Img snapshot(const Image& im) {
  Img r;
  r.ok = true;
  r.w = im.get_width();
  r.h = im.get_height();
  r.alpha = im.get_has_alpha();
  r.cw = im.get_channel_width();
  size_t n = im.get_data_size();
  if (n > (1u << 28)) harness_error("image implausibly large");
  if (n) r.data.assign((const char*)im.get_data(), n);
  return r;
}

template <typename MakeImage>
static Img load_with(MakeImage&& make) {
  Img r;
  vf::poison_errno();
  try {
    Image im = make();
    r = snapshot(im);
  } catch (const std::exception& e) {
    r.exc_type = demangle(typeid(e).name());
    r.exc_what = e.what();
  } catch (...) {
    r.exc_type = "(non-std exception)";
  }
  return r;
}

static Img load_stream(FILE* f) {
  Img r = load_with([f]() { return Image(f); });
  fclose(f);
  return r;
}

static bool leak_check() {
#if C06_HAVE_LSAN
  return __lsan_do_recoverable_leak_check() != 0;
#else
  return false;
#endif
}

// Full load + (optionally) prefix enumeration of one file through one delivery channel.
// `want` is the decode to compare prefixes with when the full load itself failed.
static void run_file(uint32_t id, uint8_t slot, const string& file, uint8_t kind, bool prefixes, const Img& want,
                     const char* fam) {
  TruncFile tf;
  bool on_disk = (kind == S_FILE || kind == S_FOPEN || kind == S_PATH || kind == S_PATHSTR);
  if (on_disk) tf.open_with(file);
  auto load_n = [&](size_t n) -> Img {
    switch (kind) {
      case S_MEM:
        return load_stream(mem_stream(file, n));
      case S_FILE:
        return load_stream(tf.stream(n));
      case S_FOPEN: {
        tf.cut(n);
        FILE* f = fopen(tf.path.c_str(), "rb");
        if (!f) harness_error("fopen temp file");
        return load_stream(f);
      }
      case S_PATH:
        tf.cut(n);
        return load_with([&]() { return Image(tf.path.c_str()); });
      case S_PATHSTR:
        tf.cut(n);
        return load_with([&]() { return Image(tf.path); });
      case S_PIPE: {
        PipeFeed pf;
        Img r = load_stream(pf.open_with(file, n));
        pf.finish();
        return r;
      }
    }
    harness_error("bad stream kind");
  };
  const char* kn = KIND_NAMES[kind];

  C->crumb_n(fam, id, file.size(), kind, slot, 1);
  C->evaluations++;
  Img full = load_n(file.size());
  {
    Rec r(R_LOAD, id);
    r.u(slot, 1).u(kind, 1);
    put_img(r, full);
    emit(r);
  }
  C->cls(fmt("load:%s:%s:%s", fam, kn, full.ok ? "ok" : "exc"));
  if (!prefixes) return;

  const Img& ref = full.ok ? full : want;
  uint32_t n_exc = 0, n_same = 0, n_diff = 0;
  std::map<string, uint32_t> exc_types;
  // on-disk kinds go downwards (ftruncate only ever shrinks, so the cut bytes are really gone)
  for (size_t k = 0; k < file.size(); k++) {
    size_t n = on_disk ? file.size() - 1 - k : k;
    C->crumb_n(fam, id, n, kind, slot, 2);
    C->evaluations++;
    Img r = load_n(n);
    if (!r.ok) {
      n_exc++;
      exc_types[r.exc_type]++;
    } else if (r.same_as(ref)) {
      n_same++;
    } else {
      n_diff++;
      if (n_diff <= 3) {
        Rec d(R_PDIFF, id);
        d.u(slot, 1).u(kind, 1).u(n, 4);
        put_img(d, r);
        emit(d);
      }
    }
  }
  string et;
  for (auto& kv : exc_types) et += fmt("%s=%u;", kv.first.c_str(), kv.second);
  Rec s(R_PSUM, id);
  s.u(slot, 1).u(kind, 1).u(file.size(), 4).u(n_exc, 4).u(n_same, 4).u(n_diff, 4).u(full.ok, 1).blob(et);
  emit(s);
  C->cls(fmt("trunc:%s:%s", fam, kn), file.size());
}

struct Case {
  uint32_t id;
  uint8_t kind, flags;
  string fam, name;
  Img want;
  string file;
};

// F_FILE: full load through file/fopen/path/pathstr, prefixes through one of them (rotating by case id).
// F_PIPE: full load through a pipe; F_PIPEPRE: prefixes through a pipe as well.  F_HISTORY: object-history routes.
enum : uint8_t { F_PREFIX = 1, F_MEM = 2, F_FILE = 4, F_PIPE = 8, F_PIPEPRE = 16, F_HISTORY = 32 };
enum : uint8_t { SLOT_INPUT = 0, SLOT_PPM = 1, SLOT_BMP = 2, SLOT_PNG = 3 };

static void run_channels(uint32_t id, uint8_t slot, const string& file, uint8_t flags, bool pre, const Img& want,
                         const char* fam) {
  if (flags & F_MEM) run_file(id, slot, file, S_MEM, pre, want, fam);
  if (flags & F_FILE) {
    static const uint8_t disk[] = {S_FILE, S_FOPEN, S_PATH, S_PATHSTR};
    for (unsigned i = 0; i < 4; i++) run_file(id, slot, file, disk[i], pre && (id % 4 == i), want, fam);
  }
  if (flags & F_PIPE) run_file(id, slot, file, S_PIPE, pre && (flags & F_PIPEPRE), want, fam);
}

struct Saved {
  bool ok = false;
  string bytes, et, ew;
};

static Saved do_save(const Image& im, Image::Format f) {
  Saved s;
  vf::poison_errno();
  try {
    s.bytes = im.save(f);
    s.ok = true;
  } catch (const std::exception& e) {
    s.et = demangle(typeid(e).name());
    s.ew = e.what();
  }
  return s;
}

// 0 = same bytes as save(), 1 = different bytes, 2 = one threw and the other did not
template <typename Fn>
static uint8_t alt_save(const Saved& ref, Fn&& fn) {
  string got;
  bool ok = false;
  vf::poison_errno();
  try {
    got = fn();
    ok = true;
  } catch (const std::exception&) {
  }
  return ok != ref.ok ? 2 : (ok && got != ref.bytes ? 1 : 0);
}

static string save_via_stream(const Image& im, Image::Format fmt_) {
  char* buf = nullptr;
  size_t len = 0;
  FILE* f = open_memstream(&buf, &len);
  if (!f) harness_error("open_memstream");
  try {
    im.save(f, fmt_);
  } catch (...) {
    fclose(f);
    free(buf);
    throw;
  }
  fclose(f);
  string r(buf, len);
  free(buf);
  return r;
}

struct Fmt {
  Image::Format f;
  uint8_t slot;
  const char* n;
};
static const Fmt FMTS[] = {{Image::Format::COLOR_PPM, SLOT_PPM, "ppm"}, {Image::Format::WINDOWS_BITMAP, SLOT_BMP, "bmp"},
                           {Image::Format::PNG, SLOT_PNG, "png"}};

// ---- object histories ----------------------------------------------------------------------------
// Every way an Image object can come to hold the case's pixels (or pixels derived from them), then save.
// "preserving" routes must save byte-for-byte what the directly constructed image saves; every route's
// files must decode / load back to the image state the object reports (judged by the Python side).
struct History {
  const Case& k;
  const Image& direct;
  const Saved* ref;  // saves of the directly constructed image, indexed like FMTS
  uint8_t route = 0;

  void check(const char* cls, const string& name, const Image& x, bool preserving) {
    route++;
    C->crumb("save case %u %s: history route %u %s (%s)", k.id, k.name.c_str(), route, cls, name.c_str());
    Img st = snapshot(x);
    {
      Rec r(R_ROUTE, k.id);
      r.u(route, 1).blob(cls).blob(name).u(preserving, 1);
      put_img(r, st);
      emit(r);
    }
    C->cls(fmt("history:%s", cls));
    for (unsigned i = 0; i < 3; i++) {
      C->evaluations++;
      Saved s = do_save(x, FMTS[i].f);
      uint8_t eq = 2;
      if (preserving) eq = (s.ok == ref[i].ok && s.bytes == ref[i].bytes) ? 0 : 1;
      Rec r(R_RSAVE, k.id);
      r.u(route, 1).u(FMTS[i].slot, 1).u(s.ok ? 0 : 1, 1).u(eq, 1);
      if (eq != 0) {  // identical to the direct save: nothing new to judge
        if (s.ok) r.blob(s.bytes);
        else r.blob(s.et).blob(s.ew.substr(0, 300));
      }
      emit(r);
      if (eq == 0 || !s.ok || FMTS[i].slot == SLOT_PNG) continue;
      Img back = load_stream(mem_stream(s.bytes, s.bytes.size()));
      Rec l(R_RLOAD, k.id);
      l.u(route, 1).u(FMTS[i].slot, 1);
      put_img(l, back);
      emit(l);
    }
  }

  // pre-existing destination images: default-constructed, every (width, alpha) at another size, another format at the same size
  struct Dest {
    string name;
    std::function<Image()> make;
  };
  std::vector<Dest> dests() const {
    std::vector<Dest> d;
    d.push_back({"default-constructed", []() { return Image(); }});
    size_t w = k.want.w, h = k.want.h;
    for (uint8_t cw : {8, 16, 32, 64})
      for (bool a : {false, true})
        d.push_back({fmt("%zux%zu cw%u%s", w + 1, h + 2, cw, a ? "a" : ""), [=]() { return Image(w + 1, h + 2, a, cw); }});
    uint8_t ocw = k.want.cw == 8 ? 16 : (k.want.cw == 64 ? 8 : k.want.cw * 2);
    bool oa = !k.want.alpha;
    d.push_back({fmt("same size cw%u%s", ocw, oa ? "a" : ""), [=]() { return Image(w, h, oa, ocw); }});
    return d;
  }

  void run() {
    const Img& w = k.want;
    {
      Image b(direct);
      check("copy-ctor", "Image b(a)", b, true);
    }
    {
      Image t(direct);
      Image m(std::move(t));
      check("move-ctor", "Image m(std::move(copy))", m, true);
    }
    for (auto& d : dests()) {
      {
        Image x = d.make();
        x = direct;
        check("copy-assign", "onto " + d.name, x, true);
      }
      {
        Image x = d.make();
        Image t(direct);
        x = std::move(t);
        check("move-assign", "onto " + d.name, x, true);
      }
    }
    {  // raw-data constructors
      FILE* f = mem_stream(w.data, w.data.size());
      Image r(f, w.w, w.h, w.alpha, w.cw);
      fclose(f);
      check("raw-load", "Image(FILE*, w, h, alpha, cw)", r, true);
      string path = tmp_path("raw");
      int fd = open(path.c_str(), O_WRONLY | O_CREAT | O_TRUNC, 0600);
      if (fd < 0) harness_error("open raw temp");
      write_all(fd, w.data.data(), w.data.size());
      close(fd);
      Image r2(path.c_str(), w.w, w.h, w.alpha, w.cw);
      check("raw-load", "Image(const char*, w, h, alpha, cw)", r2, true);
      Image r3(path, w.w, w.h, w.alpha, w.cw);
      check("raw-load", "Image(const std::string&, w, h, alpha, cw)", r3, true);
      unlink(path.c_str());
    }
    // an image that was loaded from what the direct image saved, and a copy-assignment of it
    for (unsigned i = 0; i < 2; i++) {
      if (!ref[i].ok) continue;
      FILE* f = mem_stream(ref[i].bytes, ref[i].bytes.size());
      std::unique_ptr<Image> lp;
      try {
        lp.reset(new Image(f));
      } catch (const std::exception&) {
      }
      fclose(f);
      // a rejected or altered reload is the direct round trip's finding (roundtrip:saved-*), not a history one
      if (!lp || !snapshot(*lp).same_as(w)) continue;
      Image& l = *lp;
      check("loaded", fmt("Image(FILE*) of the saved %s", FMTS[i].n), l, true);
      Image x(w.w + 2, w.h + 1, !w.alpha, w.cw == 8 ? 32 : 8);
      x = l;
      check("copy-assign", fmt("loaded %s onto %ux%u other format", FMTS[i].n, w.w + 2, w.h + 1), x, true);
    }
    // conversions from / to another format (pixel values follow set_channel_width / set_has_alpha, which are
    // not this property's business: these routes are judged against the state the object itself reports)
    for (uint8_t ocw : {8, 16, 32, 64}) {
      if (ocw == w.cw) continue;
      Image c2(direct);
      c2.set_channel_width(ocw);
      check("convert", fmt("set_channel_width(%u)", ocw), c2, false);
      c2.set_channel_width(w.cw);
      check("convert", fmt("set_channel_width(%u) and back to %u", ocw, w.cw), c2, false);
      Image y(3, 2, w.alpha, w.cw);
      y = c2;
      check("convert", fmt("copy-assign of the image converted via cw%u", ocw), y, false);
    }
    {
      Image c2(direct);
      c2.set_has_alpha(!w.alpha);
      check("convert", fmt("set_has_alpha(%d)", !w.alpha), c2, false);
      c2.set_has_alpha(w.alpha);
      check("convert", fmt("set_has_alpha(%d) and back", !w.alpha), c2, false);
    }
  }
};

static void run_save_case(const Case& k, size_t maxprefix) {
  const Img& w = k.want;
  C->crumb("save case %u %s: construct %ux%u alpha=%u cw=%u", k.id, k.name.c_str(), w.w, w.h, w.alpha, w.cw);
  Image im(w.w, w.h, w.alpha, w.cw);
  if (im.get_data_size() != w.data.size()) harness_error("save case: pixel array size does not match Image::get_data_size()");
  memcpy(im.get_data(), w.data.data(), w.data.size());

  Saved ref[3];
  for (unsigned i = 0; i < 3; i++) {
    const Fmt& f = FMTS[i];
    C->crumb("save case %u %s: save(%s) %ux%u alpha=%u cw=%u", k.id, k.name.c_str(), f.n, w.w, w.h, w.alpha, w.cw);
    C->evaluations++;
    ref[i] = do_save(im, f.f);
    const Saved& s = ref[i];
    // the other writers: save(FILE*), save(const char* filename), save(const std::string& filename)
    uint8_t via_stream = alt_save(s, [&]() { return save_via_stream(im, f.f); });
    // the path already holds a longer, unrelated file: saving must replace it, not append to or overlay it
    string path = tmp_path("save");
    auto prefill = [&]() {
      int fd = open(path.c_str(), O_WRONLY | O_CREAT | O_TRUNC, 0600);
      if (fd < 0) harness_error("open save temp");
      string junk(s.bytes.size() + 37, 'J');
      write_all(fd, junk.data(), junk.size());
      close(fd);
    };
    prefill();
    uint8_t via_cpath = alt_save(s, [&]() {
      im.save(path.c_str(), f.f);
      return read_file(path);
    });
    unlink(path.c_str());  // ... and the other entry point creates the file
    uint8_t via_spath = alt_save(s, [&]() {
      im.save(path, f.f);
      return read_file(path);
    });
    unlink(path.c_str());
    Rec r(R_SAVE, k.id);
    r.u(f.slot, 1).u(s.ok ? 0 : 1, 1);
    if (s.ok) r.blob(s.bytes);
    else r.blob(s.et).blob(s.ew.substr(0, 300));
    r.u(via_stream, 1).u(via_cpath, 1).u(via_spath, 1);
    emit(r);
    string fam = fmt("saved-%s-cw%u%s", f.n, w.cw, w.alpha ? "a" : "");
    C->cls(fmt("save:%s:cw%u:%s", f.n, w.cw, s.ok ? "ok" : "exc"));
    if (!s.ok || f.slot == SLOT_PNG) continue;  // phosg has no PNG loader
    // the image must not have been changed by saving
    if (im.get_data_size() != w.data.size() || memcmp(im.get_data(), w.data.data(), w.data.size()) != 0) {
      C->violation(fmt("save:%s:source-image-modified", f.n), "save() changed the in-memory image", k.name);
    }
    bool pre = (k.flags & F_PREFIX) && s.bytes.size() <= maxprefix;
    run_channels(k.id, f.slot, s.bytes, k.flags, pre, w, fam.c_str());
  }
  if (k.flags & F_HISTORY) {
    History h{k, im, ref};
    try {
      h.run();
    } catch (const std::exception& e) {
      // copying, converting or re-reading a valid image must not throw
      C->violation("history:unexpected-exception", fmt("%s: %s", demangle(typeid(e).name()).c_str(), e.what()),
                   fmt("%s after route %u", k.name.c_str(), h.route));
    }
  }
}

// ---- encoded-size ladder ---------------------------------------------------------------------------
// The size of a PNG's IDAT payload only emerges after deflate; no choice of dimensions steers it.  A ladder
// case carries a random byte array `base` (the full raster), a fill byte and a recipe `mode`; the raster
// with parameter L holds L bytes of `base` (prefix, suffix, or alternating with the fill byte) and the fill byte elsewhere, so the deflated size grows
// with L by about one byte per step.  For every target size T the parameter is steered by MEASURING what the
// real writer produced (sum of the IDAT chunk lengths in the saved file; for a second list of targets the total
// file length): bisection to the first L that
// reaches T-1, then every L of a dense window around it.  Every PNG produced on the way (bisection probes
// included) is dumped; the Python side rebuilds the raster from (base, mode, fill, L) on its own, decodes
// the file with its own decoder and notes which boundary sizes were hit.  The measurement below only steers.
static void ladder_pixels(string& out, const string& base, uint8_t mode, uint8_t fill, size_t L) {
  size_t n = base.size();
  out.assign(n, (char)fill);
  if (mode == 0) {  // random prefix, constant rest
    memcpy(&out[0], base.data(), L);
  } else if (mode == 1) {  // constant first, random suffix
    memcpy(&out[n - L], base.data() + (n - L), L);
  } else {  // random and constant bytes alternating over the first 2L bytes, constant rest (L <= ceil(n/2))
    for (size_t i = 0; i < n && i < 2 * L; i += 2) out[i] = base[i];
  }
}

// sum of the IDAT chunk lengths; -1 if the chunk framing cannot even be walked (steering only, never a verdict)
static int64_t measure_idat(const string& b) {
  size_t pos = 8;
  int64_t total = 0;
  while (pos + 12 <= b.size()) {
    uint32_t len = ((uint32_t)(uint8_t)b[pos] << 24) | ((uint32_t)(uint8_t)b[pos + 1] << 16) |
        ((uint32_t)(uint8_t)b[pos + 2] << 8) | (uint32_t)(uint8_t)b[pos + 3];
    if (len > b.size() || pos + 12 + len > b.size()) return -1;
    if (!memcmp(&b[pos + 4], "IDAT", 4)) total += len;
    if (!memcmp(&b[pos + 4], "IEND", 4)) return total;
    pos += 12 + (size_t)len;
  }
  return -1;
}

static void run_ladder_case(const Case& k, Rd& r) {
  const Img& w = k.want;
  uint8_t mode = r.u(1), fill = r.u(1);
  size_t window = r.u(2);
  uint32_t nt = r.u(4);
  std::vector<uint32_t> targets;
  for (uint32_t i = 0; i < nt; i++) targets.push_back(r.u(4));
  if (w.cw != 8) harness_error("ladder case: PNG needs 8-bit channels");
  const string& base = w.data;
  size_t n = base.size();
  size_t lmax = mode == 2 ? (n + 1) / 2 : n;
  // L -> (measured IDAT payload, file length); a target with bit 31 set steers the total file length instead
  std::map<size_t, std::pair<int64_t, int64_t>> seen;
  string px;
  auto probe = [&](size_t L, uint32_t target, uint8_t phase) -> int64_t {
    bool by_file = target & 0x80000000u;
    auto it = seen.find(L);
    if (it != seen.end()) return by_file ? it->second.second : it->second.first;
    ladder_pixels(px, base, mode, fill, L);
    C->crumb("ladder case %u %s: save(png) %ux%u alpha=%u mode=%u fill=%u L=%zu (target %u, phase %u)", k.id, k.name.c_str(),
             w.w, w.h, w.alpha, mode, fill, L, target, phase);
    C->evaluations++;
    Image im(w.w, w.h, w.alpha, 8);
    if (im.get_data_size() != n) harness_error("ladder case: pixel array size does not match Image::get_data_size()");
    memcpy(im.get_data(), px.data(), n);
    Saved s = do_save(im, Image::Format::PNG);
    uint8_t via_stream = alt_save(s, [&]() { return save_via_stream(im, Image::Format::PNG); });
    int64_t m = s.ok ? measure_idat(s.bytes) : -1;
    Rec rec(R_LADDER, k.id);
    rec.u(L, 4).u(target, 4).u(phase, 1).u(s.ok ? 0 : 1, 1);
    if (s.ok) rec.blob(s.bytes);
    else rec.blob(s.et).blob(s.ew.substr(0, 300));
    rec.u(via_stream, 1).u(m < 0 ? 0xFFFFFFFFu : (uint32_t)m, 4);
    emit(rec);
    int64_t flen = s.ok ? (int64_t)s.bytes.size() : -1;
    seen[L] = {m, flen};
    return by_file ? flen : m;
  };
  int64_t top = probe(lmax, 0, 0);
  probe(0, 0, 0);
  for (uint32_t target : targets) {
    int64_t T = target & 0x7FFFFFFFu;
    top = probe(lmax, target, 0);
    if (top < T + 1) {
      C->cls("ladder:target-unreachable");
      continue;
    }
    // smallest L whose file reaches T-1 (sizes are monotone in L up to a few bytes of noise)
    size_t lo = 0, hi = lmax;
    if (probe(0, target, 1) >= T - 1) hi = 0;
    while (hi - lo > 1) {
      size_t mid = lo + (hi - lo) / 2;
      if (probe(mid, target, 1) >= T - 1) hi = mid;
      else lo = mid;
    }
    size_t from = hi > window ? hi - window : 0;
    bool got[3] = {false, false, false};
    for (size_t L = from; L <= lmax; L++) {
      int64_t m = probe(L, target, 2);
      for (int d = 0; d < 3; d++)
        if (m == T - 1 + d) got[d] = true;
      if (L >= hi + window && ((got[0] && got[1] && got[2]) || L >= hi + 4 * window)) break;
    }
    C->cls(fmt("ladder:%s:mode%u:%s", (target >> 31) ? "file" : "idat", mode, (got[0] && got[1] && got[2]) ? "all-three" : (got[1] ? "exact" : "near")));
  }
}

int main(int argc, char** argv) {
  vf::Ctx& c = vf::init(argc, argv);
  C = &c;
  signal(SIGPIPE, SIG_IGN);  // a reader that throws early closes its end of the pipe while the feeder still writes
  string in = c.arg("in"), obs = c.arg("obs");
  if (in.empty() || obs.empty()) harness_error("need --arg in=<cases> --arg obs=<observations>");
  size_t start = strtoull(c.arg("start", "0").c_str(), nullptr, 10);
  size_t limit = strtoull(c.arg("limit", "0").c_str(), nullptr, 10);
  size_t maxprefix = strtoull(c.arg("maxprefix", "4096").c_str(), nullptr, 10);

  // The case file is mmap'd, not read into the heap: LSan scans the whole heap on every leak check.
  const uint8_t* raw = nullptr;
  size_t raw_size = 0;
  {
    int fd = open(in.c_str(), O_RDONLY);
    if (fd < 0) harness_error(fmt("cannot open %s: %s", in.c_str(), strerror(errno)));
    struct stat st;
    if (fstat(fd, &st) != 0) harness_error("fstat case file");
    raw_size = st.st_size;
    raw = (const uint8_t*)mmap(nullptr, raw_size ? raw_size : 1, PROT_READ, MAP_PRIVATE, fd, 0);
    if (raw == MAP_FAILED) harness_error("mmap case file");
    close(fd);
  }
  obs_fd = open(obs.c_str(), O_WRONLY | O_CREAT | O_APPEND, 0644);
  if (obs_fd < 0) harness_error(fmt("cannot open %s: %s", obs.c_str(), strerror(errno)));

  Rd rd{raw, raw + raw_size};
  if (rd.bytes(8) != "C06CASE1") harness_error("bad case file magic");
  uint32_t ncases = rd.u(4);
  size_t leakevery = strtoull(c.arg("leakevery", "32").c_str(), nullptr, 10);
  size_t done = 0, since_leak_check = 0;
  uint32_t batch_first_id = 0, last_id = 0;
  auto batch_leak_check = [&]() {
    if (!since_leak_check) return;
    c.crumb("LSan leak check after cases %u..%u", batch_first_id, last_id);
    bool leaked = leak_check();
    emit(Rec(R_LEAK, last_id).u(batch_first_id, 4).u(since_leak_check, 4).u(leaked, 1));
    since_leak_check = 0;
  };
  for (uint32_t idx = 0; idx < ncases; idx++) {
    uint32_t reclen = rd.u(4);
    Rd r{rd.p, rd.p + reclen};
    if ((size_t)(rd.end - rd.p) < reclen) harness_error("case record overruns file");
    rd.p += reclen;
    if (idx < start || !c.mine(idx)) continue;
    if (limit && done >= limit) break;
    done++;
    Case k;
    k.id = r.u(4);
    k.kind = r.u(1);
    k.flags = r.u(1);
    k.fam = r.bytes(r.u(2));
    k.name = r.bytes(r.u(2));
    k.want.ok = true;
    k.want.w = r.u(4);
    k.want.h = r.u(4);
    k.want.alpha = r.u(1);
    k.want.cw = r.u(1);
    k.want.data = r.bytes(r.u(4));
    if (k.kind == 0) k.file = r.bytes(r.u(4));

    emit(Rec(R_BEGIN, k.id).u(idx, 4));
    c.crumb("case %u idx %u [%s] %s", k.id, idx, k.fam.c_str(), k.name.c_str());
    if (k.kind == 0) {
      bool pre = (k.flags & F_PREFIX) && k.file.size() <= maxprefix;
      run_channels(k.id, SLOT_INPUT, k.file, k.flags, pre, k.want, k.fam.c_str());
    } else if (k.kind == 2) {
      run_ladder_case(k, r);
    } else {
      run_save_case(k, maxprefix);
    }
    emit(Rec(R_END, k.id).u(idx, 4));
    if (!since_leak_check) batch_first_id = k.id;
    last_id = k.id;
    if (++since_leak_check >= leakevery) batch_leak_check();
    if (c.samples.size() < 2) c.sample(fmt("[%s] %s", k.fam.c_str(), k.name.c_str()));
  }
  batch_leak_check();
  emit(Rec(R_DONE, 0).u(done, 4));
  close(obs_fd);
  return c.finish();
}
