// C06 — image codecs: executor for the Python-generated case files.
//
// The Python side (vf/oracles/c06.py) owns the pixel arrays, writes every input container itself
// and judges everything this program dumps.  This program only runs the real phosg code:
//   load cases: Image(FILE*) on the full file (fmemopen and/or a real truncated file), raw pixels
//               dumped; then EVERY prefix length 0..len-1 is loaded: exception, or decode compared
//               with the full decode (differing decodes are dumped); LSan recoverable leak check
//               after every `leakevery` cases (each LSan pass costs ~30 ms, so not after every file).
//   save cases: Image built from the given pixel array, save(COLOR_PPM|WINDOWS_BITMAP|PNG) bytes
//               dumped (string and FILE* writer compared), PPM/BMP loaded back (round trip), and the
//               saved PPM/BMP files get the same prefix enumeration.
// One process handles one (family file, shard); a sanitizer abort therefore only loses the rest of
// that family's shard (the orchestrator restarts it after the crashed case).
//
// args: in=<case file> obs=<observation file> start=<first case index> limit=<max cases>
//       maxprefix=<largest file length that gets the prefix enumeration>
#include <cxxabi.h>
#include <errno.h>
#include <sys/stat.h>
#include <sys/syscall.h>

#include <exception>
#include <stdexcept>
#include <string>
#include <typeinfo>

#include "Image.hh"
#include "common.hh"

#if defined(__SANITIZE_ADDRESS__)
#include <sanitizer/lsan_interface.h>
#define C06_HAVE_LSAN 1
#else
#define C06_HAVE_LSAN 0
#endif

using namespace std;
using phosg::Image;
using vf::fmt;

static vf::Ctx* C;

[[noreturn]] static void harness_error(const string& s) {
  fprintf(stderr, "[harness-error] c06: %s\n", s.c_str());
  exit(3);
}

// ------------------------------------------------------------------------------------------------
// little-endian field reader / record writer

struct Rd {
  const uint8_t* p;
  const uint8_t* end;
  uint64_t u(int n) {
    if (end - p < n) harness_error("case file truncated");
    uint64_t v = 0;
    for (int i = 0; i < n; i++) v |= (uint64_t)p[i] << (8 * i);
    p += n;
    return v;
  }
  string bytes(size_t n) {
    if ((size_t)(end - p) < n) harness_error("case file truncated (bytes)");
    string s((const char*)p, n);
    p += n;
    return s;
  }
};

struct Rec {
  string s;
  Rec(uint8_t type, uint32_t case_id) {
    u(type, 1);
    u(case_id, 4);
  }
  Rec& u(uint64_t v, int n) {
    for (int i = 0; i < n; i++) s.push_back((char)(v >> (8 * i)));
    return *this;
  }
  Rec& blob(const string& b) {  // u32 length + bytes
    u(b.size(), 4);
    s += b;
    return *this;
  }
};

static int obs_fd = -1;
static void emit(const Rec& r) {
  string out;
  uint32_t n = r.s.size();
  for (int i = 0; i < 4; i++) out.push_back((char)(n >> (8 * i)));
  out += r.s;
  const char* p = out.data();
  size_t left = out.size();
  while (left) {
    ssize_t w = write(obs_fd, p, left);
    if (w < 0) {
      if (errno == EINTR) continue;
      harness_error(fmt("write obs: %s", strerror(errno)));
    }
    p += w;
    left -= w;
  }
}

enum : uint8_t {
  R_BEGIN = 0,
  R_LOAD = 1,     // full-file load result
  R_PSUM = 2,     // prefix enumeration summary
  R_PDIFF = 3,    // a prefix that decoded to something else than the full decode
  R_SAVE = 4,     // bytes produced by save()
  R_RT = 5,       // round-trip load of saved bytes
  R_END = 6,      // case finished
  R_DONE = 7,     // process finished normally
  R_LEAK = 8,     // result of the LSan recoverable leak check over a batch of cases
};

// ------------------------------------------------------------------------------------------------

struct Img {
  bool ok = false;
  string exc_type, exc_what;
  uint32_t w = 0, h = 0;
  uint8_t alpha = 0, cw = 0;
  string data;
  bool same_as(const Img& o) const {
    return ok && o.ok && w == o.w && h == o.h && alpha == o.alpha && cw == o.cw && data == o.data;
  }
};

static string demangle(const char* n) {
  int st = 0;
  char* d = abi::__cxa_demangle(n, nullptr, nullptr, &st);
  string r = (st == 0 && d) ? d : n;
  free(d);
  return r;
}

static void put_img(Rec& r, const Img& im) {
  r.u(im.ok ? 0 : 1, 1);
  if (im.ok) {
    r.u(im.w, 4).u(im.h, 4).u(im.alpha, 1).u(im.cw, 1).blob(im.data);
  } else {
    r.blob(im.exc_type).blob(im.exc_what.substr(0, 300));
  }
}

enum StreamKind : uint8_t { S_MEM = 0, S_FILE = 1 };

// A real (unlinked) file that is cut to the wanted length for each load.
struct TruncFile {
  int fd = -1;
  void open_with(const string& bytes) {
    close_it();
    char path[] = "./c06_trunc_XXXXXX";
    fd = mkstemp(path);
    if (fd < 0) harness_error(fmt("mkstemp: %s", strerror(errno)));
    unlink(path);
    size_t off = 0;
    while (off < bytes.size()) {
      ssize_t w = write(fd, bytes.data() + off, bytes.size() - off);
      if (w <= 0) harness_error("write temp file");
      off += w;
    }
  }
  FILE* stream(size_t n) {
    if (ftruncate(fd, n) != 0) harness_error("ftruncate");
    if (lseek(fd, 0, SEEK_SET) != 0) harness_error("lseek");
    int d = dup(fd);
    if (d < 0) harness_error("dup");
    FILE* f = fdopen(d, "rb");
    if (!f) harness_error("fdopen");
    return f;
  }
  void close_it() {
    if (fd >= 0) close(fd);
    fd = -1;
  }
  ~TruncFile() { close_it(); }
};

static FILE* mem_stream(const string& bytes, size_t n) {
  FILE* f = n ? fmemopen((void*)bytes.data(), n, "rb") : nullptr;
  if (!f) {
    // zero-length prefix: fmemopen may refuse size 0; an empty stream is an empty stream
    f = fopen("/dev/null", "rb");
    if (!f) harness_error("cannot open /dev/null");
  }
  return f;
}

static Img load_stream(FILE* f) {
  Img r;
  try {
    Image im(f);
    r.ok = true;
    r.w = im.get_width();
    r.h = im.get_height();
    r.alpha = im.get_has_alpha();
    r.cw = im.get_channel_width();
    size_t n = im.get_data_size();
    if (n > (1u << 28)) harness_error("loaded image implausibly large");
    r.data.assign((const char*)im.get_data(), n);
  } catch (const std::exception& e) {
    r.exc_type = demangle(typeid(e).name());
    r.exc_what = e.what();
  } catch (...) {
    r.exc_type = "(non-std exception)";
  }
  fclose(f);
  return r;
}

static bool leak_check() {
#if C06_HAVE_LSAN
  return __lsan_do_recoverable_leak_check() != 0;
#else
  return false;
#endif
}

// Full load + prefix enumeration of one file through one stream kind.
// `want` is the decode to compare prefixes with when the full load itself failed.
static void run_file(uint32_t id, uint8_t slot, const string& file, uint8_t kind, bool prefixes, const Img& want,
                     const char* fam) {
  TruncFile tf;
  if (kind == S_FILE) tf.open_with(file);
  auto open_n = [&](size_t n) { return kind == S_FILE ? tf.stream(n) : mem_stream(file, n); };

  C->crumb_n(fam, id, file.size(), kind, slot, 1);
  C->evaluations++;
  Img full = load_stream(open_n(file.size()));
  {
    Rec r(R_LOAD, id);
    r.u(slot, 1).u(kind, 1);
    put_img(r, full);
    emit(r);
  }
  C->cls(fmt("load:%s:%s:%s", fam, kind == S_FILE ? "file" : "mem", full.ok ? "ok" : "exc"));
  if (!prefixes) return;

  const Img& ref = full.ok ? full : want;
  uint32_t n_exc = 0, n_same = 0, n_diff = 0;
  std::map<string, uint32_t> exc_types;
  // file kind goes downwards (ftruncate only ever shrinks, so the cut bytes are really gone)
  for (size_t k = 0; k < file.size(); k++) {
    size_t n = (kind == S_FILE) ? file.size() - 1 - k : k;
    C->crumb_n(fam, id, n, kind, slot, 2);
    C->evaluations++;
    Img r = load_stream(open_n(n));
    if (!r.ok) {
      n_exc++;
      exc_types[r.exc_type]++;
    } else if (r.same_as(ref)) {
      n_same++;
    } else {
      n_diff++;
      if (n_diff <= 3) {
        Rec d(R_PDIFF, id);
        d.u(slot, 1).u(kind, 1).u(n, 4);
        put_img(d, r);
        emit(d);
      }
    }
  }
  string et;
  for (auto& kv : exc_types) et += fmt("%s=%u;", kv.first.c_str(), kv.second);
  Rec s(R_PSUM, id);
  s.u(slot, 1).u(kind, 1).u(file.size(), 4).u(n_exc, 4).u(n_same, 4).u(n_diff, 4).u(full.ok, 1).blob(et);
  emit(s);
  C->cls(fmt("trunc:%s:%s", fam, kind == S_FILE ? "file" : "mem"), file.size());
}

struct Case {
  uint32_t id;
  uint8_t kind, flags;
  string fam, name;
  Img want;
  string file;
};

enum : uint8_t { F_PREFIX = 1, F_MEM = 2, F_FILE = 4 };
enum : uint8_t { SLOT_INPUT = 0, SLOT_PPM = 1, SLOT_BMP = 2, SLOT_PNG = 3 };

static string save_via_file(const Image& im, Image::Format fmt_) {
  char* buf = nullptr;
  size_t len = 0;
  FILE* f = open_memstream(&buf, &len);
  if (!f) harness_error("open_memstream");
  try {
    im.save(f, fmt_);
  } catch (...) {
    fclose(f);
    free(buf);
    throw;
  }
  fclose(f);
  string r(buf, len);
  free(buf);
  return r;
}

static void run_save_case(const Case& k, size_t maxprefix) {
  const Img& w = k.want;
  C->crumb("save case %u %s: construct %ux%u alpha=%u cw=%u", k.id, k.name.c_str(), w.w, w.h, w.alpha, w.cw);
  Image im(w.w, w.h, w.alpha, w.cw);
  if (im.get_data_size() != w.data.size()) harness_error("save case: pixel array size does not match Image::get_data_size()");
  memcpy(im.get_data(), w.data.data(), w.data.size());

  struct F {
    Image::Format f;
    uint8_t slot;
    const char* n;
  } fmts[] = {{Image::Format::COLOR_PPM, SLOT_PPM, "ppm"}, {Image::Format::WINDOWS_BITMAP, SLOT_BMP, "bmp"},
              {Image::Format::PNG, SLOT_PNG, "png"}};
  for (auto& f : fmts) {
    C->crumb("save case %u %s: save(%s) %ux%u alpha=%u cw=%u", k.id, k.name.c_str(), f.n, w.w, w.h, w.alpha, w.cw);
    C->evaluations++;
    string bytes, via_file;
    bool ok = false, file_ok = false;
    string et, ew;
    try {
      bytes = im.save(f.f);
      ok = true;
    } catch (const std::exception& e) {
      et = demangle(typeid(e).name());
      ew = e.what();
    }
    try {
      via_file = save_via_file(im, f.f);
      file_ok = true;
    } catch (const std::exception& e) {
      if (ok) {
        et = demangle(typeid(e).name());
        ew = e.what();
      }
    }
    Rec r(R_SAVE, k.id);
    r.u(f.slot, 1).u(ok ? 0 : 1, 1);
    if (ok) r.blob(bytes);
    else r.blob(et).blob(ew.substr(0, 300));
    // 0 = FILE* writer produced the same bytes, 1 = different bytes, 2 = one threw and the other did not
    r.u(ok != file_ok ? 2 : (ok && bytes != via_file ? 1 : 0), 1);
    emit(r);
    string fam = fmt("saved-%s-cw%u%s", f.n, w.cw, w.alpha ? "a" : "");
    C->cls(fmt("save:%s:cw%u:%s", f.n, w.cw, ok ? "ok" : "exc"));
    if (!ok || f.slot == SLOT_PNG) continue;  // phosg has no PNG loader
    // the image must not have been changed by saving
    if (im.get_data_size() != w.data.size() || memcmp(im.get_data(), w.data.data(), w.data.size()) != 0) {
      C->violation(fmt("save:%s:source-image-modified", f.n), "save() changed the in-memory image", k.name);
    }
    bool pre = (k.flags & F_PREFIX) && bytes.size() <= maxprefix;
    if (k.flags & F_MEM) run_file(k.id, f.slot, bytes, S_MEM, pre, w, fam.c_str());
    if (k.flags & F_FILE) run_file(k.id, f.slot, bytes, S_FILE, pre, w, fam.c_str());
  }
}

int main(int argc, char** argv) {
  vf::Ctx& c = vf::init(argc, argv);
  C = &c;
  string in = c.arg("in"), obs = c.arg("obs");
  if (in.empty() || obs.empty()) harness_error("need --arg in=<cases> --arg obs=<observations>");
  size_t start = strtoull(c.arg("start", "0").c_str(), nullptr, 10);
  size_t limit = strtoull(c.arg("limit", "0").c_str(), nullptr, 10);
  size_t maxprefix = strtoull(c.arg("maxprefix", "4096").c_str(), nullptr, 10);

  // The case file is mmap'd, not read into the heap: LSan scans the whole heap on every leak check.
  const uint8_t* raw = nullptr;
  size_t raw_size = 0;
  {
    int fd = open(in.c_str(), O_RDONLY);
    if (fd < 0) harness_error(fmt("cannot open %s: %s", in.c_str(), strerror(errno)));
    struct stat st;
    if (fstat(fd, &st) != 0) harness_error("fstat case file");
    raw_size = st.st_size;
    raw = (const uint8_t*)mmap(nullptr, raw_size ? raw_size : 1, PROT_READ, MAP_PRIVATE, fd, 0);
    if (raw == MAP_FAILED) harness_error("mmap case file");
    close(fd);
  }
  obs_fd = open(obs.c_str(), O_WRONLY | O_CREAT | O_APPEND, 0644);
  if (obs_fd < 0) harness_error(fmt("cannot open %s: %s", obs.c_str(), strerror(errno)));

  Rd rd{raw, raw + raw_size};
  if (rd.bytes(8) != "C06CASE1") harness_error("bad case file magic");
  uint32_t ncases = rd.u(4);
  size_t leakevery = strtoull(c.arg("leakevery", "32").c_str(), nullptr, 10);
  size_t done = 0, since_leak_check = 0;
  uint32_t batch_first_id = 0, last_id = 0;
  auto batch_leak_check = [&]() {
    if (!since_leak_check) return;
    c.crumb("LSan leak check after cases %u..%u", batch_first_id, last_id);
    bool leaked = leak_check();
    emit(Rec(R_LEAK, last_id).u(batch_first_id, 4).u(since_leak_check, 4).u(leaked, 1));
    since_leak_check = 0;
  };
  for (uint32_t idx = 0; idx < ncases; idx++) {
    uint32_t reclen = rd.u(4);
    Rd r{rd.p, rd.p + reclen};
    if ((size_t)(rd.end - rd.p) < reclen) harness_error("case record overruns file");
    rd.p += reclen;
    if (idx < start || !c.mine(idx)) continue;
    if (limit && done >= limit) break;
    done++;
    Case k;
    k.id = r.u(4);
    k.kind = r.u(1);
    k.flags = r.u(1);
    k.fam = r.bytes(r.u(2));
    k.name = r.bytes(r.u(2));
    k.want.ok = true;
    k.want.w = r.u(4);
    k.want.h = r.u(4);
    k.want.alpha = r.u(1);
    k.want.cw = r.u(1);
    k.want.data = r.bytes(r.u(4));
    if (k.kind == 0) k.file = r.bytes(r.u(4));

    emit(Rec(R_BEGIN, k.id).u(idx, 4));
    c.crumb("case %u idx %u [%s] %s", k.id, idx, k.fam.c_str(), k.name.c_str());
    if (k.kind == 0) {
      bool pre = (k.flags & F_PREFIX) && k.file.size() <= maxprefix;
      if (k.flags & F_MEM) run_file(k.id, SLOT_INPUT, k.file, S_MEM, pre, k.want, k.fam.c_str());
      if (k.flags & F_FILE) run_file(k.id, SLOT_INPUT, k.file, S_FILE, pre, k.want, k.fam.c_str());
    } else {
      run_save_case(k, maxprefix);
    }
    emit(Rec(R_END, k.id).u(idx, 4));
    if (!since_leak_check) batch_first_id = k.id;
    last_id = k.id;
    if (++since_leak_check >= leakevery) batch_leak_check();
    if (c.samples.size() < 2) c.sample(fmt("[%s] %s", k.fam.c_str(), k.name.c_str()));
  }
  batch_leak_check();
  emit(Rec(R_DONE, 0).u(done, 4));
  close(obs_fd);
  return c.finish();
}
