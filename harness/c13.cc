// C13 — KDTree equals a brute-force multiset under any insert / erase / erase-while-iterating history.
//
// Deciding step: run the real phosg::KDTree next to a vector-of-(point,value) multiset model and
//   (a) walk the tree's private structure after every operation (BSP invariant, back pointers,
//       child.dim, reachable count == node_count, reachable multiset == model),
//   (b) compare every public observation with a linear scan of the model (size, iteration,
//       at/exists(pt), within/exists(lo,hi) over half-open boxes, erase return value,
//       entries visited by begin()/++/erase_advance sweeps),
//   (c) destroy the tree in every state under ASan/LSan.
//
// Every public way of doing the stated operations is part of the workload: insertion through insert(pt,v) and
// through emplace(pt) (zero value arguments: the only form that instantiates; adds (pt, ValueType())), erasure through
// erase(pt,v), through erase_advance on a sweeping iterator and through erase_advance on the iterator that insert()
// returned; iteration with ++it, with `it++;`, with the value of `*it++`, with range-for, and with both
// `it != end` and `!(it == end())` loop tests.  The model is the same multiset for all of them.
//
// Parts (selected with --arg only=<part>):
//   exh      exhaustive insertion sequences (with repetition) from the 3x3 grid x all erase orders,
//            all erase_advance subset sweeps, destruction after every erase-order prefix
//   rnd      seeded random 300-op histories on 2-D grids of side 2..12 and 3-D grids of side 2..5
//   destroy  destruction of EMPTY trees (never used / emptied), each scenario in a forked child so
//            that a crash there becomes one stable key (destroy:empty-tree) and masks nothing else
//
// Private access: every std header used by KDTree.hh / KDTree-inl.hh is included first, then the
// phosg header is included with `private` redefined (header-only template, no ABI involved).
#include <inttypes.h>
#include <stdint.h>
#include <sys/types.h>
#include <sys/wait.h>

#include <algorithm>
#include <deque>
#include <exception>
#include <map>
#include <memory>
#include <stdexcept>
#include <string>
#include <utility>
#include <vector>

#include "Vector.hh"
#include "common.hh"

#define private public
#define protected public
#include "KDTree.hh"
#undef private
#undef protected

using namespace std;
using namespace phosg;
using vf::fmt;

static vf::Ctx* C;
static bool g_skip_empty_dtor = false;  // set when the forked probe shows ~KDTree() on an empty tree dies
static uint64_t g_eval = 0;

// ---------------------------------------------------------------------------------------------
// fast coverage-class counters (flushed into Ctx::classes at the end)

enum NodeKind { NK_LEAF = 0, NK_ONLY_BEFORE, NK_ONLY_AFTER, NK_BOTH, NK_ABSENT, NK_N };
static const char* NK_NAME[] = {"leaf", "only-before", "only-after", "both", "absent"};
// erase / erase_advance: [op 0/1][D-2][kind][tie 0/1][root 0/1]
static uint64_t cc_erase[2][2][NK_N][2][2];
// insert: [D-2][where: 0 root,1 before,2 after][rel: 0 notie,1 tie-on-split,2 duplicate-point]
static uint64_t cc_insert[2][3][3];
static uint64_t cc_emplace[2];
static map<string, uint64_t> cc_misc;  // low-frequency classes
static inline void misc(const char* k) {
  // called at most a few times per state; pointer-keyed cache keeps it cheap
  static map<const char*, uint64_t*> cache;
  auto it = cache.find(k);
  if (it == cache.end()) it = cache.emplace(k, &cc_misc[k]).first;
  (*it->second)++;
}

static void flush_classes() {
  for (int op = 0; op < 2; op++)
    for (int d = 0; d < 2; d++)
      for (int k = 0; k < NK_N; k++)
        for (int t = 0; t < 2; t++)
          for (int r = 0; r < 2; r++)
            if (cc_erase[op][d][k][t][r])
              C->cls(fmt("%s:%dd:%s:%s:%s", op ? "erase_advance" : "erase", d + 2, NK_NAME[k], t ? "tie" : "notie", r ? "root" : "inner"),
                  cc_erase[op][d][k][t][r]);
  static const char* wh[] = {"root", "before", "after"};
  static const char* rel[] = {"notie", "tie", "duplicate-point"};
  for (int d = 0; d < 2; d++)
    for (int w = 0; w < 3; w++)
      for (int r = 0; r < 3; r++)
        if (cc_insert[d][w][r]) C->cls(fmt("insert:%dd:%s:%s", d + 2, wh[w], rel[r]), cc_insert[d][w][r]);
  for (int d = 0; d < 2; d++)
    if (cc_emplace[d]) C->cls(fmt("insert:%dd:via-emplace", d + 2), cc_emplace[d]);
  for (auto& kv : cc_misc)
    if (kv.second) C->cls(kv.first, kv.second);
}

// ---------------------------------------------------------------------------------------------

template <int D>
struct PT;
template <>
struct PT<2> {
  typedef Vector2<int64_t> P;
  static P mk(const int64_t* c) { return P(c[0], c[1]); }
};
template <>
struct PT<3> {
  typedef Vector3<int64_t> P;
  static P mk(const int64_t* c) { return P(c[0], c[1], c[2]); }
};

struct Ent {
  int64_t c[3];
  int64_t v;
  bool operator<(const Ent& o) const {
    for (int i = 0; i < 3; i++)
      if (c[i] != o.c[i]) return c[i] < o.c[i];
    return v < o.v;
  }
  bool operator==(const Ent& o) const { return c[0] == o.c[0] && c[1] == o.c[1] && c[2] == o.c[2] && v == o.v; }
};

struct OpRec {
  char kind;  // 'i' insert, 'm' emplace, 'x' insert + erase_advance on the returned iterator, 'e' erase, 'a' erase_advance,
              // 's' sweep start, 'n' ++it, 'p' it++ (statement), 'q' *it++ (value used)
  Ent e;
  int ret;  // erase: returned value (0/1), -1 n/a
};

struct Box {
  int64_t lo[3], hi[3];
};

static inline void small_sort(vector<Ent>& v) {
  // insertion sort for the tiny vectors of the exhaustive part, std::sort otherwise
  if (v.size() > 12) {
    sort(v.begin(), v.end());
    return;
  }
  for (size_t i = 1; i < v.size(); i++) {
    Ent x = v[i];
    size_t j = i;
    while (j > 0 && x < v[j - 1]) {
      v[j] = v[j - 1];
      j--;
    }
    v[j] = x;
  }
}

enum Level {
  L_LIGHT = 0,   // return value + size only (state already fully checked earlier in the enumeration)
  L_WALK = 1,    // + structural walk (invariant, multiset == model)
  L_LOOKUP = 2,  // + iteration, at/exists for every point present in the model
  L_POINTS = 3,  // + at/exists for every query point (grid and off-grid, present or absent)
  L_FULL = 4,    // + within/exists(lo,hi) for every box in the box list, erase() of absent entries
};

template <int D>
struct Sim {
  typedef typename PT<D>::P P;
  typedef KDTree<P, int64_t> T;
  typedef typename T::Node Node;

  T* t = nullptr;
  vector<Ent> model;
  vector<OpRec> log;
  string header;  // describes the workload this history belongs to (or, lazily, the fields below)
  const char* h_what = nullptr;
  const int* h_pts = nullptr;
  int h_k = 0;
  bool h_constv = false;
  unsigned h_mask = 0;
  bool failed = false;
  bool diverged = false;  // erase() gave the wrong answer: stop observing this history
  bool used = false;
  const vector<Ent>* qpoints = nullptr;  // query points (v ignored)
  const vector<Box>* boxes = nullptr;
  // scratch
  vector<Ent> scratch, scratch2;
  size_t walk_count = 0;
  const char* walk_err = nullptr;
  string walk_detail;

  explicit Sim(const string& hdr) : header(hdr) {
    C->crumb_n("construct", D);
    t = new T();
    model.reserve(16);
    log.reserve(32);
  }
  ~Sim() {
    if (t) destroy();
  }
  Sim(const Sim&) = delete;
  Sim& operator=(const Sim&) = delete;
  // destroys the current tree (in whatever state it is) and starts a new history on a fresh one
  void reset(const char* what, const int* pts, int k, bool constv, unsigned mask = 0) {
    destroy();
    model.clear();
    log.clear();
    failed = false;
    diverged = false;
    used = false;
    h_what = what;
    h_pts = pts;
    h_k = k;
    h_constv = constv;
    h_mask = mask;
    C->crumb_n("construct", D);
    t = new T();
  }
  string make_header() const {
    if (!h_what) return header;
    string s = fmt("exh 3x3 2d %s values=%s", h_what, h_constv ? "constant" : "distinct");
    if (h_mask) s += fmt(" erase-visit-mask=0x%x", h_mask);
    s += " seq=[";
    for (int i = 0; i < h_k; i++) s += fmt("%s(%d,%d)", i ? " " : "", h_pts[i] / 3, h_pts[i] % 3);
    return s + "]";
  }

  static Ent ent(const P& p, int64_t v) {
    Ent e;
    e.c[0] = p.at(0);
    e.c[1] = p.at(1);
    e.c[2] = D > 2 ? p.at(2) : 0;
    e.v = v;
    return e;
  }
  static Ent entc(const int64_t* c, int64_t v) {
    Ent e;
    e.c[0] = c[0];
    e.c[1] = c[1];
    e.c[2] = D > 2 ? c[2] : 0;
    e.v = v;
    return e;
  }
  static string pstr(const int64_t* c) {
    return D == 2 ? fmt("(%" PRId64 ",%" PRId64 ")", c[0], c[1]) : fmt("(%" PRId64 ",%" PRId64 ",%" PRId64 ")", c[0], c[1], c[2]);
  }
  static string estr(const Ent& e) { return pstr(e.c) + fmt("=%" PRId64, e.v); }
  static string mstr(vector<Ent> v) {
    sort(v.begin(), v.end());
    string s = "{";
    for (size_t i = 0; i < v.size() && i < 40; i++) s += (i ? " " : "") + estr(v[i]);
    if (v.size() > 40) s += fmt(" ...(%zu entries)", v.size());
    return s + "}";
  }

  string describe() const {
    string s = make_header() + " history:";
    size_t start = 0;
    if (log.size() > 60) {
      start = log.size() - 60;
      s += fmt(" [%zu earlier ops omitted; replay by seed/index]", start);
    }
    for (size_t i = start; i < log.size(); i++) {
      const OpRec& o = log[i];
      switch (o.kind) {
        case 'i': s += " insert" + estr(o.e); break;
        case 'm': s += " emplace" + pstr(o.e.c); break;
        case 'x': s += " [it=insert" + estr(o.e) + "; erase_advance(it)]"; break;
        case 'p': s += " it++@" + estr(o.e); break;
        case 'q': s += " *it++@" + estr(o.e); break;
        case 'e': s += " erase" + estr(o.e) + (o.ret < 0 ? "" : o.ret ? "->true" : "->false"); break;
        case 's': s += " [it=begin()]"; break;
        case 'n': s += " ++it@" + estr(o.e); break;
        case 'a': s += " erase_advance@" + estr(o.e); break;
      }
    }
    s += " | model now " + mstr(model);
    return s;
  }

  void fail(const string& key, const string& what) {
    failed = true;
    auto it = C->viol_counts.find(key);
    if (it != C->viol_counts.end() && it->second >= 5) {
      it->second++;  // witness list for this key is full; count only (skips formatting the history)
      return;
    }
    C->violation(key, what, describe());
  }

  // ---- structure ----------------------------------------------------------------------------
  struct Bounds {
    int64_t lo[D], hi[D];
  };

  void walk_rec(Node* n, Node* parent, const Bounds& b, size_t depth, size_t limit) {
    if (walk_err) return;
    if (++walk_count > limit || depth > limit) {
      walk_err = "more-reachable-nodes-than-entries";
      return;
    }
    if (n->parent != parent) {
      walk_err = parent ? "child-parent-pointer" : "root-parent-not-null";
      walk_detail = "node " + pstr(ent(n->pt, 0).c);
      return;
    }
    if (n->dim >= (size_t)D) {
      walk_err = "dim-out-of-range";
      return;
    }
    if (parent && n->dim != (parent->dim + 1) % D) {
      walk_err = "child-dim-not-parent-dim-plus-1";
      walk_detail = "node " + pstr(ent(n->pt, 0).c) + fmt(" dim=%zu parent dim=%zu", n->dim, parent->dim);
      return;
    }
    Ent e = ent(n->pt, n->value);
    for (int d = 0; d < D; d++) {
      if (!(e.c[d] < b.hi[d])) {
        walk_err = "before-side-not-strictly-less";
        walk_detail = fmt("node %s lies in a `before` subtree of an ancestor whose split coordinate on dim %d is %" PRId64, estr(e).c_str(), d, b.hi[d]);
        return;
      }
      if (!(e.c[d] >= b.lo[d])) {
        walk_err = "after-side-less-than-split";
        walk_detail = fmt("node %s lies in an `after_or_equal` subtree of an ancestor whose split coordinate on dim %d is %" PRId64, estr(e).c_str(), d, b.lo[d]);
        return;
      }
    }
    scratch.push_back(e);
    if (n->before) {
      Bounds nb = b;
      if (e.c[n->dim] < nb.hi[n->dim]) nb.hi[n->dim] = e.c[n->dim];
      walk_rec(n->before, n, nb, depth + 1, limit);
    }
    if (n->after_or_equal) {
      Bounds nb = b;
      if (e.c[n->dim] > nb.lo[n->dim]) nb.lo[n->dim] = e.c[n->dim];
      walk_rec(n->after_or_equal, n, nb, depth + 1, limit);
    }
  }

  // returns true if the structure is sound and holds exactly the model
  bool walk(const char* op) {
    g_eval++;
    scratch.clear();
    walk_count = 0;
    walk_err = nullptr;
    walk_detail.clear();
    size_t limit = model.size() + t->node_count + 8;
    if (t->root) {
      Bounds b;
      for (int d = 0; d < D; d++) {
        b.lo[d] = INT64_MIN;
        b.hi[d] = INT64_MAX;
      }
      walk_rec(t->root, nullptr, b, 0, limit);
    }
    if (!walk_err && walk_count != t->node_count) {
      walk_err = "reachable-count-differs-from-node_count";
      walk_detail = fmt("reachable=%zu node_count=%zu", walk_count, t->node_count);
    }
    if (!walk_err) {
      scratch2 = model;
      small_sort(scratch);
      small_sort(scratch2);
      if (!(scratch == scratch2)) {
        walk_err = "reachable-multiset-differs-from-model";
        walk_detail = "tree holds " + mstr(scratch);
      }
    }
    if (walk_err) {
      fail(fmt("invariant:%s:after-%s", walk_err, op), string("structural walk failed: ") + walk_err + (walk_detail.empty() ? "" : " - " + walk_detail));
      return false;
    }
    return true;
  }

  // node that erase(pt,v) reaches on its single search path (harness replica used only to label coverage classes)
  Node* locate(const Ent& e) const {
    P p = PT<D>::mk(e.c);
    for (Node* n = t->root; n;) {
      if (n->pt == p && n->value == e.v) return n;
      n = (p.at(n->dim) < n->pt.at(n->dim)) ? n->before : n->after_or_equal;
    }
    return nullptr;
  }
  // coverage label only: do two nodes among n and its descendants share a coordinate on n's split axis?
  // (that is the situation in which picking "the" extreme of a subtree is ambiguous); bounded work
  static bool subtree_has_tie(Node* n) {
    int64_t vals[24];
    int nv = 0;
    Node* st[64];
    int sp = 0;
    size_t dim = n->dim;
    st[sp++] = n;
    while (sp > 0 && nv < 24) {
      Node* x = st[--sp];
      int64_t v = x->pt.at(dim);
      for (int i = 0; i < nv; i++)
        if (vals[i] == v) return true;
      vals[nv++] = v;
      if (x->before && sp < 63) st[sp++] = x->before;
      if (x->after_or_equal && sp < 63) st[sp++] = x->after_or_equal;
    }
    return false;
  }
  void classify_erase(int op, Node* n) {
    if (!n) {
      cc_erase[op][D - 2][NK_ABSENT][0][0]++;
      return;
    }
    int k = n->before ? (n->after_or_equal ? NK_BOTH : NK_ONLY_BEFORE) : (n->after_or_equal ? NK_ONLY_AFTER : NK_LEAF);
    bool tie = k != NK_LEAF && subtree_has_tie(n);
    cc_erase[op][D - 2][k][tie][n->parent == nullptr]++;
  }

  // ---- operations ---------------------------------------------------------------------------
  // use_emplace: t->emplace(pt) instead of t->insert(pt, v); only possible for v == 0 (value-initialised value)
  void op_insert(const int64_t* c, int64_t v, Level lv, bool use_emplace = false) {
    if (v != 0) use_emplace = false;
    Ent e = entc(c, v);
    if (lv >= L_WALK) {
      // classify where it will land
      int where = 0, rel = 0;
      if (t->root) {
        Node* n = t->root;
        P p = PT<D>::mk(c);
        for (;;) {
          bool before = p.at(n->dim) < n->pt.at(n->dim);
          Node* nx = before ? n->before : n->after_or_equal;
          if (!nx) {
            where = before ? 1 : 2;
            rel = (n->pt == p) ? 2 : (p.at(n->dim) == n->pt.at(n->dim) ? 1 : 0);
            break;
          }
          n = nx;
        }
        if (rel != 2)
          for (auto& m : model)
            if (m.c[0] == e.c[0] && m.c[1] == e.c[1] && m.c[2] == e.c[2]) {
              rel = 2;
              break;
            }
      }
      cc_insert[D - 2][where][rel]++;
    }
    C->crumb_n("insert", D, (uint64_t)c[0], (uint64_t)c[1], D > 2 ? (uint64_t)c[2] : 0, (uint64_t)v, log.size());
    g_eval++;
    used = true;
    char kind = use_emplace ? 'm' : 'i';
    Ent got;
    try {
      // the returned iterator is positioned on the new entry
      if (use_emplace) {
        auto it = t->emplace(PT<D>::mk(c));
        got = ent(it->first, it->second);
      } else {
        auto it = t->insert(PT<D>::mk(c), v);
        got = ent((*it).first, (*it).second);
      }
    } catch (const std::exception& ex) {
      log.push_back({kind, e, -1});
      fail(use_emplace ? "emplace:unexpected-exception" : "insert:unexpected-exception", string("threw ") + ex.what());
      return;
    }
    model.push_back(e);
    log.push_back({kind, e, -1});
    if (use_emplace) cc_emplace[D - 2]++;
    if (!(got == e))
      fail(use_emplace ? "emplace:returned-iterator-wrong-entry" : "insert:returned-iterator-wrong-entry",
          "the iterator returned for the new entry " + estr(e) + " dereferences to " + estr(got));
    if (t->size() != model.size())
      fail(use_emplace ? "size:mismatch:after-emplace" : "size:mismatch:after-insert", fmt("size()=%zu, model has %zu", t->size(), model.size()));
    if (lv >= L_WALK) walk(use_emplace ? "emplace" : "insert");
  }

  // it = insert(pt, v); erase_advance(it): erasing through the iterator that insert returned removes exactly the new
  // entry again (it is a leaf), leaves the iterator at end(), and the tree holds what it held before
  void op_insert_then_erase_via_iterator(const int64_t* c, int64_t v) {
    Ent e = entc(c, v);
    C->crumb_n("insert+erase_advance", D, (uint64_t)c[0], (uint64_t)c[1], D > 2 ? (uint64_t)c[2] : 0, (uint64_t)v, log.size());
    g_eval++;
    used = true;
    log.push_back({'x', e, -1});
    auto it = t->insert(PT<D>::mk(c), v);
    if (t->size() != model.size() + 1) fail("size:mismatch:after-insert", fmt("size()=%zu, model has %zu", t->size(), model.size() + 1));
    t->erase_advance(it);
    if (!(it == t->end()))
      fail("erase_advance:returned-iterator-not-at-end", "after erase_advance on the iterator returned by insert (a leaf) the iterator must equal end()");
    if (t->size() != model.size()) fail("size:mismatch:after-erase_advance", fmt("size()=%zu, model has %zu", t->size(), model.size()));
    walk("erase_advance");
    misc(D == 2 ? "erase:2d:via-iterator-returned-by-insert" : "erase:3d:via-iterator-returned-by-insert");
  }

  bool model_remove(const Ent& e) {
    for (size_t i = 0; i < model.size(); i++)
      if (model[i] == e) {
        model[i] = model.back();
        model.pop_back();
        return true;
      }
    return false;
  }

  void op_erase(const int64_t* c, int64_t v, Level lv) {
    Ent e = entc(c, v);
    if (lv >= L_WALK) classify_erase(0, locate(e));
    C->crumb_n("erase", D, (uint64_t)c[0], (uint64_t)c[1], D > 2 ? (uint64_t)c[2] : 0, (uint64_t)v, log.size());
    g_eval++;
    bool got;
    try {
      got = t->erase(PT<D>::mk(c), v);
    } catch (const std::exception& ex) {
      log.push_back({'e', e, -1});
      fail("erase:unexpected-exception", string("erase threw ") + ex.what());
      return;
    }
    bool expect = model_remove(e);
    log.push_back({'e', e, got ? 1 : 0});
    if (got != expect) {
      fail(expect ? "erase:returned-false-for-present-entry" : "erase:returned-true-for-absent-entry",
          "erase" + estr(e) + fmt(" returned %s; a linear scan of the model %s the entry", got ? "true" : "false", expect ? "finds" : "does not find"));
      // the model follows the specification (entry removed iff it existed), so from here on tree and model differ by
      // exactly this entry; a symptom sweep would only restate that as extra/missing entries
      diverged = true;
      return;
    } else if (t->size() != model.size()) fail("size:mismatch:after-erase", fmt("size()=%zu, model has %zu", t->size(), model.size()));
    if (lv >= L_WALK) walk("erase");
  }

  // begin()/++/erase_advance sweep; decide(i, entry) says whether the i-th visited entry is erased.
  // incform: how the iterator moves past an entry that is kept and how the loop tests for the end:
  //   0: ++it, `it != end` (end cached)   1: it++; (statement), `!(it == t->end())`
  //   2: the value of `*it++` is used (must be the entry the iterator was on), `it != t->end()`
  template <typename F>
  void op_sweep(F decide, Level lv, int incform = 0) {
    vector<Ent> pre = model, visited;
    size_t guard = pre.size() + t->node_count + 8, i = 0, erased = 0;
    C->crumb_n("sweep-begin", D, log.size());
    log.push_back({'s', Ent{{0, 0, 0}, 0}, -1});
    auto it = t->begin();
    auto end = t->end();
    for (;;) {
      bool at_end = incform == 0 ? !(it != end) : incform == 1 ? (it == t->end()) : !(it != t->end());
      if (at_end) break;
      if (i > guard) {
        fail("erase_advance:sweep-does-not-terminate", fmt("visited %zu entries of a tree that held %zu", i, pre.size()));
        break;
      }
      Ent e = ent(it->first, it->second);
      visited.push_back(e);
      g_eval++;
      if (decide(i, e)) {
        if (lv >= L_WALK) classify_erase(1, it.pending.empty() ? nullptr : it.pending.front());
        C->crumb_n("erase_advance", D, (uint64_t)e.c[0], (uint64_t)e.c[1], (uint64_t)e.c[2], (uint64_t)e.v, log.size());
        bool known = model_remove(e);
        t->erase_advance(it);
        log.push_back({'a', e, -1});
        erased++;
        if (!known) {
          fail("erase_advance:visited-entry-not-in-model", "iterator yielded " + estr(e) + " which the model does not hold (any more)");
          break;
        }
        if (t->size() != model.size()) fail("size:mismatch:after-erase_advance", fmt("size()=%zu, model has %zu", t->size(), model.size()));
        if (lv >= L_WALK) walk("erase_advance");
        if (failed) break;
      } else {
        C->crumb_n(incform == 0 ? "++it" : incform == 1 ? "it++" : "*it++", D, (uint64_t)e.c[0], (uint64_t)e.c[1], (uint64_t)e.c[2], (uint64_t)e.v, log.size());
        if (incform == 0) {
          ++it;
          log.push_back({'n', e, -1});
        } else if (incform == 1) {
          it++;
          log.push_back({'p', e, -1});
        } else {
          auto pr = *it++;
          Ent e2 = ent(pr.first, pr.second);
          log.push_back({'q', e, -1});
          if (!(e2 == e)) {
            fail("iterate:post-increment-returns-wrong-entry", "`*it++` on an iterator positioned on " + estr(e) + " yielded " + estr(e2));
            break;
          }
        }
      }
      i++;
    }
    misc(incform == 0 ? "sweep-form:pre-increment" : incform == 1 ? "sweep-form:post-increment-statement" : "sweep-form:post-increment-value");
    if (!failed) {
      small_sort(pre);
      small_sort(visited);
      if (!(pre == visited))
        fail("erase_advance:sweep-visit-mismatch", "a begin()/++/erase_advance sweep must yield every entry exactly once; it yielded " + mstr(visited) + " from a tree holding " + mstr(pre));
    }
    misc(erased == 0 ? (D == 2 ? "sweep:2d:erase-none" : "sweep:3d:erase-none")
                     : erased == pre.size() ? (D == 2 ? "sweep:2d:erase-all" : "sweep:3d:erase-all")
                                            : (D == 2 ? "sweep:2d:erase-some" : "sweep:3d:erase-some"));
  }

  // ---- observations -------------------------------------------------------------------------
  // form 0: for (it = begin(); it != end; ++it)      form 1: range-for
  // form 2: while (!(it == end())) use(*it++)         form 3: while (it != end) { use(*it); it++; }
  void check_iteration_form(int form) {
    static const char* KEY[] = {"iterate:multiset-mismatch", "iterate:range-for:multiset-mismatch",
        "iterate:post-increment-value:multiset-mismatch", "iterate:post-increment-statement:multiset-mismatch"};
    static const char* CLS[] = {"iterate-form:pre-increment", "iterate-form:range-for", "iterate-form:post-increment-value", "iterate-form:post-increment-statement"};
    g_eval++;
    scratch.clear();
    size_t guard = model.size() + t->node_count + 8, n = 0;
    C->crumb_n("iterate", D, log.size(), (uint64_t)form);
    bool runaway = false;
    switch (form) {
      case 0: {
        auto end = t->end();
        for (auto it = t->begin(); it != end; ++it) {
          if (++n > guard) { runaway = true; break; }
          scratch.push_back(ent(it->first, it->second));
        }
        break;
      }
      case 1: {
        for (const auto& pr : *t) {
          if (++n > guard) { runaway = true; break; }
          scratch.push_back(ent(pr.first, pr.second));
        }
        break;
      }
      case 2: {
        auto it = t->begin();
        while (!(it == t->end())) {
          if (++n > guard) { runaway = true; break; }
          auto pr = *it++;
          scratch.push_back(ent(pr.first, pr.second));
        }
        break;
      }
      default: {
        auto it = t->begin();
        auto end = t->end();
        while (it != end) {
          if (++n > guard) { runaway = true; break; }
          scratch.push_back(ent((*it).first, (*it).second));
          it++;
        }
        break;
      }
    }
    if (runaway) {
      fail("iterate:does-not-terminate", fmt("more than %zu entries yielded (iteration form %d)", guard, form));
      return;
    }
    scratch2 = model;
    small_sort(scratch);
    small_sort(scratch2);
    if (!(scratch == scratch2)) fail(KEY[form], string(CLS[form]) + " yields " + mstr(scratch));
    if (t->size() != model.size()) fail("size:mismatch", fmt("size()=%zu, model has %zu", t->size(), model.size()));
    misc(CLS[form]);
  }
  // all four forms, or one of them in rotation
  void check_iteration(bool all_forms = false) {
    static unsigned rot = 0;
    if (all_forms) {
      for (int f = 0; f < 4; f++) check_iteration_form(f);
    } else {
      check_iteration_form((int)(rot++ & 3));
    }
  }

  void check_point(const int64_t* c) {
    g_eval++;
    P p = PT<D>::mk(c);
    // linear scan
    int64_t vals[8];
    size_t nv = 0, total = 0;
    for (auto& m : model)
      if (m.c[0] == c[0] && m.c[1] == c[1] && (D == 2 || m.c[2] == c[2])) {
        if (nv < 8) vals[nv++] = m.v;
        total++;
      }
    C->crumb_n("at", D, (uint64_t)c[0], (uint64_t)c[1], D > 2 ? (uint64_t)c[2] : 0, log.size());
    bool found = false, value_ok = false;
    int64_t got = 0;
    try {
      got = t->at(p);
      found = true;
    } catch (const std::out_of_range&) {
    } catch (const std::exception& ex) {
      fail("at:unexpected-exception", "at" + pstr(c) + " threw " + ex.what());
      return;
    }
    if (found) {
      for (size_t i = 0; i < nv; i++) value_ok |= (vals[i] == got);
      if (total > 8 && !value_ok)
        for (auto& m : model) value_ok |= (m.c[0] == c[0] && m.c[1] == c[1] && (D == 2 || m.c[2] == c[2]) && m.v == got);
    }
    if (total && !found)
      fail("at:false-negative", "at" + pstr(c) + " threw out_of_range although the tree holds an entry at that point");
    else if (!total && found)
      fail("at:false-positive", "at" + pstr(c) + fmt(" returned %" PRId64 " although no entry has that point", got));
    else if (found && !value_ok)
      fail("at:wrong-value", "at" + pstr(c) + fmt(" returned %" PRId64 " which is not the value of any entry at that point", got));
    C->crumb_n("exists", D, (uint64_t)c[0], (uint64_t)c[1], D > 2 ? (uint64_t)c[2] : 0, log.size());
    bool ex;
    try {
      ex = t->exists(p);
    } catch (const std::exception& e2) {
      fail("exists-point:unexpected-exception", "exists" + pstr(c) + " threw " + e2.what());
      return;
    }
    if (ex != (total != 0))
      fail(total ? "exists-point:false-negative" : "exists-point:false-positive", "exists" + pstr(c) + fmt(" = %s, linear scan finds %zu entries", ex ? "true" : "false", total));
    misc(total ? (total > 1 ? "at:hit-duplicate-point" : "at:hit") : "at:miss");
  }

  void check_present_points() {
    // every distinct point of the model
    scratch2 = model;
    small_sort(scratch2);
    for (size_t i = 0; i < scratch2.size(); i++) {
      if (i && scratch2[i].c[0] == scratch2[i - 1].c[0] && scratch2[i].c[1] == scratch2[i - 1].c[1] && scratch2[i].c[2] == scratch2[i - 1].c[2]) continue;
      Ent e = scratch2[i];  // copy: check_point does not touch scratch2, but keep it simple
      check_point(e.c);
      if (failed) return;
    }
  }

  void check_box(const Box& b) {
    g_eval++;
    scratch.clear();
    for (auto& m : model) {
      bool in = true;
      for (int d = 0; d < D; d++) in &= (m.c[d] >= b.lo[d] && m.c[d] < b.hi[d]);
      if (in) scratch.push_back(m);
    }
    P lo = PT<D>::mk(b.lo), hi = PT<D>::mk(b.hi);
    auto bstr = [&]() { return "[" + pstr(b.lo) + "," + pstr(b.hi) + ")"; };
    C->crumb_n("within", D, (uint64_t)b.lo[0], (uint64_t)b.lo[1], (uint64_t)b.hi[0], (uint64_t)b.hi[1], log.size());
    bool threw = false;
    vector<pair<P, int64_t>> res;
    try {
      res = t->within(lo, hi);
    } catch (const std::out_of_range&) {
      threw = true;
    } catch (const std::exception& ex) {
      fail("within:unexpected-exception", "within" + bstr() + " threw " + ex.what());
      return;
    }
    if (threw) {
      // not demanded: within() on an EMPTY tree may throw out_of_range (explicit in the code) or return {}
      if (!model.empty())
        fail("within:throws-on-non-empty-tree", "within" + bstr() + " threw out_of_range on a tree holding " + mstr(model));
      else
        misc("within:empty-tree:throws");
    } else {
      scratch2.clear();
      for (auto& r : res) scratch2.push_back(ent(r.first, r.second));
      small_sort(scratch);
      small_sort(scratch2);
      if (!(scratch == scratch2)) {
        bool missing = false;
        // missing if some expected entry is not in the result (multiset sense), else extra
        vector<Ent> diff;
        set_difference(scratch.begin(), scratch.end(), scratch2.begin(), scratch2.end(), back_inserter(diff));
        missing = !diff.empty();
        fail(missing ? "within:missing-entry" : "within:extra-entry", "within" + bstr() + " returned " + mstr(scratch2) + ", linear scan gives " + mstr(scratch));
      }
      if (model.empty()) misc("within:empty-tree:returns-empty");
      else misc(scratch.empty() ? "within:result-empty" : scratch.size() == model.size() ? "within:result-all" : "within:result-some");
    }
    C->crumb_n("exists-box", D, (uint64_t)b.lo[0], (uint64_t)b.lo[1], (uint64_t)b.hi[0], (uint64_t)b.hi[1], log.size());
    bool ex;
    try {
      ex = t->exists(lo, hi);
    } catch (const std::exception& e2) {
      fail("exists-box:unexpected-exception", "exists" + bstr() + " threw " + e2.what());
      return;
    }
    // recompute expectation (scratch may have been sorted, size is what matters)
    if (ex != !scratch.empty())
      fail(scratch.empty() ? "exists-box:false-positive" : "exists-box:false-negative", "exists" + bstr() + fmt(" = %s, linear scan finds %zu entries", ex ? "true" : "false", scratch.size()));
    misc(scratch.empty() ? "exists-box:false" : "exists-box:true");
  }

  // erase() of entries that are not there must return false and change nothing
  void check_absent_erases() {
    if (!qpoints) return;
    for (auto& q : *qpoints) {
      Ent e = q;
      e.v = 987654321;  // no workload ever inserts this value
      op_erase(e.c, e.v, L_LIGHT);
      log.pop_back();  // a correct no-op; keep witnesses short (a failure was already recorded with it)
      if (failed) return;
    }
    misc("erase:absent-value-sweep");
  }

  // Observations on the current state.  If the operation that produced it already failed (walk or return
  // value), the full sweep still runs once so that the observable symptoms of the same state are recorded
  // next to the structural finding; the caller then abandons the history (model and tree may have diverged).
  void check_state(Level lv) {
    bool was_failed = failed;
    if (diverged) return;
    if (was_failed) {
      // symptom sweep for a failing state: bounded per process, so that a tree on which a large share of all
      // histories fail (6-point stage on the unrepaired tree: ~10^8 of them) still finishes; the primary key is
      // counted for every failing history regardless
      static uint64_t symptom_sweeps = 0;
      if (++symptom_sweeps > 3000) return;
      lv = L_FULL;
    }
    if (lv < L_LOOKUP) return;
    failed = false;
    check_iteration(lv >= L_POINTS);
    if (lv >= L_POINTS && qpoints) {
      for (auto& q : *qpoints) check_point(q.c);
    } else {
      check_present_points();
    }
    if (lv >= L_FULL && boxes)
      for (auto& b : *boxes) check_box(b);
    if (lv >= L_FULL && !was_failed && !failed) {
      check_absent_erases();
      if (!failed) walk("erase-of-absent-entry");
    }
    failed |= was_failed;
  }

  void destroy() {
    if (!t) return;
    bool empty = (t->root == nullptr);
    const char* k;
    if (empty) k = used ? (D == 2 ? "destroy:2d:emptied" : "destroy:3d:emptied") : (D == 2 ? "destroy:2d:never-used" : "destroy:3d:never-used");
    else k = D == 2 ? "destroy:2d:non-empty" : "destroy:3d:non-empty";
    g_eval++;
    if (empty && g_skip_empty_dtor) {
      // ~KDTree() on an empty tree is known (from the forked probe, reported by the `destroy` part under
      // key destroy:empty-tree) to crash on this source tree; running it here would only mask every other
      // observation of this shard.  Nothing is owned by an empty tree, so the storage is released raw.
      ::operator delete(t);
      t = nullptr;
      misc("destroy:empty-skipped-because-probe-crashed");
      return;
    }
    C->crumb_n(k, D, log.size(), model.size());
    delete t;
    t = nullptr;
    misc(k);
  }
};

// ---------------------------------------------------------------------------------------------
// query sets

static vector<Ent> grid_points(int D, int side, bool ring) {
  vector<Ent> r;
  int lo = ring ? -1 : 0, hi = ring ? side : side - 1;
  for (int x = lo; x <= hi; x++)
    for (int y = lo; y <= hi; y++)
      for (int z = (D > 2 ? lo : 0); z <= (D > 2 ? hi : 0); z++) r.push_back(Ent{{x, y, z}, 0});
  return r;
}

// per-axis intervals: every proper half-open interval [lo,hi) with 0<=lo<hi<=side, plus `extra`
static vector<pair<int, int>> axis_intervals(int side, bool degenerate) {
  vector<pair<int, int>> r;
  for (int lo = 0; lo <= side; lo++)
    for (int hi = lo + 1; hi <= side; hi++) r.push_back({lo, hi});
  if (degenerate) {
    r.push_back({1, 1});                    // empty
    r.push_back({side - 1, side > 2 ? 1 : 0});  // inverted
  }
  return r;
}

static vector<Box> all_boxes(int D, int side, bool degenerate) {
  auto iv = axis_intervals(side, degenerate);
  vector<Box> r;
  for (auto& a : iv)
    for (auto& b : iv) {
      if (D == 2) {
        r.push_back(Box{{a.first, b.first, 0}, {a.second, b.second, 0}});
      } else {
        for (auto& c : iv) r.push_back(Box{{a.first, b.first, c.first}, {a.second, b.second, c.second}});
      }
    }
  return r;
}

// ---------------------------------------------------------------------------------------------
// part exh: exhaustive histories on the 3x3 grid

struct ExhStats {
  uint64_t sequences = 0, histories = 0, erase_states_checked = 0, full_sweeps = 0, sweep_masks = 0, destroy_states = 0, orders_skipped = 0, insert_phase_runs = 0;
};
static ExhStats XS;

static const vector<Ent>* EXH_QP;
static const vector<Box>* EXH_BOXES;

static inline void pt_of(int idx, int64_t* c) {
  c[0] = idx / 3;
  c[1] = idx % 3;
  c[2] = 0;
}

static Sim<2>* XSIM;  // one simulator reused for all exhaustive histories (reset() destroys + recreates the tree)

// Builds the tree for `pts` with light checks (its states were fully checked by exh_insert_phase).
// emask bit i: insertion i goes through emplace(pt) (possible where the value is 0: every insertion of the constant
// scheme, the first insertion of the distinct scheme)
static void build(Sim<2>& s, const int* pts, int k, bool constv, Level lv, unsigned emask) {
  for (int i = 0; i < k && !s.failed; i++) {
    int64_t c[3];
    pt_of(pts[i], c);
    s.op_insert(c, constv ? 0 : i, lv, ((emask >> i) & 1) != 0);
  }
}

// (1) the insertion itself: walk after every insert, observation sweep on the state after the last insert
// (the states after the earlier inserts are the final states of the shorter sequences, enumerated too)
// every choice of insert/emplace for the insertions whose value is 0 is enumerated here (2^k for the constant scheme,
// 2 for the distinct scheme)
static void exh_insert_phase(const int* pts, int k, bool constv, Level lv) {
  Sim<2>& s = *XSIM;
  if (k == 0) {
    s.reset("insert-phase", pts, k, constv);
    s.walk("construct");
    s.check_state(L_FULL);
    return;
  }
  unsigned nmask = constv ? (1u << k) : 2u;
  for (unsigned emask = 0; emask < nmask; emask++) {
    s.reset("insert-phase", pts, k, constv);
    for (int i = 0; i < k && !s.failed; i++) {
      int64_t c[3];
      pt_of(pts[i], c);
      s.op_insert(c, constv ? 0 : i, L_WALK, ((emask >> i) & 1) != 0);
      if (i == k - 1 || s.failed) s.check_state(emask == 0 ? lv : (lv > L_POINTS ? L_POINTS : lv));
    }
    XS.insert_phase_runs++;
  }
}

// (2) all erase orders.  always_walk: structural walk after every erase even when the same op prefix was
// already walked for the previous permutation; otherwise only on states not seen before (fresh).
// perm_sample > 1: only the erase orders whose lexicographic index i satisfies (i + 31*seqcode + seed) % perm_sample == 0
// are run (a different 1/perm_sample of the orders for every sequence and every seed); "fresh" is then relative to
// the last order that was run.
static void exh_erase_orders(const int* pts, int k, bool constv, uint64_t seqcode, bool always_walk, unsigned box_every, unsigned perm_sample) {
  int perm[8], prev[8];
  for (int i = 0; i < k; i++) perm[i] = i;
  uint64_t permidx = 0;
  bool first = true;
  Sim<2>& s = *XSIM;
  do {
    if (perm_sample > 1 && ((permidx + seqcode * 31ULL + C->seed) % perm_sample) != 0) {
      permidx++;
      XS.orders_skipped++;
      continue;
    }
    int fd = 0;
    if (!first)
      while (fd < k && perm[fd] == prev[fd]) fd++;
    bool first_run = first;
    first = false;
    memcpy(prev, perm, sizeof(perm));
    s.reset("all-erase-orders", pts, k, constv);
    build(s, pts, k, constv, L_LIGHT, (unsigned)(seqcode * 7 + permidx));
    for (int j = 0; j < k && !s.failed; j++) {
      int64_t c[3];
      pt_of(pts[perm[j]], c);
      bool fresh = j >= fd;
      Level lv = fresh ? L_LOOKUP : (always_walk ? L_WALK : L_LIGHT);
      if (fresh) {
        XS.erase_states_checked++;
        // the emptied tree after the last erase is the same trivial state for every order: full sweep on it for
        // the first order that is run only; otherwise point lookups (all absent; <=4 points) or walk+iteration
        if (j == k - 1 && !first_run) {
          lv = k <= 4 ? L_POINTS : L_LOOKUP;
        } else if (box_every == 1 || ((permidx * 2654435761ULL + seqcode * 40503ULL + (uint64_t)j + C->seed * 7919ULL) % box_every) == 0) {
          lv = L_FULL;
          XS.full_sweeps++;
        }
      }
      s.op_erase(c, constv ? 0 : perm[j], lv == L_LIGHT ? L_LIGHT : L_WALK);
      s.check_state(lv);
    }
    XS.histories++;
    permidx++;
    // the (emptied, unless cut short by a failure) tree is destroyed by the next reset()
  } while (next_permutation(perm, perm + k));
}

// (3) destruction after every proper erase-order prefix (tree still non-empty), ASan/LSan watching
static void exh_destroy_rec(const int* pts, int k, int* pre, bool* usedm, int d) {
  Sim<2>& s = *XSIM;
  s.reset("destroy-after-erase-prefix", pts, k, false);
  build(s, pts, k, false, L_LIGHT, (unsigned)(XS.destroy_states & 1));
  for (int j = 0; j < d && !s.failed; j++) {
    int64_t c[3];
    pt_of(pts[pre[j]], c);
    s.op_erase(c, pre[j], L_LIGHT);
  }
  if (!s.failed) s.walk("erase");
  s.destroy();  // non-empty tree, d < k
  XS.destroy_states++;
  if (d + 1 >= k) return;
  for (int i = 0; i < k; i++)
    if (!usedm[i]) {
      usedm[i] = true;
      pre[d] = i;
      exh_destroy_rec(pts, k, pre, usedm, d + 1);
      usedm[i] = false;
    }
}
static void exh_destroy_states(const int* pts, int k) {
  int pre[8];
  bool usedm[8] = {false};
  if (k >= 1) exh_destroy_rec(pts, k, pre, usedm, 0);
}

// (4) begin()/++/erase_advance sweeps erasing every subset of visit positions
static void exh_sweeps(const int* pts, int k, bool constv, uint64_t seqcode, unsigned box_every) {
  Sim<2>& s = *XSIM;
  // <=4 points: every visit mask with each of the three increment forms; otherwise one form per mask in rotation
  for (unsigned mask = 0; mask < (1u << k); mask++) {
    for (int form = 0; form < 3; form++) {
      if (k > 4 && form != (int)((mask + seqcode) % 3)) continue;
      s.reset("erase_advance-sweep", pts, k, constv, mask);
      build(s, pts, k, constv, L_LIGHT, (unsigned)(seqcode * 5 + mask + (unsigned)form));
      if (s.failed) continue;
      s.op_sweep([&](size_t i, const Ent&) { return ((mask >> i) & 1) != 0; }, L_WALK, form);
      Level lv = L_LOOKUP;
      if (form == 0 && (box_every == 1 || ((mask * 2654435761ULL + seqcode * 40503ULL + C->seed * 7919ULL) % box_every) == 0)) lv = L_FULL;
      if (!s.failed) s.walk("erase_advance");
      s.check_state(lv);
      XS.sweep_masks++;
    }
  }
}

static void part_exh() {
  static vector<Ent> qp = grid_points(2, 3, false);
  for (auto e : {Ent{{-1, -1, 0}, 0}, Ent{{3, 3, 0}, 0}, Ent{{-1, 1, 0}, 0}, Ent{{1, 3, 0}, 0}}) qp.push_back(e);
  // every proper half-open box [lo,hi) with 0<=lo<hi<=3 per axis (36) + empty / inverted / out-of-grid boxes
  static vector<Box> bx = all_boxes(2, 3, false);
  bx.push_back(Box{{1, 1, 0}, {1, 1, 0}});    // empty on both axes
  bx.push_back(Box{{1, 0, 0}, {1, 3, 0}});    // empty x range
  bx.push_back(Box{{2, 0, 0}, {1, 3, 0}});    // inverted x range
  bx.push_back(Box{{0, 2, 0}, {3, 1, 0}});    // inverted y range
  bx.push_back(Box{{-1, -1, 0}, {4, 4, 0}});  // strictly contains the grid
  bx.push_back(Box{{-5, 1, 0}, {1, 9, 0}});   // sticks out of the grid
  EXH_QP = &qp;
  EXH_BOXES = &bx;
  XSIM = new Sim<2>("exh");
  XSIM->qpoints = EXH_QP;
  XSIM->boxes = EXH_BOXES;

  int K = atoi(C->arg("k", C->quick() ? "4" : "5").c_str());  // longest insertion sequence
  int KMIN = atoi(C->arg("kmin", "0").c_str());                // shortest (the k=6 stage runs kmin=6 k=6)
  if (K > 7) K = 7;
  int KB = atoi(C->arg("kconst", C->quick() ? "3" : "4").c_str());      // constant-value scheme up to this length
  int KD = atoi(C->arg("kdestroy", "4").c_str());                       // destroy-after-prefix up to this length
  unsigned PS = (unsigned)atoi(C->arg("permsample", "1").c_str());      // erase-order sampling for 6-point sequences
  uint64_t case_index = 0;
  for (int k = 0; k <= K; k++) {
    uint64_t nseq = 1;
    for (int i = 0; i < k; i++) nseq *= 9;
    // box sweeps: every new state for k<=4; 1 in 16 (k=5) / 1 in 128 (k=6) new states otherwise, chosen by a hash
    unsigned box_every = k <= 4 ? 1 : k == 5 ? 16 : 128;
    if (k < KMIN) continue;
    for (uint64_t code = 0; code < nseq; code++) {
      if (!C->mine(case_index++)) continue;
      int pts[8];
      uint64_t x = code;
      for (int i = k - 1; i >= 0; i--) {
        pts[i] = x % 9;
        x /= 9;
      }
      C->crumb("exh k=%d seqcode=%" PRIu64 " (base-9 digits = grid index x*3+y of each inserted point)", k, code);
      XS.sequences++;
      for (int scheme = 0; scheme < 2; scheme++) {
        bool constv = scheme == 1;
        if (constv && (k > KB || k < 2)) continue;
        exh_insert_phase(pts, k, constv, k <= 4 ? L_FULL : L_POINTS);
        if (k >= 1) exh_erase_orders(pts, k, constv, code, k <= 4, box_every, k >= 6 ? PS : 1);
        if (k >= 1) exh_sweeps(pts, k, constv, code, box_every);
      }
      if (k <= KD) exh_destroy_states(pts, k);
    }
  }
  delete XSIM;
  XSIM = nullptr;
  C->count("exh_sequences", XS.sequences);
  C->count("exh_erase_order_histories", XS.histories);
  C->count("exh_erase_states_checked", XS.erase_states_checked);
  C->count("exh_states_with_full_box_sweep", XS.full_sweeps);
  C->count("exh_erase_advance_sweeps", XS.sweep_masks);
  C->count("exh_destroy_after_prefix_states", XS.destroy_states);
  C->count("exh_erase_orders_not_run_by_sampling", XS.orders_skipped);
  C->count("exh_insert_phase_runs", XS.insert_phase_runs);
  if (C->shard == 0) C->count("exh_max_sequence_length", (uint64_t)K);
}

// ---------------------------------------------------------------------------------------------
// part rnd: random histories

struct RndStats {
  uint64_t histories = 0, ops = 0, sweeps = 0, full_checkpoints = 0;
};
static RndStats RS;

template <int D>
static void random_history(uint64_t gidx, int side, int nops) {
  vf::Rng r(C->seed * 1000003ULL + gidx * 7919ULL + 5);
  vector<Ent> qp = grid_points(D, side, false);
  vector<Box> bx = all_boxes(D, side, true);
  int profile = (int)r.below(5);
  int64_t vrange = r.chance(1, 2) ? 2 : (r.chance(1, 2) ? 1 : 1000);
  bool small_grid = qp.size() <= 40;
  Sim<D> s(fmt("rnd %dd side=%d profile=%d vrange=%" PRId64 " seed=%" PRIu64 " history-index=%" PRIu64 " nops=%d", D, side, profile, vrange, C->seed, gidx, nops));
  s.qpoints = &qp;
  s.boxes = nullptr;
  s.walk("construct");
  vector<Box> rb;
  int target = 0;  // phased profile: grow to target then drain
  bool draining = false;
  for (int op = 0; op < nops && !s.failed; op++) {
    C->crumb("rnd D=%d side=%d history-index=%" PRIu64 " op=%d (replay: --arg only=rnd --arg hist=%" PRIu64 ")", D, side, gidx, op, gidx);
    // choose op
    int pins;  // percent insert
    size_t n = s.model.size();
    switch (profile) {
      case 0: pins = 65; break;
      case 1: pins = 50; break;
      case 2: pins = n < 6 ? 80 : 40; break;
      case 3:  // phased
        if (!draining && (int)n >= target) {
          draining = true;
        }
        if (draining && n == 0) {
          draining = false;
          target = 3 + (int)r.below(40);
        }
        pins = draining ? 10 : 90;
        break;
      default: pins = n < 20 ? 70 : 45; break;
    }
    unsigned roll = (unsigned)r.below(100);
    const char* opname = "insert";
    if (roll < 3 && n > 0) {
      // sweep
      unsigned den = 1 + (unsigned)r.below(4);  // erase 1/den... of the entries
      unsigned mode = (unsigned)r.below(4);     // 0 none,1 random,2 all,3 predicate on coordinates
      uint64_t sseed = r.next();
      vf::Rng sr(sseed);
      s.op_sweep([&](size_t, const Ent& e) {
        switch (mode) {
          case 0: return false;
          case 2: return true;
          case 3: return ((e.c[0] + e.c[1] + e.c[2]) % 2) != 0;
          default: return sr.below(den + 1) != 0 ? false : true;
        }
      }, L_WALK, (int)r.below(3));
      if (!s.failed) s.walk("erase_advance");
      RS.sweeps++;
      opname = "erase_advance";
    } else if (roll < (unsigned)pins || n == 0) {
      int64_t c[3] = {0, 0, 0};
      if (n > 0 && r.chance(1, 3)) {
        // share a coordinate with an existing entry (tie on some axis), or duplicate it
        const Ent& m = s.model[r.below(n)];
        for (int d = 0; d < D; d++) c[d] = m.c[d];
        int keep = (int)r.below(D + 1);  // axis kept (D = keep all => duplicate point)
        for (int d = 0; d < D; d++)
          if (keep != D && d != keep) c[d] = (int64_t)r.below(side);
      } else {
        for (int d = 0; d < D; d++) c[d] = (int64_t)r.below(side);
      }
      int64_t v = (int64_t)r.below(vrange);
      bool via_emplace = r.chance(1, 2);  // honoured only when v == 0
      if (r.chance(1, 12)) {
        s.op_insert_then_erase_via_iterator(c, v);
        opname = "erase_advance";
      } else {
        s.op_insert(c, v, L_WALK, via_emplace);
      }
    } else if (r.chance(1, 6)) {
      // erase something that is (probably) not there: random point, random value
      int64_t c[3] = {0, 0, 0};
      for (int d = 0; d < D; d++) c[d] = (int64_t)r.below(side);
      s.op_erase(c, (int64_t)r.below(vrange + 1), L_WALK);
      opname = "erase";
    } else {
      Ent e = s.model[r.below(n)];
      s.op_erase(e.c, e.v, L_WALK);
      opname = "erase";
    }
    RS.ops++;
    // observations
    bool checkpoint = (op % 50 == 49) || op == nops - 1;
    s.boxes = nullptr;
    if (checkpoint) {
      s.boxes = &bx;
      s.check_state(L_FULL);
      RS.full_checkpoints++;
    } else {
      // a few random boxes (also reaching outside the grid) after every op
      rb.clear();
      for (int i = 0; i < 6; i++) {
        Box b;
        for (int d = 0; d < 3; d++) {
          b.lo[d] = d < D ? r.range(-1, side) : 0;
          b.hi[d] = d < D ? r.range(b.lo[d] - (r.chance(1, 8) ? 1 : 0), side + 1) : 0;
        }
        rb.push_back(b);
      }
      bool allpts = small_grid || (op % 10 == 9);
      s.check_state(allpts ? L_POINTS : L_LOOKUP);
      if (!s.failed)
        for (auto& b : rb) s.check_box(b);
    }
  }
  RS.histories++;
  if (RS.histories <= 2) C->sample(s.describe().substr(0, 500));
  misc(s.model.empty() ? (D == 2 ? "rnd:2d:final-state-empty" : "rnd:3d:final-state-empty") : (D == 2 ? "rnd:2d:final-state-non-empty" : "rnd:3d:final-state-non-empty"));
  static char sidecls[2][16][24];
  if (side < 16) {
    char* k = sidecls[D - 2][side];
    if (!k[0]) snprintf(k, 24, "rnd:%dd:side%d", D, side);
    misc(k);
  }
}

static void run_random_index(uint64_t gidx) {
  // the shape of history gidx is a pure function of (seed, gidx)
  vf::Rng r(C->seed * 999983ULL + gidx * 104729ULL + 11);
  bool three = (gidx % 4) == 3;
  int side = three ? 2 + (int)(r.below(4)) : 2 + (int)((gidx / 4 + r.below(11)) % 11);
  int nops = r.chance(1, 5) ? 1 + (int)r.below(300) : 300;
  if (three) random_history<3>(gidx, side, nops);
  else random_history<2>(gidx, side, nops);
}

static void part_rnd() {
  string h = C->arg("hist");
  if (!h.empty()) {
    if (C->shard == 0) run_random_index(strtoull(h.c_str(), nullptr, 0));
  } else {
    uint64_t total = strtoull(C->arg("nh", C->quick() ? "800" : "12000").c_str(), nullptr, 0);
    for (uint64_t g = 0; g < total; g++)
      if (C->mine(g)) run_random_index(g);
  }
  C->count("rnd_histories", RS.histories);
  C->count("rnd_ops", RS.ops);
  C->count("rnd_erase_advance_sweeps", RS.sweeps);
  C->count("rnd_full_box_checkpoints", RS.full_checkpoints);
}

// ---------------------------------------------------------------------------------------------
// part destroy: empty-tree destruction, each scenario in a forked child

typedef KDTree<Vector2<int64_t>, int64_t> T2;
typedef KDTree<Vector3<int64_t>, int64_t> T3;

static void scen_never_used_2d() { T2 t; }
static void scen_never_used_3d() { T3 t; }
static void scen_never_used_heap() {
  T2* t = new T2();
  delete t;
}
static void scen_emptied_by_erase() {
  T2 t;
  t.insert({1, 1}, 5);
  if (!t.erase({1, 1}, 5)) _exit(40);
}
static void scen_emptied_by_erase_3() {
  T3 t;
  t.insert({1, 1, 1}, 5);
  t.insert({0, 1, 2}, 6);
  t.insert({1, 1, 1}, 5);
  if (!t.erase({1, 1, 1}, 5) || !t.erase({0, 1, 2}, 6) || !t.erase({1, 1, 1}, 5)) _exit(40);
}
static void scen_emptied_by_sweep() {
  T2 t;
  t.insert({1, 1}, 0);
  t.insert({0, 2}, 1);
  t.insert({2, 0}, 2);
  for (auto it = t.begin(); it != t.end();) t.erase_advance(it);
  if (t.size() != 0) _exit(41);
}
static void scen_emptied_after_failed_erase() {
  T2 t;
  if (t.erase({0, 0}, 0)) _exit(42);
  if (t.exists({0, 0})) _exit(43);
}

struct Scenario {
  const char* name;
  void (*fn)();
};
static const Scenario SCEN[] = {
    {"never-used 2-D tree on the stack: { KDTree<Vector2<int64_t>,int64_t> t; }", scen_never_used_2d},
    {"never-used 3-D tree on the stack: { KDTree<Vector3<int64_t>,int64_t> t; }", scen_never_used_3d},
    {"never-used 2-D tree on the heap: delete new KDTree<...>()", scen_never_used_heap},
    {"emptied by erase: insert (1,1)=5; erase (1,1)=5; destroy", scen_emptied_by_erase},
    {"3-D emptied by erase: insert (1,1,1)=5 (0,1,2)=6 (1,1,1)=5; erase all three; destroy", scen_emptied_by_erase_3},
    {"emptied by an erase_advance sweep over (1,1) (0,2) (2,0); destroy", scen_emptied_by_sweep},
    {"only queried: erase (0,0)=0 -> false, exists (0,0) -> false on a fresh tree; destroy", scen_emptied_after_failed_erase},
};

// runs fn in a forked child with stderr captured; returns "" if the child exited 0, else a description
static string run_forked(void (*fn)()) {
  int pfd[2];
  if (pipe(pfd) != 0) {
    fprintf(stderr, "[harness-error] pipe failed\n");
    exit(3);
  }
  fflush(stdout);
  fflush(stderr);
  pid_t pid = fork();
  if (pid < 0) {
    fprintf(stderr, "[harness-error] fork failed\n");
    exit(3);
  }
  if (pid == 0) {
    close(pfd[0]);
    dup2(pfd[1], 2);
    dup2(pfd[1], 1);
    close(pfd[1]);
    fn();
    _exit(0);
  }
  close(pfd[1]);
  string err;
  char buf[4096];
  ssize_t n;
  while ((n = read(pfd[0], buf, sizeof(buf))) > 0)
    if (err.size() < 200000) err.append(buf, (size_t)n);
  close(pfd[0]);
  int st = 0;
  waitpid(pid, &st, 0);
  if (WIFEXITED(st) && WEXITSTATUS(st) == 0) return "";
  string d = WIFSIGNALED(st) ? fmt("child killed by signal %d", WTERMSIG(st)) : fmt("child exited with status %d", WEXITSTATUS(st));
  // one-line sanitizer summary, reworded so that the driver's log scanner does not count it a second time
  size_t u = err.find("runtime error: ");
  if (u != string::npos) {
    size_t ls = err.rfind('\n', u);
    ls = ls == string::npos ? 0 : ls + 1;
    size_t sl = err.rfind('/', u);  // keep file:line:col, drop the directory
    if (sl != string::npos && sl > ls) ls = sl + 1;
    size_t e = err.find('\n', u);
    d += "; UBSan said: " + err.substr(ls, (e == string::npos ? err.size() : e) - ls);
  }
  size_t p = err.find("ERROR: AddressSanitizer");
  if (p != string::npos) {
    size_t e = err.find('\n', p);
    string line = err.substr(p + 7, (e == string::npos ? err.size() : e) - p - 7);
    d += "; sanitizer said: " + line;
    size_t f = err.find("#0 ", p);
    for (int i = 0; i < 4 && f != string::npos; i++) {
      size_t fe = err.find('\n', f);
      string fr = err.substr(f, (fe == string::npos ? err.size() : fe) - f);
      if (fr.find("KDTree") != string::npos) {
        d += "; frame: " + fr;
        break;
      }
      f = err.find("#", fe == string::npos ? err.size() : fe);
    }
  }
  return d;
}

// quick silent probe used by the other parts
static bool empty_dtor_crashes() {
  return !run_forked(scen_never_used_2d).empty() || !run_forked(scen_emptied_by_erase).empty();
}

static void part_destroy() {
  bool any = false;
  for (auto& sc : SCEN) {
    g_eval++;
    C->crumb("destroy-empty scenario (forked child): %s", sc.name);
    string d = run_forked(sc.fn);
    if (!d.empty()) {
      any = true;
      if (d == "child exited with status 40" || d == "child exited with status 41" || d == "child exited with status 42" || d == "child exited with status 43")
        // _exit(40..43): erase/exists/size gave a wrong answer while the scenario was being set up
        C->violation("destroy:scenario-setup-misbehaved", "the tree gave a wrong answer (erase/exists/size) while an empty-tree scenario was being set up: " + d, sc.name);
      else
        C->violation("destroy:empty-tree", "destroying an empty KDTree must be safe; the child process running the scenario died: " + d, sc.name);
    }
    misc("destroy:empty:forked-scenario");
  }
  if (!any) {
    // in-process, with ASan/LSan watching, many times and interleaved with live trees
    for (int i = 0; i < 2000; i++) {
      for (auto& sc : SCEN) {
        g_eval++;
        sc.fn();
      }
    }
    Sim<2> a("destroy never-used 2d");
    Sim<3> b("destroy never-used 3d");
    a.walk("construct");
    b.walk("construct");
    a.check_iteration();
    b.check_iteration();
    misc("destroy:empty:in-process-x2000");
  }
}

// ---------------------------------------------------------------------------------------------

int main(int argc, char** argv) {
  vf::Ctx& c = vf::init(argc, argv);
  C = &c;
  string only = c.arg("only");
  auto want = [&](const char* s) { return only.empty() || only == s; };
  if (want("destroy") && c.shard == 0) part_destroy();
  if (want("exh") || want("rnd")) {
    g_skip_empty_dtor = empty_dtor_crashes();
    c.count("empty_dtor_probe_crashed", g_skip_empty_dtor ? 1 : 0);
    if (want("exh")) part_exh();
    if (want("rnd")) part_rnd();
  }
  flush_classes();
  c.evaluations += g_eval;
  if (want("exh"))
    c.sample("exh: every insertion sequence (with repetition) of <=K points of {0,1,2}^2, values distinct (index; the first through insert or emplace) and constant 0 (each through insert(pt,0) or emplace(pt)); "
             "then every erase order, every erase_advance subset sweep, destruction after every erase-order prefix");
  if (want("destroy")) c.sample("destroy: { KDTree<Vector2<int64_t>,int64_t> t; } in a forked child");
  return c.finish();
}
