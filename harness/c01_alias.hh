// C01: enumerated aliasing and ownership cases.
//  alias: raw blocks / by-reference typed values whose storage is the writer's own buffer, over writer histories that
//         do and do not force a reallocation (SSO writers of 0..15 bytes pushed past 15, heap writers exactly at capacity,
//         writers with a large capacity left behind by reset()).  The shadow takes its snapshot BEFORE the call.
//  own:   every StringReader/BitReader constructor; for the shared_ptr one the caller's reference is dropped before
//         the first read (the reader alone must keep the bytes alive), copies of readers keep working after the original dies.
#pragma once

#include "c01_bits.hh"
#include "c01_script.hh"

namespace c01 {

static const char* const HIST_NAME[4] = {"one-write", "byte-by-byte", "filled-to-capacity", "after-reset"};

// builds a writer holding `s` bytes through history h; returns the bytes
static std::vector<uint8_t> build_writer(StringWriter& w, vf::Rng& g, size_t s, int h) {
  std::string d = g.bytes(s);
  for (auto& ch : d)
    if (g.chance(1, 3)) ch = (char)(0xA0 + (&ch - d.data()) % 0x50);  // position-dependent so shifted copies are visible
  switch (h) {
    case 0: w.write(d.data(), d.size()); break;
    case 1:
      for (char ch : d) w.put_u8((uint8_t)ch);
      break;
    case 2: {
      w.write(d.data(), d.size());
      size_t cap = w.str().capacity();
      std::string more = g.bytes(cap - w.size());
      w.write(more);
      d += more;
      break;
    }
    default: {
      std::string big = g.bytes(300 + g.below(200));
      w.write(big);
      w.reset();
      w.write(d.data(), d.size());
      break;
    }
  }
  return std::vector<uint8_t>(d.begin(), d.end());
}

static void alias_one(uint64_t ci, size_t s, int h, int op, int sub) {
  vf::Rng g = script_rng(7, ci);
  StringWriter w;
  std::vector<uint8_t> sh = build_writer(w, g, s, h);
  size_t S = sh.size();
  if (w.str().size() != S || bytes_differ(w.str().data(), sh.data(), S)) {
    C->violation("StringWriter:write(ptr,size):bytes", "writer contents differ from what was written", vf::fmt("part=alias case=%" PRIu64 " setup s=%zu history=%s", ci, s, HIST_NAME[h]));
    return;
  }
  // up to 3 aliasing operations in a row on the same writer (history matters: the second one usually fits the doubled capacity)
  for (int rep = 0; rep < 3; rep++) {
    S = sh.size();
    size_t cap = w.str().capacity();
    size_t k = 0, n = 0, off = 0;
    std::string what, key;
    std::vector<uint8_t> snap;
    if (op <= 1) {  // write(ptr,size) / write(string) with the source inside the buffer
      if (S == 0) return;
      if (op == 1) {
        k = 0;
        n = S;
      } else {
        switch (sub) {
          case 0: k = 0; n = S; break;
          case 1: k = 0; n = S > 1 ? (rep == 0 ? 1 : S / 2) : 1; break;
          case 2: k = S / 3; n = S / 3 ? S / 3 : 1; if (k + n > S) k = S - n; break;
          default: n = S > 1 ? (rep == 0 ? 1 : S / 2) : 1; k = S - n; break;
        }
      }
      snap.assign(sh.begin() + k, sh.begin() + k + n);
      what = op == 1 ? vf::fmt("w.write(w.str()) with %zu bytes, capacity %zu", S, cap) : vf::fmt("w.write(w.str().data()+%zu, %zu) with %zu bytes, capacity %zu", k, n, S, cap);
      key = op == 1 ? "StringWriter:write(string):source-inside-own-buffer" : "StringWriter:write(ptr,size):source-inside-own-buffer";
      g_op = "StringWriter::write(own bytes)";
      C->crumb_n("alias_write", ci, s, h, op, sub, rep);
      if (op == 1) w.write(w.str());
      else w.write(w.str().data() + k, n);
      sh.insert(sh.end(), snap.begin(), snap.end());
      cov_misc[alias_class(op == 1 ? "write(string)" : "write(ptr,size)", S, n, cap)]++;
      if (op == 0) cov_misc[std::string("alias:source-range:") + SHAPE_NAME[sub]]++;
    } else {  // put<T> / pput<T> with a reference obtained from a reader over w.str()
      const SelfT& T = SELF[sub];
      n = T.W;
      if (S < n) return;
      k = rep == 0 ? 0 : rep == 1 ? S - n : (S - n) / 2;
      snap.assign(sh.begin() + k, sh.begin() + k + n);
      if (op == 2) {
        what = vf::fmt("w.put<%s>(StringReader(w.str()).pget<T>(%zu)) with %zu bytes, capacity %zu", T.name, k, S, cap);
        key = "StringWriter:put<T>:reference-into-own-buffer";
        g_op = "StringWriter::put<T>(own bytes)";
        C->crumb_n("alias_put", ci, s, h, sub, rep);
        T.put(w, k);
        sh.insert(sh.end(), snap.begin(), snap.end());
        cov_misc[alias_class("put<T>", S, n, cap)]++;
      } else if (op == 3) {  // in place, destination disjoint from the source
        if (S < 2 * n) return;
        off = k + n <= S - n ? S - n : 0;
        if (!(off + n <= k || k + n <= off)) return;
        what = vf::fmt("w.pput<%s>(%zu, StringReader(w.str()).pget<T>(%zu)) with %zu bytes (no growth)", T.name, off, k, S);
        key = "StringWriter:pput<T>:reference-into-own-buffer";
        g_op = "StringWriter::pput<T>(own bytes)";
        C->crumb_n("alias_pput", ci, s, h, sub, rep);
        T.pput(w, off, k);
        for (size_t i = 0; i < n; i++) sh[off + i] = snap[i];
        cov_misc["alias:pput<T>:in-place"]++;
      } else {  // op 4 (only with --arg alias_pput=1): positional write that grows the buffer
        off = rep == 0 ? S : rep == 1 ? S + 5 : S - n / 2;
        if (k + n > off) k = 0;
        if (k + n > off) return;
        snap.assign(sh.begin() + k, sh.begin() + k + n);
        what = vf::fmt("w.pput<%s>(%zu, StringReader(w.str()).pget<T>(%zu)) with %zu bytes, capacity %zu (grows)", T.name, off, k, S, cap);
        key = "StringWriter:pput<T>:reference-into-own-buffer:growing";
        g_op = "StringWriter::pput<T>(own bytes, growing)";
        C->crumb_n("alias_pput_grow", ci, s, h, sub, rep);
        T.pput(w, off, k);
        if (off + n > S) sh.resize(off + n, 0);
        for (size_t i = 0; i < n; i++) sh[off + i] = snap[i];
        cov_misc[alias_class("pput<T>:growing", S, off + n - S, cap)]++;
      }
    }
    C->evaluations++;
    const std::string& got = w.str();
    if (got.size() != sh.size() || w.size() != sh.size() || bytes_differ(got.data(), sh.data(), sh.size())) {
      size_t d = 0;
      while (d < sh.size() && d < got.size() && (uint8_t)got[d] == sh[d]) d++;
      C->violation(key + (got.size() != sh.size() ? ":size" : ":bytes"),
          "the bytes appended/overwritten are not the bytes the source held before the call (source inside the writer's own buffer)",
          vf::fmt("part=alias case=%" PRIu64 " history=%s step %d: %s -> size %zu expected %zu, first difference at %zu: got %s expected %s", ci, HIST_NAME[h], rep, what.c_str(),
              got.size(), sh.size(), d, hexwin((const uint8_t*)got.data(), got.size(), d, 10).c_str(), hexwin(sh.data(), sh.size(), d, 10).c_str()));
      return;
    }
  }
}

static void part_alias() {
  static const size_t sizes[] = {0, 1, 2, 3, 4, 5, 6, 7, 8, 9, 10, 11, 12, 13, 14, 15, 16, 17, 20, 24, 29, 30, 31, 32, 40, 59, 60, 61, 64, 100, 119, 120, 121, 128, 239, 240, 241, 500};
  uint64_t ci = 0;
  for (size_t s : sizes)
    for (int h = 0; h < 4; h++)
      for (int op = 0; op < 5; op++) {
        if (op == 4 && !g_alias_pput) continue;
        int nsub = op == 0 ? 4 : op == 1 ? 1 : NSELF;
        for (int sub = 0; sub < nsub; sub++, ci++) {
          if (!C->mine(ci)) continue;
          try {
            alias_one(ci, s, h, op, sub);
          } catch (const std::exception& e) {
            C->violation(std::string(g_op) + ":unexpected-exception", "an in-range operation threw", vf::fmt("part=alias case=%" PRIu64 ": %s", ci, e.what()));
          }
        }
      }
  misc("enumerated:alias-cases");
}

// ---- ownership -------------------------------------------------------------------------------
static phosg::BitReader make_owning_bit_reader(std::shared_ptr<std::string> p, size_t start) {
  vf::poison_errno();
  phosg::BitReader r(p, start);
  return r;
}

static void own_one(uint64_t ci, size_t n) {
  vf::Rng g = script_rng(8, ci);
  std::string bytes = g.bytes(n);
  for (size_t i = 0; i < n; i++)
    if (i % 3 == 0) bytes[i] = (char)(i * 37 + 11);
  const uint8_t* sh = (const uint8_t*)bytes.data();
  std::vector<OpRec> none;
  ReadCtx rc{"own", ci, &none};
  for (int variant = 0; variant < 6; variant++) {
    std::shared_ptr<std::string> owned;
    std::unique_ptr<std::string> decoy;
    std::unique_ptr<uint8_t[]> exact;
    std::string held;
    StringReader r;
    const char* vn;
    g_op = "StringReader::ctor";
    C->crumb_n("own", ci, n, variant);
    switch (variant) {
      case 0:
        vn = "StringReader(shared_ptr) + caller reference dropped";
        owned = std::make_shared<std::string>(bytes);
        g_base = (const uint8_t*)owned->data();
        r = make_owning_reader(std::move(owned), 0);
        owned.reset();
        decoy.reset(new std::string(bytes.size(), '\xDD'));
        break;
      case 1: {
        vn = "copy of an owning reader after the original was destroyed";
        owned = std::make_shared<std::string>(bytes);
        g_base = (const uint8_t*)owned->data();
        {
          StringReader first(owned, n / 2);
          owned.reset();
          r = first;  // copy assignment shares ownership
        }
        decoy.reset(new std::string(bytes.size(), '\xDD'));
        r.go(0);
        break;
      }
      case 2: {
        vn = "copy-constructed owning reader, original reassigned";
        owned = std::make_shared<std::string>(bytes);
        g_base = (const uint8_t*)owned->data();
        StringReader first = make_owning_reader(owned, 0);
        owned.reset();
        StringReader second(first);
        first = StringReader();
        decoy.reset(new std::string(bytes.size(), '\xDD'));
        r = second;
        break;
      }
      case 3:
        vn = "StringReader(const string&)";
        held = bytes;
        g_base = (const uint8_t*)held.data();
        r = StringReader(held);
        break;
      case 4:
        vn = "StringReader(ptr,size)";
        exact.reset(new uint8_t[n]);
        if (n) memcpy(exact.get(), sh, n);
        g_base = exact.get();
        r = StringReader(exact.get(), n);
        break;
      default:
        vn = "StringReader(shared_ptr) with the caller keeping its reference";
        owned = std::make_shared<std::string>(bytes);
        g_base = (const uint8_t*)owned->data();
        r = StringReader(owned);
        break;
    }
    cov_misc[std::string("own:") + vn]++;
    C->evaluations++;
    g_op = "StringReader reads after construction";
    if (r.size() != n || r.where() != 0) rviol(rc, "StringReader:size", "size()/where() wrong after construction", vf::fmt("%s: size()=%zu where()=%zu expected %zu/0", vn, r.size(), r.where(), n));
    std::string all = r.all();
    if (all.size() != n || bytes_differ(all.data(), sh, n))
      rviol(rc, "StringReader:owned-bytes", "reader does not return the bytes it was constructed over", vf::fmt("%s over %zu bytes: all()=%s expected %s", vn, n, vf::hex(all.substr(0, 24)).c_str(), vf::hex(sh, n < 24 ? n : 24).c_str()));
    // read everything through typed accessors
    size_t cur = 0;
    while (cur < n) {
      int k = (int)g.below(NRK);
      if ((size_t)RK[k].width > n - cur) k = 0;  // u8
      typed_get(rc, r, sh, n, cur, k, false, 0, false);
      cur += RK[k].width;
    }
    if (!r.eof()) rviol(rc, "StringReader:eof-after-all-reads", "not at end after reading everything", vn);
  }
  // BitReader: the owning constructor with the caller's reference dropped
  {
    std::shared_ptr<std::string> owned = std::make_shared<std::string>(bytes);
    g_op = "BitReader::ctor(shared_ptr)";
    C->crumb_n("own_bits", ci, n);
    phosg::BitReader b = make_owning_bit_reader(std::move(owned), 0);
    owned.reset();
    std::unique_ptr<std::string> decoy(new std::string(bytes.size(), '\xDD'));
    cov_misc["own:BitReader(shared_ptr) + caller reference dropped"]++;
    C->evaluations++;
    if (b.size() != n * 8) C->violation("BitReader:size", "BitReader(shared_ptr).size() != 8 * bytes", vf::fmt("part=own case=%" PRIu64 " %zu bytes size()=%zu", ci, n, b.size()));
    g_op = "BitReader::read";
    for (size_t i = 0; i < n; i++) {
      uint64_t got = b.read(8);
      if (got != sh[i]) {
        C->violation("BitReader:owned-bytes", "bit reader does not return the bytes it was constructed over", vf::fmt("part=own case=%" PRIu64 " byte %zu of %zu: 0x%02x expected 0x%02x", ci, i, n, (unsigned)got, sh[i]));
        break;
      }
    }
  }
}

static void part_own() {
  uint64_t ci = 0;
  for (size_t n = 0; n <= 80; n++, ci++)
    if (C->mine(ci)) own_one(ci, n);
  for (size_t n : {127, 128, 255, 256, 1000, 4096, 5000}) {
    if (C->mine(ci)) own_one(ci, n);
    ci++;
  }
  misc("enumerated:ownership-cases");
}

}  // namespace c01
