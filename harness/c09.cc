// C09 — data strings and hex dumps decode back.
//
// Parts (all in this binary, selected with --arg only=<part>; default = streams,rt,total,iov,overload,hist):
//   rt       format_data_string -> parse_data_string round trip incl. masks (oracle inline)
//   total    parser totality on arbitrary / mutated text (no crash, terminates, mask classifies every byte)
//   iov      hex dump independent of the iovec partition (exhaustive 1-4-way cuts for len<=40, random above)
//   overload every print_data/format_data overload prints what the core prints
//   hist     PRIOR HISTORY: on a fresh thread, right after one earlier unrelated use of phosg's shared helpers
//            (vf_history.hh catalogue, spread over the shards), a mini-workload of 50 data-string round trips
//            (lengths 0..300 short to long, quoted and hex forms, masks); same inline oracle as rt
//   io       executes a grammar case file (--arg cases=F --arg res=F) and writes a dump log (--arg log=F)
//            for the independent Python oracles in vf/oracles/c09.py; with --arg histlog=F also the prior-history
//            log: after each prior, on a fresh thread, the first grammar texts again and 46 dumps of 0..80 bytes
#include <errno.h>
#include <fcntl.h>
#include <poll.h>
#include <sys/wait.h>
#include <termios.h>
#include <math.h>
#include <sys/uio.h>

#include <algorithm>
#include <functional>
#include <memory>
#include <set>
#include <stdexcept>

#include "Strings.hh"
#include "common.hh"
#include "vf_history.hh"

using namespace std;
using vf::fmt;

static vf::Ctx* C;

// While a prior-history mini-workload runs (hist part / io hist log) these name the prior; violations raised through
// V() then carry the prior's family in the key (<first key segment>:prior-history:<family>:<rest>) and its name in the case.
static string g_prior_fam, g_prior_name;
static void V(const string& key, const string& what, const string& kase) {
  if (g_prior_fam.empty()) {
    C->violation(key, what, kase);
    return;
  }
  size_t c = key.find(':');
  string k = key.substr(0, c) + ":prior-history:" + g_prior_fam + (c == string::npos ? string() : key.substr(c));
  C->violation(k, what, "on a fresh thread after prior [" + g_prior_name + "]: " + kase);
}
static string prior_crumb() { return g_prior_fam.empty() ? string() : "after prior [" + g_prior_name + "] "; }
struct PriorScope {
  explicit PriorScope(const vf::Prior& p) {
    g_prior_name = p.name;
    g_prior_fam = p.name.find(" then ") != string::npos ? string("two-step") : p.family;
  }
  ~PriorScope() {
    g_prior_fam.clear();
    g_prior_name.clear();
  }
};

static const uint64_t TOP_LINE = 0xFFFFFFFFFFFFFFF0ULL;

// true if the last dumped byte lies in the last 16-byte line of the 64-bit address space
// (only ranges with addr+len <= 2^64 are ever generated)
static bool reaches_2_64(uint64_t addr, size_t len) {
  if (!len) return false;
  uint64_t end = addr + len;
  return end == 0 || end > TOP_LINE;
}

static string dump_key(const string& kind, uint64_t addr, size_t len) {
  if (reaches_2_64(addr, len)) return "format_data:range-reaches-2^64:" + kind;
  return "format_data:" + kind;
}

static string lenbucket(size_t n) {
  if (n == 0) return "0";
  if (n == 1) return "1";
  if (n <= 15) return "2-15";
  if (n <= 16) return "16";
  if (n <= 64) return "17-64";
  if (n <= 256) return "65-256";
  return "257-600";
}

// ---------------------------------------------------------------------------------------------
// rt: data-string round trip

static const char* MASK_KINDS[] = {"nomask", "all", "none", "alt", "runs", "bytewise"};

static string make_mask(vf::Rng& r, size_t n, int kind) {
  string m(n, '\0');
  switch (kind) {
    case 1:
      for (auto& ch : m) ch = (char)0xFF;
      break;
    case 2:
      break;
    case 3: {
      bool on = r.chance(1, 2);
      for (auto& ch : m) {
        ch = on ? (char)0xFF : 0;
        on = !on;
      }
      break;
    }
    case 4: {
      bool on = r.chance(1, 2);
      size_t i = 0;
      while (i < n) {
        size_t run = 1 + r.below(9);
        uint8_t v = on ? (uint8_t)(1 + r.below(255)) : 0;  // any non-zero value means "enabled"
        for (size_t k = 0; k < run && i < n; k++, i++) m[i] = (char)v;
        on = !on;
      }
      break;
    }
    default:
      for (auto& ch : m) ch = r.chance(1, 2) ? (char)(1 + r.below(255)) : 0;
  }
  return m;
}

static string esc_text(const string& s) {  // printable rendering for witnesses
  string r;
  for (unsigned char ch : s) {
    if (ch == '\\') r += "\\\\";
    else if (ch >= 0x20 && ch < 0x7F) r.push_back((char)ch);
    else r += fmt("\\x%02X", ch);
  }
  return r;
}

static uint64_t rt_cases = 0;

static void check_rt(const string& data, const string* mask, uint64_t flags, const char* gen, int mkind, bool ptr_overload) {
  C->evaluations++;
  rt_cases++;
  C->crumb_s(prior_crumb() + fmt("rt gen=%s flags=%" PRIu64 " mask=%s len=%zu data=", gen, flags, MASK_KINDS[mkind], data.size()) + vf::hex(data).substr(0, 1600));
  bool has_bs = data.find('\\') != string::npos;
  const char* icls = has_bs ? "has-backslash" : "no-backslash";
  string text;
  auto witness = [&]() {
    return fmt("format_data_string(data=%s, mask=%s, flags=%" PRIu64 ") = [%s]", vf::hex(data).c_str(), mask ? vf::hex(*mask).c_str() : "null", flags, esc_text(text).c_str());
  };
  try {
    vf::poison_errno();
    text = phosg::format_data_string(data, mask, flags);
  } catch (const std::exception& e) {
    V("format_data_string:throws", string("format_data_string threw: ") + e.what(), witness());
    return;
  }
  if (ptr_overload) {
    // exact-size heap copies so that ASan sees any over-read of data or mask
    size_t n = data.size();
    uint8_t* pd = (uint8_t*)malloc(n ? n : 1);
    uint8_t* pm = mask ? (uint8_t*)malloc(n ? n : 1) : nullptr;
    memcpy(pd, data.data(), n);
    if (pm) memcpy(pm, mask->data(), n);
    vf::poison_errno();
    string t2 = phosg::format_data_string(n ? pd : pd + 1, n, pm ? (n ? pm : pm + 1) : nullptr, flags);
    free(pd);
    free(pm);
    if (t2 != text) V("format_data_string:overloads-differ", "pointer overload renders differently from the string overload", witness() + " vs [" + esc_text(t2) + "]");
  }
  bool quoted = !text.empty() && text[0] == '"';
  const char* form = quoted ? "quoted" : "hex";
  string m2 = "junk";
  string back, back_nomask;
  try {
    unique_ptr<string> ht(new string(text));
    vf::poison_errno();
    back = phosg::parse_data_string(*ht, &m2);
    vf::poison_errno();
    back_nomask = phosg::parse_data_string(*ht);
  } catch (const std::exception& e) {
    V(fmt("roundtrip:%s:parse-throws", form), string("parse_data_string threw on formatter output: ") + e.what(), witness());
    return;
  }
  if (back != data) {
    V(fmt("roundtrip:%s:bytes-differ:%s", form, icls), "parse_data_string(format_data_string(d)) != d",
        witness() + " -> parse = " + vf::hex(back));
  } else {
    if (m2.size() != data.size()) {
      V(fmt("roundtrip:%s:mask-size", form), "returned mask does not classify every byte", witness() + " -> mask = " + vf::hex(m2));
    } else {
      for (size_t i = 0; i < data.size(); i++) {
        bool want = mask ? ((*mask)[i] != 0) : true;
        if ((m2[i] != 0) != want) {
          V(fmt("roundtrip:%s:mask-differs:%s", form, icls), fmt("byte %zu: masked/unmasked classification changed", i),
              witness() + " -> mask = " + vf::hex(m2));
          break;
        }
      }
    }
  }
  if (back_nomask != back) V(fmt("roundtrip:%s:nomask-parse-differs", form), "parsing with mask==nullptr gives different bytes", witness());
  C->cls(fmt("rt:%s:%s:%s", gen, form, MASK_KINDS[mkind]));
  C->cls(fmt("rt:len%s:%s", lenbucket(data.size()).c_str(), form));
  if (rt_cases % 40000 == 7) C->sample("roundtrip " + witness().substr(0, 300));
}

static string gen_printable(vf::Rng& r, size_t n) {
  string s(n, ' ');
  for (auto& ch : s) {
    uint64_t k = r.below(100);
    if (k < 3) ch = '\n';
    else if (k < 5) ch = '\r';
    else if (k < 7) ch = '\t';
    else if (k < 9) ch = '~';
    else if (k < 11) ch = ' ';
    else ch = (char)(0x20 + r.below(0x5F));
  }
  return s;
}

static string gen_meta_heavy(vf::Rng& r, size_t n) {
  static const char meta[] = "\\\\\\\"\"''??nrt0aF/*#$% \n";
  string s(n, ' ');
  for (auto& ch : s) ch = r.chance(3, 4) ? meta[r.below(sizeof(meta) - 1)] : (char)(0x20 + r.below(0x5F));
  return s;
}

static void rt_with_masks(vf::Rng& r, const string& d, const char* gen, bool all_masks) {
  for (uint64_t flags = 0; flags < 2; flags++) {
    check_rt(d, nullptr, flags, gen, 0, r.chance(1, 4));
    if (all_masks) {
      for (int mk = 1; mk <= 5; mk++) {
        string m = make_mask(r, d.size(), mk);
        check_rt(d, &m, flags, gen, mk, r.chance(1, 4));
      }
    } else {
      int mk = 1 + (int)r.below(5);
      string m = make_mask(r, d.size(), mk);
      check_rt(d, &m, flags, gen, mk, r.chance(1, 4));
    }
  }
}

static void rt_suite(vf::Rng& r) {
  uint64_t idx = 0;
  // E1/E2: every 1-byte and every 2-byte string (all 256 values in both positions)
  for (int a = 0; a < 256; a++) {
    if (!C->mine(idx++)) continue;
    string d1(1, (char)a);
    rt_with_masks(r, d1, "all-1-byte", true);
    for (int b = 0; b < 256; b++) {
      string d(2, (char)a);
      d[1] = (char)b;
      for (uint64_t flags = 0; flags < 2; flags++) {
        check_rt(d, nullptr, flags, "all-2-byte", 0, false);
        static const char* pats[] = {"\x00\xFF", "\xFF\x00", "\x00\x00"};
        for (int p = 0; p < 3; p++) {
          string m(pats[p], 2);
          check_rt(d, &m, flags, "all-2-byte", p == 2 ? 2 : 3, false);
        }
      }
    }
  }
  // E3: every 3-byte string over the metacharacter alphabet (and 4/5-byte over a smaller one)
  {
    static const char A[] = {'\\', '"', '\'', '?', 'n', 'r', 't', 'a', '0', 'F', '/', '*', '#', '$', '%', ' ', '\n', '\t', '~', 0x7F, 0, (char)0xFF, '<', 'x'};
    const int NA = sizeof(A);
    for (int a = 0; a < NA; a++)
      for (int b = 0; b < NA; b++) {
        if (!C->mine(idx++)) continue;
        for (int c = 0; c < NA; c++) {
          string d = {A[a], A[b], A[c]};
          rt_with_masks(r, d, "meta-3-byte", false);
        }
      }
    static const char B[] = {'\\', '"', '\'', '?', 'n', 'a', '0', '\n', '/', '*'};
    const int NB = sizeof(B);
    int maxlen = C->qt(4, 5);
    for (int len = 4; len <= maxlen; len++) {
      uint64_t total = 1;
      for (int k = 0; k < len; k++) total *= NB;
      for (uint64_t v = 0; v < total; v++) {
        if (!C->mine(idx++)) continue;
        string d(len, ' ');
        uint64_t x = v;
        for (int k = 0; k < len; k++) {
          d[k] = B[x % NB];
          x /= NB;
        }
        uint64_t flags = v & 1;
        check_rt(d, nullptr, flags ^ 1, "meta-4-5-byte", 0, false);
        string m = make_mask(r, d.size(), 5);
        check_rt(d, &m, flags, "meta-4-5-byte", 5, false);
      }
    }
  }
  // P: printable text with one special byte at every position
  {
    static const uint8_t specials[] = {0x00, 0x1F, 0x7F, 0x80, 0xFF, '\\', '"', '\'', '?', '\n'};
    vector<size_t> lens;
    for (size_t n = 1; n <= 40; n++) lens.push_back(n);
    for (size_t n : {63, 64, 65, 255, 256, 257, 599, 600}) lens.push_back(n);
    for (size_t n : lens) {
      size_t step = n <= 40 ? 1 : (C->quick() ? 37 : 5);
      for (size_t p = 0; p < n; p += step) {
        if (!C->mine(idx++)) continue;
        string base = gen_printable(r, n);
        for (char& ch : base)
          if (ch == '\\') ch = '|';
        for (uint8_t sp : specials) {
          string d = base;
          d[p] = (char)sp;
          rt_with_masks(r, d, sp == '\\' ? "printable+backslash@p" : (sp < 0x20 && sp != '\n') || sp >= 0x7F ? "printable+unprintable@p" : "printable+meta@p", false);
        }
        size_t last = n - 1 - p;  // also from the end
        string d = base;
        d[last] = '\\';
        rt_with_masks(r, d, "printable+backslash@p", false);
      }
    }
  }
  // R: random workloads, lengths 0..600
  uint64_t n = C->qt<uint64_t>(60000, 500000) / C->nshards + 1;
  for (uint64_t i = 0; i < n; i++) {
    size_t len;
    switch (r.below(6)) {
      case 0: len = r.below(17); break;
      case 1: len = r.below(65); break;
      case 2: len = 590 + r.below(11); break;
      default: len = r.below(601); break;
    }
    int g = (int)r.below(6);
    string d;
    const char* gen;
    switch (g) {
      case 0:
        d = gen_printable(r, len);
        for (char& ch : d)
          if (ch == '\\') ch = '-';
        gen = "printable-no-backslash";
        break;
      case 1:
        d = gen_printable(r, len);
        gen = "printable";
        break;
      case 2:
        d = gen_meta_heavy(r, len);
        gen = "meta-heavy";
        break;
      case 3:
        d = r.bytes(len);
        gen = "random-bytes";
        break;
      case 4: {
        d = gen_printable(r, len);
        if (len) d[r.below(len)] = (char)(r.chance(1, 2) ? r.below(0x20) : 0x7F + r.below(0x81));
        gen = "printable+one-random-byte";
        break;
      }
      default: {
        d.assign(len, '\0');
        uint8_t lo = (uint8_t)r.next();
        for (auto& ch : d) ch = (char)(lo + r.below(3));  // narrow value band around an arbitrary byte value
        gen = "value-band";
        break;
      }
    }
    uint64_t flags = r.below(2);
    int mk = (int)r.below(6);
    if (mk == 0) {
      check_rt(d, nullptr, flags, gen, 0, r.chance(1, 3));
    } else {
      string m = make_mask(r, d.size(), mk);
      check_rt(d, &m, flags, gen, mk, r.chance(1, 3));
    }
  }
  // documented refusal: mask of another size
  {
    string d = "abc", m = "\xFF\xFF";
    bool threw = false;
    try {
      phosg::format_data_string(d, &m, 0);
    } catch (const std::logic_error&) {
      threw = true;
    }
    C->evaluations++;
    C->cls(threw ? "rt:mask-size-mismatch:refused" : "rt:mask-size-mismatch:accepted");
  }
}

// ---------------------------------------------------------------------------------------------
// total: parser totality

static uint64_t total_cases = 0;

static void check_total(const string& text, const char* gen) {
  C->evaluations++;
  total_cases++;
  C->crumb_s(fmt("total gen=%s len=%zu text=", gen, text.size()) + vf::hex(text).substr(0, 1800));
  unique_ptr<string> ht(new string(text.data(), text.size()));  // heap object + exact-size buffer
  string m1 = "junk", m2;
  string d1, d2, d3;
  try {
    vf::poison_errno();
    d1 = phosg::parse_data_string(*ht, &m1);
    vf::poison_errno();
    d2 = phosg::parse_data_string(*ht, &m2);
    vf::poison_errno();
    d3 = phosg::parse_data_string(*ht);
  } catch (const std::exception& e) {
    C->violation(fmt("parse:throws:%s", gen), string("parse_data_string threw: ") + e.what(), "text=" + vf::hex(text));
    return;
  }
  if (d1 != d2 || d1 != d3 || m1 != m2) C->violation("parse:not-deterministic", "same text parsed differently", "text=" + vf::hex(text));
  if (m1.size() != d1.size()) C->violation("parse:mask-size", "mask does not classify every output byte", "text=" + vf::hex(text));
  for (unsigned char ch : m1)
    if (ch != 0 && ch != 0xFF) {
      C->violation("parse:mask-value", "mask byte neither 00 nor FF", "text=" + vf::hex(text));
      break;
    }
  if (d1.size() > 8 * text.size() + 8) C->violation("parse:output-size", "output larger than 8 bytes per input char", "text=" + vf::hex(text));
  C->cls(fmt("total:%s:out%s", gen, d1.empty() ? "0" : d1.size() < text.size() ? "<in" : ">=in"));
}

static const char* BASE_TEXTS[] = {
    "/* omit 01 02 */ 03 ?04? $ ##30 $ ##127 ?\"dark\"? ###-1 'cold' %-1.667 %%-2.667",
    "\"a\\\"b\\\\c\\n\" 'x\\'y\\\\' // trailing comment\n0A0b ####18446744073709551615 #255 ##0xFFFF",
    "$ %%1e308 $ %1.5e-45 '\\t' \"\\r\\n\\t\" /* unterminated",
    "#-128 ##-32768 ###-2147483648 ####-9223372036854775808 // no newline",
    "?\"masked\\\"?\"? 00 11 ? 22 ? 33 <file> %inf %%-nan %0x1.8p3",
    "'unterminated \\",
    "\"unterminated \\",
    "0 1 2 3 4 5 6 7 8 9 a b c d e f A B C D E F g h 0",
    "###", "%%", "%", "#", "##", "####", "#####5", "%%%1.0", "/", "/*/", "/**/", "//", "\\", "'", "\"", "$$$", "???",
};

static void total_suite(vf::Rng& r) {
  uint64_t idx = 0;
  static const char* TOK[] = {"\"", "'", "\\", "?", "$", "#", "##", "###", "####", "%", "%%", "//", "/*", "*/", "/", "*", "\n", " ", "\t", "0x", "0X", "-", "+", "1e", "e", "E", "p", "inf", "nan", "nan(1)", "infinity", ".", "<", ">",
      "0", "1", "7", "9", "a", "F", "f", "n", "r", "t", "18446744073709551616", "99999999999999999999999999", "1e999", "1e-999", "0x1p-1074", "\\\"", "\\'", "\\n", "\\\\", "\x7F", "\x80", "\xFF", "\x01"};
  const size_t NT = sizeof(TOK) / sizeof(TOK[0]);
  // every truncation and every single-token substitution/insertion of the base texts
  for (const char* b : BASE_TEXTS) {
    string base = b;
    for (size_t cut = 0; cut <= base.size(); cut++) {
      if (!C->mine(idx++)) continue;
      check_total(base.substr(0, cut), "truncated");
      check_total(base.substr(cut), "suffix");
      for (size_t t = 0; t < NT; t++) {
        check_total(base.substr(0, cut) + TOK[t] + base.substr(cut), "insert-token");
        if (cut < base.size()) check_total(base.substr(0, cut) + TOK[t] + base.substr(cut + 1), "replace-token");
      }
      if (cut < base.size()) {
        string z = base;
        z[cut] = 0;
        check_total(z, "embedded-nul");
      }
    }
  }
  uint64_t n = C->qt<uint64_t>(120000, 1000000) / C->nshards + 1;
  for (uint64_t i = 0; i < n; i++) {
    string t;
    const char* gen;
    switch (r.below(5)) {
      case 0: {
        size_t k = r.below(40);
        for (size_t j = 0; j < k; j++) t += TOK[r.below(NT)];
        gen = "token-soup";
        break;
      }
      case 1: {
        size_t k = r.below(200);
        for (size_t j = 0; j < k; j++) t += r.chance(1, 3) ? string(1, (char)r.next()) : string(TOK[r.below(NT)]);
        gen = "token+bytes";
        break;
      }
      case 2:
        t = r.bytes(r.below(64));
        gen = "random-bytes";
        break;
      case 3: {
        t = BASE_TEXTS[r.below(8)];
        size_t k = 1 + r.below(4);
        for (size_t j = 0; j < k && !t.empty(); j++) {
          size_t p = r.below(t.size());
          switch (r.below(4)) {
            case 0: t[p] = (char)r.next(); break;
            case 1: t.erase(p, 1 + r.below(3)); break;
            case 2: t.insert(p, TOK[r.below(NT)]); break;
            default: t.insert(p, t.substr(r.below(t.size()), r.below(12))); break;
          }
        }
        gen = "mutated-base";
        break;
      }
      default: {
        // 1..15 chars: lives in the std::string small buffer
        size_t k = 1 + r.below(15);
        for (size_t j = 0; j < k; j++) t += r.chance(1, 2) ? TOK[r.below(20)][0] : (char)r.next();
        t.resize(k);
        gen = "short";
        break;
      }
    }
    check_total(t, gen);
  }
  // numeric-literal spellings: every marker x every prefix of every spelling x every way the literal can end
  // (end of text, white space, a construct character, a hex digit, a letter), in both byte orders. Whatever a spelling
  // means, the parser must come back without a sanitizer report, deterministically, with a mask of the right size.
  {
    static const char* MARK[] = {"%", "%%", "#", "##", "###", "####"};
    static const char* SPELL[] = {
        "+1.5", "-1.5", "+.5e+1", "-5.E-1", "007.50", "-000", "+0", "-0.0e-0", "1e+20", "1E-20", "1e+007", "1e-", "1e+", "1.e", ".e5", ".", "+.", "-", "+", "+-1", "--1", "++1",
        "1e39", "-1e39", "3.4028235677973366e38", "123456789012345678901234567890123456789012", "1e309", "-1.8e308", "1e400", "1e999999", "1e99999999999999999999", "1e-99999999999999999999",
        "1e-46", "-1e-46", "1.4e-45", "4.9e-324", "2e-324", "-1e-400", "1e2147483648", "1e-2147483649", "1e4294967297", "1e18446744073709551617",
        "inf", "-inf", "+inf", "INF", "Inf", "infinity", "-Infinity", "INFINITYx", "infinit", "in", "nan", "-nan", "+NaN", "NAN", "nan()", "nan(0x7ff)", "nan(abc_1)", "nan(", "nan(1", "nan(1 )", "na",
        "0x1.8p1", "0X1P-1", "-0x.8p+3", "+0x1p-149", "0x1.8", "0x1.", "0x.p1", "0x", "0xp1", "0x1p", "0x1p+", "0x1p-", "0x1.fffffffffffffp1023", "0x1p1024", "0x1p-1075", "0x1p99999999999999999999", "0x1p-99999999999999999999",
        "0x1.ffffffffffffffffffffffffffffffffffffffffp0", "0x0.00000000000000000000000000000000000001p200",
        "+5", "+0x1F", "-0x10", "0X1f", "010", "08", "0", "-0", "256", "-129", "65536", "4294967296", "18446744073709551615", "18446744073709551616", "-18446744073709551616", "-9223372036854775809",
        "99999999999999999999999999999999999999", "0b101", "0o17", "1_000", "1,5", "1'000", "0x1'F", "1.5f", "1.5L", "1e5f", "0x1p1f"};
    static const char* ENDS[] = {"", " ", "\n", "?", "$", "\"", "'", "/", "//", "#", "%", "0", "f", "e", "p", "x", ".", "+", "-", "g", ")", "\x80"};
    for (const char* mk : MARK)
      for (const char* sp : SPELL) {
        if (!C->mine(idx++)) continue;
        size_t L = strlen(sp);
        for (size_t cut = 1; cut <= L; cut++)
          for (const char* en : ENDS)
            for (int be = 0; be < 2; be++) {
              string t = string(be ? "$" : "") + mk + string(sp, cut) + en;
              check_total(t, cut == L ? "number-spelling" : "number-spelling-prefix");
              if (be == 0 && en[0] == ' ') check_total("A1 ?" + t + "5A\"q\" " + mk + string(sp, cut), "number-spelling-embedded");
            }
      }
  }
  // long inputs: the parser must stay linear (a quadratic parser would trip the watchdog)
  if (C->mine(idx++)) {
    size_t reps = C->qt<size_t>(20000, 400000);
    for (const char* unit : {"#", "%", "\"\\", "'a", "/*", "?0", "$##1 ", "f", "%+", "%%-", "%1e", "%0x", "%.", "%nan(", "%inf", "#+", "#0x", "%+1 ", "%%1e999 ", "%1e-999 ", "%0x1p1 ", "%nan ", "#+1 "}) {
      string t;
      for (size_t k = 0; k < reps; k++) t += unit;
      check_total(t, "long-repeat");
    }
  }
  // one very long numeric literal: long digit strings in the integer part, the fraction, the exponent, a hex significand
  // and a nan(...) payload, after each marker
  {
    size_t n = C->qt<size_t>(20000, 100000);
    struct Long { const char* head; char fill; const char* tail; };
    static const Long LONGS[] = {{"", '9', ""}, {"+", '1', ".5"}, {"0.", '0', "1"}, {"-.", '7', "e5"}, {"1e", '9', ""}, {"1e-", '9', ""}, {"1e+", '0', "5"}, {"", '0', "5"},
        {"0x", 'f', "p1"}, {"0x1.", 'a', "p-5"}, {"0x1p", '9', ""}, {"0x1p-", '9', ""}, {"nan(", 'a', ")"}, {"nan(", '1', ""}, {"-", '0', ""}, {"0x", '0', "1"}};
    for (const char* mk : {"%", "%%", "#", "####"})
      for (const Long& lg : LONGS) {
        if (!C->mine(idx++)) continue;
        for (const char* en : {"", " 00"})
          check_total(string(mk) + lg.head + string(n, lg.fill) + lg.tail + en, "long-number");
      }
  }
}

// ---------------------------------------------------------------------------------------------
// hex dump case generation (shared by iov / overload / io parts)

enum : uint64_t {
  F_COLOR = phosg::PrintDataFlags::USE_COLOR,
  F_ASCII = phosg::PrintDataFlags::PRINT_ASCII,
  F_FLOAT = phosg::PrintDataFlags::PRINT_FLOAT,
  F_DOUBLE = phosg::PrintDataFlags::PRINT_DOUBLE,
  F_REVERSE = phosg::PrintDataFlags::REVERSE_ENDIAN_FLOATS,
  F_COLLAPSE = phosg::PrintDataFlags::COLLAPSE_ZERO_LINES,
  F_SKIPSEP = phosg::PrintDataFlags::SKIP_SEPARATOR,
  F_NOCOLOR = phosg::PrintDataFlags::DISABLE_COLOR,
  F_OFF8 = phosg::PrintDataFlags::OFFSET_8_BITS,
  F_OFF16 = phosg::PrintDataFlags::OFFSET_16_BITS,
  F_OFF32 = phosg::PrintDataFlags::OFFSET_32_BITS,
  F_OFF64 = phosg::PrintDataFlags::OFFSET_64_BITS,
  F_BIG = phosg::PrintDataFlags::BIG_ENDIAN_FLOATS,
  F_LITTLE = phosg::PrintDataFlags::LITTLE_ENDIAN_FLOATS,
};

static const int N_LAYOUT = 2 * 2 * 2 * 4 * 2 * 2 * 5;  // 640 layout flag combinations
static uint64_t layout_flags(int v) {
  uint64_t f = 0;
  if (v & 1) f |= F_ASCII;
  if (v & 2) f |= F_FLOAT;
  if (v & 4) f |= F_DOUBLE;
  if (v & 8) f |= F_COLLAPSE;
  if (v & 16) f |= F_SKIPSEP;
  v >>= 5;
  static const uint64_t endian[] = {0, F_REVERSE, F_BIG, F_LITTLE};
  f |= endian[v % 4];
  v /= 4;
  static const uint64_t off[] = {0, F_OFF8, F_OFF16, F_OFF32, F_OFF64};
  f |= off[v % 5];
  return f;
}

// colour/diff modes
static const int N_CMODE = 6;
static const char* CMODE_NAMES[] = {"plain", "disable-color", "color-noprev", "color+prev", "prev-nocolor", "prev+disable-color"};
static uint64_t cmode_flags(int m) { return m == 1 || m == 5 ? F_NOCOLOR : (m == 2 || m == 3) ? F_COLOR : 0; }
static bool cmode_prev(int m) { return m >= 3; }

static const int N_AKIND = 20;
static const char* AKIND_NAMES[] = {"0", "1-15", "0xF8", "0xFFF8", "2^32-8", "2^32+3", "2^63", "2^64-4096+k", "2^64-len-16", "2^64-len", "2^64-len-(1..15)", "end=0x100", "end=0x10000", "end=2^32", "end=0x101", "random-aligned", "random", "2^32-len-k", "2^64-len-(17..64)", "small-random"};
static uint64_t make_addr(vf::Rng& r, int kind, size_t len) {
  switch (kind) {
    case 0: return 0;
    case 1: return 1 + r.below(15);
    case 2: return 0xF8;
    case 3: return 0xFFF8;
    case 4: return 0xFFFFFFF8ULL;
    case 5: return 0x100000003ULL;
    case 6: return 0x8000000000000000ULL;
    case 7: {
      uint64_t room = 4096 > len ? 4096 - len : 0;
      return (uint64_t)0 - 4096 + r.below(room + 1);
    }
    case 8: return (uint64_t)0 - len - 16;
    case 9: return (uint64_t)0 - len;
    case 10: return (uint64_t)0 - len - (1 + r.below(15));
    case 11: return len <= 0x100 ? 0x100 - len : 0;
    case 12: return 0x10000 - len;
    case 13: return 0x100000000ULL - len;
    case 14: return len <= 0x101 ? 0x101 - len : 1;
    case 15: return (r.next() >> (1 + r.below(60))) & ~0xFULL;
    case 16: return r.next() >> (1 + r.below(60));
    case 17: return 0x100000000ULL - len - r.below(40);
    case 18: return (uint64_t)0 - len - (17 + r.below(48));
    default: return r.below(0x300);
  }
}

static const int N_DKIND = 8;
static const char* DKIND_NAMES[] = {"random", "text", "zeros", "sparse", "zero-runs", "floats", "doubles", "edge-bytes"};
static string make_data(vf::Rng& r, int kind, size_t n) {
  string d(n, '\0');
  switch (kind) {
    case 0: return r.bytes(n);
    case 1: return gen_printable(r, n);
    case 2: return d;
    case 3: {
      size_t k = 1 + r.below(1 + n / 24);
      for (size_t j = 0; j < k && n; j++) d[r.below(n)] = (char)(1 + r.below(255));
      return d;
    }
    case 4: {
      size_t i = 0;
      bool z = r.chance(1, 2);
      while (i < n) {
        size_t run = z ? 1 + r.below(80) : 1 + r.below(24);
        for (size_t k = 0; k < run && i < n; k++, i++) d[i] = z ? 0 : (char)r.next();
        z = !z;
      }
      return d;
    }
    case 5: {
      for (size_t i = 0; i + 4 <= n; i += 4) {
        float f;
        switch (r.below(5)) {
          case 0: f = (float)r.range(-1000, 1000); break;
          case 1: f = (float)r.range(-100000, 100000) / 128.0f; break;
          case 2: f = ldexpf((float)r.range(1, 1 << 23), (int)r.range(-140, 100)); break;
          case 3: {
            uint32_t b = (uint32_t)r.next();
            memcpy(&f, &b, 4);
            break;
          }
          default: f = 0; break;
        }
        if (r.chance(1, 2)) {  // big-endian image
          uint32_t b;
          memcpy(&b, &f, 4);
          b = __builtin_bswap32(b);
          memcpy(&d[i], &b, 4);
        } else
          memcpy(&d[i], &f, 4);
      }
      return d;
    }
    case 6: {
      for (size_t i = 0; i + 8 <= n; i += 8) {
        double f;
        switch (r.below(4)) {
          case 0: f = (double)r.range(-100000, 100000); break;
          case 1: f = ldexp((double)r.range(1, 1LL << 52), (int)r.range(-1070, 960)); break;
          case 2: {
            uint64_t b = r.next();
            memcpy(&f, &b, 8);
            break;
          }
          default: f = (double)r.range(-4000, 4000) / 16.0; break;
        }
        if (r.chance(1, 2)) {
          uint64_t b;
          memcpy(&b, &f, 8);
          b = __builtin_bswap64(b);
          memcpy(&d[i], &b, 8);
        } else
          memcpy(&d[i], &f, 8);
      }
      return d;
    }
    default: {
      static const uint8_t E[] = {0x00, 0x1F, 0x20, 0x7E, 0x7F, 0x80, 0xFF, 0x1B, '|', ' ', 'A', '\n'};
      for (auto& ch : d) ch = (char)E[r.below(sizeof(E))];
      return d;
    }
  }
}

static const int N_PKIND = 5;
static const char* PKIND_NAMES[] = {"equal", "few-changes", "all-random", "block-mix", "zero-vs-nonzero"};
static string make_prev(vf::Rng& r, int kind, const string& d, uint64_t addr) {
  string p = d;
  size_t n = d.size();
  switch (kind) {
    case 0: break;
    case 1: {
      size_t k = 1 + r.below(4);
      for (size_t j = 0; j < k && n; j++) {
        size_t i = r.below(n);
        p[i] = (char)(p[i] ^ (1 + r.below(255)));
      }
      break;
    }
    case 2: p = r.bytes(n); break;
    case 3:
    default: {
      // per dump line: copy / zero / randomise / one byte
      size_t i = 0;
      while (i < n) {
        size_t line_end = 16 - ((addr + i) & 15);
        int act = (int)r.below(kind == 4 ? 3 : 4);
        for (size_t k = 0; k < line_end && i < n; k++, i++) {
          if (act == 1) p[i] = 0;
          else if (act == 2) p[i] = (char)(kind == 4 ? (d[i] ? 0 : 1 + r.below(255)) : r.next());
        }
        if (act == 3) p[i - 1] = (char)(p[i - 1] + 1);
      }
      break;
    }
  }
  return p;
}

static size_t dump_len(vf::Rng& r) {
  switch (r.below(10)) {
    case 0: {
      static const size_t B[] = {0, 1, 2, 15, 16, 17, 31, 32, 33, 47, 48, 49, 64, 255, 256, 257};
      return B[r.below(sizeof(B) / sizeof(B[0]))];
    }
    case 1: return 65 + r.below(536);
    case 2: return 100 + r.below(200);
    default: return r.below(65);
  }
}

struct DumpCase {
  string data, prev;
  bool has_prev = false;
  uint64_t addr = 0, flags = 0;
  int akind = 0, dkind = 0, pkind = 0, cmode = 0;
  string label() const {
    return fmt("addr=%s data=%s cmode=%s%s%s", AKIND_NAMES[akind], DKIND_NAMES[dkind], CMODE_NAMES[cmode], has_prev ? " prev=" : "", has_prev ? PKIND_NAMES[pkind] : "");
  }
  string describe() const {
    return fmt("format_data(addr=0x%" PRIX64 ", flags=0x%" PRIX64 ", len=%zu, data=%s, prev=%s)", addr, flags, data.size(), vf::hex(data).c_str(), has_prev ? vf::hex(prev).c_str() : "null");
  }
};

static DumpCase random_case(vf::Rng& r, size_t len) {
  DumpCase k;
  k.akind = (int)r.below(N_AKIND);
  k.dkind = (int)r.below(N_DKIND);
  k.cmode = (int)r.below(N_CMODE);
  k.addr = make_addr(r, k.akind, len);
  k.data = make_data(r, k.dkind, len);
  k.flags = layout_flags((int)r.below(N_LAYOUT)) | cmode_flags(k.cmode);
  k.has_prev = cmode_prev(k.cmode);
  if (k.has_prev) {
    k.pkind = (int)r.below(N_PKIND);
    k.prev = make_prev(r, k.pkind, k.data, k.addr);
  }
  return k;
}

// iovec list over exact-size heap copies of the pieces (ASan sees any read past a piece)
struct IovSet {
  vector<struct iovec> v;
  vector<void*> blocks;
  IovSet(const string& d, const vector<size_t>& cuts, vf::Rng* r) {
    // cuts: ascending offsets in [0,n]; pieces are [0,c0) [c0,c1) ... [ck,n)
    size_t prev = 0;
    for (size_t i = 0; i <= cuts.size(); i++) {
      size_t end = i < cuts.size() ? cuts[i] : d.size();
      size_t len = end - prev;
      struct iovec io;
      if (len) {
        void* b = malloc(len);
        memcpy(b, d.data() + prev, len);
        blocks.push_back(b);
        io.iov_base = b;
      } else {
        io.iov_base = (r && r->chance(1, 2)) ? nullptr : (void*)(uintptr_t)0x10;  // never dereferenced when len==0
      }
      io.iov_len = len;
      v.push_back(io);
      prev = end;
    }
  }
  ~IovSet() {
    for (void* b : blocks) free(b);
  }
  IovSet(const IovSet&) = delete;
};

static string piece_str(const vector<struct iovec>& v) {
  string s;
  for (auto& io : v) s += fmt("%s%zu", s.empty() ? "" : "+", io.iov_len);
  return s;
}

// reference rendering: whole buffer in one iovec
static bool render_single(const DumpCase& k, string* out, string* err) {
  IovSet cur(k.data, {}, nullptr);
  vf::poison_errno();
  try {
    if (k.has_prev) {
      IovSet pv(k.prev, {}, nullptr);
      *out = phosg::format_data(cur.v.data(), cur.v.size(), k.addr, pv.v.data(), pv.v.size(), k.flags);
    } else {
      *out = phosg::format_data(cur.v.data(), cur.v.size(), k.addr, nullptr, 0, k.flags);
    }
    return true;
  } catch (const std::exception& e) {
    *err = e.what();
    return false;
  }
}

static const char* exc_class(const string& what) {
  if (what.find("exceeded final") != string::npos) return "throws-reads-exceeded-final-iov";
  if (what.find("does not match") != string::npos) return "throws-size-mismatch";
  return "throws-other";
}

static uint64_t iov_cases = 0;

static void check_partition(const DumpCase& k, const string& ref, const vector<size_t>& cuts, const vector<size_t>& pcuts, vf::Rng& r, const char* how) {
  C->evaluations++;
  iov_cases++;
  C->crumb_s(fmt("iov %s addr=0x%" PRIX64 " flags=0x%" PRIX64 " len=%zu prev=%d data=", how, k.addr, k.flags, k.data.size(), (int)k.has_prev) + vf::hex(k.data).substr(0, 1400));
  IovSet cur(k.data, cuts, &r);
  string out;
  try {
    vf::poison_errno();
    if (k.has_prev) {
      IovSet pv(k.prev, pcuts, &r);
      out = phosg::format_data(cur.v.data(), cur.v.size(), k.addr, pv.v.data(), pv.v.size(), k.flags);
    } else {
      out = phosg::format_data(cur.v.data(), cur.v.size(), k.addr, nullptr, 0, k.flags);
    }
  } catch (const std::exception& e) {
    C->violation(dump_key(string("partition:") + exc_class(e.what()), k.addr, k.data.size()), string("format_data threw on a partitioned buffer it renders as one piece: ") + e.what(),
        k.describe() + " pieces=" + piece_str(cur.v));
    return;
  }
  if (out != ref) {
    C->violation(dump_key("partition-dependent-output", k.addr, k.data.size()), "output differs from the single-iovec rendering of the same bytes",
        k.describe() + " pieces=" + piece_str(cur.v) + " got=[" + esc_text(out).substr(0, 600) + "] single=[" + esc_text(ref).substr(0, 600) + "]");
  }
  C->cls(fmt("iov:%s:pieces%zu:%s", how, cur.v.size() > 4 ? (size_t)5 : cur.v.size(), k.has_prev ? "diff" : "nodiff"));
  C->cls(fmt("iov:len%s:%s", lenbucket(k.data.size()).c_str(), reaches_2_64(k.addr, k.data.size()) ? "reaches-2^64" : "below-2^64"));
  if (iov_cases % 50000 == 11) C->sample("partition " + k.describe().substr(0, 200) + " pieces=" + piece_str(cur.v));
}

static void iov_suite(vf::Rng& r) {
  uint64_t idx = 0;
  // exhaustive: every way to cut n<=40 bytes into 1..4 consecutive pieces (empty pieces included)
  int configs = C->qt(3, 6);
  for (size_t n = 0; n <= 40; n++) {
    for (int cfg = 0; cfg < configs; cfg++) {
      if (!C->mine(idx++)) continue;
      DumpCase k = random_case(r, n);
      if (cfg == 0) {
        k.flags = (k.flags & ~(uint64_t)(F_COLLAPSE)) | F_ASCII | F_FLOAT;
      }
      string ref, err;
      if (!render_single(k, &ref, &err)) {
        C->evaluations++;
        C->violation(dump_key(exc_class(err), k.addr, k.data.size()), "format_data threw on a valid buffer: " + err, k.describe());
        continue;
      }
      vector<size_t> pc;
      if (k.has_prev && n) pc = {r.below(n + 1)};
      for (size_t a = 0; a <= n; a++)
        for (size_t b = a; b <= n; b++)
          for (size_t c = b; c <= n; c++) check_partition(k, ref, {a, b, c}, pc, r, "exhaustive-4way");
    }
  }
  // random partitions into up to 8 pieces, lengths up to 600, prev partitioned independently
  uint64_t m = C->qt<uint64_t>(24000, 150000) / C->nshards + 1;
  for (uint64_t i = 0; i < m; i++) {
    size_t n = dump_len(r);
    DumpCase k = random_case(r, n);
    string ref, err;
    if (!render_single(k, &ref, &err)) {
      C->evaluations++;
      C->violation(dump_key(exc_class(err), k.addr, k.data.size()), "format_data threw on a valid buffer: " + err, k.describe());
      continue;
    }
    for (int rep = 0; rep < 3; rep++) {
      auto cuts_for = [&]() {
        vector<size_t> cuts;
        size_t pieces = 1 + r.below(8);
        for (size_t j = 1; j < pieces; j++) {
          uint64_t how = r.below(4);
          size_t at = how == 0 ? 0 : how == 1 ? n : r.below(n + 1);
          if (how == 3 && n >= 16) at = (at & ~(size_t)15) + (16 - (k.addr & 15)) % 16;  // on a line boundary
          if (at > n) at = n;
          cuts.push_back(at);
        }
        std::sort(cuts.begin(), cuts.end());
        return cuts;
      };
      vector<size_t> cuts = cuts_for(), pcuts = cuts_for();
      check_partition(k, ref, cuts, pcuts, r, "random-8way");
    }
  }
}

// ---------------------------------------------------------------------------------------------
// overload: all print_data / format_data entry points agree with the core

static string read_stream(FILE* f) {
  fflush(f);
  long n = ftell(f);
  string s(n > 0 ? n : 0, '\0');
  rewind(f);
  if (n > 0 && fread(&s[0], 1, n, f) != (size_t)n) s = "<short read>";
  rewind(f);
  if (ftruncate(fileno(f), 0) != 0) s = "<ftruncate failed>";
  return s;
}

// random cuts of n bytes into `pieces` consecutive pieces (empty pieces allowed)
static vector<size_t> random_cuts(vf::Rng& r, size_t n, size_t pieces) {
  vector<size_t> cuts;
  for (size_t j = 1; j < pieces; j++) {
    uint64_t how = r.below(5);
    cuts.push_back(how == 0 ? 0 : how == 1 ? n : r.below(n + 1));
  }
  std::sort(cuts.begin(), cuts.end());
  return cuts;
}

// Overload matrix: every print_data / format_data entry point x {no prev, prev with the SAME partition, prev cut
// into a DIFFERENT number of pieces (1..4 vs 1..4, empty pieces included)} x colour {none, USE_COLOR, DISABLE_COLOR}
// must print exactly what the iovec core prints for the contiguous buffers.
static void overload_suite(vf::Rng& r) {
  FILE* tf = tmpfile();
  if (!tf) {
    fprintf(stderr, "[harness-error] tmpfile failed\n");
    exit(3);
  }
  static const uint64_t COLORS[3] = {0, F_COLOR, F_NOCOLOR};
  static const char* COLOR_NAMES[3] = {"none", "USE_COLOR", "DISABLE_COLOR"};
  uint64_t n = C->qt<uint64_t>(3000, 30000) / C->nshards + 1;
  for (uint64_t i = 0; i < n; i++) {
    size_t len = dump_len(r);
    if (len == 0 && r.chance(3, 4)) len = 1 + r.below(40);
    DumpCase k = random_case(r, len);
    if (reaches_2_64(k.addr, len)) k.addr -= 32;  // the 2^64 edge is judged by the iov/io parts
    k.flags &= ~(uint64_t)(F_COLOR | F_NOCOLOR);
    k.pkind = (int)r.below(N_PKIND);
    k.prev = make_prev(r, k.pkind, k.data, k.addr);
    uint64_t base_flags = k.flags;
    C->crumb_s(fmt("overload addr=0x%" PRIX64 " flags=0x%" PRIX64 " len=%zu data=", k.addr, k.flags, len) + vf::hex(k.data).substr(0, 700) + " prev=" + vf::hex(k.prev).substr(0, 700));
    // core results for the contiguous buffers: [colour][with prev]
    string ref[3][2];
    bool ref_ok = true;
    for (int c = 0; c < 3 && ref_ok; c++)
      for (int wp = 0; wp < 2 && ref_ok; wp++) {
        DumpCase q = k;
        q.flags = base_flags | COLORS[c];
        q.has_prev = wp;
        string err;
        vf::poison_errno();
        if (!render_single(q, &ref[c][wp], &err)) {
          C->evaluations++;
          C->violation(dump_key(exc_class(err), k.addr, len), "format_data threw on a valid buffer: " + err, q.describe());
          ref_ok = false;
        }
      }
    if (!ref_ok) continue;
    string what_case;
    auto run = [&](const char* entry, const char* pcls, int c, int wp, const std::function<string()>& fn) {
      C->evaluations++;
      string got;
      vf::poison_errno();
      try {
        got = fn();
      } catch (const std::exception& e) {
        C->violation(string("overload:") + entry + ":throws", string("entry point threw although the core renders the same buffers: ") + e.what(),
            fmt("%s color=%s prev=%s %s ", entry, COLOR_NAMES[c], pcls, what_case.c_str()) + k.describe());
        return;
      }
      if (got != ref[c][wp])
        C->violation(string("overload:") + entry + "-differs", "entry point prints something else than the iovec core does for the same contiguous buffers",
            fmt("%s color=%s prev=%s %s ", entry, COLOR_NAMES[c], pcls, what_case.c_str()) + k.describe() + " got=[" + esc_text(got).substr(0, 500) + "] core=[" + esc_text(ref[c][wp]).substr(0, 500) + "]");
      C->cls(fmt("overload:%s:prev-%s", entry, pcls));
      C->cls(fmt("overload:color-%s:prev-%s", COLOR_NAMES[c], pcls));
    };
    // A. contiguous entry points: (ptr,size) and std::string, string-returning and FILE* forms
    for (int c = 0; c < 3; c++)
      for (int wp = 0; wp < 2; wp++) {
        uint64_t fl = base_flags | COLORS[c];
        const void* pv = wp ? k.prev.data() : nullptr;
        const char* pcls = wp ? "contiguous" : "none";
        what_case = "";
        run("format_data(ptr,size)", pcls, c, wp, [&]() { return phosg::format_data(k.data.data(), len, k.addr, pv, fl); });
        run("format_data(string)", pcls, c, wp, [&]() { return phosg::format_data(k.data, k.addr, pv, fl); });
        run("print_data(FILE*,ptr,size)", pcls, c, wp, [&]() {
          phosg::print_data(tf, k.data.data(), len, k.addr, pv, fl);
          return read_stream(tf);
        });
        run("print_data(FILE*,string)", pcls, c, wp, [&]() {
          phosg::print_data(tf, k.data, k.addr, pv, fl);
          return read_stream(tf);
        });
      }
    // B. scatter/gather entry points: vector<iovec> and (iovec*, count), string-returning and FILE* forms
    for (size_t cp = 1; cp <= 4; cp++) {
      vector<size_t> ccuts = random_cuts(r, len, cp);
      IovSet cur(k.data, ccuts, &r);
      vector<struct iovec> cv(cur.v.begin(), cur.v.end());  // capacity == size: ASan sees a read past the last entry
      for (int scen = 0; scen <= 5; scen++) {  // 0 = no prev, 1..4 = prev in that many pieces, 5 = same partition as cur
        int c = (int)r.below(3);
        int wp = scen != 0;
        uint64_t fl = base_flags | COLORS[c];
        size_t pp = scen == 5 ? cp : (size_t)scen;
        vector<size_t> pcuts = scen == 5 ? ccuts : (scen ? random_cuts(r, len, pp) : vector<size_t>());
        std::unique_ptr<IovSet> pset(wp ? new IovSet(k.prev, pcuts, &r) : nullptr);
        vector<struct iovec> pvv;
        if (wp) pvv.assign(pset->v.begin(), pset->v.end());
        pvv.shrink_to_fit();
        const vector<struct iovec>* pvp = wp ? &pvv : nullptr;
        const char* pcls = !wp ? "none" : scen == 5 ? "same-partition" : pp > cp ? "more-pieces" : pp < cp ? "fewer-pieces" : "same-count-other-cuts";
        what_case = fmt("cur-pieces=%s prev-pieces=%s", piece_str(cv).c_str(), wp ? piece_str(pvv).c_str() : "-");
        run("format_data(vector)", pcls, c, wp, [&]() { return phosg::format_data(cv, k.addr, pvp, fl); });
        run("format_data(iovec*,n)", pcls, c, wp, [&]() { return phosg::format_data(cv.data(), cv.size(), k.addr, wp ? pvv.data() : nullptr, wp ? pvv.size() : 0, fl); });
        run("print_data(FILE*,vector)", pcls, c, wp, [&]() {
          phosg::print_data(tf, cv, k.addr, pvp, fl);
          return read_stream(tf);
        });
        run("print_data(FILE*,iovec*,n)", pcls, c, wp, [&]() {
          phosg::print_data(tf, cv.data(), cv.size(), k.addr, wp ? pvv.data() : nullptr, wp ? pvv.size() : 0, fl);
          return read_stream(tf);
        });
        C->cls(fmt("overload:pieces:%zuv%s", cp, !wp ? "none" : scen == 5 ? "same" : fmt("%zu", pp).c_str()));
      }
    }
    if (i < 1) C->sample("overload matrix " + k.describe().substr(0, 200));
  }
  // documented refusal: prev of another size
  {
    string d = "abcdef", p = "abc";
    vector<struct iovec> a = {{(void*)d.data(), d.size()}}, b = {{(void*)p.data(), p.size()}};
    bool threw = false;
    try {
      phosg::format_data(a, 0, &b, F_ASCII);
    } catch (const std::runtime_error&) {
      threw = true;
    }
    C->evaluations++;
    C->cls(threw ? "overload:prev-size-mismatch:refused" : "overload:prev-size-mismatch:accepted");
  }
  fclose(tf);
}

// ---------------------------------------------------------------------------------------------
// streams: the auto-colour decision of print_data (neither USE_COLOR nor DISABLE_COLOR) must depend on the stream
// of *this* call only. Each of the 6 orders of first use of {pty, tmpfile, pipe} runs in a forked child, started
// before this process has made any print_data call, so that the process-wide first call really goes to that kind.

struct OutStream {
  const char* kind = "";
  FILE* f = nullptr;
  int rfd = -1;  // where the output is read back (pty master / pipe read end); -1 = read the file itself
  bool tty = false;
};

static bool open_pty(OutStream* o) {
  int m = posix_openpt(O_RDWR | O_NOCTTY);
  if (m < 0) return false;
  if (grantpt(m) != 0 || unlockpt(m) != 0) {
    close(m);
    return false;
  }
  const char* name = ptsname(m);
  int sfd = name ? open(name, O_RDWR | O_NOCTTY) : -1;
  if (sfd < 0) {
    close(m);
    return false;
  }
  struct termios t;
  if (tcgetattr(sfd, &t) == 0) {
    cfmakeraw(&t);  // no \n -> \r\n translation, no echo
    tcsetattr(sfd, TCSANOW, &t);
  }
  fcntl(m, F_SETFL, fcntl(m, F_GETFL) | O_NONBLOCK);
  o->kind = "pty";
  o->f = fdopen(sfd, "w");
  o->rfd = m;
  o->tty = isatty(sfd);
  return o->f != nullptr && o->tty;
}

static bool open_pipe(OutStream* o) {
  int fds[2];
  if (pipe(fds) != 0) return false;
  fcntl(fds[0], F_SETFL, fcntl(fds[0], F_GETFL) | O_NONBLOCK);
  o->kind = "pipe";
  o->f = fdopen(fds[1], "w");
  o->rfd = fds[0];
  return o->f != nullptr;
}

static string drain_fd(int fd, size_t expect) {
  string got;
  char buf[8192];
  int waited = 0;
  for (;;) {
    ssize_t n = read(fd, buf, sizeof(buf));
    if (n > 0) {
      got.append(buf, n);
      continue;
    }
    if (n == 0) break;
    if (errno == EINTR) continue;
    if (errno != EAGAIN && errno != EWOULDBLOCK) break;
    // nothing available right now: wait longer while output is still owed, briefly once it is complete (extras?)
    int budget = got.size() < expect ? 1000 : 15;
    if (waited >= budget) break;
    struct pollfd pf = {fd, POLLIN, 0};
    int step = got.size() < expect ? 50 : 15;
    poll(&pf, 1, step);
    waited += step;
  }
  return got;
}

static void report(int fd, const char* tag, const string& a, const string& b = "", const string& c = "") {
  string line = string(tag) + "\x1f" + a + "\x1f" + b + "\x1f" + c + "\n";
  size_t off = 0;
  while (off < line.size()) {
    ssize_t n = write(fd, line.data() + off, line.size() - off);
    if (n <= 0) break;
    off += n;
  }
}

static const int STREAM_ORDERS[6][3] = {{0, 1, 2}, {0, 2, 1}, {1, 0, 2}, {1, 2, 0}, {2, 0, 1}, {2, 1, 0}};  // 0 pty 1 tmpfile 2 pipe

static void streams_child(int order, int rep_fd, uint64_t seed) {
  vf::Rng r(seed * 31 + order);
  OutStream st[3];
  bool have[3];
  have[0] = open_pty(&st[0]);
  st[1].kind = "tmpfile";
  st[1].f = tmpfile();
  have[1] = st[1].f != nullptr;
  have[2] = open_pipe(&st[2]);
  if (!have[0]) report(rep_fd, "count", "streams_no_pty");
  static const char* KN[3] = {"pty", "tmpfile", "pipe"};
  const int* ord = STREAM_ORDERS[order];
  const char* first_kind = nullptr;
  for (int j = 0; j < 3 && !first_kind; j++)
    if (have[ord[j]]) first_kind = KN[ord[j]];
  if (!first_kind) return;
  int rounds = 10;
  for (int round = 0; round < rounds; round++) {
    for (int j = 0; j < 3; j++) {
      int si = ord[j];
      if (!have[si]) continue;
      OutStream& o = st[si];
      for (int wp = 0; wp < 2; wp++) {
        size_t len = 1 + r.below(40);
        DumpCase k = random_case(r, len);
        if (reaches_2_64(k.addr, len)) k.addr -= 64;
        k.dkind = r.chance(1, 2) ? 7 : k.dkind;
        if (k.dkind == 7) k.data = make_data(r, 7, len);  // edge bytes: non-printables make colour visible without prev
        k.flags &= ~(uint64_t)(F_COLOR | F_NOCOLOR);
        k.prev = make_prev(r, 1 + (int)r.below(2), k.data, k.addr);
        k.has_prev = wp;
        // explicit colour flags now and then: they must win over the stream kind
        int explicit_mode = (round >= 2 && r.chance(1, 5)) ? 1 + (int)r.below(2) : 0;  // 1 = USE_COLOR, 2 = DISABLE_COLOR
        uint64_t call_flags = k.flags | (explicit_mode == 1 ? F_COLOR : explicit_mode == 2 ? F_NOCOLOR : 0);
        bool want_color = explicit_mode == 1 || (explicit_mode == 0 && o.tty);
        DumpCase q = k;
        q.flags = k.flags | (want_color ? F_COLOR : 0);
        string want, err;
        C->crumb_s(fmt("streams order=%d round=%d target=%s first=%s addr=0x%" PRIX64 " flags=0x%" PRIX64 " len=%zu data=", order, round, o.kind, first_kind, k.addr, call_flags, len) + vf::hex(k.data));
        if (!render_single(q, &want, &err)) continue;  // judged elsewhere
        const void* pv = wp ? k.prev.data() : nullptr;
        vector<struct iovec> cv = {{(void*)k.data.data(), len}};
        vector<struct iovec> pvv = {{(void*)k.prev.data(), k.prev.size()}};
        int form = (int)r.below(4);
        static const char* FORM[4] = {"print_data(FILE*,string)", "print_data(FILE*,ptr,size)", "print_data(FILE*,vector)", "print_data(FILE*,iovec*,n)"};
        string got;
        vf::poison_errno();
        try {
          switch (form) {
            case 0: phosg::print_data(o.f, k.data, k.addr, pv, call_flags); break;
            case 1: phosg::print_data(o.f, k.data.data(), len, k.addr, pv, call_flags); break;
            case 2: phosg::print_data(o.f, cv, k.addr, wp ? &pvv : nullptr, call_flags); break;
            default: phosg::print_data(o.f, cv.data(), 1, k.addr, wp ? pvv.data() : nullptr, wp ? 1 : 0, call_flags); break;
          }
        } catch (const std::exception& e) {
          report(rep_fd, "viol", fmt("streams:%s:throws", o.kind), e.what(), k.describe());
          continue;
        }
        if (o.rfd >= 0) {
          fflush(o.f);
          got = drain_fd(o.rfd, want.size());
        } else {
          got = read_stream(o.f);
        }
        report(rep_fd, "eval", "1");
        const char* mode = explicit_mode == 1 ? "explicit-USE_COLOR" : explicit_mode == 2 ? "explicit-DISABLE_COLOR" : "auto-colour";
        if (got != want) {
          bool esc_got = got.find('\x1b') != string::npos, esc_want = want.find('\x1b') != string::npos;
          const char* how = (esc_got && !want_color) ? "coloured-although-not-a-terminal" : (!esc_got && esc_want) ? "not-coloured-on-a-terminal" : "differs-from-format_data";
          report(rep_fd, "viol", fmt("streams:%s:%s:%s-first:%s", o.kind, mode, first_kind, how),
              fmt("print_data to a %s does not print what format_data %s USE_COLOR returns (first print_data call of the process went to a %s)", o.kind, want_color ? "with" : "without", first_kind),
              fmt("%s order=%s-%s-%s round=%d ", FORM[form], KN[ord[0]], KN[ord[1]], KN[ord[2]], round) + k.describe() + fmt(" call_flags=0x%" PRIX64, call_flags) + " got=[" + esc_text(got).substr(0, 400) + "] want=[" + esc_text(want).substr(0, 400) + "]");
        }
        report(rep_fd, "cls", fmt("streams:%s:%s:%s-first", o.kind, mode, first_kind));
      }
    }
  }
  report(rep_fd, "cls", fmt("streams:order:%s-%s-%s", KN[ord[0]], KN[ord[1]], KN[ord[2]]));
}

static void streams_suite() {
  for (int order = 0; order < 6; order++) {
    if (!C->mine((uint64_t)order)) continue;
    int fds[2];
    if (pipe(fds) != 0) {
      fprintf(stderr, "[harness-error] pipe failed\n");
      exit(3);
    }
    fflush(nullptr);
    pid_t pid = fork();
    if (pid < 0) {
      fprintf(stderr, "[harness-error] fork failed\n");
      exit(3);
    }
    if (pid == 0) {
      close(fds[0]);
      streams_child(order, fds[1], C->seed);
      close(fds[1]);
      _exit(0);
    }
    close(fds[1]);
    string all;
    char buf[8192];
    ssize_t n;
    while ((n = read(fds[0], buf, sizeof(buf))) > 0 || (n < 0 && errno == EINTR))
      if (n > 0) all.append(buf, n);
    close(fds[0]);
    int status = 0;
    while (waitpid(pid, &status, 0) < 0 && errno == EINTR) {
    }
    size_t pos = 0;
    while (pos < all.size()) {
      size_t e = all.find('\n', pos);
      if (e == string::npos) e = all.size();
      string line = all.substr(pos, e - pos);
      pos = e + 1;
      vector<string> f;
      size_t q = 0;
      for (;;) {
        size_t u = line.find('\x1f', q);
        f.push_back(line.substr(q, u == string::npos ? string::npos : u - q));
        if (u == string::npos) break;
        q = u + 1;
      }
      while (f.size() < 4) f.push_back("");
      if (f[0] == "viol") C->violation(f[1], f[2], f[3]);
      else if (f[0] == "cls") C->cls(f[1]);
      else if (f[0] == "count") C->count(f[1]);
      else if (f[0] == "eval") C->evaluations++;
    }
    if (!WIFEXITED(status) || WEXITSTATUS(status) != 0)
      C->violation("streams:child-died", fmt("stream-history child for order %d ended with status 0x%x (sanitizer report on stderr, if any)", order, status), fmt("order=%d", order));
  }
}

// ---------------------------------------------------------------------------------------------
// io: grammar case execution + dump log for the Python oracles

static void put32(FILE* f, uint32_t v) { fwrite(&v, 4, 1, f); }
static void put64(FILE* f, uint64_t v) { fwrite(&v, 8, 1, f); }
static void putstr(FILE* f, const string& s) {
  put32(f, (uint32_t)s.size());
  if (!s.empty()) fwrite(s.data(), 1, s.size(), f);
}

static const size_t HIST_TEXTS = 12;  // the first texts of the case file are parsed again after every prior (io hist log)
static vector<string> g_hist_texts;

static void io_grammar(const string& cases_path, const string& res_path) {
  FILE* in = fopen(cases_path.c_str(), "rb");
  FILE* out = fopen(res_path.c_str(), "wb");
  if (!in || !out) {
    fprintf(stderr, "[harness-error] cannot open %s / %s\n", cases_path.c_str(), res_path.c_str());
    exit(3);
  }
  uint32_t len;
  uint64_t idx = 0;
  while (fread(&len, 4, 1, in) == 1) {
    string text(len, '\0');
    if (len && fread(&text[0], 1, len, in) != len) {
      fprintf(stderr, "[harness-error] truncated case file\n");
      exit(3);
    }
    if (g_hist_texts.size() < HIST_TEXTS) g_hist_texts.push_back(text);
    C->evaluations++;
    C->crumb_s(fmt("grammar case %" PRIu64 " text=", idx) + vf::hex(text).substr(0, 1800));
    unique_ptr<string> ht(new string(text));
    string mask, data;
    uint8_t status = 0;
    try {
      vf::poison_errno();
      data = phosg::parse_data_string(*ht, &mask);
    } catch (const std::exception& e) {
      status = 1;
      data = e.what();
    }
    fputc(status, out);
    putstr(out, data);
    putstr(out, mask);
    idx++;
  }
  fclose(in);
  fclose(out);
  C->count("grammar_texts_executed", idx);
}

// via: nullptr = format_data(iovec core); otherwise print_data(via, ptr, size, ...) read back from that (non-tty) stream
static void log_case(FILE* f, const DumpCase& k, FILE* via = nullptr) {
  string out, err;
  C->evaluations++;
  C->crumb_s(prior_crumb() + fmt("dump %s%s addr=0x%" PRIX64 " flags=0x%" PRIX64 " len=%zu prev=%d data=", via ? "print_data " : "", k.label().c_str(), k.addr, k.flags, k.data.size(), (int)k.has_prev) + vf::hex(k.data).substr(0, 1300));
  bool ok;
  if (via) {
    ok = true;
    vf::poison_errno();
    try {
      phosg::print_data(via, k.data.data(), k.data.size(), k.addr, k.has_prev ? k.prev.data() : nullptr, k.flags);
      out = read_stream(via);
    } catch (const std::exception& e) {
      ok = false;
      err = e.what();
    }
  } else {
    ok = render_single(k, &out, &err);
  }
  fputc('D', f);
  put64(f, k.addr);
  put64(f, k.flags);
  putstr(f, k.label() + (via ? " via=print_data(FILE*,ptr,size)" : ""));
  putstr(f, k.data);
  fputc(k.has_prev ? 1 : 0, f);
  if (k.has_prev) putstr(f, k.prev);
  fputc(ok ? 0 : 1, f);
  putstr(f, ok ? out : err);
}

static void io_dumps(const string& log_path, vf::Rng& r) {
  FILE* f = fopen(log_path.c_str(), "wb");
  if (!f) {
    fprintf(stderr, "[harness-error] cannot open %s\n", log_path.c_str());
    exit(3);
  }
  uint64_t round = strtoull(C->arg("round", "0").c_str(), nullptr, 0);
  uint64_t idx = 0;
  // every layout flag combination x colour/diff mode on fixed buffers at the key addresses
  {
    vf::Rng fr(C->seed * 77 + round);  // same buffers in every shard of this round
    size_t len = 45 + fr.below(20);
    string d = make_data(fr, 5, len);  // floats, then a zero stretch so that collapsing has something to do
    for (size_t i = 8; i < len && i < 8 + 37; i++) d[i] = 0;
    string dz(len, '\0');
    dz[0] = 'x';
    static const int addr_kinds_q[] = {0, 1, 2, 4, 7, 9, 10};
    static const int addr_kinds_t[] = {0, 1, 2, 3, 4, 5, 6, 7, 8, 9, 10, 11, 12, 13, 14, 17};
    const int* aks = C->quick() ? addr_kinds_q : addr_kinds_t;
    size_t nak = C->quick() ? sizeof(addr_kinds_q) / sizeof(int) : sizeof(addr_kinds_t) / sizeof(int);
    if (round == 0 || C->thorough()) {
      for (size_t ai = 0; ai < nak; ai++)
        for (int cm = 0; cm < N_CMODE; cm++)
          for (int lf = 0; lf < N_LAYOUT; lf++) {
            if (!C->mine(idx++)) continue;
            DumpCase k;
            k.akind = aks[ai];
            k.dkind = 5;
            k.cmode = cm;
            bool zero_variant = (round % 2 == 1);
            k.data = zero_variant ? dz : d;
            k.addr = make_addr(r, k.akind, len);
            k.flags = layout_flags(lf) | cmode_flags(cm);
            k.has_prev = cmode_prev(cm);
            if (k.has_prev) {
              k.pkind = (int)r.below(N_PKIND);
              k.prev = make_prev(r, k.pkind, k.data, k.addr);
            }
            log_case(f, k);
            C->count("dumps_all_flag_combinations");
          }
    }
  }
  uint64_t n = C->qt<uint64_t>(100000, 150000) / C->nshards + 1;
  for (uint64_t i = 0; i < n; i++) {
    DumpCase k = random_case(r, dump_len(r));
    log_case(f, k);
    C->count("dumps_random");
  }
  fclose(f);
}

// ---------------------------------------------------------------------------------------------
// PRIOR HISTORY (round 6).  format_data_string ("%02X" per byte in the hex form) and format_data (address field of
// 2/4/8/16 digits with or without " |", " %02X" per byte, " %12.5g" per float/double field) build their output from
// string_printf pieces; every other part of this harness calls only C09 functions, so the hidden state of such a shared
// helper (a per-thread scratch buffer that only grows, is trimmed every N calls, is given away after a long output) stays
// where the C09 workload itself puts it.  Here each mini-workload runs on a FRESH thread right after exactly one earlier
// unrelated use of the helpers (vf_history.hh: ~280 priors, spread over the shards with stride nshards / phase shard,
// plus a seeded sample of two-step histories).  Nothing new is demanded: every call is judged by the oracle it has in the
// main parts (inline round trip here; Python reference parser and dump decoder for the io hist log), as if it had been
// made on a thread without history.  Keys: <first segment>:prior-history:<prior family>:<rest of the usual key>.

static const size_t HIST_RT_LENS[] = {0, 1, 2, 3, 4, 5, 7, 8, 15, 16, 17, 31, 32, 33, 63, 64, 65, 100, 127, 128, 129, 255, 256, 257, 300};

static string gen_unprintable(vf::Rng& r, size_t n) {  // every byte needs a hex cell / forces the hex form
  string s(n, '\0');
  for (auto& ch : s) {
    uint64_t k = r.below(4);
    ch = (char)(k == 0 ? r.below(9) : k == 1 ? 0x0E + r.below(0x12) : 0x7F + r.below(0x81));
  }
  return s;
}

static void hist_rt_mini(vf::Rng& r) {
  size_t i = 0;
  for (size_t n : HIST_RT_LENS) {  // short to long
    // A: printable: quoted form (nothing to escape / escapes at many places); every 4th forced into the hex form
    string a = (i % 4 < 2) ? gen_printable(r, n) : gen_meta_heavy(r, n);
    int mka = (int)(i % 6);
    string ma = make_mask(r, n, mka);
    check_rt(a, mka ? &ma : nullptr, (i % 4 == 3) ? 1 : 0, "prior-history", mka, i % 3 == 0);
    // B: not printable: one "%02X" piece per byte, mask toggles in between
    string b = (i % 3 == 2) ? r.bytes(n) : gen_unprintable(r, n);
    int mkb = (int)((i + 3) % 6);
    string mb = make_mask(r, n, mkb);
    check_rt(b, mkb ? &mb : nullptr, (i % 5 == 4) ? 1 : 0, "prior-history", mkb, i % 3 == 1);
    i++;
  }
}

static void hist_suite() {
  vf::Rng r = C->rng(60);
  uint64_t before = rt_cases;
  size_t threads = vf::for_each_prior(
      *C,
      [&](const vf::Prior& p) {
        PriorScope ps(p);
        hist_rt_mini(r);
        C->cls("prior:" + g_prior_fam + ":rt");
      },
      C->nshards, C->shard, C->qt<size_t>(2, 12));
  C->count("prior_history_fresh_threads:rt", threads);
  C->count("prior_history_judged_round_trips", rt_cases - before);
  C->count("prior_history_catalogue_size", C->shard == 0 ? vf::priors().size() : 0);
}

// io hist log (--arg histlog=F), judged by vf/oracles/c09.py:
//   'P' str(name) str(family)                                  a fresh thread has just run this prior
//   'G' u32 text-index u8 status str(data-or-what) str(mask)   parse_data_string of the index-th text of the case file
//   'D' ... (as in the dump log)                               format_data / print_data of one buffer
static const size_t HIST_DUMP_LENS[] = {0, 1, 2, 3, 5, 8, 11, 15, 16, 17, 24, 31, 32, 33, 40, 47, 48, 49, 63, 64, 65, 72, 80};

static void io_hist(const string& hist_path) {
  FILE* f = fopen(hist_path.c_str(), "wb");
  FILE* tf = tmpfile();
  if (!f || !tf) {
    fprintf(stderr, "[harness-error] cannot open %s / tmpfile\n", hist_path.c_str());
    exit(3);
  }
  static const uint64_t FS[] = {0, F_ASCII, F_ASCII | F_FLOAT, F_DOUBLE | F_OFF64, F_COLLAPSE | F_OFF8 | F_ASCII, F_SKIPSEP | F_OFF16, F_SKIPSEP | F_OFF64 | F_ASCII,
      F_FLOAT | F_DOUBLE | F_BIG, F_OFF32 | F_SKIPSEP, F_ASCII | F_FLOAT | F_REVERSE, F_OFF32 | F_DOUBLE | F_LITTLE, F_SKIPSEP | F_OFF8 | F_COLLAPSE};
  const size_t NFS = sizeof(FS) / sizeof(FS[0]);
  static const int AK[] = {0, 1, 4, 9, 10, 19};
  static const int DK[] = {0, 1, 5, 6, 4, 7};
  vf::Rng r = C->rng(61);
  uint64_t dumps = 0, texts = 0;
  size_t pass = C->shard;
  size_t threads = vf::for_each_prior(
      *C,
      [&](const vf::Prior& p) {
        PriorScope ps(p);
        fputc('P', f);
        putstr(f, g_prior_name);
        putstr(f, g_prior_fam);
        for (size_t ti = 0; ti < g_hist_texts.size(); ti++) {
          C->evaluations++;
          C->crumb_s(prior_crumb() + fmt("grammar text %zu text=", ti) + vf::hex(g_hist_texts[ti]).substr(0, 1700));
          unique_ptr<string> ht(new string(g_hist_texts[ti]));
          string mask, data;
          uint8_t status = 0;
          try {
            vf::poison_errno();
            data = phosg::parse_data_string(*ht, &mask);
          } catch (const std::exception& e) {
            status = 1;
            data = e.what();
          }
          fputc('G', f);
          put32(f, (uint32_t)ti);
          fputc(status, f);
          putstr(f, data);
          putstr(f, mask);
          texts++;
        }
        // which flag set / address width makes the thread's first formatted pieces (2..18 characters) rotates with the prior
        size_t i = pass++;
        for (size_t n : HIST_DUMP_LENS) {  // short to long: lines of 1, 2, ... 6 rows, partial first / last rows
          for (int colour = 0; colour < 2; colour++) {
            DumpCase k;
            k.akind = AK[(i + colour) % 6];
            k.dkind = (n >= 48 && i % 2) ? 4 : DK[(i + 2 * colour) % 6];  // zero runs where collapsing can bite
            k.cmode = colour ? 3 : 0;
            k.addr = make_addr(r, k.akind, n);
            k.data = make_data(r, k.dkind, n);
            k.flags = FS[(colour ? i * 5 + 1 : i) % NFS] | cmode_flags(k.cmode);
            k.has_prev = cmode_prev(k.cmode);
            if (k.has_prev) {
              k.pkind = 1 + (int)(i % 3);
              k.prev = make_prev(r, k.pkind, k.data, k.addr);
            }
            log_case(f, k, (i % 3 == 2) ? tf : nullptr);
            dumps++;
          }
          i++;
        }
        C->cls("prior:" + g_prior_fam + ":io");
      },
      C->nshards, C->shard, C->qt<size_t>(2, 12));
  fclose(f);
  fclose(tf);
  C->count("prior_history_fresh_threads:io", threads);
  C->count("prior_history_dumps_logged", dumps);
  C->count("prior_history_grammar_texts_executed", texts);
}

int main(int argc, char** argv) {
  vf::Ctx& c = vf::init(argc, argv);
  C = &c;
  string only = c.arg("only");
  uint64_t round = strtoull(c.arg("round", "0").c_str(), nullptr, 0);
  vf::Rng r = c.rng(round);
  auto want = [&](const char* s) { return only.empty() ? strcmp(s, "io") != 0 : only == s; };
  if (want("streams")) streams_suite();  // first: no print_data call may precede the forked children
  if (want("rt")) rt_suite(r);
  if (want("total")) total_suite(r);
  if (want("iov")) iov_suite(r);
  if (want("overload")) overload_suite(r);
  if (want("hist")) hist_suite();
  if (want("io")) {
    if (!c.arg("cases").empty()) io_grammar(c.arg("cases"), c.arg("res"));
    if (!c.arg("log").empty()) io_dumps(c.arg("log"), r);
    if (!c.arg("histlog").empty()) io_hist(c.arg("histlog"));
  }
  if (only.empty()) {
    c.sample("round trip of every 1- and 2-byte string over all 256 values, flags {0,HEX_ONLY}, masks {none, 00 FF, FF 00, 00 00}");
    c.sample("parser totality: every truncation / token insertion of 33 base texts such as [/* omit 01 02 */ 03 ?04? $ ##30 ...]");
    c.sample("every 1-4-way iovec partition of buffers of 0..40 bytes vs. the single-iovec rendering, random flags/addresses incl. 2^64-len");
  }
  return c.finish();
}
