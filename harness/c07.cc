// C07 — canvas operations equal a per-pixel reference model for any arguments.
// Oracles (DESIGN.md, C07): (1) per-pixel model that never computes a clipped rectangle
// (c07_model.hh), (2) model-free clipping invariance (small canvas == padded canvas cropped),
// (3) line laws for draw_line, plus identities, deep copies and out_of_range on direct access.
#include <math.h>
#include <stdint.h>

#include <functional>
#include <set>
#include <stdexcept>
#include <string>
#include <utility>
#include <vector>

#include "Image.hh"
#include "ImageTextFont.hh"
#include "c07_model.hh"
#include "common.hh"

using namespace std;
using namespace c07;
using phosg::Image;
using vf::fmt;

namespace c07 {
const uint8_t* c07_glyph(unsigned idx) { return phosg::font[idx < 96 ? idx : 95]; }
}

static vf::Ctx* C;

// ------------------------------------------------------------------------------------------------
// real image <-> canvas

static inline uint64_t raw_get(const void* base, size_t i, int cw) {
  switch (cw) {
    case 8: return ((const uint8_t*)base)[i];
    case 16: return ((const uint16_t*)base)[i];
    case 32: return ((const uint32_t*)base)[i];
    default: return ((const uint64_t*)base)[i];
  }
}
static inline void raw_put(void* base, size_t i, int cw, uint64_t v) {
  switch (cw) {
    case 8: ((uint8_t*)base)[i] = (uint8_t)v; break;
    case 16: ((uint16_t*)base)[i] = (uint16_t)v; break;
    case 32: ((uint32_t*)base)[i] = (uint32_t)v; break;
    default: ((uint64_t*)base)[i] = v; break;
  }
}

template <typename T>
__attribute__((no_sanitize("address", "undefined"))) static inline void raw_store_t(void* p, const uint64_t* v, size_t n) {
  T* q = (T*)p;
  for (size_t i = 0; i < n; i++) q[i] = (T)v[i];
}

static bool format_matches(const Image& im, const Canvas& c);
static uint64_t n_loaded_ppm = 0, n_loaded_pam = 0, n_raw_ctor = 0, n_load_fallback = 0;

static bool bytes_match(const Image& im, const Canvas& c);

// Canvases whose maximum is the full-width mask come from the sizing constructor; any other maximum can only
// be had by loading a PPM (P6) / PAM (P7) with that MAXVAL or through the raw-data constructor with an
// explicit max_value.  Sample bytes are written in host order (what phosg's loader/saver use).
static Image make_image(const Canvas& c) {
  vf::poison_errno();
  if (!c.odd_max()) {
    Image im((size_t)c.w, (size_t)c.h, c.alpha, (uint8_t)c.cw);  // exact-size malloc inside: ASan red zones both sides
    void* p = im.get_data();
    switch (c.cw) {
      case 8: raw_store_t<uint8_t>(p, c.v.data(), c.v.size()); break;
      case 16: raw_store_t<uint16_t>(p, c.v.data(), c.v.size()); break;
      case 32: raw_store_t<uint32_t>(p, c.v.data(), c.v.size()); break;
      default: raw_store_t<uint64_t>(p, c.v.data(), c.v.size()); break;
    }
    return im;
  }
  size_t nbytes = c.v.size() * (size_t)(c.cw / 8);
  string raw(nbytes ? nbytes : 1, '\0');
  for (size_t i = 0; i < c.v.size(); i++) raw_put(&raw[0], i, c.cw, c.v[i]);
  bool natural = (c.cw == 8) || (c.cw == 16 && c.maxv > 0xFF) || (c.cw == 32 && c.maxv > 0xFFFF) || (c.cw == 64 && c.maxv > 0xFFFFFFFFULL);
  if (natural && c.w > 0 && c.h > 0 && ((c.w + c.h + (int64_t)(c.maxv & 1)) & 1)) {
    string file;
    bool pam = c.alpha || (c.w & 1);
    if (pam) file = fmt("P7\nWIDTH %" PRId64 "\nHEIGHT %" PRId64 "\nDEPTH %d\nMAXVAL %" PRIu64 "\nTUPLTYPE %s\nENDHDR\n", c.w, c.h, c.nch, c.maxv, c.alpha ? "RGB_ALPHA" : "RGB");
    else file = fmt("P6 %" PRId64 " %" PRId64 " %" PRIu64 "\n", c.w, c.h, c.maxv);
    file.append(raw.data(), nbytes);
    FILE* f = fmemopen(&file[0], file.size(), "rb");
    if (f) {
      try {
        Image im(f);
        fclose(f);
        if (format_matches(im, c) && bytes_match(im, c)) {
          (pam ? n_loaded_pam : n_loaded_ppm)++;
          return im;
        }
      } catch (const std::exception&) {
        fclose(f);
      }
      n_load_fallback++;  // the codecs are C06's business; fall back to the raw constructor
    }
  }
  FILE* f = fmemopen(&raw[0], raw.size(), "rb");
  if (!f) {
    fprintf(stderr, "[harness-error] fmemopen failed\n");
    exit(3);
  }
  Image im(f, (ssize_t)c.w, (ssize_t)c.h, c.alpha, (uint8_t)c.cw, c.maxv);
  fclose(f);
  n_raw_ctor++;
  return im;
}

static bool format_matches(const Image& im, const Canvas& c) {
  return (int64_t)im.get_width() == c.w && (int64_t)im.get_height() == c.h && im.get_has_alpha() == c.alpha &&
      im.get_channel_width() == c.cw && im.get_data_size() == c.v.size() * (size_t)(c.cw / 8);
}

// width switch hoisted out of the loops: large canvases (2^18 pixels and more) go through these per operation
// (bulk reads/writes of the harness itself inside [0, get_data_size()): not instrumented - the sanitizers are there
// to watch phosg's accesses, and these loops run over tens of megabytes per operation on the large canvases)
#define C07_NOSAN __attribute__((no_sanitize("address", "undefined")))
template <typename T>
C07_NOSAN static inline bool raw_equal_t(const void* p, const uint64_t* v, size_t n) {
  const T* q = (const T*)p;
  for (size_t i = 0; i < n; i++) if ((uint64_t)q[i] != v[i]) return false;
  return true;
}
template <typename T>
C07_NOSAN static inline void raw_load_t(const void* p, uint64_t* v, size_t n) {
  const T* q = (const T*)p;
  for (size_t i = 0; i < n; i++) v[i] = (uint64_t)q[i];
}

static bool bytes_match(const Image& im, const Canvas& c) {
  const void* p = im.get_data();
  switch (c.cw) {
    case 8: return raw_equal_t<uint8_t>(p, c.v.data(), c.v.size());
    case 16: return raw_equal_t<uint16_t>(p, c.v.data(), c.v.size());
    case 32: return raw_equal_t<uint32_t>(p, c.v.data(), c.v.size());
    default: return raw_equal_t<uint64_t>(p, c.v.data(), c.v.size());
  }
}

// reads the real buffer; the channel maximum is not observable through the API, so it is taken from `maxv_from`
// (the model of the same canvas) when the width is still the same
static void snapshot(const Image& im, Canvas& c, const Canvas* maxv_from = nullptr) {
  uint64_t mv = (maxv_from && maxv_from->cw == im.get_channel_width()) ? maxv_from->maxv : 0;
  // (same as Canvas::init, without zero-filling values that are overwritten right away)
  c.w = (int64_t)im.get_width(); c.h = (int64_t)im.get_height(); c.alpha = im.get_has_alpha(); c.cw = im.get_channel_width();
  c.nch = c.alpha ? 4 : 3; c.mask = mask_of(c.cw); c.maxv = mv ? mv : c.mask;
  c.v.resize((size_t)(c.w * c.h * c.nch));
  c.fl.assign((size_t)(c.w * c.h), EXACT);
  c.tainted = false;
  const void* p = im.get_data();
  switch (c.cw) {
    case 8: raw_load_t<uint8_t>(p, c.v.data(), c.v.size()); break;
    case 16: raw_load_t<uint16_t>(p, c.v.data(), c.v.size()); break;
    case 32: raw_load_t<uint32_t>(p, c.v.data(), c.v.size()); break;
    default: raw_load_t<uint64_t>(p, c.v.data(), c.v.size()); break;
  }
}

static string px_str(const uint64_t* p, int nch) {
  string s = "(";
  for (int k = 0; k < nch; k++) s += fmt("%s%" PRIx64, k ? "," : "", p[k]);
  return s + ")";
}

static string canvas_str(const Canvas& c) { return fmt("%" PRId64 "x%" PRId64 "/%d%s", c.w, c.h, c.cw, c.alpha ? "a" : "n"); }

static string col_str(const uint64_t c[4]) { return fmt("%" PRIx64 ",%" PRIx64 ",%" PRIx64 ",%" PRIx64, c[0], c[1], c[2], c[3]); }

static string op_str(const Op& o) {
  string s = kind_names[o.kind];
  if (o.u32) s += "[u32]";
  switch (o.kind) {
    case K_FILL: return s + fmt("(x=%" PRId64 ",y=%" PRId64 ",w=%" PRId64 ",h=%" PRId64 ",rgba=%s)", o.x, o.y, o.w, o.h, col_str(o.c).c_str());
    case K_TEXT:
      if (o.text.size() > 48 || o.tov >= 0)
        return s + fmt("(x=%" PRId64 ",y=%" PRId64 ",rgba=%s,bg=%s,formatted length=%zu,format variant=%d [0:%%s 1:%%*s 2:literal%%d%%s 3:%%-*s|],overload=%d,width arg=%d,num arg=%d,text seed=%" PRIu64 ",first bytes hex:%s,last bytes hex:%s)",
            o.x, o.y, col_str(o.c).c_str(), col_str(o.bg).c_str(), o.text.size(), o.tvar, o.tov, o.twidth, o.tnum, o.tseed, vf::hex(o.text.substr(0, 12)).c_str(),
            vf::hex(o.text.substr(o.text.size() > 12 ? o.text.size() - 12 : 0)).c_str());
      return s + fmt("(x=%" PRId64 ",y=%" PRId64 ",rgba=%s,bg=%s,text=hex:%s)", o.x, o.y, col_str(o.c).c_str(), col_str(o.bg).c_str(), vf::hex(o.text).c_str());
    case K_HLINE: return s + fmt("(x1=%" PRId64 ",x2=%" PRId64 ",y=%" PRId64 ",dash=%" PRId64 ",rgba=%s)", o.x, o.x2, o.y, o.dash, col_str(o.c).c_str());
    case K_VLINE: return s + fmt("(x=%" PRId64 ",y1=%" PRId64 ",y2=%" PRId64 ",dash=%" PRId64 ",rgba=%s)", o.y, o.x, o.x2, o.dash, col_str(o.c).c_str());
    case K_LINE: return s + fmt("(x0=%" PRId64 ",y0=%" PRId64 ",x1=%" PRId64 ",y1=%" PRId64 ",rgba=%s)", o.x, o.y, o.x2, o.y2, col_str(o.c).c_str());
    case K_REV_H: case K_REV_V: case K_INVERT: return s + "()";
    case K_RESIZE: return s + fmt("(x=%" PRId64 ",y=%" PRId64 ",w=%" PRId64 ",h=%" PRId64 ",sx=%" PRId64 ",sy=%" PRId64 ",sw=%" PRId64 ",sh=%" PRId64 ")", o.x, o.y, o.w, o.h, o.sx, o.sy, o.x2, o.y2);
    default: break;
  }
  s += fmt("(x=%" PRId64 ",y=%" PRId64 ",w=%" PRId64 ",h=%" PRId64 ",sx=%" PRId64 ",sy=%" PRId64, o.x, o.y, o.w, o.h, o.sx, o.sy);
  if (o.kind == K_MASK || o.kind == K_MASK_DST) s += fmt(",key=%" PRIx64 ",%" PRIx64 ",%" PRIx64, o.c[0], o.c[1], o.c[2]);
  if (o.kind == K_BLEND_A) s += fmt(",source_alpha=%" PRIx64, o.salpha);
  return s + ")";
}

static inline uint32_t pack32(const uint64_t c[4]) {
  return (uint32_t)(((c[0] & 0xFF) << 24) | ((c[1] & 0xFF) << 16) | ((c[2] & 0xFF) << 8) | (c[3] & 0xFF));
}

// ------------------------------------------------------------------------------------------------
// running the real code

static void run_real(const Op& o, Image& d, const Image& s, const Image* m, Calls* calls) {
  switch (o.kind) {
    case K_BLIT: d.blit(s, o.x, o.y, o.w, o.h, o.sx, o.sy); break;
    case K_MASK:
      if (o.u32) d.mask_blit(s, o.x, o.y, o.w, o.h, o.sx, o.sy, pack32(o.c));
      else d.mask_blit(s, o.x, o.y, o.w, o.h, o.sx, o.sy, o.c[0], o.c[1], o.c[2]);
      break;
    case K_MASK_DST:
      if (o.u32) d.mask_blit_dst(s, o.x, o.y, o.w, o.h, o.sx, o.sy, pack32(o.c));
      else d.mask_blit_dst(s, o.x, o.y, o.w, o.h, o.sx, o.sy, o.c[0], o.c[1], o.c[2]);
      break;
    case K_MASK_IMG: d.mask_blit(s, o.x, o.y, o.w, o.h, o.sx, o.sy, *m); break;
    case K_BLEND: d.blend_blit(s, o.x, o.y, o.w, o.h, o.sx, o.sy); break;
    case K_BLEND_A: d.blend_blit(s, o.x, o.y, o.w, o.h, o.sx, o.sy, o.salpha); break;
    case K_CUSTOM32:
      d.custom_blit(s, o.x, o.y, o.w, o.h, o.sx, o.sy, std::function<void(uint32_t&, uint32_t)>([calls](uint32_t& dc, uint32_t sc) {
        if (calls) calls->push_back(Call{{dc, 0, 0, 0}, {sc, 0, 0, 0}});
        dc = g32(dc, sc);
      }));
      break;
    case K_CUSTOM64:
      d.custom_blit(s, o.x, o.y, o.w, o.h, o.sx, o.sy,
          std::function<void(uint64_t&, uint64_t&, uint64_t&, uint64_t&, uint64_t, uint64_t, uint64_t, uint64_t)>(
              [calls](uint64_t& dr, uint64_t& dg, uint64_t& db, uint64_t& da, uint64_t sr, uint64_t sg, uint64_t sb, uint64_t sa) {
                uint64_t D[4] = {dr, dg, db, da}, S[4] = {sr, sg, sb, sa};
                if (calls) calls->push_back(Call{{dr, dg, db, da}, {sr, sg, sb, sa}});
                g64(D, S);
                dr = D[0]; dg = D[1]; db = D[2]; da = D[3];
              }));
      break;
    case K_FILL:
      if (o.u32) d.fill_rect(o.x, o.y, o.w, o.h, pack32(o.c));
      else d.fill_rect(o.x, o.y, o.w, o.h, o.c[0], o.c[1], o.c[2], o.c[3]);
      break;
    case K_TEXT:
      if (o.tov >= 0) {
        // explicit overload x format variant (long-text stage)
        ssize_t tw = -12345, th = -12345;
        string f2;
        for (char ch : o.thead) { f2.push_back(ch); if (ch == '%') f2.push_back('%'); }
        f2 += "%d%s";
#define C07_TEXT(...)                                                                                                                              \
  switch (o.tov) {                                                                                                                                  \
    case 0: d.draw_text(o.x, o.y, &tw, &th, o.c[0], o.c[1], o.c[2], o.c[3], o.bg[0], o.bg[1], o.bg[2], o.bg[3], __VA_ARGS__); break;              \
    case 1: d.draw_text(o.x, o.y, o.c[0], o.c[1], o.c[2], o.c[3], o.bg[0], o.bg[1], o.bg[2], o.bg[3], __VA_ARGS__); break;                        \
    case 2: d.draw_text(o.x, o.y, &tw, &th, pack32(o.c), pack32(o.bg), __VA_ARGS__); break;                                                        \
    case 3: d.draw_text(o.x, o.y, pack32(o.c), pack32(o.bg), __VA_ARGS__); break;                                                                  \
    default: d.draw_text(o.x, o.y, pack32(o.c), __VA_ARGS__); break;                                                                               \
  }
        switch (o.tvar) {
          case 0: C07_TEXT("%s", o.text.c_str()); break;
          case 1: C07_TEXT("%*s", o.twidth, o.ttail.c_str()); break;
          case 2: C07_TEXT(f2.c_str(), o.tnum, o.ttail.c_str()); break;
          default: C07_TEXT("%-*s|", o.twidth, o.ttail.c_str()); break;
        }
#undef C07_TEXT
        break;
      }
      if (o.u32) {
        if (o.bg[3] == 0 && o.bg[0] == 0 && o.bg[1] == 0 && o.bg[2] == 0 && (o.text.size() & 1)) d.draw_text(o.x, o.y, pack32(o.c), "%s", o.text.c_str());
        else if (o.text.size() & 2) d.draw_text(o.x, o.y, pack32(o.c), pack32(o.bg), "%s", o.text.c_str());
        else {
          ssize_t tw = -12345, th = -12345;
          d.draw_text(o.x, o.y, &tw, &th, pack32(o.c), pack32(o.bg), "%s", o.text.c_str());
        }
      } else if (o.text.size() & 1) {
        ssize_t tw = -12345, th = -12345;
        d.draw_text(o.x, o.y, &tw, &th, o.c[0], o.c[1], o.c[2], o.c[3], o.bg[0], o.bg[1], o.bg[2], o.bg[3], "%s", o.text.c_str());
      } else {
        d.draw_text(o.x, o.y, o.c[0], o.c[1], o.c[2], o.c[3], o.bg[0], o.bg[1], o.bg[2], o.bg[3], "%s", o.text.c_str());
      }
      break;
    case K_HLINE:
      if (o.u32) d.draw_horizontal_line(o.x, o.x2, o.y, o.dash, pack32(o.c));
      else d.draw_horizontal_line(o.x, o.x2, o.y, o.dash, o.c[0], o.c[1], o.c[2], o.c[3]);
      break;
    case K_VLINE:
      if (o.u32) d.draw_vertical_line(o.y, o.x, o.x2, o.dash, pack32(o.c));
      else d.draw_vertical_line(o.y, o.x, o.x2, o.dash, o.c[0], o.c[1], o.c[2], o.c[3]);
      break;
    case K_LINE:
      if (o.u32) d.draw_line(o.x, o.y, o.x2, o.y2, pack32(o.c));
      else d.draw_line(o.x, o.y, o.x2, o.y2, o.c[0], o.c[1], o.c[2], o.c[3]);
      break;
    case K_REV_H: d.reverse_horizontal(); break;
    case K_REV_V: d.reverse_vertical(); break;
    case K_INVERT: d.invert(); break;
    case K_RESIZE: d.resize_blit(s, o.x, o.y, o.w, o.h, o.sx, o.sy, o.x2, o.y2); break;
    default: break;
  }
}

// returns "" if no exception, else a class name
static string run_guarded(const Op& o, Image& d, const Image& s, const Image* m, Calls* calls, string* what) {
  vf::poison_errno();
  try {
    run_real(o, d, s, m, calls);
  } catch (const std::out_of_range& e) {
    *what = e.what();
    return "out_of_range";
  } catch (const std::invalid_argument& e) {
    *what = e.what();
    return "invalid_argument";
  } catch (const std::runtime_error& e) {
    *what = e.what();
    return "runtime_error";
  } catch (const std::exception& e) {
    *what = e.what();
    return "other-exception";
  }
  return "";
}

// ------------------------------------------------------------------------------------------------
// content

static const int WIDTHS[4] = {8, 16, 32, 64};

static void gen_pixel(vf::Rng& r, const Canvas& c, const uint64_t pal[4][3], uint64_t o[4]) {
  if (r.chance(1, 2)) {
    const uint64_t* p = pal[r.below(4)];
    o[0] = p[0] & c.mask; o[1] = p[1] & c.mask; o[2] = p[2] & c.mask;
  } else {
    for (int k = 0; k < 3; k++) o[k] = (r.chance(1, 4) ? r.interesting() : r.next()) & c.mask;
  }
  switch (r.below(8)) {
    case 0: case 1: o[3] = 0; break;
    case 2: case 3: o[3] = 0xFF; break;
    case 4: o[3] = c.maxv; break;
    case 5: o[3] = 0x80; break;
    case 6: o[3] = r.chance(1, 2) ? 1 : c.maxv - 1; break;
    default: o[3] = r.next() & c.mask; break;
  }
  o[3] &= c.mask;
  // canvases with their own maximum: samples normally stay within it (a few do not: files are not validated)
  if (c.odd_max() && !r.chance(1, 12))
    for (int k = 0; k < 4; k++) if (o[k] > c.maxv) o[k] = (k == 3 && r.chance(1, 2)) ? c.maxv : o[k] % (c.maxv + 1);
}

// a channel maximum different from 2^cw-1 (what a PPM/PAM with that MAXVAL, or the raw constructor, gives)
static uint64_t odd_max_for(vf::Rng& r, int cw) {
  static const uint64_t t8[] = {100, 1, 254, 200, 127, 15}, t16[] = {1023, 256, 4095, 65534, 100, 32768}, t32[] = {65536, 1000000, 0xFFFFFFFEULL, 1023, 0x80000000ULL},
                        t64[] = {0x100000000ULL, 0x8000000000000000ULL, 0xFFFFFFFFFFFFFFFEULL, 1000, 0xFFFFFFFFFFULL};
  uint64_t m;
  switch (cw) {
    case 8: m = r.chance(1, 3) ? 1 + r.below(254) : t8[r.below(6)]; break;
    case 16: m = r.chance(1, 3) ? 256 + r.below(65279) : t16[r.below(6)]; break;
    case 32: m = r.chance(1, 3) ? 65536 + r.below(0xFFFF0000ULL - 1) : t32[r.below(5)]; break;
    default: m = r.chance(1, 3) ? 0x100000000ULL + (r.next() >> 1) : t64[r.below(5)]; break;
  }
  return m;
}

static void standard_palette(vf::Rng& r, uint64_t pal[4][3]) {
  static const uint64_t base[3][3] = {{0x20, 0x20, 0x20}, {0xFF, 0xFF, 0xFF}, {0, 0, 0}};
  memcpy(pal, base, sizeof(base));
  for (int k = 0; k < 3; k++) pal[3][k] = r.next();
}

// one PRNG draw per pixel: content for large canvases (same ingredients as gen_pixel: palette colours, random
// channels, alpha 0 / 0xFF / maximum / 0x80 / 1 / max-1 / random)
static void fill_content_fast(Canvas& c, vf::Rng& r, const uint64_t pal[4][3]) {
  for (int64_t i = 0; i < c.w * c.h; i++) {
    uint64_t z = r.next(), o[4];
    if (z & 1) {
      const uint64_t* p = pal[(z >> 1) & 3];
      o[0] = p[0] & c.mask; o[1] = p[1] & c.mask; o[2] = p[2] & c.mask;
    } else {
      o[0] = (z >> 3) & c.mask;
      o[1] = ((z * 0x9E3779B97F4A7C15ULL) >> 5) & c.mask;
      o[2] = (((z << 29) | (z >> 35)) * 0xBF58476D1CE4E5B9ULL) & c.mask;
    }
    switch ((z >> 61) & 7) {
      case 0: case 1: o[3] = 0; break;
      case 2: case 3: o[3] = 0xFF; break;
      case 4: o[3] = c.maxv; break;
      case 5: o[3] = 0x80; break;
      case 6: o[3] = (z & 2) ? 1 : c.maxv - 1; break;
      default: o[3] = (z * 0x94D049BB133111EBULL) >> 7; break;
    }
    o[3] &= c.mask;
    if (c.odd_max() && ((z >> 40) % 12))
      for (int k = 0; k < 4; k++) if (o[k] > c.maxv) o[k] %= (c.maxv + 1);
    uint64_t* p = &c.v[(size_t)(i * c.nch)];
    p[0] = o[0]; p[1] = o[1]; p[2] = o[2];
    if (c.alpha) p[3] = o[3];
  }
  std::fill(c.fl.begin(), c.fl.end(), (uint8_t)EXACT);
}

static void fill_content(Canvas& c, vf::Rng& r, const uint64_t pal[4][3]) {
  if (c.w * c.h > 20000) { fill_content_fast(c, r, pal); return; }
  for (int64_t y = 0; y < c.h; y++)
    for (int64_t x = 0; x < c.w; x++) {
      uint64_t p[4];
      gen_pixel(r, c, pal, p);
      c.put(x, y, p);
    }
}

// ------------------------------------------------------------------------------------------------
// comparison of the real buffer with the model's expectation

struct Mismatch {
  const char* cls = nullptr;
  int64_t x = 0, y = 0;
  string detail;
};

// before: canvas before the op; model: expectation (flags); real: snapshot of the real image
static bool compare(const Canvas& before, const Canvas& model, const Canvas& real, Mismatch& mm) {
  for (int64_t y = 0; y < model.h; y++) {
    // a row that equals the model's row passes whatever its flags are (fast path for long rows)
    if (model.w && !memcmp(&real.v[(size_t)(y * model.w) * model.nch], &model.v[(size_t)(y * model.w) * model.nch], sizeof(uint64_t) * (size_t)(model.w * model.nch))) continue;
    for (int64_t x = 0; x < model.w; x++) {
      size_t pi = (size_t)(y * model.w + x), vi = pi * model.nch;
      uint8_t f = model.fl[pi];
      if (f == ANY) continue;
      bool eq_model = !memcmp(&real.v[vi], &model.v[vi], sizeof(uint64_t) * model.nch);
      if (eq_model) continue;
      bool eq_before = !memcmp(&real.v[vi], &before.v[vi], sizeof(uint64_t) * model.nch);
      if (f == MAYBE && eq_before) continue;
      bool model_untouched = !memcmp(&before.v[vi], &model.v[vi], sizeof(uint64_t) * model.nch);
      mm.cls = (f == MAYBE) ? "wrong-value" : model_untouched ? "untouched-pixel-changed" : eq_before ? "pixel-not-drawn" : "wrong-value";
      mm.x = x;
      mm.y = y;
      mm.detail = fmt("pixel (%" PRId64 ",%" PRId64 ") before=%s expected=%s got=%s", x, y, px_str(&before.v[vi], model.nch).c_str(),
          px_str(&model.v[vi], model.nch).c_str(), px_str(&real.v[vi], model.nch).c_str());
      return false;
    }
  }
  return true;
}

static void resync(Canvas& model, const Canvas& real) {
  if (!model.tainted) return;
  for (size_t pi = 0; pi < model.fl.size(); pi++)
    if (model.fl[pi]) {
      memcpy(&model.v[pi * model.nch], &real.v[pi * model.nch], sizeof(uint64_t) * model.nch);
      model.fl[pi] = EXACT;
    }
  model.tainted = false;
}

// witness class: channel width; canvases with a side of 1024 pixels or more are a class of their own ("long"), so a
// defect that needs a long run / far offset is recognisable from its key
static string wtag(const Canvas& c) { return fmt((c.w >= 1024 || c.h >= 1024) ? "w%d:long" : "w%d", c.cw); }

// true when this key already has its 5 witnesses: callers then only count it
static inline bool saturated(const string& key) {
  auto it = C->viol_counts.find(key);
  if (it == C->viol_counts.end() || it->second < 5) return false;
  it->second++;
  return true;
}

static bool never_throws(int kind) { return kind != K_RESIZE; }

static int clip_class(const Op& o, const Canvas& d, const Canvas& s) {
  int64_t w = o.w, h = o.h;
  bool isblit = o.kind <= K_CUSTOM64;
  if (isblit && w < 0) w = s.w;
  if (isblit && h < 0) h = s.h;
  bool dneg = o.x < 0 || o.y < 0, dover = o.x + w > d.w || o.y + h > d.h;
  bool sneg = isblit && (o.sx < 0 || o.sy < 0), sover = isblit && (o.sx + w > s.w || o.sy + h > s.h);
  return (dneg ? 1 : 0) | (sneg ? 2 : 0) | (dover ? 4 : 0) | (sover ? 8 : 0);
}

// Clipping invariance (oracle 2): the same request on a canvas padded by P on every side, destination
// coordinates translated, cropped back, must equal what the small canvas shows.  No model involved.
static void check_invariance(const Op& o, const Canvas& before, const Canvas& real_small, const Image& simg, const Image* mimg, int P,
    vf::Rng& r, const string& where) {
  Canvas big;
  big.init(before.w + 2 * P, before.h + 2 * P, before.alpha, before.cw, before.maxv);
  uint64_t pal[4][3];
  standard_palette(r, pal);
  // for mask_blit_dst make padding hit the key colour often
  if (o.kind == K_MASK_DST) for (int k = 0; k < 3; k++) pal[3][k] = o.c[k];
  fill_content(big, r, pal);
  for (int64_t y = 0; y < before.h; y++)
    if (before.w) memcpy(&big.v[(size_t)(((y + P) * big.w + P) * big.nch)], &before.v[(size_t)(y * before.w * before.nch)], sizeof(uint64_t) * (size_t)(before.w * before.nch));
  Image bimg = make_image(big);
  Op o2 = o;
  o2.x += P;
  o2.y += P;
  string what;
  C->crumb_s("invariance P=" + to_string(P) + " " + where);
  string ex = run_guarded(o2, bimg, simg, mimg, nullptr, &what);
  C->evaluations++;
  C->count("invariance_runs");
  string key = string(kind_names[o.kind]) + ":";
  if (!ex.empty()) {
    C->violation(key + "threw-" + ex + ":" + wtag(before), "operation threw on the padded canvas: " + what, fmt("P=%d ", P) + where);
    return;
  }
  const void* p = bimg.get_data();
  if (before.w * before.h > 20000 && format_matches(bimg, big)) {
    // large canvases: rows that agree are skipped wholesale, the per-channel walk below only names the first difference
    static Canvas g_big;
    snapshot(bimg, g_big);
    bool all = true;
    for (int64_t y = 0; y < before.h && all; y++)
      if (memcmp(&g_big.v[(size_t)(((y + P) * big.w + P) * big.nch)], &real_small.v[(size_t)(y * before.w * before.nch)], sizeof(uint64_t) * (size_t)(before.w * before.nch))) all = false;
    if (all) return;
  }
  for (int64_t y = 0; y < before.h; y++)
    for (int64_t x = 0; x < before.w; x++)
      for (int k = 0; k < before.nch; k++) {
        uint64_t got = raw_get(p, (size_t)(((y + P) * big.w + (x + P)) * big.nch + k), big.cw);
        uint64_t small = real_small.v[(size_t)((y * before.w + x) * before.nch + k)];
        if (got != small) {
          C->violation(key + "clip-invariance:" + wtag(before), "drawing on the small canvas differs from drawing on a padded canvas and cropping",
              fmt("P=%d pixel (%" PRId64 ",%" PRId64 ") channel %d small=%" PRIx64 " padded=%" PRIx64 " ", P, x, y, k, small, got) + where);
          return;
        }
      }
}

struct Env {
  Canvas* dm;        // shadow of destination (in: before, out: after)
  Image* dimg;       // real destination, in sync with dm at entry
  const Canvas* sm;  // source shadow (nullptr = self)
  const Image* simg;
  const Canvas* mm = nullptr;
  const Image* mimg = nullptr;
  uint64_t content_seed = 0;
};

static Canvas g_before, g_real;

static inline void adopt(Canvas& dm, const Canvas& real) {
  uint64_t mv = dm.maxv;
  int cw = dm.cw;
  dm = real;
  if (dm.cw == cw) dm.maxv = mv;
}

// hot-path coverage counters (flushed into the class map at the end)
static uint64_t n_kind[K_NKINDS], n_clip[K_NKINDS][16], n_fmt[K_NKINDS][4][2][2];  // fmt: [width][alpha (folded on flush)][self]

static uint64_t n_oddmax[K_NKINDS][4];

static void flush_counters() {
  C->count("canvases_loaded_from_P6", n_loaded_ppm);
  C->count("canvases_loaded_from_P7", n_loaded_pam);
  C->count("canvases_from_raw_ctor_with_max_value", n_raw_ctor);
  C->count("canvas_load_fallbacks", n_load_fallback);
  for (int k = 0; k < K_NKINDS; k++) for (int w = 0; w < 4; w++)
    if (n_oddmax[k][w]) C->cls(string(kind_names[k]) + ((k == K_INVERT || k == K_BLEND || k == K_BLEND_A || k == K_BLIT) ? fmt(":own-maxval:%d", 8 << w) : string(":own-maxval")), n_oddmax[k][w]);
  for (int k = 0; k < K_NKINDS; k++) {
    if (n_kind[k]) C->count(kind_names[k], n_kind[k]);
    for (int b = 0; b < 16; b++)
      if (n_clip[k][b]) C->cls(string(kind_names[k]) + ":clip:" + (b & 1 ? "N" : "-") + (b & 2 ? "n" : "-") + (b & 4 ? "O" : "-") + (b & 8 ? "o" : "-"), n_clip[k][b]);
    for (int w = 0; w < 4; w++) for (int sf = 0; sf < 2; sf++) {
      if (n_fmt[k][w][0][sf] + n_fmt[k][w][1][sf]) C->cls(string(kind_names[k]) + fmt(":fmt:%d", 8 << w) + (sf ? ":self" : ""), n_fmt[k][w][0][sf] + n_fmt[k][w][1][sf]);
    }
    for (int a = 0; a < 2; a++) {
      uint64_t t = 0;
      for (int w = 0; w < 4; w++) t += n_fmt[k][w][a][0] + n_fmt[k][w][a][1];
      if (t) C->cls(string(kind_names[k]) + (a ? ":alpha" : ":no-alpha"), t);
    }
  }
}

// Runs one operation against model + real image, all monitors on.  Returns false on violation.
static bool check_op(const Op& o, Env& e, vf::Rng& r, int invariance_P) {
  Canvas& dm = *e.dm;
  bool self = e.sm == nullptr;
  g_before = dm;
  const Canvas& before = g_before;
  string where;
  auto describe = [&]() {
    if (where.empty())
      where = op_str(o) + " dst=" + canvas_str(before) + (self ? " src=self" : " src=" + canvas_str(*e.sm)) +
          (o.kind == K_MASK_IMG ? " mask=" + canvas_str(*e.mm) : "") + fmt(" content_seed=%" PRIu64 " seed=%" PRIu64 " shard=%u/%u", e.content_seed, C->seed, C->shard, C->nshards);
    return where;
  };
  const string kname = kind_names[o.kind];
  // documented precondition of mask_blit(mask image): mask must cover the requested w x h
  bool mask_precondition_broken = false;
  if (o.kind == K_MASK_IMG) {
    const Canvas& s = self ? before : *e.sm;
    int64_t w = o.w < 0 ? s.w : o.w, h = o.h < 0 ? s.h : o.h;
    mask_precondition_broken = e.mm->w < w || e.mm->h < h;
  }
  Calls calls_model, calls_real;
  bool calls_exact = true;
  if (!mask_precondition_broken) calls_exact = apply_model(o, dm, self ? dm : *e.sm, e.mm, &calls_model);

  if (o.kind <= K_FILL)
    C->crumb("%s%s(x=%" PRId64 ",y=%" PRId64 ",w=%" PRId64 ",h=%" PRId64 ",sx=%" PRId64 ",sy=%" PRId64 ",c=%" PRIx64 ",%" PRIx64 ",%" PRIx64 ",%" PRIx64 ",salpha=%" PRIx64 ") dst=%" PRId64 "x%" PRId64 "/%d%c src=%" PRId64 "x%" PRId64 "/%d%c self=%d content_seed=%" PRIu64,
        kind_names[o.kind], o.u32 ? "[u32]" : "", o.x, o.y, o.w, o.h, o.sx, o.sy, o.c[0], o.c[1], o.c[2], o.c[3], o.salpha, before.w, before.h, before.cw, before.alpha ? 'a' : 'n',
        self ? before.w : e.sm->w, self ? before.h : e.sm->h, self ? before.cw : e.sm->cw, (self ? before.alpha : e.sm->alpha) ? 'a' : 'n', (int)self, e.content_seed);
  else
    C->crumb_s(describe());
  C->evaluations++;
  string what;
  string ex = run_guarded(o, *e.dimg, self ? *e.dimg : *e.simg, e.mimg, &calls_real, &what);
  n_kind[o.kind]++;

  bool ok = true;
  if (mask_precondition_broken) {
    // "mask is too small to cover copied area": documented; only the exception type is looked at
    if (ex != "runtime_error" && !ex.empty()) {
      C->violation(kname + ":threw-" + ex + ":" + wtag(before), "mask smaller than requested area: expected runtime_error, got " + ex + ": " + what, describe());
      ok = false;
    }
    snapshot(*e.dimg, g_real);
    adopt(dm, g_real);
    C->cls(kname + ":mask-too-small");
    return ok;
  }
  if (!ex.empty()) {
    bool allowed = !never_throws(o.kind) && (ex == "out_of_range" || ex == "invalid_argument");
    if (!allowed) {
      if (!saturated(kname + ":threw-" + ex + ":" + wtag(before))) C->violation(kname + ":threw-" + ex + ":" + wtag(before), "operation threw " + ex + " (" + what + ") for these coordinates", describe());
      ok = false;
    }
  }
  if (!format_matches(*e.dimg, before)) {
    C->violation(kname + ":format-changed", "canvas dimensions/format changed by a drawing operation", describe());
    snapshot(*e.dimg, g_real);
    adopt(dm, g_real);
    return false;
  }
  snapshot(*e.dimg, g_real);
  Mismatch mm;
  if (!compare(before, dm, g_real, mm)) {
    string key = kname + ":" + mm.cls + ":" + wtag(before);
    if (!saturated(key)) C->violation(key, string("pixel buffer differs from the per-pixel model: ") + mm.cls, mm.detail + " | " + describe());
    ok = false;
  }
  if ((o.kind == K_CUSTOM32 || o.kind == K_CUSTOM64) && ex.empty()) {
    if (calls_real.size() != calls_model.size()) {
      if (!saturated(kname + ":callback-count:" + wtag(before))) C->violation(kname + ":callback-count:" + wtag(before), fmt("callback invoked %zu times, model addresses %zu pixels", calls_real.size(), calls_model.size()), describe());
      ok = false;
    } else if (calls_exact && !(calls_real == calls_model)) {
      size_t i = 0;
      while (i < calls_real.size() && calls_real[i] == calls_model[i]) i++;
      C->violation(kname + ":callback-sequence:" + wtag(before), fmt("callback call #%zu got dst=%s src=%s, model says dst=%s src=%s", i,
          px_str(calls_real[i].d, 4).c_str(), px_str(calls_real[i].s, 4).c_str(), px_str(calls_model[i].d, 4).c_str(), px_str(calls_model[i].s, 4).c_str()), describe());
      ok = false;
    }
  }
  // coverage
  {
    const Canvas& s = self ? before : *e.sm;
    if (o.kind <= K_FILL) n_clip[o.kind][clip_class(o, before, s)]++;
    n_fmt[o.kind][before.cw == 8 ? 0 : before.cw == 16 ? 1 : before.cw == 32 ? 2 : 3][before.alpha][self]++;
    if (before.odd_max()) n_oddmax[o.kind][before.cw == 8 ? 0 : before.cw == 16 ? 1 : before.cw == 32 ? 2 : 3]++;
  }
  if (!ok) {
    adopt(dm, g_real);  // continue from the real state
    return false;
  }
  // oracle 2
  if (invariance_P > 0 && !self && ex.empty() && (o.kind <= K_TEXT)) check_invariance(o, before, g_real, *e.simg, e.mimg, invariance_P, r, describe());
  resync(dm, g_real);
  return true;
}

// ------------------------------------------------------------------------------------------------
// oracle 3: line laws

// the line laws proper: `changed` = every pixel whose value differs from before the call (fmtc: size/format of the canvas)
static void line_laws(const Op& o, const Canvas& before, const vector<pair<int64_t, int64_t>>& changed, bool colour_present, const std::function<string()>& describe) {
  string tag = ":" + wtag(before);
  int64_t dx = o.x2 - o.x, dy = o.y2 - o.y;
  int64_t adx = dx < 0 ? -dx : dx, ady = dy < 0 ? -dy : dy;
  bool steep = ady > adx;
  int64_t major = steep ? ady : adx;
  int64_t minx = min(o.x, o.x2), maxx = max(o.x, o.x2), miny = min(o.y, o.y2), maxy = max(o.y, o.y2);
  for (auto& p : changed) {
    bool bad = p.first < minx || p.first > maxx || p.second < miny || p.second > maxy;
    if (!bad && major > 0) {
      // deviation along the minor axis from the ideal segment, exact: |2*(dev numerator)| <= major*(1+2e-9)
      __int128 num = steep ? ((__int128)(p.first - o.x) * dy - (__int128)(p.second - o.y) * dx) : ((__int128)(p.second - o.y) * dx - (__int128)(p.first - o.x) * dy);
      if (num < 0) num = -num;
      long double lhs = (long double)(2 * num), rhs = (long double)major * (1.0L + 2e-9L);
      bad = lhs > rhs;
    } else if (!bad && major == 0) {
      bad = !(p.first == o.x && p.second == o.y);
    }
    if (bad) {
      C->violation("draw_line:pixel-off-segment" + tag, "a marked pixel lies more than 0.5 (minor axis) from the ideal segment or outside its bounding box",
          fmt("pixel (%" PRId64 ",%" PRId64 ") ", p.first, p.second) + describe());
      break;
    }
  }
  bool in_canvas = before.inside(o.x, o.y) && before.inside(o.x2, o.y2);
  if (in_canvas && !colour_present) {
    bool has0 = false, has1 = false;
    for (auto& p : changed) {
      if (p.first == o.x && p.second == o.y) has0 = true;
      if (p.first == o.x2 && p.second == o.y2) has1 = true;
    }
    if ((int64_t)changed.size() != major + 1)
      C->violation("draw_line:pixel-count" + tag, fmt("in-canvas line marks %zu pixels, expected max(|dx|,|dy|)+1 = %" PRId64, changed.size(), major + 1), describe());
    else if (!has0 || !has1)
      C->violation("draw_line:endpoint-missing" + tag, "an endpoint of an in-canvas line is not marked", describe());
    else {
      // one pixel per major-axis step, consecutive pixels 8-adjacent
      vector<pair<int64_t, int64_t>> byk((size_t)major + 1, {INT64_MIN, INT64_MIN});
      bool okk = true;
      for (auto& p : changed) {
        int64_t k = steep ? (p.second - miny) : (p.first - minx);
        if (k < 0 || k > major || byk[(size_t)k].first != INT64_MIN) { okk = false; break; }
        byk[(size_t)k] = p;
      }
      for (size_t k = 1; okk && k < byk.size(); k++) {
        int64_t ddx = byk[k].first - byk[k - 1].first, ddy = byk[k].second - byk[k - 1].second;
        if (ddx < -1 || ddx > 1 || ddy < -1 || ddy > 1) okk = false;
      }
      if (!okk) C->violation("draw_line:not-connected" + tag, "in-canvas line is not one pixel per major-axis step with 8-adjacent neighbours", describe());
    }
    C->cls(string("draw_line:incanvas:") + (major == 0 ? "point" : adx == 0 || ady == 0 ? "axis" : adx == ady ? "diag" : steep ? "steep" : "shallow") + (dx < 0 ? ":-x" : ":+x") + (dy < 0 ? "-y" : "+y"));
  } else if (!in_canvas) {
    bool one_in = before.inside(o.x, o.y) || before.inside(o.x2, o.y2);
    C->cls(string("draw_line:") + (one_in ? "one-end-outside" : "both-ends-outside") + (changed.empty() ? ":nothing" : ":drawn"));
  }
  C->cls("draw_line:fmt:" + fmt("%d", before.cw));
}

static void check_line(const Op& o, Canvas& dm, Image& img, uint64_t content_seed) {
  const Canvas& before = dm;  // dm is only replaced at the very end
  string where;
  auto describe = [&]() {
    if (where.empty()) where = op_str(o) + " dst=" + canvas_str(before) + fmt(" content_seed=%" PRIu64 " seed=%" PRIu64 " shard=%u/%u", content_seed, C->seed, C->shard, C->nshards);
    return where;
  };
  C->crumb_n("draw_line", (uint64_t)o.x, (uint64_t)o.y, (uint64_t)o.x2, (uint64_t)o.y2, (uint64_t)before.w, (uint64_t)before.h);
  C->evaluations++;
  C->count("draw_line");
  string what;
  string ex = run_guarded(o, img, img, nullptr, nullptr, &what);
  string tag = ":" + wtag(before);
  if (!ex.empty()) C->violation("draw_line:threw-" + ex + tag, "draw_line threw " + ex + ": " + what, describe());
  if (!format_matches(img, before)) {
    C->violation("draw_line:format-changed", "format changed", describe());
    { Canvas keep_ = dm; snapshot(img, dm, &keep_); }
    return;
  }
  snapshot(img, g_real);
  // was the colour already present? (then "changed" under-approximates "marked")
  uint64_t col[4] = {o.c[0] & before.mask, o.c[1] & before.mask, o.c[2] & before.mask, o.c[3] & before.mask};
  bool colour_present = false;
  vector<pair<int64_t, int64_t>> changed;
  const int nch_ = before.nch;
  auto px_eq = [nch_](const uint64_t* a, const uint64_t* b) {  // (memcmp is intercepted by ASan: too slow per pixel on 2^20-pixel canvases)
    for (int k = 0; k < nch_; k++) if (a[k] != b[k]) return false;
    return true;
  };
  for (int64_t y = 0; y < before.h; y++)
    for (int64_t x = 0; x < before.w; x++) {
      size_t vi = (size_t)((y * before.w + x) * before.nch);
      if (px_eq(&before.v[vi], col)) colour_present = true;
      if (!px_eq(&before.v[vi], &g_real.v[vi])) {
        changed.emplace_back(x, y);
        if (memcmp(&g_real.v[vi], col, sizeof(uint64_t) * before.nch))
          C->violation("draw_line:wrong-value" + tag, "a changed pixel does not hold the line colour", fmt("pixel (%" PRId64 ",%" PRId64 ") got=%s ", x, y, px_str(&g_real.v[vi], before.nch).c_str()) + describe());
      }
    }
  line_laws(o, before, changed, colour_present, describe);
  // continue from the real state (adopt() without the copy: g_real is not needed any more)
  dm.v.swap(g_real.v);
  std::fill(dm.fl.begin(), dm.fl.end(), (uint8_t)EXACT);
  dm.tainted = false;
}

// The same laws for a canvas that is known to be all-zero before the call (large canvases): "changed" = every pixel
// with a non-zero byte, found by one scan of the raw buffer; afterwards exactly those pixels are zeroed again, so
// the precondition holds for the next line.  `shape` carries size/format only (no shadow buffer needed).
C07_NOSAN static void nonzero_words(const uint64_t* q, size_t n, vector<size_t>& out) {
  size_t i = 0;
  for (; i + 4 <= n; i += 4) {
    if ((q[i] | q[i + 1] | q[i + 2] | q[i + 3]) == 0) continue;
    for (size_t k = i; k < i + 4; k++) if (q[k]) out.push_back(k);
  }
  for (; i < n; i++) if (q[i]) out.push_back(i);
}
static void check_line_black(const Op& o, const Canvas& shape, Image& img) {
  string where;
  auto describe = [&]() {
    if (where.empty()) where = op_str(o) + " dst=" + canvas_str(shape) + fmt(" (black canvas) seed=%" PRIu64 " shard=%u/%u", C->seed, C->shard, C->nshards);
    return where;
  };
  C->crumb_n("draw_line", (uint64_t)o.x, (uint64_t)o.y, (uint64_t)o.x2, (uint64_t)o.y2, (uint64_t)shape.w, (uint64_t)shape.h);
  C->evaluations++;
  C->count("draw_line");
  string what;
  string ex = run_guarded(o, img, img, nullptr, nullptr, &what);
  string tag = ":" + wtag(shape);
  if (!ex.empty()) C->violation("draw_line:threw-" + ex + tag, "draw_line threw " + ex + ": " + what, describe());
  if ((int64_t)img.get_width() != shape.w || (int64_t)img.get_height() != shape.h || img.get_has_alpha() != shape.alpha || img.get_channel_width() != shape.cw) {
    C->violation("draw_line:format-changed", "format changed", describe());
    return;
  }
  uint8_t* p = (uint8_t*)img.get_data();
  size_t nbytes = img.get_data_size(), bpp = (size_t)(shape.nch * shape.cw / 8);
  vector<pair<int64_t, int64_t>> changed;
  size_t last_px = (size_t)-1;
  auto hit = [&](size_t byte) {
    size_t px = byte / bpp;
    if (px == last_px) return;
    last_px = px;
    changed.emplace_back((int64_t)(px % (size_t)shape.w), (int64_t)(px / (size_t)shape.w));
  };
  {
    static vector<size_t> nz;  // offsets of the non-zero 8-byte words
    nz.clear();
    size_t nwords = nbytes / 8;
    nonzero_words((const uint64_t*)p, nwords, nz);  // (malloc'ed block: 8-byte aligned)
    const size_t npx = (size_t)(shape.w * shape.h);
    for (size_t wi : nz) {
      // the (at most three) pixels this word overlaps; each is listed once if any of its bytes is non-zero
      size_t first = (wi * 8) / bpp, last = (wi * 8 + 7) / bpp;
      for (size_t px = first; px <= last && px < npx; px++) {
        if (px == last_px) continue;
        bool any = false;
        for (size_t b = 0; b < bpp; b++) if (p[px * bpp + b]) { any = true; break; }
        if (any) hit(px * bpp);
      }
    }
    for (size_t i = nwords * 8; i < nbytes; i++) if (p[i]) hit(i);
  }
  uint64_t col[4] = {o.c[0] & shape.mask, o.c[1] & shape.mask, o.c[2] & shape.mask, o.c[3] & shape.mask};
  if (o.u32) for (int k = 0; k < 4; k++) col[k] = o.c[k] & 0xFF & shape.mask;
  bool reported = false;
  for (auto& c : changed) {
    size_t px = (size_t)(c.second * shape.w + c.first);
    uint64_t got[4] = {0, 0, 0, 0};
    bool same = true;
    for (int k = 0; k < shape.nch; k++) { got[k] = raw_get(p, px * shape.nch + k, shape.cw); if (got[k] != col[k]) same = false; }
    if (!same && !reported) {
      reported = true;
      C->violation("draw_line:wrong-value" + tag, "a changed pixel does not hold the line colour", fmt("pixel (%" PRId64 ",%" PRId64 ") got=%s ", c.first, c.second, px_str(got, shape.nch).c_str()) + describe());
    }
  }
  line_laws(o, shape, changed, false, describe);
  for (auto& c : changed) {  // (no memset: it is intercepted, far too slow per pixel)
    uint8_t* q = p + (size_t)(c.second * shape.w + c.first) * bpp;
    for (size_t b = 0; b < bpp; b++) q[b] = 0;
  }
}

// ------------------------------------------------------------------------------------------------
// generators

static int64_t gen_coord(vf::Rng& r, int64_t size, bool big_ok) {
  unsigned k = (unsigned)r.below(big_ok ? 10 : 7);
  if (k < 5) return r.range(-3, size + 3);
  if (k < 7) return r.range(-70, 70);
  static const int64_t mags[] = {32767, 32768, 32769, 65535, 65536, 2147483647LL, 2147483648LL, 2147483648LL - 70, 1000000};
  int64_t m = mags[r.below(sizeof(mags) / sizeof(mags[0]))];
  int64_t v = r.chance(1, 2) ? -m : m;
  if (r.chance(1, 2)) v += r.range(-3, 3);
  if (v > 2147483648LL) v = 2147483648LL;
  if (v < -2147483648LL) v = -2147483648LL;
  return v;
}

static int64_t gen_extent(vf::Rng& r, int64_t size, bool big_ok) {
  unsigned k = (unsigned)r.below(10);
  if (k == 0) return -1;
  if (k == 1) return big_ok ? -r.range(1, 2147483648LL) : -r.range(1, 5);
  if (k < 7) return r.range(0, size + 3);
  if (k < 9) return r.range(0, 70);
  if (!big_ok) return size;
  static const int64_t mags[] = {32767, 32768, 65536, 2147483647LL, 2147483648LL};
  return mags[r.below(5)];
}

static void gen_colour(vf::Rng& r, const Canvas& d, uint64_t c[4], bool eight_bit) {
  uint64_t lim = eight_bit ? 0xFF : d.mask;
  if (d.odd_max() && d.maxv < lim && r.chance(3, 4)) lim = d.maxv;  // mostly colours the canvas can represent
  for (int k = 0; k < 3; k++) c[k] = (r.chance(1, 3) ? (r.chance(1, 2) ? lim : 0) : lim == ~0ULL ? r.next() : r.next() % (lim + 1));
  switch (r.below(6)) {
    case 0: case 1: c[3] = 0xFF; break;
    case 2: c[3] = 0; break;
    case 3: c[3] = 0x80; break;
    case 4: c[3] = eight_bit ? r.below(256) : lim; break;
    default: c[3] = r.next() & lim; break;
  }
}

static string gen_text(vf::Rng& r, size_t maxlen) {
  size_t n = r.below(maxlen + 1);
  string s;
  for (size_t i = 0; i < n; i++) {
    unsigned k = (unsigned)r.below(12);
    char ch;
    if (k == 0) ch = '\n';
    else if (k == 1) ch = '\r';
    else if (k == 2) ch = (char)(0x80 + r.below(128));
    else if (k == 3) ch = (char)(1 + r.below(31));
    else if (k == 4) ch = '%';
    else ch = (char)(0x20 + r.below(96));
    if (ch == 0) ch = ' ';
    s.push_back(ch);
  }
  return s;
}

static void gen_key(vf::Rng& r, const uint64_t pal[4][3], const Canvas& c, uint64_t key[4], bool eight_bit) {
  const uint64_t* p = pal[r.below(4)];
  uint64_t lim = eight_bit ? 0xFF : c.mask;
  for (int k = 0; k < 3; k++) key[k] = p[k] & lim;
  key[3] = 0;
}

// random blit-family / fill / text / dashed-line operation for destination d and source s
static Op gen_op(vf::Rng& r, int kind, const Canvas& d, const Canvas& s, const uint64_t pal[4][3], bool big_ok) {
  Op o;
  o.kind = kind;
  bool eight = d.cw == 8;
  if (kind <= K_CUSTOM64) {
    o.x = gen_coord(r, d.w, big_ok);
    o.y = gen_coord(r, d.h, big_ok);
    o.sx = gen_coord(r, s.w, big_ok);
    o.sy = gen_coord(r, s.h, big_ok);
    int64_t m = max(d.w, s.w), mh = max(d.h, s.h);
    o.w = gen_extent(r, m, big_ok);
    o.h = gen_extent(r, mh, big_ok);
    if (kind == K_MASK || kind == K_MASK_DST) {
      o.u32 = r.chance(1, 4);
      gen_key(r, pal, kind == K_MASK ? s : d, o.c, o.u32);
    }
    if (kind == K_BLEND_A) {
      switch (r.below(5)) {
        case 0: o.salpha = 0; break;
        case 1: o.salpha = d.maxv; break;
        case 2: o.salpha = d.maxv / 2 + 1; break;
        default: o.salpha = d.maxv == ~0ULL ? r.next() : r.next() % (d.maxv + 1); break;
      }
    }
  } else if (kind == K_FILL) {
    o.x = gen_coord(r, d.w, big_ok);
    o.y = gen_coord(r, d.h, big_ok);
    o.w = gen_extent(r, d.w, big_ok);
    o.h = gen_extent(r, d.h, big_ok);
    o.u32 = r.chance(1, 5);
    gen_colour(r, d, o.c, eight || o.u32);
  } else if (kind == K_TEXT) {
    o.x = r.chance(1, 8) ? gen_coord(r, d.w, big_ok) : r.range(-14, d.w + 4);
    o.y = r.chance(1, 8) ? gen_coord(r, d.h, big_ok) : r.range(-18, d.h + 4);
    o.u32 = r.chance(1, 4);
    gen_colour(r, d, o.c, eight || o.u32);
    gen_colour(r, d, o.bg, eight || o.u32);
    if (r.chance(1, 2)) o.bg[3] = 0;  // transparent background
    else if (r.chance(1, 2)) o.bg[3] = 0xFF;
    if (o.u32 && r.chance(1, 3)) o.bg[0] = o.bg[1] = o.bg[2] = o.bg[3] = 0;
    o.text = gen_text(r, 5);
  } else if (kind == K_HLINE || kind == K_VLINE) {
    int64_t len = kind == K_HLINE ? d.w : d.h, other = kind == K_HLINE ? d.h : d.w;
    o.y = r.chance(1, 6) ? gen_coord(r, other, big_ok) : r.range(-1, other);
    if (r.chance(1, 2)) {  // fully inside
      o.x = len ? r.range(0, len - 1) : 0;
      o.x2 = len ? r.range(0, len - 1) : 0;
      if (r.chance(3, 4) && o.x > o.x2) swap(o.x, o.x2);
    } else {
      o.x = gen_coord(r, len, big_ok);
      o.x2 = gen_coord(r, len, big_ok);
    }
    o.dash = r.chance(1, 4) ? 0 : r.chance(1, 10) ? -r.range(1, 5) : r.range(1, 9);
    o.u32 = r.chance(1, 5);
    gen_colour(r, d, o.c, eight || o.u32);
  } else if (kind == K_LINE) {
    if (r.chance(2, 3)) {
      o.x = d.w ? r.range(0, d.w - 1) : 0; o.y = d.h ? r.range(0, d.h - 1) : 0;
      o.x2 = d.w ? r.range(0, d.w - 1) : 0; o.y2 = d.h ? r.range(0, d.h - 1) : 0;
    } else {
      o.x = gen_coord(r, d.w, big_ok); o.y = gen_coord(r, d.h, big_ok);
      o.x2 = gen_coord(r, d.w, big_ok); o.y2 = gen_coord(r, d.h, big_ok);
    }
    o.u32 = r.chance(1, 5);
    gen_colour(r, d, o.c, eight || o.u32);
  } else if (kind == K_RESIZE) {
    o.x = gen_coord(r, d.w, false); o.y = gen_coord(r, d.h, false);
    o.w = r.range(-1, d.w + 3); o.h = r.range(-1, d.h + 3);
    o.sx = r.range(-1, s.w); o.sy = r.range(-1, s.h);
    o.x2 = r.range(-1, s.w + 1); o.y2 = r.range(-1, s.h + 1);
  }
  return o;
}

// ------------------------------------------------------------------------------------------------
// suite: direct pixel access

static void pixel_case(Canvas& dm, Image& img, int64_t x, int64_t y, vf::Rng& r) {
  C->evaluations++;
  C->crumb_n("pixel", (uint64_t)x, (uint64_t)y, (uint64_t)dm.w, (uint64_t)dm.h, (uint64_t)dm.cw, dm.alpha);
  string where = fmt("(%" PRId64 ",%" PRId64 ") on ", x, y) + canvas_str(dm);
  string tag = ":" + wtag(dm);
  bool in = dm.inside(x, y);
  uint64_t c[4];
  for (int k = 0; k < 4; k++) c[k] = r.interesting();
  // 0: read rgba, 1: read u32, 2: write rgba, 3: write u32
  for (int acc = 0; acc < 4; acc++) {
    static const char* an[4] = {"read_pixel", "read_pixel32", "write_pixel", "write_pixel32"};
    uint64_t got[4] = {0xDEAD, 0xDEAD, 0xDEAD, 0xDEAD};
    uint32_t got32 = 0;
    string threw;
    try {
      if (acc == 0) img.read_pixel(x, y, &got[0], &got[1], &got[2], &got[3]);
      else if (acc == 1) got32 = img.read_pixel(x, y);
      else if (acc == 2) img.write_pixel(x, y, c[0], c[1], c[2], c[3]);
      else img.write_pixel(x, y, pack32(c));
    } catch (const std::out_of_range&) {
      threw = "out_of_range";
    } catch (const std::exception& e) {
      threw = string("other:") + e.what();
    }
    if (!in) {
      if (threw != "out_of_range")
        C->violation(string(an[acc]) + ":outside-no-out_of_range" + tag, "access outside the canvas did not throw std::out_of_range (" + (threw.empty() ? string("no exception") : threw) + ")", where);
      if (!format_matches(img, dm) || !bytes_match(img, dm)) {
        snapshot(img, g_real);
        C->violation(string(an[acc]) + ":outside-modified-buffer" + tag, "rejected access modified the pixel buffer", where);
        adopt(dm, g_real);
      }
      C->cls(string("pixel:oob:") + an[acc] + ":" + (x < 0 ? "x<0" : x >= dm.w ? "x>=w" : "xin") + ":" + (y < 0 ? "y<0" : y >= dm.h ? "y>=h" : "yin"));
      continue;
    }
    if (!threw.empty()) {
      C->violation(string(an[acc]) + ":inside-threw" + tag, "access inside the canvas threw " + threw, where);
      continue;
    }
    uint64_t m[4];
    if (acc >= 2) {
      uint64_t cc[4] = {c[0], c[1], c[2], c[3]};
      if (acc == 3) for (int k = 0; k < 4; k++) cc[k] &= 0xFF;
      dm.put(x, y, cc);
      if (!bytes_match(img, dm)) {
        snapshot(img, g_real);
        C->violation(string(an[acc]) + ":wrong-buffer" + tag, "after write_pixel the raw buffer is not 'exactly that pixel set to the (truncated) value'", where + " value=" + col_str(cc));
        adopt(dm, g_real);
      }
    } else {
      dm.get(x, y, m);
      if (acc == 0) {
        if (memcmp(got, m, sizeof(m)))
          C->violation(string(an[acc]) + ":wrong-value" + tag, "read_pixel differs from the raw buffer content", where + " got=" + px_str(got, 4) + " buffer=" + px_str(m, 4));
      } else if (got32 != pack32(m)) {
        C->violation(string(an[acc]) + ":wrong-value" + tag, "read_pixel (packed) differs from the low bytes of the raw buffer content", where + fmt(" got=%08x buffer=", got32) + px_str(m, 4));
      }
    }
    C->cls(string("pixel:in:") + an[acc] + fmt(":%d%s", dm.cw, dm.alpha ? "a" : "n"));
  }
}

static void pixel_suite(vf::Rng& r) {
  static const int64_t sizes[] = {0, 1, 2, 3, 5, 8};
  static const int64_t extremes[] = {INT64_MIN, INT64_MIN + 1, -2147483649LL, -2147483648LL, -65536, 2147483647LL, 2147483648LL, 4294967296LL, INT64_MAX - 1, INT64_MAX};
  uint64_t idx = 0;
  for (int64_t w : sizes) for (int64_t h : sizes) for (int wi = 0; wi < 4; wi++) for (int a = 0; a < 2; a++) {
    if (!C->mine(idx++)) continue;
    Canvas dm;
    dm.init(w, h, a, WIDTHS[wi]);
    uint64_t pal[4][3];
    standard_palette(r, pal);
    fill_content(dm, r, pal);
    Image img = make_image(dm);
    for (int64_t y = -3; y <= h + 3; y++) for (int64_t x = -3; x <= w + 3; x++) pixel_case(dm, img, x, y, r);
    for (int64_t e : extremes) {
      pixel_case(dm, img, e, 0, r);
      pixel_case(dm, img, 0, e, r);
      pixel_case(dm, img, e, e, r);
      pixel_case(dm, img, w ? w - 1 : 0, e, r);
    }
    // coordinates whose linear index y*w+x would land inside the buffer although x is out of range
    if (w > 0 && h > 1) {
      pixel_case(dm, img, w, 0, r);
      pixel_case(dm, img, -1, 1, r);
      pixel_case(dm, img, w + 1, h - 2, r);
    }
  }
  // larger canvases, random
  uint64_t n = C->qt<uint64_t>(400, 8000) / C->nshards + 1;
  for (uint64_t i = 0; i < n; i++) {
    Canvas dm;
    {
      int cw = WIDTHS[r.below(4)];
      dm.init(r.range(1, 64), r.range(1, 64), r.chance(1, 2), cw, r.chance(1, 3) ? odd_max_for(r, cw) : 0);
    }
    uint64_t pal[4][3];
    standard_palette(r, pal);
    fill_content(dm, r, pal);
    Image img = make_image(dm);
    for (int k = 0; k < 60; k++) pixel_case(dm, img, gen_coord(r, dm.w, true), gen_coord(r, dm.h, true), r);
  }
}

// ------------------------------------------------------------------------------------------------
// suite: fill_rect, complete cross product on the small-scope grid

static void fill_suite(vf::Rng& r) {
  static const int64_t sizes[] = {0, 1, 2, 3, 5, 8};
  uint64_t idx = 0, cases = 0;
  for (int64_t dw : sizes) for (int64_t dh : sizes) for (int a = 0; a < 2; a++) for (int wi = 0; wi < 4; wi++) {
    // widths 16/32/64 run the same cross product only in the thorough tier (quick: 8-bit complete, wide sampled below)
    if (wi > 0 && C->quick()) continue;
    Canvas pristine;
    pristine.init(dw, dh, a, WIDTHS[wi]);
    vf::Rng cr((uint64_t)(dw * 1000 + dh * 10 + a) + 77 * (uint64_t)wi);
    uint64_t pal[4][3];
    standard_palette(cr, pal);
    fill_content(pristine, cr, pal);
    static const uint64_t cols[4][4] = {{0x12, 0xFF, 0x80, 0xFF}, {0xFF, 0x00, 0x7F, 0x80}, {0x33, 0x44, 0x55, 0x00}, {0xFE, 0x01, 0xC8, 0x01}};
    for (int ci = 0; ci < 4; ci++)
      for (int64_t x = -3; x <= dw + 3; x++) for (int64_t w = -1; w <= dw + 3; w++) {
        if (!C->mine(idx++)) continue;
        for (int64_t y = -3; y <= dh + 3; y++) for (int64_t h = -1; h <= dh + 3; h++) {
          Canvas dm = pristine;
          Image img = make_image(dm);
          Op o;
          o.kind = K_FILL;
          o.x = x; o.y = y; o.w = w; o.h = h;
          memcpy(o.c, cols[ci], sizeof(o.c));
          o.u32 = ((x + y + w + h) & 3) == 0;
          Env e{&dm, &img, &pristine, &img};
          e.content_seed = (uint64_t)(dw * 1000 + dh * 10 + a) + 77 * (uint64_t)wi;
          cases++;
          check_op(o, e, r, (cases % 4 == 0) ? 1 + (int)(cases / 4 % 5) : 0);
        }
      }
  }
  C->count("fill_rect_small_scope_cases", cases);
}

// ------------------------------------------------------------------------------------------------
// suite: blit family on the small-scope grid (canvases <= 3x3 (quick) / 4x4 (thorough) grid points)

static void blit_suite(vf::Rng& r) {
  vector<int64_t> sizes = {0, 1, 2, 3};
  // thorough: complete cross product of the geometric parameters (every tuple once; the 8 kinds
  // and the 4 alpha-mode pairs rotate, rotation offset = seed); quick: ~1/keep random sample
  uint64_t keep = C->qt<uint64_t>(16, 1);
  uint64_t idx = 0, cases = 0, rot = C->seed * 5;
  for (int64_t dw : sizes) for (int64_t dh : sizes) for (int64_t sw : sizes) for (int64_t sh : sizes) {
    int64_t mw = max(dw, sw), mh = max(dh, sh);
    uint64_t cseed0 = (uint64_t)(dw * 1000 + dh * 100 + sw * 10 + sh) * 4;
    Canvas pristine[4], sm[4], mm;
    Image simg[4];
    uint64_t pal[4][3];
    for (int fmtp = 0; fmtp < 4; fmtp++) {
      vf::Rng cr(cseed0 + (uint64_t)fmtp);
      standard_palette(cr, pal);
      pristine[fmtp].init(dw, dh, fmtp & 1, 8);
      sm[fmtp].init(sw, sh, fmtp & 2, 8);
      fill_content(pristine[fmtp], cr, pal);
      fill_content(sm[fmtp], cr, pal);
      simg[fmtp] = make_image(sm[fmtp]);
      if (fmtp == 3) {
        mm.init(max<int64_t>(sw, mw + 3), max<int64_t>(sh, mh + 3), false, 8);
        fill_content(mm, cr, pal);
      }
    }
    Image mimg = make_image(mm);
    for (int64_t x = -3; x <= dw + 3; x++) for (int64_t sx = -3; sx <= sw + 3; sx++) for (int64_t w = -1; w <= mw + 3; w++) {
      if (!C->mine(idx++)) continue;
      int fmtp = (int)((idx + C->seed) % 4);
      for (int64_t y = -3; y <= dh + 3; y++) for (int64_t sy = -3; sy <= sh + 3; sy++) for (int64_t h = -1; h <= mh + 3; h++) {
        rot++;
        if (keep > 1 && r.below(keep)) continue;
        Op o;
        o.kind = (int)(rot % 8);
        o.x = x; o.y = y; o.w = w; o.h = h; o.sx = sx; o.sy = sy;
        if (o.kind == K_MASK || o.kind == K_MASK_DST) {
          o.u32 = (rot >> 3) & 1;
          gen_key(r, pal, sm[fmtp], o.c, true);
        }
        if (o.kind == K_BLEND_A) o.salpha = (rot >> 3) % 3 == 0 ? 0xFF : (rot >> 3) % 3 == 1 ? 0x80 : r.below(256);
        Canvas dm = pristine[fmtp];
        Image img = make_image(dm);
        Env e{&dm, &img, &sm[fmtp], &simg[fmtp], &mm, &mimg, cseed0 + (uint64_t)fmtp};
        cases++;
        check_op(o, e, r, (cases % 8 == 0) ? 1 + (int)(cases / 8 % 5) : 0);
        if (C->thorough()) {  // second kind for the same tuple
          o.kind = (o.kind + 4) % 8;
          o.u32 = false;
          if (o.kind == K_MASK || o.kind == K_MASK_DST) gen_key(r, pal, sm[fmtp], o.c, true);
          if (o.kind == K_BLEND_A) o.salpha = (rot >> 3) % 3 == 0 ? 0xFF : (rot >> 3) % 3 == 1 ? 0x80 : r.below(256);
          Canvas dm3 = pristine[fmtp];
          Image img3 = make_image(dm3);
          Env e3{&dm3, &img3, &sm[fmtp], &simg[fmtp], &mm, &mimg, cseed0 + (uint64_t)fmtp};
          cases++;
          check_op(o, e3, r, 0);
        }
        // the same request as a self blit (source = destination) when it is one canvas shape
        if (dw == sw && dh == sh && (fmtp == 0 || fmtp == 3) && (rot & 16)) {
          Canvas dm2 = pristine[fmtp];
          Image img2 = make_image(dm2);
          Env e2{&dm2, &img2, nullptr, nullptr, &mm, &mimg, cseed0 + (uint64_t)fmtp};
          cases++;
          check_op(o, e2, r, 0);
        }
      }
    }
  }
  C->count("blit_small_scope_cases", cases);
}

// ------------------------------------------------------------------------------------------------
// suite: lines

static void line_suite(vf::Rng& r) {
  struct Sz { int64_t w, h; };
  vector<Sz> canv = {{13, 11}, {1, 1}, {1, 9}, {9, 1}, {4, 7}};
  if (C->thorough()) { canv.push_back({16, 16}); canv.push_back({7, 19}); }
  uint64_t idx = 0;
  uint64_t colour_ctr = 0;
  // dashed axis-aligned lines: complete small scope (ends in [-3,len+3], row/column in [-1,other], dash lengths)
  {
    static const int64_t lens[] = {0, 1, 2, 3, 5, 8};
    static const int64_t dashes[] = {0, 1, 2, 3, 5, -2};
    for (int64_t len : lens) for (int64_t other : {1, 3}) for (int horiz = 0; horiz < 2; horiz++) {
      if (!C->mine(idx++)) continue;
      uint64_t cseed = (uint64_t)(len * 100 + other * 10 + horiz);
      vf::Rng cr(cseed);
      Canvas pristine;
      pristine.init(horiz ? len : other, horiz ? other : len, (len + other) & 1, WIDTHS[(len + horiz) % 4]);
      uint64_t pal[4][3];
      standard_palette(cr, pal);
      fill_content(pristine, cr, pal);
      for (int64_t a = -3; a <= len + 3; a++) for (int64_t b = -3; b <= len + 3; b++) for (int64_t fixed = -1; fixed <= other; fixed++) for (int64_t dash : dashes) {
        Op o;
        o.kind = horiz ? K_HLINE : K_VLINE;
        o.x = a; o.x2 = b; o.y = fixed; o.dash = dash;
        colour_ctr++;
        o.c[0] = colour_ctr & 0xFF; o.c[1] = 0x5A; o.c[2] = 0xC3; o.c[3] = (colour_ctr & 1) ? 0xFF : 0x40;
        o.u32 = (colour_ctr & 3) == 0;
        Canvas dm = pristine;
        Image img = make_image(dm);
        Env e{&dm, &img, &pristine, &img};
        e.content_seed = cseed;
        check_op(o, e, r, 0);
        bool inside = a >= 0 && b < len && fixed >= 0 && fixed < other;
        C->cls(string(kind_names[o.kind]) + (a > b ? ":empty" : inside ? ":inside" : ":partly-outside") + (dash == 0 ? ":solid" : dash < 0 ? ":negdash" : ":dashed"));
      }
    }
  }
  for (auto& cz : canv) {
    for (int64_t y0 = 0; y0 < cz.h; y0++) for (int64_t x0 = 0; x0 < cz.w; x0++) {
      if (!C->mine(idx++)) continue;
      int wi = (int)((x0 + y0) % 4);
      bool a = (x0 ^ y0) & 1;
      Canvas dm;
      dm.init(cz.w, cz.h, a, WIDTHS[wi]);
      Image img = make_image(dm);  // black canvas
      for (int64_t y1 = 0; y1 < cz.h; y1++) for (int64_t x1 = 0; x1 < cz.w; x1++) {
        Op o;
        o.kind = K_LINE;
        o.x = x0; o.y = y0; o.x2 = x1; o.y2 = y1;
        colour_ctr++;
        o.c[0] = 1 + (colour_ctr % 250); o.c[1] = 0xFF; o.c[2] = colour_ctr & 0xFF; o.c[3] = 0xC0;
        o.u32 = colour_ctr & 1;
        // reset canvas to black
        memset(img.get_data(), 0, img.get_data_size());
        std::fill(dm.v.begin(), dm.v.end(), 0);
        check_line(o, dm, img, 0);
      }
    }
    // partially / fully outside endpoints: every start in the canvas frame [-4,size+4], ends sampled
    for (int64_t y0 = -4; y0 < cz.h + 4; y0++) for (int64_t x0 = -4; x0 < cz.w + 4; x0++) {
      if (!C->mine(idx++)) continue;
      Canvas dm;
      dm.init(cz.w, cz.h, (x0 ^ y0) & 1, WIDTHS[(x0 + y0 + 8) % 4]);
      Image img = make_image(dm);
      int reps = C->qt(6, 40);
      for (int k = 0; k < reps; k++) {
        Op o;
        o.kind = K_LINE;
        o.x = x0; o.y = y0;
        o.x2 = r.range(-4, cz.w + 3); o.y2 = r.range(-4, cz.h + 3);
        if (r.chance(1, 10)) o.x2 = gen_coord(r, cz.w, true);
        if (r.chance(1, 10)) o.y2 = gen_coord(r, cz.h, true);
        if (r.chance(1, 2)) { swap(o.x, o.x2); swap(o.y, o.y2); }
        colour_ctr++;
        o.c[0] = 1 + (colour_ctr % 250); o.c[1] = 0x10; o.c[2] = colour_ctr & 0xFF; o.c[3] = 0xFF;
        memset(img.get_data(), 0, img.get_data_size());
        std::fill(dm.v.begin(), dm.v.end(), 0);
        check_line(o, dm, img, 0);
      }
    }
  }
  // random larger canvases
  uint64_t n = C->qt<uint64_t>(30000, 600000) / C->nshards + 1;
  for (uint64_t i = 0; i < n; i++) {
    Canvas dm;
    dm.init(r.range(0, 64), r.range(0, 64), r.chance(1, 2), WIDTHS[r.below(4)]);
    Image img = make_image(dm);
    for (int k = 0; k < 8; k++) {
      Op o = gen_op(r, K_LINE, dm, dm, nullptr, true);
      for (int j = 0; j < 3; j++) if ((o.c[j] & dm.mask) == 0) o.c[j] = 1;
      memset(img.get_data(), 0, img.get_data_size());
      std::fill(dm.v.begin(), dm.v.end(), 0);
      check_line(o, dm, img, 0);
    }
  }
}

// ------------------------------------------------------------------------------------------------
// suite: text

static void text_suite(vf::Rng& r) {
  uint64_t n = C->qt<uint64_t>(160000, 2400000) / C->nshards + 1;
  for (uint64_t i = 0; i < n; i++) {
    uint64_t cseed = r.next();
    vf::Rng cr(cseed);
    Canvas dm;
    int wi = (int)(i % 4);
    dm.init(cr.chance(1, 10) ? cr.range(0, 2) : cr.range(0, 26), cr.chance(1, 10) ? cr.range(0, 2) : cr.range(0, 22), cr.chance(1, 2), WIDTHS[wi]);
    uint64_t pal[4][3];
    standard_palette(cr, pal);
    fill_content(dm, cr, pal);
    Image img = make_image(dm);
    Op o = gen_op(r, K_TEXT, dm, dm, pal, true);
    Env e{&dm, &img, &dm, &img};
    // a source is not used by draw_text; pass a distinct object so that invariance can run
    Canvas dummy;
    dummy.init(0, 0, false, 8);
    Image dimg = make_image(dummy);
    e.sm = &dummy;
    e.simg = &dimg;
    e.content_seed = cseed;
    check_op(o, e, r, (i % 2 == 0) ? 1 + (int)(i / 2 % 5) : 0);
    size_t glyphs = 0;
    bool nl = false, hi = false;
    for (unsigned char ch : o.text) { if (ch == '\n') nl = true; else if (ch != '\r') glyphs++; if (ch >= 0x80 || ch < 0x20) hi = true; }
    C->cls(fmt("draw_text:w%d:%s", dm.cw, o.bg[3] == 0 ? "bg0" : o.bg[3] == 0xFF ? "bgFF" : "bgblend"));
    C->cls(fmt("draw_text:shape:%s%s%s", glyphs ? "glyphs" : "empty", nl ? ":nl" : "", hi ? ":nonascii" : ""));
    if (i < 2 && C->shard == 0) C->sample(op_str(o) + " on " + canvas_str(dm));
  }
}

// ------------------------------------------------------------------------------------------------
// suite: identities and deep copies

static void ident_violation(const string& key, const string& what, const Canvas& c, uint64_t cseed) {
  C->violation(key + ":" + wtag(c), what, canvas_str(c) + fmt(" content_seed=%" PRIu64, cseed));
}

static void identity_checks(const Canvas& dm, const Image& img, uint64_t cseed, vf::Rng& r) {
  // the original must stay equal to dm throughout (deep copies)
  auto orig_intact = [&](const char* after) {
    Canvas now;
    snapshot(img, now);
    if (!format_matches(img, dm) || now.v != dm.v) ident_violation(string("copy:shares-storage:") + after, "modifying a copy changed the original", dm, cseed);
  };
  C->crumb_n("identity", (uint64_t)dm.w, (uint64_t)dm.h, (uint64_t)dm.cw, dm.alpha, cseed);
  Canvas t;
  // A copy must BEHAVE like the original, not only hold the same bytes: invert (maximum - v) and the implied alpha
  // of read_pixel depend on the channel maximum, which has no getter.  x is restored (invert twice).
  // Reference = what the ORIGINAL object itself does (inverted in place and restored), so that a defect of invert()
  // is not blamed on the copy; invert() itself is judged against the model elsewhere.
  Canvas inv_expect = dm;
  {
    Op oi;
    oi.kind = K_INVERT;
    apply_model(oi, inv_expect, inv_expect, nullptr, nullptr);  // only for the ANY flags (values above the maximum)
    Image& orig = const_cast<Image&>(img);
    orig.invert();
    Canvas real_inv;
    snapshot(orig, real_inv);
    orig.invert();
    if (real_inv.v.size() == inv_expect.v.size()) inv_expect.v = real_inv.v;
  }
  auto behaves_like_original = [&](Image& x, const char* how) {
    C->evaluations++;
    vf::poison_errno();
    bool bad = false;
    string detail;
    if (!dm.alpha && dm.w && dm.h) {
      uint64_t a = 0;
      x.read_pixel(0, 0, nullptr, nullptr, nullptr, &a);
      if (a != dm.maxv) { bad = true; detail = fmt("read_pixel implied alpha %" PRIx64 ", original's maximum %" PRIx64, a, dm.maxv); }
    }
    x.invert();
    Canvas got;
    snapshot(x, got);
    if (format_matches(x, dm))
      for (size_t pi = 0; pi < inv_expect.fl.size() && !bad; pi++) {
        if (inv_expect.fl[pi] == ANY) continue;
        if (memcmp(&got.v[pi * dm.nch], &inv_expect.v[pi * dm.nch], sizeof(uint64_t) * dm.nch)) {
          bad = true;
          detail = fmt("after invert() pixel #%zu is %s, the original would give %s", pi, px_str(&got.v[pi * dm.nch], dm.nch).c_str(), px_str(&inv_expect.v[pi * dm.nch], dm.nch).c_str());
        }
      }
    x.invert();
    if (bad) C->violation(string("copy:behaves-differently:") + how + ":" + wtag(dm), "a copy does not behave like the original (channel maximum not carried over): " + detail,
        canvas_str(dm) + fmt(" maxval=%" PRIx64 " content_seed=%" PRIu64, dm.maxv, cseed));
  };
  {
    Image c(img);
    C->evaluations++;
    if ((dm.v.size() && c.get_data() == img.get_data())) ident_violation("copy:shares-storage:ctor", "copy constructor shares the buffer", dm, cseed);
    snapshot(c, t);
    if (!format_matches(c, dm) || t.v != dm.v) ident_violation("copy:differs:ctor", "copy differs from the original", dm, cseed);
    if (!(c == img) || (c != img)) ident_violation("copy:operator==", "copy does not compare equal", dm, cseed);
    behaves_like_original(c, "ctor");
    c.reverse_horizontal();
    c.reverse_horizontal();
    snapshot(c, t);
    C->evaluations++;
    if (t.v != dm.v) ident_violation("identity:reverse_horizontal-twice", "mirror twice is not the identity", dm, cseed);
    c.reverse_vertical();
    c.reverse_vertical();
    snapshot(c, t);
    C->evaluations++;
    if (t.v != dm.v) ident_violation("identity:reverse_vertical-twice", "mirror twice is not the identity", dm, cseed);
    c.invert();
    orig_intact("ctor");
    c.invert();
    snapshot(c, t);
    C->evaluations++;
    if (t.v != dm.v) ident_violation("identity:invert-twice", "invert twice is not the identity", dm, cseed);
    if (!dm.alpha) {
      c.set_has_alpha(true);
      C->evaluations++;
      if (!c.get_has_alpha() || (int64_t)c.get_width() != dm.w || (int64_t)c.get_height() != dm.h)
        ident_violation("identity:add-alpha-format", "set_has_alpha(true) did not produce an alpha canvas of the same size", dm, cseed);
      else {
        // the added alpha channel must be opaque: rgb preserved is covered by the round trip
        c.set_has_alpha(false);
        snapshot(c, t);
        if (!format_matches(c, dm) || t.v != dm.v) ident_violation("identity:add-drop-alpha", "add-then-drop alpha is not the identity", dm, cseed);
      }
    }
    for (int wi = 0; wi < 4; wi++) {
      if (WIDTHS[wi] <= dm.cw) continue;
      Image d2(img);
      d2.set_channel_width((uint8_t)WIDTHS[wi]);
      C->evaluations++;
      if (d2.get_channel_width() != WIDTHS[wi] || (int64_t)d2.get_width() != dm.w || (int64_t)d2.get_height() != dm.h || d2.get_has_alpha() != dm.alpha)
        ident_violation("identity:widen-format", "set_channel_width changed something other than the width", dm, cseed);
      // exercise the widened buffer with ASan watching (exact-size block)
      d2.reverse_horizontal();
      d2.reverse_horizontal();
      d2.set_channel_width((uint8_t)dm.cw);
      snapshot(d2, t);
      if (!format_matches(d2, dm) || t.v != dm.v) ident_violation(fmt("identity:widen%d-narrow", WIDTHS[wi]), "widen-then-narrow is not the identity", dm, cseed);
      C->cls(fmt("identity:widen:%d->%d", dm.cw, WIDTHS[wi]));
    }
    orig_intact("transforms");
  }
  {
    Image a;
    a = img;  // copy assignment into an empty image
    C->evaluations++;
    snapshot(a, t);
    if (!format_matches(a, dm) || t.v != dm.v) ident_violation("copy:differs:assign", "copy-assigned image differs", dm, cseed);
    behaves_like_original(a, "assign-into-empty");
    if (dm.w && dm.h) {
      a.write_pixel(r.below(dm.w), r.below(dm.h), 0x5A, 0xA5, 0x3C, 0x77);
      a.fill_rect(0, 0, dm.w, dm.h, 1, 2, 3, 0xFF);
    }
    orig_intact("assign");
    Image b(3, 2, !dm.alpha, 16);
    b = img;  // copy assignment over an existing buffer of another format
    snapshot(b, t);
    if (!format_matches(b, dm) || t.v != dm.v) ident_violation("copy:differs:assign", "copy-assigned image differs", dm, cseed);
    behaves_like_original(b, "assign-over-other-format");
    b.invert();
    orig_intact("assign");
    b.invert();
    Image m(std::move(b));
    C->evaluations++;
    snapshot(m, t);
    if (!format_matches(m, dm) || t.v != dm.v) ident_violation("copy:differs:move", "moved-to image differs", dm, cseed);
    behaves_like_original(m, "move-ctor");
    // a moved-from image may be empty or hold some other buffer, but must not alias the moved-to one
    if (b.get_data() != nullptr && b.get_data() == m.get_data()) ident_violation("copy:move-shares-storage", "moved-from image still refers to the moved-to buffer", dm, cseed);
    Image m2(1, 1);
    m2 = std::move(m);
    snapshot(m2, t);
    if (!format_matches(m2, dm) || t.v != dm.v) ident_violation("copy:differs:move", "move-assigned image differs", dm, cseed);
    behaves_like_original(m2, "move-assign");
    m2.invert();
    orig_intact("move");
  }
  C->cls(fmt("identity:%d%s:%s", dm.cw, dm.alpha ? "a" : "n", dm.w == 0 || dm.h == 0 ? "empty" : (dm.w & 1) || (dm.h & 1) ? "odd" : "even"));
}

static void identity_suite(vf::Rng& r) {
  static const int64_t sizes[] = {0, 1, 2, 3, 5, 8};
  uint64_t idx = 0;
  for (int64_t w : sizes) for (int64_t h : sizes) for (int wi = 0; wi < 4; wi++) for (int a = 0; a < 2; a++) {
    if (!C->mine(idx++)) continue;
    uint64_t cseed = (uint64_t)(w * 100 + h) * 8 + (uint64_t)(wi * 2 + a);
    vf::Rng cr(cseed);
    Canvas dm;
    dm.init(w, h, a, WIDTHS[wi]);
    uint64_t pal[4][3];
    standard_palette(cr, pal);
    fill_content(dm, cr, pal);
    Image img = make_image(dm);
    identity_checks(dm, img, cseed, r);
  }
  uint64_t n = C->qt<uint64_t>(3000, 60000) / C->nshards + 1;
  for (uint64_t i = 0; i < n; i++) {
    uint64_t cseed = r.next();
    vf::Rng cr(cseed);
    Canvas dm;
    {
      int cw = WIDTHS[cr.below(4)];
      dm.init(cr.range(0, 64), cr.range(0, 64), cr.chance(1, 2), cw, cr.chance(1, 3) ? odd_max_for(cr, cw) : 0);
    }
    uint64_t pal[4][3];
    standard_palette(cr, pal);
    fill_content(dm, cr, pal);
    Image img = make_image(dm);
    identity_checks(dm, img, cseed, r);
  }
}

static bool memcmp_needed_resync(const Canvas& dm, const Image& img) {
  return !bytes_match(img, dm);
}

// ------------------------------------------------------------------------------------------------
// format changes, copies and read probes with the model carried across them

static void compare_exact(const char* opname, const string& keytail, const Canvas& dm, const Image& img, const string& where) {
  if (!format_matches(img, dm)) {
    if (!saturated(string(opname) + ":format:" + keytail))
      C->violation(string(opname) + ":format:" + keytail, "canvas size/alpha/width after the call is not what the call asked for",
          where + fmt(" got %zux%zu/%d%s", img.get_width(), img.get_height(), (int)img.get_channel_width(), img.get_has_alpha() ? "a" : "n"));
    return;
  }
  const void* p = img.get_data();
  for (size_t i = 0; i < dm.v.size(); i++) {
    uint64_t got = raw_get(p, i, dm.cw);
    if (got != dm.v[i]) {
      string key = string(opname) + ":wrong-value:" + keytail;
      if (!saturated(key))
        C->violation(key, "pixel buffer differs from the per-pixel prediction", fmt("pixel (%" PRId64 ",%" PRId64 ") channel %d expected=%" PRIx64 " got=%" PRIx64 " ",
            (int64_t)(i / dm.nch) % (dm.w ? dm.w : 1), (int64_t)(i / dm.nch) / (dm.w ? dm.w : 1), (int)(i % dm.nch), dm.v[i], got) + where);
      return;
    }
  }
}

// what: 0 set_channel_width(arg), 1 set_has_alpha(arg), 2 copy ctor + move assign, 3 copy assign via temporary
static void check_format_op(int what, int arg, Canvas& dm, Image& img, uint64_t cseed, const char* role) {
  string before = canvas_str(dm);
  int oldcw = dm.cw;
  bool olda = dm.alpha;
  static const char* names[4] = {"set_channel_width", "set_has_alpha", "copy-ctor+move-assign", "copy-assign"};
  string where = fmt("%s(%d) on %s %s content_seed=%" PRIu64 " seed=%" PRIu64 " shard=%u/%u (after the preceding operations of this sequence)", names[what], arg, role, before.c_str(), cseed, C->seed, C->shard, C->nshards);
  C->crumb_s(where);
  C->evaluations++;
  string threw;
  vf::poison_errno();
  try {
    if (what == 0) img.set_channel_width((uint8_t)arg);
    else if (what == 1) img.set_has_alpha(arg != 0);
    else if (what == 2) { Image c(img); img = std::move(c); }
    else { Image c; c = img; Image d2(2, 1, !dm.alpha, dm.cw == 8 ? 16 : 8); d2 = c; img = std::move(d2); }  // the assigned-to object lives on
  } catch (const std::exception& e) {
    threw = e.what();
  }
  string keytail;
  if (what == 0) { model_set_width(dm, arg); keytail = fmt("%d->%d", oldcw, arg); }
  else if (what == 1) { model_set_alpha(dm, arg != 0); keytail = fmt("%s:w%d", olda == (arg != 0) ? "same" : arg ? "add" : "drop", dm.cw); }
  else keytail = wtag(dm);
  const char* opname = what <= 1 ? names[what] : "copy";
  if (!threw.empty()) C->violation(string(opname) + ":threw:" + keytail, "threw: " + threw, where);
  compare_exact(opname, keytail, dm, img, where);
  if (!format_matches(img, dm)) { Canvas keep_ = dm; snapshot(img, dm, &keep_); }
  else if (memcmp_needed_resync(dm, img)) { Canvas keep_ = dm; snapshot(img, dm, &keep_); }
  C->cls(string(opname) + ":" + keytail + (dm.odd_max() ? ":own-maxval" : ""));
}

// read_pixel on in-canvas pixels must report the buffer content and, without an alpha channel,
// the channel maximum OF THE CURRENT WIDTH as alpha
static void probe_reads(const Canvas& dm, const Image& img, vf::Rng& r, int n, uint64_t cseed, const char* role) {
  if (!dm.w || !dm.h) return;
  for (int k = 0; k < n; k++) {
    int64_t x = (int64_t)r.below((uint64_t)dm.w), y = (int64_t)r.below((uint64_t)dm.h);
    uint64_t m[4], got[4] = {1, 2, 3, 4};
    dm.get(x, y, m);
    C->evaluations++;
    C->crumb_n("probe_read", (uint64_t)x, (uint64_t)y, (uint64_t)dm.w, (uint64_t)dm.h, (uint64_t)dm.cw, cseed);
    uint32_t g32v = 0;
    try {
      img.read_pixel(x, y, &got[0], &got[1], &got[2], &got[3]);
      g32v = img.read_pixel(x, y);
    } catch (const std::exception& e) {
      C->violation("read_pixel:inside-threw:" + wtag(dm), string("read_pixel inside the canvas threw ") + e.what(), canvas_str(dm));
      return;
    }
    if (memcmp(got, m, sizeof(m)) || g32v != pack32(m)) {
      string key = string("read_pixel:") + (memcmp(got, m, 3 * sizeof(uint64_t)) ? "wrong-value:" : dm.alpha ? "wrong-alpha:" : "wrong-implied-alpha:") + wtag(dm);
      if (!saturated(key))
        C->violation(key, "read_pixel differs from the model (alpha of a canvas without alpha channel must be the channel maximum of its current width)",
            fmt("(%" PRId64 ",%" PRId64 ") on %s %s got=%s packed=%08x expected=%s content_seed=%" PRIu64 " seed=%" PRIu64 " shard=%u/%u", x, y, role, canvas_str(dm).c_str(),
                px_str(got, 4).c_str(), g32v, px_str(m, 4).c_str(), cseed, C->seed, C->shard, C->nshards));
      return;
    }
  }
  C->cls(string("read_probe:") + fmt("%d%s", dm.cw, dm.alpha ? "a" : "n"));
}

// dedicated stage: every format x every target width, then every max-dependent follow-up
static void format_suite(vf::Rng& r) {
  static const int64_t sizes[] = {0, 1, 2, 3, 5};
  uint64_t idx = 0;
  for (int64_t w : sizes) for (int64_t h : sizes) for (int wi = 0; wi < 4; wi++) for (int a = 0; a < 2; a++) for (int wj = 0; wj < 4; wj++) {
    if (!C->mine(idx++)) continue;
    uint64_t cseed = (uint64_t)((w * 10 + h) * 64 + wi * 16 + a * 8 + wj);
    for (int variant = 0; variant < 6; variant++) {
      vf::Rng cr(cseed * 8 + (uint64_t)variant);
      Canvas dm;
      // "conversion" to the same width is a no-op: that slot exercises canvases that carry their own MAXVAL
      // (loaded P6/P7 or raw constructor); every max-dependent follow-up below must then use that maximum
      dm.init(w, h, a, WIDTHS[wi], wj == wi ? odd_max_for(cr, WIDTHS[wi]) : 0);
      uint64_t pal[4][3];
      standard_palette(cr, pal);
      fill_content(dm, cr, pal);
      Image img = make_image(dm);
      check_format_op(0, WIDTHS[wj], dm, img, cseed, "dst");
      if (variant & 1) check_format_op(2 + (variant >> 1) % 2, 0, dm, img, cseed, "dst");  // the copy must carry the new maximum too
      Canvas dummy;
      dummy.init(0, 0, false, 8);
      Image dimg = make_image(dummy);
      Env e{&dm, &img, &dummy, &dimg};
      e.content_seed = cseed;
      Op o;
      switch (variant) {
        case 0: case 1:
          o.kind = K_INVERT;
          check_op(o, e, r, 0);
          break;
        case 2: case 3:
          check_format_op(1, !dm.alpha, dm, img, cseed, "dst");
          probe_reads(dm, img, r, 3, cseed, "dst");
          check_format_op(1, !dm.alpha, dm, img, cseed, "dst");
          break;
        default: {
          // opaque / transparent / translucent source of the same (converted) width blended onto it, and the
          // converted canvas used as a no-alpha source whose implied alpha decides the blit rule
          Canvas sm;
          sm.init(w, h, true, dm.cw, dm.maxv);
          fill_content(sm, cr, pal);
          for (int64_t i = 0; i < w * h; i++) if (i % 3 != 2) sm.v[(size_t)(i * 4 + 3)] = (i % 3) ? sm.maxv : 0;
          Image simg = make_image(sm);
          Env e2{&dm, &img, &sm, &simg};
          e2.content_seed = cseed;
          o.kind = variant == 4 ? K_BLEND : K_BLEND_A;
          o.w = o.h = -1;
          o.salpha = dm.maxv;
          check_op(o, e2, r, 0);
          probe_reads(dm, img, r, 3, cseed, "dst");
          Canvas tm;
          tm.init(w, h, true, dm.cw, dm.maxv);
          Image timg = make_image(tm);
          Env e3{&tm, &timg, &dm, &img};
          e3.content_seed = cseed;
          Op o2;
          o2.kind = (variant == 4) ? K_BLEND : K_BLIT;
          o2.w = o2.h = -1;
          check_op(o2, e3, r, 0);
          break;
        }
      }
      o.kind = K_REV_H;
      Env e4{&dm, &img, &dummy, &dimg};
      check_op(o, e4, r, 0);
    }
  }
}

// ------------------------------------------------------------------------------------------------
// suite: formatted text lengths across every plausible internal buffer size, every overload, literal and
// expanding formats.  Oracle unchanged (glyph model); plus model-free: one long call == the same text in chunks.

static char printable(vf::Rng& r, bool visible) {
  for (;;) {
    char ch = (char)(0x20 + r.below(95));  // 0x20..0x7E
    if (visible && (ch == ' ' || ch == '%')) continue;
    return ch;
  }
}

static string random_run(vf::Rng& r, size_t n, size_t wrap, size_t& col) {
  string s;
  for (size_t i = 0; i < n; i++) {
    if (wrap && col == wrap) { s.push_back('\n'); col = 0; continue; }
    s.push_back(printable(r, false));
    col++;
  }
  return s;
}

static void longtext_case(size_t L, int var, int ov, int layout, uint64_t salt, vf::Rng& r) {
  // layout 0: everything on canvas (wrapped every 41 columns if long); 1: only the tail of one long line on canvas;
  // 2: fully clipped
  Op o;
  o.kind = K_TEXT;
  o.tvar = var;
  o.tov = ov;
  o.tseed = (uint64_t)L * 1000 + (uint64_t)(var * 100 + ov * 10 + layout) + salt * 1000000007ULL;
  vf::Rng tr(o.tseed);
  size_t wrap = (layout == 0 && L > 60 && (var == 0 || var == 2)) ? 41 : 0, col = 0;
  if (L == 0) { var = 0; o.tvar = 0; }
  if (var == 0) {
    o.text = random_run(tr, L, wrap, col);
  } else if (var == 1) {
    size_t t = min<size_t>(L, 12);
    o.ttail = random_run(tr, t, 0, col);
    o.twidth = (int)L;
    o.text = string(L - t, ' ') + o.ttail;
  } else if (var == 2) {
    size_t nd = min<size_t>(L, 7), hl = (L - nd) / 2;
    o.thead = random_run(tr, hl, wrap, col);
    int num = 0;
    string digits;
    for (size_t i = 0; i < nd; i++) { int dg = (int)(i == 0 ? 1 + tr.below(9) : tr.below(10)); num = num * 10 + dg; digits.push_back((char)('0' + dg)); }
    o.tnum = num;
    if (nd == 0) { o.tnum = 0; digits = "0"; }  // "%d" always prints at least one digit: only reachable for L==0 (handled above)
    col += nd;
    o.ttail = random_run(tr, L - hl - nd, wrap, col);
    o.text = o.thead + digits + o.ttail;
  } else {
    size_t t = min<size_t>(L - 1, 12);
    o.ttail = random_run(tr, t, 0, col);
    o.twidth = (int)(L - 1);
    o.text = o.ttail + string(L - 1 - t, ' ') + "|";
  }
  // the last character must be a visible glyph other than the 0x7F box
  if (L && var != 3 && (var == 0 || !o.ttail.empty())) {  // (variant 2 with an empty tail ends in a digit: visible anyway)
    char last = printable(tr, true);
    o.text[L - 1] = last;
    if (var != 0) o.ttail[o.ttail.size() - 1] = last;
  }
  if (o.text.size() != L) { fprintf(stderr, "[harness-error] longtext length %zu != %zu\n", o.text.size(), L); exit(3); }
  // canvas
  int fmtsel = (int)((L + (size_t)var + (size_t)ov) % 8);
  int cw = WIDTHS[fmtsel % 4];
  bool alpha = fmtsel >= 4;
  int64_t cwid, chei;
  if (layout == 0) {
    size_t lines = 1, maxcol = 0, cc = 0;
    for (char ch : o.text) { if (ch == '\n') { lines++; cc = 0; } else { cc++; maxcol = max(maxcol, cc); } }
    cwid = (int64_t)(6 * maxcol + 3);
    chei = (int64_t)(8 * lines + 3);
    o.x = 1; o.y = 1;
    if ((int64_t)cwid * chei > 20000) cw = (fmtsel & 1) ? 16 : 8;
  } else if (layout == 1) {
    cwid = 70; chei = 11;
    o.x = 66 - 6 * (int64_t)L; o.y = 2;
  } else {
    cwid = 9; chei = 8;
    o.x = (L & 1) ? 2 : 2147483000LL; o.y = (L & 1) ? -50 : 1;
  }
  Canvas dm;
  dm.init(cwid, chei, alpha, cw);
  uint64_t pal[4][3];
  standard_palette(tr, pal);
  fill_content(dm, tr, pal);
  bool packed = ov >= 2;
  gen_colour(tr, dm, o.c, cw == 8 || packed);
  gen_colour(tr, dm, o.bg, cw == 8 || packed);
  o.c[3] = 0xFF;
  switch ((L + (size_t)ov) % 3) { case 0: o.bg[3] = 0; break; case 1: o.bg[3] = 0xFF; break; default: o.bg[3] = 0x80; break; }
  if (ov == 4) o.bg[0] = o.bg[1] = o.bg[2] = o.bg[3] = 0;
  o.u32 = packed;
  Canvas before = dm;
  Image img = make_image(dm);
  Canvas dummy;
  dummy.init(0, 0, false, 8);
  Image dimg = make_image(dummy);
  Env e{&dm, &img, &dummy, &dimg};
  e.content_seed = o.tseed;
  bool ok = check_op(o, e, r, (cwid * chei < 3000 && layout != 2) ? 1 + (int)(L % 5) : 0);
  // model-free: the same characters drawn in chunks of <= 97 at matching offsets (single-line texts, bg alpha 0 or FF)
  (void)ok;
  if (layout == 1 && (o.bg[3] == 0 || o.bg[3] == 0xFF) && o.text.find('\n') == string::npos && L > 0) {
    Image pieces = make_image(before);
    string what;
    bool threw = false;
    for (size_t off = 0; off < L; off += 97) {
      Op p2;
      p2.kind = K_TEXT;
      memcpy(p2.c, o.c, sizeof(p2.c));
      memcpy(p2.bg, o.bg, sizeof(p2.bg));
      p2.x = o.x + 6 * (int64_t)off;
      p2.y = o.y;
      p2.text = o.text.substr(off, 97);
      p2.tov = 1;
      C->evaluations++;
      if (!run_guarded(p2, pieces, dimg, nullptr, nullptr, &what).empty()) threw = true;
    }
    if (threw || !format_matches(pieces, dm) || memcmp(pieces.get_data(), img.get_data(), img.get_data_size()))
      C->violation("draw_text:one-call-vs-chunks:" + wtag(dm), "one draw_text call differs from the same characters drawn in chunks of 97 at matching offsets", op_str(o) + " dst=" + canvas_str(dm));
    C->count("draw_text_chunk_comparisons");
  }
  const char* lc = L <= 40 ? "0-40" : L <= 136 ? "120-136" : L <= 260 ? "250-260" : L <= 516 ? "510-516" : L <= 1030 ? "1020-1030" : "4090-4100";
  C->cls(fmt("draw_text:len%s:var%d", lc, o.tvar));
  if (L >= 250) {
    C->cls(fmt("draw_text:len>=250:overload%d", ov));
    C->cls(fmt("draw_text:len>=250:layout%d", layout));
  }
}

static void longtext_suite(vf::Rng& r) {
  vector<size_t> lens;
  auto span = [&](size_t a, size_t b) { for (size_t l = a; l <= b; l++) lens.push_back(l); };
  span(0, 40); span(120, 136); span(250, 260); span(510, 516); span(1020, 1030); span(4090, 4100);
  uint64_t idx = 0;
  for (size_t L : lens) {
    for (int var = 0; var < 4; var++) for (int ov = 0; ov < 5; ov++) {
      // quick: lengths above 260 run 8 of the 20 (variant, overload) pairs (every variant and every overload still occurs
      // for every length); thorough: all 20
      if (C->quick() && L > 260 && ((var * 5 + ov + (int)L) % 5) >= 2) continue;
      if (!C->mine(idx++)) continue;
      if (var == 0 || var == 2) longtext_case(L, var, ov, 0, C->seed, r);        // everything visible
      if (var == 1 || var == 3 || L <= 300) longtext_case(L, var, ov, 1, C->seed, r);  // tail of one long line visible
    }
    if (C->mine(idx++)) longtext_case(L, 0, (int)(L % 5), 2, C->seed, r);  // fully clipped
  }
}

// ------------------------------------------------------------------------------------------------
// suite: random operation sequences on larger canvases, large coordinates, all formats

static void sequence_suite(vf::Rng& r) {
  uint64_t n = C->qt<uint64_t>(60000, 1200000) / C->nshards + 1;
  for (uint64_t i = 0; i < n; i++) {
    uint64_t cseed = r.next();
    vf::Rng cr(cseed);
    uint64_t pal[4][3];
    standard_palette(cr, pal);
    int wi = (int)cr.below(4);
    bool mixed = cr.chance(1, 8);
    int64_t lim = cr.chance(1, 12) ? 64 : cr.chance(1, 3) ? 20 : 9;
    Canvas dm, sms[2], mm;
    uint64_t omax = cr.chance(1, 4) ? odd_max_for(cr, WIDTHS[wi]) : 0;  // canvases with their own MAXVAL
    dm.init(cr.range(0, lim), cr.range(0, lim), cr.chance(1, 2), WIDTHS[wi], omax);
    for (auto& s : sms) {
      int scw = mixed ? WIDTHS[cr.below(4)] : WIDTHS[wi];
      s.init(cr.range(0, lim), cr.range(0, lim), cr.chance(1, 2), scw, (scw == WIDTHS[wi] && !cr.chance(1, 4)) ? omax : (cr.chance(1, 8) ? odd_max_for(cr, scw) : 0));
    }
    fill_content(dm, cr, pal);
    for (auto& s : sms) fill_content(s, cr, pal);
    Image img = make_image(dm);
    Image simgs[2] = {make_image(sms[0]), make_image(sms[1])};
    int len = (int)cr.range(1, 30);
    for (int step = 0; step < len; step++) {
      // format changes, copies and read probes keep the model in step (max value follows the width)
      unsigned fk = (unsigned)r.below(100);
      if (fk < 16) {
        if (fk < 5) {
          int nw = WIDTHS[r.below(4)];
          if (dm.odd_max()) nw = dm.cw;  // converting a canvas that has its own MAXVAL to another width is not demanded
          check_format_op(0, nw, dm, img, cseed, "dst");
          if (r.chance(2, 3)) for (int j = 0; j < 2; j++) check_format_op(0, sms[j].odd_max() ? sms[j].cw : nw, sms[j], simgs[j], cseed, "src");
        } else if (fk < 8) {
          check_format_op(1, (int)r.below(2), dm, img, cseed, "dst");
        } else if (fk < 10) {
          int j = (int)r.below(2);
          if (r.chance(1, 2)) check_format_op(0, sms[j].odd_max() ? sms[j].cw : WIDTHS[r.below(4)], sms[j], simgs[j], cseed, "src");
          else check_format_op(1, (int)r.below(2), sms[j], simgs[j], cseed, "src");
        } else if (fk < 13) {
          check_format_op(2 + (int)r.below(2), 0, dm, img, cseed, "dst");
        } else {
          probe_reads(dm, img, r, 2, cseed, "dst");
          int j = (int)r.below(2);
          probe_reads(sms[j], simgs[j], r, 1, cseed, "src");
        }
        continue;
      }
      int kind;
      unsigned k = (unsigned)r.below(100);
      if (k < 56) kind = (int)(k % 8);
      else if (k < 66) kind = K_FILL;
      else if (k < 72) kind = K_TEXT;
      else if (k < 78) kind = K_HLINE;
      else if (k < 84) kind = K_VLINE;
      else if (k < 90) kind = K_LINE;
      else if (k < 92) kind = K_REV_H;
      else if (k < 94) kind = K_REV_V;
      else if (k < 98) kind = K_INVERT;
      else kind = K_RESIZE;
      int which = (int)r.below(5);  // 0,1: sms[0]; 2,3: sms[1]; 4: self
      bool self = which == 4 && kind != K_RESIZE;
      const Canvas& sc = self ? dm : sms[which / 2 % 2];
      bool big_ok = r.chance(1, 3);
      if (kind == K_LINE) {
        Op o = gen_op(r, kind, dm, dm, pal, big_ok);
        check_line(o, dm, img, cseed);
        continue;
      }
      Op o = gen_op(r, kind, dm, sc, pal, big_ok);
      Env e{&dm, &img, self ? nullptr : &sc, self ? nullptr : &simgs[which / 2 % 2]};
      e.content_seed = cseed;
      Image mimg;
      if (kind == K_MASK_IMG) {
        int64_t w = o.w < 0 ? sc.w : o.w, h = o.h < 0 ? sc.h : o.h;
        int64_t mw = max(sc.w, min<int64_t>(w, 80)), mh = max(sc.h, min<int64_t>(h, 80));
        if (r.chance(1, 12)) { mw = r.range(0, mw); mh = r.range(0, mh); }  // sometimes too small (precondition)
        bool too_small = mw < w || mh < h;
        if (!too_small && (mw < sc.w || mh < sc.h)) { mw = max(mw, sc.w); mh = max(mh, sc.h); }
        mm.init(mw + (too_small ? 0 : r.range(0, 2)), mh + (too_small ? 0 : r.range(0, 2)), r.chance(1, 4), 8);
        fill_content(mm, r, pal);
        mimg = make_image(mm);
        e.mm = &mm;
        e.mimg = &mimg;
      }
      int P = (!self && r.chance(1, 3)) ? (int)r.range(1, 5) : 0;
      bool ok = check_op(o, e, r, P);
      if (i < 3 && step < 2 && C->shard == 0) C->sample(op_str(o) + " dst=" + canvas_str(dm) + " src=" + (self ? string("self") : canvas_str(sc)));
      (void)ok;
    }
    // identities on whatever the sequence produced
    if (i % 8 == 0) identity_checks(dm, img, cseed, r);
  }
}

// ------------------------------------------------------------------------------------------------
// suite: long-thin and large canvases.  Everything above works on canvases of at most a few hundred pixels per side
// (coordinates may be huge, but every in-canvas run is short), so anything that accumulates error along a run,
// overflows a 16-bit / fixed-point / int intermediate, or depends on a row stride or pixel index beyond 2^15, 2^16,
// 2^20, 2^24 is invisible there.  Ladder: W x H and H x W with W in {2^k-1, 2^k, 2^k+1, 3*2^(k-1)}, k = 12..18,
// H = 1..4, plus a few moderately large "square" canvases.  Same oracles as everywhere else (line laws, per-pixel
// model, padded-canvas invariance, out_of_range on direct access, identities), requests placed at far offsets.

struct Geom { int64_t w, h; int k; int shape; };  // shape 0: wide (long x), 1: tall (long y), 2: square-ish

static int log2_floor(int64_t v) { int j = 0; while ((2LL << j) <= v) j++; return j; }

// a coordinate for an axis of `size` pixels, biased to the far end, to the edge, and to powers of two inside the canvas
static int64_t far_coord(vf::Rng& r, int64_t size) {
  if (size < 64) return r.range(-3, size + 3);
  switch (r.below(11)) {
    case 0: return size - 1 - r.range(0, 8);   // last pixels
    case 1: return size - r.range(0, 45);      // a rectangle / glyph run starting here crosses the far edge
    case 2: return size + r.range(0, 3);       // just beyond
    case 3: case 4: case 5: {                  // at / just before a power of two (or 3*2^j) that lies inside the canvas
      int jmax = max(8, log2_floor(size + 2)), j = r.chance(2, 3) ? jmax - (int)r.below(3) : (int)r.range(8, jmax);
      if (j < 8) j = 8;
      int64_t b = 1LL << j;
      if (r.chance(1, 4) && 3 * b / 2 < size) b = 3 * b / 2;
      return b + (r.chance(1, 2) ? r.range(-3, 3) : -r.range(0, 45));
    }
    case 6: return r.range(-3, 3);
    case 7: return -r.range(1, 45);
    default: return r.range(0, size - 1);
  }
}

static int64_t far_extent(vf::Rng& r, int64_t size, int64_t at) {
  switch (r.below(10)) {
    case 0: return -1;
    case 1: case 2: case 3: return r.range(0, 45);
    case 4: return size - at + r.range(-1, 1);  // ends at the far edge (+-1)
    case 5: return size + r.range(0, 3);
    case 6: return r.range(0, size);
    case 7: { static const int64_t m[] = {32767, 32768, 65535, 65536, 65537, 2147483647LL, 2147483648LL}; return m[r.below(7)]; }
    default: return size < 64 ? r.range(0, size + 3) : r.range(0, 300);
  }
}

static void large_geometry(Op& o, vf::Rng& r, const Canvas& d, const Canvas& s) {
  static const int64_t dashes[] = {0, 1, 2, 7, 255, 256, 257, 4096, 32767, 32768, 65536, -3, -256};
  switch (o.kind) {
    case K_FILL:
      o.x = far_coord(r, d.w); o.y = far_coord(r, d.h);
      o.w = far_extent(r, d.w, o.x); o.h = far_extent(r, d.h, o.y);
      if (o.w < 0 && r.chance(1, 2)) o.w = d.w;
      if (o.h < 0 && r.chance(1, 2)) o.h = d.h;
      if (r.chance(1, 3)) {  // long run along the long axis, from (near) the start
        bool ydir = d.h > d.w;
        int64_t dl = ydir ? d.h : d.w;
        (ydir ? o.y : o.x) = r.chance(1, 2) ? r.range(-3, 3) : r.range(0, dl / 8);
        (ydir ? o.h : o.w) = r.chance(1, 3) ? dl + r.range(0, 3) : r.chance(1, 2) ? r.range(3 * dl / 4, dl) : 2147483648LL - r.range(0, 1);
      }
      break;
    case K_TEXT:
      o.x = r.chance(1, 2) ? far_coord(r, d.w) : d.w - r.range(0, 40);
      o.y = r.chance(1, 2) ? far_coord(r, d.h) : d.h - r.range(0, 12);
      break;
    case K_HLINE: case K_VLINE: {
      int64_t len = o.kind == K_HLINE ? d.w : d.h, other = o.kind == K_HLINE ? d.h : d.w;
      o.y = r.chance(1, 3) ? far_coord(r, other) : other ? r.range(0, other - 1) : 0;
      if (r.chance(1, 2) && len > 0) {
        o.x = r.range(0, len - 1); o.x2 = r.range(0, len - 1);
        if (r.chance(1, 2)) { o.x = max<int64_t>(0, min(len - 1, far_coord(r, len))); }
        if (r.chance(1, 2)) { o.x2 = len - 1 - r.range(0, min<int64_t>(len - 1, 3)); }
        if (o.x > o.x2 && r.chance(7, 8)) swap(o.x, o.x2);
      } else {
        o.x = far_coord(r, len); o.x2 = r.chance(1, 2) ? far_coord(r, len) : o.x + far_extent(r, len, o.x);
      }
      o.dash = dashes[r.below(sizeof(dashes) / sizeof(dashes[0]))];
      break;
    }
    default:
      if (o.kind <= K_CUSTOM64) {
        o.x = far_coord(r, d.w); o.y = far_coord(r, d.h);
        o.sx = far_coord(r, s.w); o.sy = far_coord(r, s.h);
        if (r.chance(1, 3)) o.sx = r.range(-2, 2);
        if (r.chance(1, 3)) o.sy = r.range(-2, 2);
        o.w = far_extent(r, max(d.w, s.w), r.chance(1, 2) ? o.x : o.sx);
        o.h = far_extent(r, max(d.h, s.h), r.chance(1, 2) ? o.y : o.sy);
        if (r.chance(max(d.w, d.h) > 65536 ? 2 : 1, max(d.w, d.h) > 65536 ? 3 : 2)) {
          // long run (more often where it can exceed 2^16 steps): the copied area spans (nearly) the whole common length of both canvases, so the inner loops make
          // tens of thousands of steps and the far ends of source AND destination are reached within one call
          static const int64_t huge[] = {65536, 65537, 131072, 2147483647LL, 2147483648LL};
          for (int axis = 0; axis < 2; axis++) {
            int64_t dl = axis ? d.h : d.w, sl = axis ? s.h : s.w;
            int64_t& p = axis ? o.y : o.x; int64_t& sp = axis ? o.sy : o.sx; int64_t& e = axis ? o.h : o.w;
            if (max(dl, sl) < 64) { if (r.chance(1, 2)) { p = r.range(-1, 1); sp = r.range(-1, 1); e = r.chance(1, 2) ? -1 : max(dl, sl) + r.range(0, 2); } continue; }
            p = r.chance(1, 2) ? r.range(-3, 3) : r.range(0, dl / 8);
            sp = r.chance(1, 2) ? r.range(-3, 3) : r.range(0, sl / 8);
            switch (r.below(6)) {
              case 0: e = -1; break;
              case 1: e = max(dl, sl) + r.range(0, 3); break;
              case 2: e = min(dl - p, sl - sp) + r.range(-1, 1); break;
              case 3: e = huge[r.below(5)]; break;
              default: e = r.range(3 * min(dl, sl) / 4, max(dl, sl)); break;
            }
          }
        }
      }
      break;
  }
}

static uint64_t n_large_ops = 0, n_large_lines = 0, n_large_pixels = 0;

static void large_rect_ops(const Geom& g, Canvas& dm, Image& img, Canvas sms[2], Image simgs[2], uint64_t cseed, int nops, vf::Rng& r, const uint64_t pal[4][3]) {
  Canvas mm;
  for (int step = 0; step < nops; step++) {
    int kind;
    unsigned k = (unsigned)r.below(100);
    if (k < 48) kind = (int)(k % 8);
    else if (k < 60) kind = K_FILL;
    else if (k < 68) kind = K_TEXT;
    else if (k < 76) kind = K_HLINE;
    else if (k < 84) kind = K_VLINE;
    else if (k < 88) kind = K_REV_H;
    else if (k < 92) kind = K_REV_V;
    else if (k < 95) kind = K_INVERT;
    else if (k < 97) kind = K_RESIZE;
    else {
      probe_reads(dm, img, r, 4, cseed, "dst");
      continue;
    }
    int which = (int)r.below(9);  // 0..3: small source, 4..7: long source, 8: self
    if (which < 2 && kind <= K_CUSTOM64 && max(dm.w, dm.h) > 65536) which += 4;  // canvases beyond 2^16: long source 2/3 of the time
    bool self = which == 8 && kind != K_RESIZE && kind <= K_CUSTOM64;
    const Canvas& sc = self ? dm : sms[(which / 4) % 2];
    Op o = gen_op(r, kind, dm, sc, pal, false);
    large_geometry(o, r, dm, sc);
    Env e{&dm, &img, self ? nullptr : &sc, self ? nullptr : &simgs[(which / 4) % 2]};
    e.content_seed = cseed;
    Image mimg;
    if (kind == K_MASK_IMG) {
      // the mask must cover the source and the requested w x h (documented precondition); keep it affordable: along an
      // axis where the source is thin the request is at most 8, along a long axis the mask is at most source + 80
      if (sc.w < 64 && o.w > 8) o.w = 8;
      if (sc.h < 64 && o.h > 8) o.h = 8;
      int64_t w = o.w < 0 ? sc.w : o.w, h = o.h < 0 ? sc.h : o.h;
      int64_t mw = max(sc.w, min<int64_t>(w, sc.w < 64 ? 8 : sc.w + 80)), mh = max(sc.h, min<int64_t>(h, sc.h < 64 ? 8 : sc.h + 80));
      if (r.chance(1, 12)) { mw = r.range(0, mw); mh = r.range(0, mh); }  // sometimes too small: runtime_error expected
      // (a mask that covers w x h but not the source area it is indexed with is outside the documented precondition too,
      // but is not rejected up front: not generated, as in the sequence stage)
      if (!(mw < w || mh < h) && (mw < sc.w || mh < sc.h)) { mw = max(mw, sc.w); mh = max(mh, sc.h); }
      mm.init(mw, mh, r.chance(1, 4), 8);
      fill_content(mm, r, pal);
      mimg = make_image(mm);
      e.mm = &mm;
      e.mimg = &mimg;
    }
    int P = (!self && r.chance(1, 4)) ? (int)r.range(1, 2) : 0;  // (a thin canvas padded by P grows by 2P/H)
    const int64_t before_w = dm.w, before_h = dm.h, src_w = sc.w, src_h = sc.h;
    check_op(o, e, r, P);
    n_large_ops++;
    C->cls(string("large:op:") + kind_names[kind]);
    if (kind <= K_FILL) {
      // (classification only) how many steps does the inner loop along the long axis make?
      bool ydir = g.shape == 1;
      int64_t dl = ydir ? before_h : before_w, sl = kind == K_FILL ? INT64_MAX / 4 : ydir ? src_h : src_w;
      int64_t p = ydir ? o.y : o.x, sp = kind == K_FILL ? 0 : ydir ? o.sy : o.sx, e = ydir ? o.h : o.w;
      if (e < 0 && kind != K_FILL) e = sl;
      int64_t lo = max<int64_t>(0, max(-p, -sp)), hi = min(e, min(dl - p, sl - sp));
      int64_t run = hi - lo;
      if (run >= 32768) C->cls(string("large:run>=") + (run >= 131072 ? "2^17" : run >= 65536 ? "2^16" : "2^15") + ":" + (kind == K_FILL ? "fill_rect" : "blit-family"));
    }
    if (kind <= K_FILL || kind == K_TEXT) {
      // where does the request land: beyond 2^15 / 2^16 / 2^17 along the long axis?
      int64_t at = g.shape == 1 ? o.y : o.x;
      if (at >= 32768 && at < (g.shape == 1 ? dm.h : dm.w))
        C->cls(string("large:offset>=") + (at >= 131072 ? "2^17" : at >= 65536 ? "2^16" : "2^15") + ":" + (kind <= K_CUSTOM64 ? "blit-family" : kind_names[kind]));
    }
  }
}

static void large_pixels(const Geom& g, Canvas& dm, Image& img, vf::Rng& r, int n) {
  int64_t W = dm.w, H = dm.h;
  vector<pair<int64_t, int64_t>> pts;
  int64_t xi = W - 1 - (int64_t)r.below(3), yi = H - 1 - (int64_t)r.below(min<int64_t>(H, 3));
  pts.push_back({xi, yi});                      // far corner
  pts.push_back({W, 0});                        // linear index lands inside the buffer (next row) although x is out of range
  pts.push_back({-1, H > 1 ? 1 : 0});
  pts.push_back({xi + W, yi - 1});
  pts.push_back({xi - W, yi + 1});
  pts.push_back({xi + 65536, yi});              // would alias into the canvas if a coordinate were cut to 16 / 32 bits
  pts.push_back({xi, yi + 65536});
  pts.push_back({xi + 4294967296LL, yi});
  pts.push_back({xi, yi + 4294967296LL});
  pts.push_back({xi - 65536, yi});
  pts.push_back({far_coord(r, W), far_coord(r, H)});
  pts.push_back({far_coord(r, W), H ? r.range(0, H - 1) : 0});
  pts.push_back({W ? r.range(0, W - 1) : 0, far_coord(r, H)});
  for (int j = 15; j <= 24; j++) {
    // pixel index / byte offset around 2^j
    int64_t idx = (1LL << j) / (r.chance(1, 2) ? 1 : dm.nch * (dm.cw / 8)) + r.range(-1, 1);
    if (idx >= 0 && idx < W * H) pts.push_back({idx % W, idx / W});
  }
  // the fixed ones first, then a seed-dependent selection of the rest
  for (size_t i = 0; i < pts.size() && n > 0; i++) {
    if (i >= 5 && !r.chance(1, 2)) continue;
    pixel_case(dm, img, pts[i].first, pts[i].second, r);
    n_large_pixels++;
    n--;
    bool in = dm.inside(pts[i].first, pts[i].second);
    C->cls(string("large:pixel:") + (in ? "inside" : "outside") + (g.shape == 2 ? ":square" : g.shape ? ":tall" : ":wide"));
  }
}

// lines on a black canvas.  (a, m) = coordinate along the long axis / along the short axis.
static void large_lines(const Geom& g, bool alpha, int cw, int n_in, int n_out, vf::Rng& r) {
  Canvas dm;  // size / format only: the lines are judged on the raw buffer (check_line_black)
  dm.w = g.w; dm.h = g.h; dm.alpha = alpha; dm.cw = cw; dm.nch = alpha ? 4 : 3; dm.mask = dm.maxv = mask_of(cw);
  Image img((size_t)g.w, (size_t)g.h, alpha, (uint8_t)cw);
  memset(img.get_data(), 0, img.get_data_size());
  bool tall = g.shape == 1;
  int64_t L = tall ? g.h : g.w, S = tall ? g.w : g.h;
  vector<int64_t> special;  // major-axis lengths around every power of two (and 3*2^j) that fits
  for (int j = 8; j <= 20; j++) {
    for (int64_t b : {1LL << j, 3LL << (j - 1)})
      for (int64_t d : {-1, 0, 1}) if (b + d <= L - 1) special.push_back(b + d);
  }
  static uint64_t colour_ctr = 0;
  const int64_t pair_rot = (int64_t)r.below(64);
  auto run = [&](int64_t a0, int64_t m0, int64_t a1, int64_t m1, const char* type) {
    Op o;
    o.kind = K_LINE;
    o.x = tall ? m0 : a0; o.y = tall ? a0 : m0; o.x2 = tall ? m1 : a1; o.y2 = tall ? a1 : m1;
    colour_ctr++;
    o.c[0] = 1 + (colour_ctr % 250); o.c[1] = 0xFF; o.c[2] = colour_ctr & 0xFF; o.c[3] = (colour_ctr & 2) ? 0xFF : 0xC0;
    o.u32 = colour_ctr & 1;
    check_line_black(o, dm, img);
    n_large_lines++;
    C->cls(string("large:line:") + type + (type[0] != 'i' ? "" : g.shape == 2 ? ":square" : tall ? ":tall" : ":wide"));
    int64_t run_len = llabs(a1 - a0);
    if (type[0] == 'i' && run_len >= 32768) C->cls(string("large:line:incanvas-run>=") + (run_len >= 131072 ? "2^17" : run_len >= 65536 ? "2^16" : "2^15"));
  };
  for (int i = 0; i < n_in; i++) {
    int64_t a0, a1, m0 = r.range(0, S - 1), m1 = r.range(0, S - 1);
    const char* type;
    unsigned t = (unsigned)(i % 4);
    if (t == 3 && S < 64) t = (unsigned)r.below(3);
    if (t == 0 || special.empty()) {          // full length, every shallow slope the canvas allows
      a0 = 0; a1 = L - 1;
      if (S > 1 && S <= 4) {  // ordered pairs m0 != m1 in rotation (start chosen per canvas): dy = +-1..+-(S-1)
        int64_t qn = (int64_t)(i / 4) + pair_rot;
        m0 = qn % S;
        m1 = (m0 + 1 + (qn / S) % (S - 1)) % S;
      }
      type = "incanvas:full-length";
    } else if (t == 1) {                        // length around a power of two (slope just off a multiple of 2^-16 / 2^-8)
      size_t top = special.size() < 9 ? special.size() : 9;
      int64_t dx = r.chance(2, 3) ? special[special.size() - 1 - r.below(top)] : special[r.below(special.size())];
      a0 = r.chance(1, 3) ? 0 : r.chance(1, 2) ? L - 1 - dx : r.range(0, L - 1 - dx);
      a1 = a0 + dx;
      type = "incanvas:pow2-length";
    } else if (t == 2) {
      a0 = r.range(0, L - 1); a1 = r.range(0, L - 1);
      if (llabs(a1 - a0) < L / 2 && r.chance(1, 2)) { a0 = r.range(0, L / 8); a1 = L - 1 - r.range(0, L / 8); }
      type = "incanvas:random";
    } else {                                    // near-diagonal (square canvases)
      int64_t n = min(L, S) - 1 - r.range(0, 3);
      a0 = r.range(0, 3); m0 = r.range(0, 3);
      int64_t la = min(n, L - 1 - a0), lm = la + r.range(-2, 2);
      if (r.chance(1, 4)) lm = la - la / (int64_t)(1 << r.range(8, 10)) - r.range(0, 1);  // slope 1 - 2^-8.. (just off a multiple)
      lm = max<int64_t>(0, min(lm, S - 1 - m0));
      a1 = a0 + la; m1 = m0 + lm;
      if (r.chance(1, 2)) { m0 = S - 1 - m0; m1 = S - 1 - m1; }  // descending
      type = "incanvas:near-diagonal";
    }
    if (r.chance(1, 2)) { swap(a0, a1); swap(m0, m1); }
    run(a0, m0, a1, m1, type);
  }
  static const int64_t beyond[] = {1, 2, 100, 32768, 65536, 65537, 1048576, 2147483647LL};
  for (int i = 0; i < n_out; i++) {
    int64_t a0 = r.chance(1, 2) ? r.range(0, min<int64_t>(L - 1, 3)) : r.range(0, L / 2), m0 = r.range(0, S - 1), a1, m1;
    const char* type;
    switch (i % 5) {
      case 0: case 1: {  // leaves through the far end after a long in-canvas run, shallow
        int64_t b = beyond[r.below(8)];
        a1 = (b >= 1048576) ? b - r.range(0, 3) : L - 1 + b;
        int64_t span = (a1 - a0) / L + 1;
        m1 = m0 + (r.chance(1, 2) ? 1 : -1) * r.range(0, min<int64_t>(3, S) * span);
        type = "outside:far-end";
        break;
      }
      case 2:            // leaves through the long side somewhere along the canvas
        a1 = a0 + r.range(L / 2, L);
        m1 = r.chance(1, 2) ? S + r.range(0, 2 * S + 5) : -r.range(1, 2 * S + 5);
        type = "outside:long-side";
        break;
      case 3:            // comes in from beyond the near end (the walk starts outside)
        a1 = r.range(L / 2, L - 1); m1 = r.range(0, S - 1);
        a0 = -beyond[r.below(8)];
        m0 = m1 + r.range(-3, 3);
        type = "outside:near-end";
        break;
      default: {         // both ends outside, ideal segment crosses the canvas
        a0 = -r.range(1, 70000); a1 = L - 1 + r.range(1, 70000);
        m0 = r.range(-2, S + 1); m1 = r.range(-2, S + 1);
        type = "outside:both";
        break;
      }
    }
    if (r.chance(1, 2)) { swap(a0, a1); swap(m0, m1); }
    run(a0, m0, a1, m1, type);
  }
}

static void large_canvas_case(const Geom& g, int fmtsel, uint64_t cseed, int nops, int n_in, int n_out, int npix, bool with_identity) {
  vf::Rng r(cseed);
  int cw = WIDTHS[fmtsel % 4];
  bool alpha = fmtsel >= 4;
  uint64_t pal[4][3];
  standard_palette(r, pal);
  const char* shape = g.shape == 2 ? "square" : g.shape ? "tall" : "wide";
  if (g.shape != 2) C->cls(fmt("large:canvas:k%d", g.k));
  C->cls(string("large:canvas:") + shape);
  C->cls(fmt("large:canvas:fmt:%d%s", cw, alpha ? "a" : "n"));
  if ((uint64_t)(g.w * g.h) * (uint64_t)((alpha ? 4 : 3) * cw / 8) > (1ULL << 24)) C->cls("large:canvas:bytes>2^24");
  if (g.w * g.h > (1 << 20)) C->cls("large:canvas:pixels>2^20");
  C->count("large_canvases");

  large_lines(g, alpha, cw, n_in, n_out, r);

  Canvas dm, sms[2];
  dm.init(g.w, g.h, alpha, cw);
  fill_content(dm, r, pal);
  Image img = make_image(dm);
  bool mixed = r.chance(1, 6);
  // a small source and a long one (same orientation as the destination; its far end is addressed by sx/sy)
  int64_t L = max(g.w, g.h);
  int64_t sl = r.chance(2, 3) ? L + r.range(-3, 5) : r.chance(1, 2) ? r.range(L / 2, L) : ((1LL << r.range(10, log2_floor(L))) + r.range(-1, 1));
  if (g.shape == 2) {
    sms[0].init(r.range(1, 40), r.range(1, 40), r.chance(1, 2), cw);
    sms[1].init(g.w / 3 + r.range(0, 5), g.h / 3 + r.range(0, 5), r.chance(1, 2), mixed ? WIDTHS[r.below(4)] : cw);
  } else {
    int64_t a = r.range(1, 40), b = r.range(1, 6), t = r.range(1, 3);
    sms[0].init(g.shape ? b : a, g.shape ? a : b, r.chance(1, 2), cw);
    sms[1].init(g.shape ? t : sl, g.shape ? sl : t, r.chance(1, 2), mixed ? WIDTHS[r.below(4)] : cw);
  }
  for (auto& s : sms) fill_content(s, r, pal);
  Image simgs[2] = {make_image(sms[0]), make_image(sms[1])};
  if (C->shard == 0 && C->samples.size() < 4) C->sample("large canvas " + canvas_str(dm) + " with sources " + canvas_str(sms[0]) + ", " + canvas_str(sms[1]));

  large_rect_ops(g, dm, img, sms, simgs, cseed, nops - nops / 3, r, pal);
  // the format changes with the model carried across them, then more drawing on the converted canvas
  check_format_op(1, !dm.alpha, dm, img, cseed, "large dst");
  if (r.chance(1, 2)) {
    int nw = WIDTHS[r.below(4)];
    check_format_op(0, nw, dm, img, cseed, "large dst");
    for (int j = 0; j < 2; j++) if (!mixed) check_format_op(0, nw, sms[j], simgs[j], cseed, "large src");
  } else {
    check_format_op(2 + (int)r.below(2), 0, dm, img, cseed, "large dst");
  }
  large_rect_ops(g, dm, img, sms, simgs, cseed, nops / 3, r, pal);
  large_pixels(g, dm, img, r, npix);
  if (with_identity) {
    if (memcmp_needed_resync(dm, img)) { Canvas keep_ = dm; snapshot(img, dm, &keep_); }
    identity_checks(dm, img, cseed, r);
    C->cls(string("large:identity:") + shape);
  }
}

static void large_suite(vf::Rng&) {
  vector<Geom> ladder;
  for (int k = 12; k <= 18; k++)
    for (int v = 0; v < 4; v++)
      for (int64_t h = 1; h <= 4; h++)
        for (int tall = 0; tall < 2; tall++) {
          int64_t W = v == 0 ? (1LL << k) - 1 : v == 1 ? (1LL << k) : v == 2 ? (1LL << k) + 1 : 3LL << (k - 1);
          ladder.push_back(tall ? Geom{h, W, k, 1} : Geom{W, h, k, 0});
        }
  // 224 = 14 groups of 16: every shard gets one geometry of every (k, v/2) group, thickness and orientation mixed;
  // the seed rotates which one
  bool q = C->quick();
  for (size_t idx = 0; idx < ladder.size(); idx++) {
    uint64_t owner = (idx + 7 * (idx / 16) + C->seed) % 16;
    if (owner % C->nshards != C->shard) continue;
    const Geom& g = ladder[idx];
    int64_t npx = g.w * g.h;
    for (int f = 0; f < (q ? 1 : 8); f++) {
      int fmtsel = (int)((idx * 3 + idx / 8 + C->seed + (uint64_t)f) % 8);
      uint64_t cseed = (C->seed * 1000003ULL + idx) * 8 + (uint64_t)f;
      // fewer requests on the biggest canvases (cost is linear in the pixel count)
      int nops = npx > 600000 ? 12 : npx > 150000 ? 15 : 18;
      large_canvas_case(g, fmtsel, cseed, q ? nops : 2 * nops, q ? (npx > 150000 ? 8 : 20) : 48, q ? (npx > 150000 ? 4 : 8) : 20, q ? (npx > 150000 ? 6 : 10) : 20,
          q ? (npx <= 20000 || (idx / 16 + idx + C->seed) % 8 == 0) : (npx <= 300000 || f % 4 == 0));
    }
  }
  // "square" canvases: pixel index beyond 2^20, byte offsets beyond 2^24 (64-bit channels), near-diagonal long lines
  struct Sq { int64_t w, h; int fmtsel; bool quick; };
  static const Sq squares[] = {
      {1500, 1100, 0, true}, {1100, 1500, 4, true}, {1024, 700, 3, true}, {2049, 513, 1, true}, {513, 2049, 6, true}, {1450, 1500, 5, false},
      {700, 1024, 7, false}, {2100, 2000, 4, false}, {4097, 257, 2, false}, {257, 4097, 0, false}, {1201, 1201, 1, false}};
  for (size_t j = 0; j < sizeof(squares) / sizeof(squares[0]); j++) {
    const Sq& s = squares[j];
    if (q && !s.quick) continue;
    if ((3 * j + 5 + C->seed) % C->nshards != C->shard) continue;
    Geom g{s.w, s.h, 0, 2};
    int fmtsel = q ? (int)((s.fmtsel + (s.fmtsel == 3 ? 0 : 4 * (C->seed & 1))) % 8) : s.fmtsel;
    large_canvas_case(g, fmtsel, (C->seed * 1000003ULL + 5000 + j) * 8, q ? 8 : 20, q ? 24 : 80, q ? 8 : 20, q ? 8 : 20, q ? (j + C->seed) % 5 == 0 : s.w * s.h < 3000000);
  }
  C->count("large_rect_ops", n_large_ops);
  C->count("large_lines", n_large_lines);
  C->count("large_pixel_cases", n_large_pixels);
}

int main(int argc, char** argv) {
  vf::Ctx& c = vf::init(argc, argv);
  C = &c;
  string only = c.arg("only");
  auto want = [&](const char* s) { return only.empty() || only == s; };
  vf::Rng r = c.rng();
  if (want("pixel")) pixel_suite(r);
  if (want("fill")) fill_suite(r);
  if (want("blit")) blit_suite(r);
  if (want("line")) line_suite(r);
  if (want("text")) text_suite(r);
  if (want("longtext")) longtext_suite(r);
  if (want("ident")) identity_suite(r);
  if (want("format")) format_suite(r);
  if (want("seq")) sequence_suite(r);
  if (want("large")) large_suite(r);
  flush_counters();
  c.sample("fill_rect: complete cross product x,y in [-3,size+3], w,h in [-1,size+3] on canvases {0,1,2,3,5,8}^2, both alpha modes, 4 colours");
  c.sample("blit family: x,sx,y,sy in [-3,size+3], w,h in [-1,max+3] on canvases {0..3}^4, 8 kinds in rotation, self blits, padded-canvas invariance");
  return c.finish();
}
