// C10 — hash functions equal their published definitions and chain correctly.
// The workload AND every expected value come from vf/oracles/c10.py (hashlib, zlib.crc32, the FNV-1a
// recurrence); this harness only runs the real phosg code on each input and compares with the stored
// values.  Inputs live in exact-size heap blocks (at a varying alignment) so that ASan watches every read.
#include <ctype.h>

#include <string>
#include <vector>

#include "Hash.hh"
#include "common.hh"

using namespace std;
using vf::fmt;

static vf::Ctx* C;

struct Case {
  uint32_t id;
  uint8_t kind, fill, allsplits, nsplits;
  uint32_t len;
  const uint8_t* data;
  const uint8_t *md5, *sha1, *sha256;
  uint32_t crc, fnv32;
  uint64_t fnv64;
  vector<uint32_t> splits;
};

static const char* FILLS[] = {"zero", "ff", "counter", "prng"};

static string lower(string s) {
  for (auto& ch : s) ch = (char)tolower((unsigned char)ch);
  return s;
}

// witness class of a length: which padding path and how many blocks
static string lenclass(size_t n) {
  return fmt("%s:%s", (n % 64) <= 55 ? "pad-in-block" : "pad-extra-block", n < 64 ? "single" : "multi");
}

static string describe(const Case& k) {
  string d = fmt("case=%u kind=%s fill=%s len=%u", k.id, k.kind == 1 ? "random" : "enumerated-length", FILLS[k.fill & 3], k.len);
  if (k.len <= 80) d += " data=" + vf::hex(k.data, k.len);
  else d += " data[0..32)=" + vf::hex(k.data, 32) + "... (regenerate: vf/oracles/c10.py plan(tier,seed)[case])";
  return d;
}

template <typename H>
static void check_digest(const char* name, const Case& k, const uint8_t* p, const string& s, const uint8_t* expect, size_t dlen) {
  string want_bin((const char*)expect, dlen);
  string want_hex = vf::hex(expect, dlen);
  string lc = lenclass(k.len);
  C->crumb_n(name, k.id, k.len, k.fill, 0);
  H h1(p, k.len);
  C->evaluations++;
  string b = h1.bin(), x = h1.hex();
  if (b != want_bin)
    C->violation(fmt("%s:bin:%s", name, lc.c_str()), fmt("%s(ptr,size).bin() differs from hashlib", name),
        describe(k) + " got=" + vf::hex(b) + " expected=" + want_hex);
  if (lower(x) != want_hex)
    C->violation(fmt("%s:hex:%s", name, lc.c_str()), fmt("%s(ptr,size).hex() differs from hashlib hexdigest (case-insensitive)", name),
        describe(k) + " got=" + x + " expected=" + want_hex);
  C->crumb_n(name, k.id, k.len, k.fill, 1);
  H h2(s);
  C->evaluations++;
  string b2 = h2.bin(), x2 = h2.hex();
  if (b2 != want_bin)
    C->violation(fmt("%s:bin:string-overload:%s", name, lc.c_str()), fmt("%s(std::string).bin() differs from hashlib", name),
        describe(k) + " got=" + vf::hex(b2) + " expected=" + want_hex);
  if (lower(x2) != want_hex)
    C->violation(fmt("%s:hex:string-overload:%s", name, lc.c_str()), fmt("%s(std::string).hex() differs from hashlib hexdigest", name),
        describe(k) + " got=" + x2 + " expected=" + want_hex);
}

static void check_split(const Case& k, const uint8_t* p, size_t cut, const char* how) {
  size_t n = k.len;
  const uint8_t* q = p + cut;
  string where = cut == 0 ? "empty-prefix" : cut == n ? "empty-suffix" : "inner";
  C->crumb_n("split", k.id, n, cut);
  C->evaluations += 3;
  uint32_t c = phosg::crc32(q, n - cut, phosg::crc32(p, cut));
  if (c != k.crc)
    C->violation(fmt("crc32:chain:%s", where.c_str()), "crc32(b, crc32(a)) differs from zlib.crc32(a+b)",
        describe(k) + fmt(" cut=%zu got=%08x expected=%08x", cut, c, k.crc));
  uint32_t f32 = phosg::fnv1a32(q, n - cut, phosg::fnv1a32(p, cut));
  if (f32 != k.fnv32)
    C->violation(fmt("fnv1a32:chain:%s", where.c_str()), "fnv1a32(b, fnv1a32(a)) differs from the FNV-1a recurrence over a+b",
        describe(k) + fmt(" cut=%zu got=%08x expected=%08x", cut, f32, k.fnv32));
  uint64_t f64 = phosg::fnv1a64(q, n - cut, phosg::fnv1a64(p, cut));
  if (f64 != k.fnv64)
    C->violation(fmt("fnv1a64:chain:%s", where.c_str()), "fnv1a64(b, fnv1a64(a)) differs from the FNV-1a recurrence over a+b",
        describe(k) + fmt(" cut=%zu got=%016" PRIx64 " expected=%016" PRIx64, cut, f64, k.fnv64));
  if (n <= 300 || cut == 0 || cut == n) {
    // std::string overloads of the seeded FNV forms
    string a((const char*)p, cut), b((const char*)q, n - cut);
    C->evaluations += 2;
    uint32_t g32 = phosg::fnv1a32(b, phosg::fnv1a32(a));
    uint64_t g64 = phosg::fnv1a64(b, phosg::fnv1a64(a));
    if (g32 != k.fnv32)
      C->violation(fmt("fnv1a32:chain:string-overload:%s", where.c_str()), "fnv1a32(string b, fnv1a32(string a)) differs from the recurrence over a+b",
          describe(k) + fmt(" cut=%zu got=%08x expected=%08x", cut, g32, k.fnv32));
    if (g64 != k.fnv64)
      C->violation(fmt("fnv1a64:chain:string-overload:%s", where.c_str()), "fnv1a64(string b, fnv1a64(string a)) differs from the recurrence over a+b",
          describe(k) + fmt(" cut=%zu got=%016" PRIx64 " expected=%016" PRIx64, cut, g64, k.fnv64));
  }
  C->cls(fmt("chain:%s:%s:%s", how, where.c_str(), n <= 300 ? "len<=300" : n < 65536 ? "len<64K" : "len>=64K"));
}

static void run_case(const Case& k) {
  size_t n = k.len;
  // exact-size block, data placed at offset id%4 so the end of the input is the end of the allocation
  size_t off = k.id & 3;
  uint8_t* blk = (uint8_t*)malloc(off + n + (off + n == 0 ? 1 : 0));
  if (!blk) {
    fprintf(stderr, "[harness-error] malloc\n");
    exit(3);
  }
  uint8_t* p = blk + off;
  if (n) memcpy(p, k.data, n);
  string s((const char*)k.data, n);

  check_digest<phosg::MD5>("md5", k, p, s, k.md5, 16);
  check_digest<phosg::SHA1>("sha1", k, p, s, k.sha1, 20);
  check_digest<phosg::SHA256>("sha256", k, p, s, k.sha256, 32);

  string lc = n == 0 ? "empty" : n <= 300 ? "len<=300" : n < 65536 ? "len<64K" : "len>=64K";
  C->crumb_n("crc32", k.id, n, k.fill);
  C->evaluations += 2;
  uint32_t c1 = phosg::crc32(p, n), c2 = phosg::crc32(p, n, 0);
  if (c1 != k.crc || c2 != k.crc)
    C->violation("crc32:value:" + lc, "crc32(x) differs from zlib.crc32(x)", describe(k) + fmt(" got=%08x/%08x expected=%08x", c1, c2, k.crc));
  C->crumb_n("fnv1a", k.id, n, k.fill);
  C->evaluations += 4;
  uint32_t f1 = phosg::fnv1a32(p, n), f2 = phosg::fnv1a32(s);
  if (f1 != k.fnv32) C->violation("fnv1a32:value:" + lc, "fnv1a32(ptr,size) differs from the FNV-1a recurrence", describe(k) + fmt(" got=%08x expected=%08x", f1, k.fnv32));
  if (f2 != k.fnv32) C->violation("fnv1a32:value:string-overload:" + lc, "fnv1a32(string) differs from the FNV-1a recurrence", describe(k) + fmt(" got=%08x expected=%08x", f2, k.fnv32));
  uint64_t g1 = phosg::fnv1a64(p, n), g2 = phosg::fnv1a64(s);
  if (g1 != k.fnv64) C->violation("fnv1a64:value:" + lc, "fnv1a64(ptr,size) differs from the FNV-1a recurrence", describe(k) + fmt(" got=%016" PRIx64 " expected=%016" PRIx64, g1, k.fnv64));
  if (g2 != k.fnv64) C->violation("fnv1a64:value:string-overload:" + lc, "fnv1a64(string) differs from the FNV-1a recurrence", describe(k) + fmt(" got=%016" PRIx64 " expected=%016" PRIx64, g2, k.fnv64));

  if (k.allsplits) {
    for (size_t cut = 0; cut <= n; cut++) check_split(k, p, cut, "every-split");
    C->count("inputs_with_every_split_checked");
  }
  for (uint32_t cut : k.splits)
    if (cut <= n) check_split(k, p, cut, "sampled-split");

  size_t blocks = n / 64;
  C->cls(fmt("digest:mod64=%zu:%s", n % 64, blocks == 0 ? "0-full-blocks" : blocks == 1 ? "1-full-block" : blocks <= 4 ? "2-4-full-blocks" : "5+-full-blocks"));
  C->cls(fmt("input:%s:%s:align%zu", k.kind == 1 ? "random" : "enumerated", FILLS[k.fill & 3], off));
  if (k.kind == 1) {
    long d = (long)((n + 32) % 64) - 32;  // distance from the nearest multiple of 64
    C->cls(fmt("random:len=64k%+ld", d));
    C->cls(fmt("random:size:%s", n < 4096 ? "<4K" : n < 65536 ? "<64K" : n < (1u << 20) ? "<1M" : "=1MiB"));
    C->count("random_input_bytes", n);
  }
  if (C->samples.size() < 3 && (k.id % 997 == 0 || k.kind == 1))
    C->sample(fmt("len=%u fill=%s: MD5/SHA1/SHA256 bin+hex (both overloads), crc32, fnv1a32/64 = hashlib/zlib/recurrence; %s", k.len,
        FILLS[k.fill & 3], k.allsplits ? "chaining at every split point" : "chaining at sampled split points"));
  free(blk);
}

int main(int argc, char** argv) {
  vf::Ctx& c = vf::init(argc, argv);
  C = &c;
  string base = c.arg("cases");
  if (base.empty()) {
    fprintf(stderr, "[harness-error] --arg cases=<prefix> missing\n");
    return 3;
  }
  string path = fmt("%s.%u.bin", base.c_str(), c.shard);
  FILE* f = fopen(path.c_str(), "rb");
  if (!f) {
    fprintf(stderr, "[harness-error] cannot open %s\n", path.c_str());
    return 3;
  }
  fseek(f, 0, SEEK_END);
  long sz = ftell(f);
  fseek(f, 0, SEEK_SET);
  vector<uint8_t> buf((size_t)sz);
  if (sz < 8 || fread(buf.data(), 1, (size_t)sz, f) != (size_t)sz || memcmp(buf.data(), "C10C", 4) != 0) {
    fprintf(stderr, "[harness-error] bad case file %s\n", path.c_str());
    return 3;
  }
  fclose(f);
  uint32_t ncases;
  memcpy(&ncases, buf.data() + 4, 4);
  size_t pos = 8;
  auto need = [&](size_t n) {
    if (pos + n > buf.size()) {
      fprintf(stderr, "[harness-error] truncated case file %s\n", path.c_str());
      exit(3);
    }
  };
  for (uint32_t i = 0; i < ncases; i++) {
    Case k;
    need(12);
    memcpy(&k.id, &buf[pos], 4);
    k.kind = buf[pos + 4];
    k.fill = buf[pos + 5];
    k.allsplits = buf[pos + 6];
    k.nsplits = buf[pos + 7];
    memcpy(&k.len, &buf[pos + 8], 4);
    pos += 12;
    need((size_t)k.len + 16 + 20 + 32 + 16 + 4 * (size_t)k.nsplits);
    k.data = &buf[pos];
    pos += k.len;
    k.md5 = &buf[pos];
    pos += 16;
    k.sha1 = &buf[pos];
    pos += 20;
    k.sha256 = &buf[pos];
    pos += 32;
    memcpy(&k.crc, &buf[pos], 4);
    memcpy(&k.fnv32, &buf[pos + 4], 4);
    memcpy(&k.fnv64, &buf[pos + 8], 8);
    pos += 16;
    k.splits.resize(k.nsplits);
    if (k.nsplits) memcpy(k.splits.data(), &buf[pos], 4 * (size_t)k.nsplits);
    pos += 4 * (size_t)k.nsplits;
    run_case(k);
    c.count("cases");
  }
  if (pos != buf.size()) {
    fprintf(stderr, "[harness-error] trailing bytes in case file %s\n", path.c_str());
    return 3;
  }
  return c.finish();
}
