// C10 — hash functions equal their published definitions and chain correctly.
// The workload AND every expected value come from vf/oracles/c10.py (hashlib, zlib.crc32, the FNV-1a
// recurrence); this harness only runs the real phosg code on each input and compares with the stored
// values.  Inputs live in exact-size heap blocks (at a varying alignment) so that ASan watches every read.
//
// Modes:  (default)  single-threaded: values, both overloads, chaining at every split point, chains that
//                    contain EMPTY pieces in three forms ((nullptr,0), (valid pointer,0), empty std::string)
//                    at the start / in the middle / at the end, with default and non-default running values.
//         mode=mt    8 threads (barrier start) each hashing its own inputs over and over while the others
//                    do the same; every result is compared with the single-threaded expected value from the
//                    oracle.  Built as asan (values) and as tsan (races that happen not to corrupt a value).
//         prior-history part (default mode, --arg prior_cases=<file>): a small fixed pool of inputs (oracle values in the
//                    same case-file format, kind 7) is run through EVERY function of the property on a FRESH thread right
//                    after that thread made one (or two) unrelated earlier uses of phosg's shared helpers
//                    (vf_history.hh: string_printf of every length, long runs, join/split/fgets ladders, escapers,
//                    formatters).  hex() goes through string_printf; a helper that keeps per-thread state makes a digest
//                    rendering depend on what the thread formatted before - state a hash-only thread never reaches.
// vf::poison_errno() is called directly before every call into phosg (correct code never reads a stale errno).
#include <ctype.h>

#include <atomic>
#include <string>
#include <thread>
#include <vector>

#include "Hash.hh"
#include "common.hh"
#include "vf_history.hh"


// ---- early-call probe -------------------------------------------------------------------------------
// A namespace-scope object of the harness TU: its constructor runs during static initialization, before main() and (the
// harness object precedes libphosg.a on the link line) before libphosg's own dynamic initializers.  It calls every C10
// function once on a fixed input and only stores what came back; main() compares with the oracle's values
// (--arg early_expect=...).  No vf:: function is used here.
static const char EARLY_INPUT[] = "early call probe: The quick brown fox jumps over the lazy dog 0123456789 \x00\xff\x80 phosg";
static const size_t EARLY_LEN = sizeof(EARLY_INPUT) - 1;
static const size_t EARLY_CUT = 17;
struct EarlyProbe {
  bool ran = false, threw = false;
  std::string md5_bin, md5_hex, sha1_bin, sha1_hex, sha256_bin, sha256_hex;
  uint32_t crc = 0, crc_prefix = 0, fnv32 = 0, fnv32s = 0;
  uint64_t fnv64 = 0, fnv64s = 0;
  EarlyProbe() {
    try {
      std::string s(EARLY_INPUT, EARLY_LEN);
      phosg::MD5 m(EARLY_INPUT, EARLY_LEN);
      md5_bin = m.bin();
      md5_hex = m.hex();
      phosg::SHA1 s1(s);
      sha1_bin = s1.bin();
      sha1_hex = s1.hex();
      phosg::SHA256 s2(EARLY_INPUT, EARLY_LEN);
      sha256_bin = s2.bin();
      sha256_hex = s2.hex();
      crc = phosg::crc32(EARLY_INPUT, EARLY_LEN);
      crc_prefix = phosg::crc32(EARLY_INPUT, EARLY_CUT);  // running value computed early, chained later in main()
      fnv32 = phosg::fnv1a32(EARLY_INPUT, EARLY_LEN);
      fnv32s = phosg::fnv1a32(s);
      fnv64 = phosg::fnv1a64(EARLY_INPUT, EARLY_LEN);
      fnv64s = phosg::fnv1a64(s);
    } catch (...) {
      threw = true;
    }
    ran = true;
  }
};
static EarlyProbe g_early;

using namespace std;
using vf::fmt;

static vf::Ctx* C;

// every call into phosg goes through one of these two
#define PH(expr) (vf::poison_errno(), (expr))
#define PH_CTOR(decl) \
  vf::poison_errno(); \
  decl

struct Case {
  uint32_t id;
  uint8_t kind, fill, allsplits, nsplits;
  uint32_t len;
  const uint8_t* data;
  const uint8_t *md5, *sha1, *sha256;
  uint32_t crc, fnv32;
  uint64_t fnv64;
  uint8_t seeded_flags;  // bit0: crc_s valid, bit1: fnv*_s valid
  uint32_t seed32;
  uint64_t seed64;
  uint32_t crc_s, fnv32_s;
  uint64_t fnv64_s;
  vector<uint32_t> splits;
};

static const char* FILLS[] = {"zero", "ff", "counter", "prng"};

static string lower(string s) {
  for (auto& ch : s) ch = (char)tolower((unsigned char)ch);
  return s;
}

// witness class of a length: which padding path and how many blocks
static string lenclass(size_t n) {
  return fmt("%s:%s", (n % 64) <= 55 ? "pad-in-block" : "pad-extra-block", n < 64 ? "single" : "multi");
}

static string describe(const Case& k) {
  string d = fmt("case=%u kind=%s fill=%s len=%u", k.id, k.kind == 1 ? "random" : k.kind == 3 ? "concurrency-set" : k.kind == 4 ? "length-ladder" : k.kind == 5 ? "dense-length-sweep" : k.kind == 6 ? "digest-shape-directed" : k.kind == 7 ? "prior-history-pool" : "enumerated-length", FILLS[k.fill & 3], k.len);
  if (k.len <= 80) d += " data=" + vf::hex(k.data, k.len);
  else d += " data[0..32)=" + vf::hex(k.data, 32) + "... (regenerate: vf/oracles/c10.py)";
  return d;
}

template <typename H>
static void check_digest(const char* name, const Case& k, const uint8_t* p, const string& s, const uint8_t* expect, size_t dlen) {
  string want_bin((const char*)expect, dlen);
  string want_hex = vf::hex(expect, dlen);
  string lc = lenclass(k.len);
  C->crumb_n(name, k.id, k.len, k.fill, 0);
  PH_CTOR(H h1(p, k.len));
  C->evaluations++;
  string b = PH(h1.bin()), x = PH(h1.hex());
  if (b != want_bin)
    C->violation(fmt("%s:bin:%s", name, lc.c_str()), fmt("%s(ptr,size).bin() differs from hashlib", name),
        describe(k) + " got=" + vf::hex(b) + " expected=" + want_hex);
  if (lower(x) != want_hex)
    C->violation(fmt("%s:hex:%s", name, lc.c_str()), fmt("%s(ptr,size).hex() differs from hashlib hexdigest (case-insensitive)", name),
        describe(k) + " got=" + x + " expected=" + want_hex);
  C->crumb_n(name, k.id, k.len, k.fill, 1);
  PH_CTOR(H h2(s));
  C->evaluations++;
  string b2 = PH(h2.bin()), x2 = PH(h2.hex());
  if (b2 != want_bin)
    C->violation(fmt("%s:bin:string-overload:%s", name, lc.c_str()), fmt("%s(std::string).bin() differs from hashlib", name),
        describe(k) + " got=" + vf::hex(b2) + " expected=" + want_hex);
  if (lower(x2) != want_hex)
    C->violation(fmt("%s:hex:string-overload:%s", name, lc.c_str()), fmt("%s(std::string).hex() differs from hashlib hexdigest", name),
        describe(k) + " got=" + x2 + " expected=" + want_hex);
}

static void check_split(const Case& k, const uint8_t* p, size_t cut, const char* how) {
  size_t n = k.len;
  const uint8_t* q = p + cut;
  string where = cut == 0 ? "empty-prefix" : cut == n ? "empty-suffix" : "inner";
  C->crumb_n("split", k.id, n, cut);
  C->evaluations += 3;
  uint32_t c = PH(phosg::crc32(q, n - cut, PH(phosg::crc32(p, cut))));
  if (c != k.crc)
    C->violation(fmt("crc32:chain:%s", where.c_str()), "crc32(b, crc32(a)) differs from zlib.crc32(a+b)",
        describe(k) + fmt(" cut=%zu got=%08x expected=%08x", cut, c, k.crc));
  uint32_t f32 = PH(phosg::fnv1a32(q, n - cut, PH(phosg::fnv1a32(p, cut))));
  if (f32 != k.fnv32)
    C->violation(fmt("fnv1a32:chain:%s", where.c_str()), "fnv1a32(b, fnv1a32(a)) differs from the FNV-1a recurrence over a+b",
        describe(k) + fmt(" cut=%zu got=%08x expected=%08x", cut, f32, k.fnv32));
  uint64_t f64 = PH(phosg::fnv1a64(q, n - cut, PH(phosg::fnv1a64(p, cut))));
  if (f64 != k.fnv64)
    C->violation(fmt("fnv1a64:chain:%s", where.c_str()), "fnv1a64(b, fnv1a64(a)) differs from the FNV-1a recurrence over a+b",
        describe(k) + fmt(" cut=%zu got=%016" PRIx64 " expected=%016" PRIx64, cut, f64, k.fnv64));
  if (n <= 300 || cut == 0 || cut == n) {
    // std::string overloads of the seeded FNV forms
    string a((const char*)p, cut), b((const char*)q, n - cut);
    C->evaluations += 2;
    uint32_t g32 = PH(phosg::fnv1a32(b, PH(phosg::fnv1a32(a))));
    uint64_t g64 = PH(phosg::fnv1a64(b, PH(phosg::fnv1a64(a))));
    if (g32 != k.fnv32)
      C->violation(fmt("fnv1a32:chain:string-overload:%s", where.c_str()), "fnv1a32(string b, fnv1a32(string a)) differs from the recurrence over a+b",
          describe(k) + fmt(" cut=%zu got=%08x expected=%08x", cut, g32, k.fnv32));
    if (g64 != k.fnv64)
      C->violation(fmt("fnv1a64:chain:string-overload:%s", where.c_str()), "fnv1a64(string b, fnv1a64(string a)) differs from the recurrence over a+b",
          describe(k) + fmt(" cut=%zu got=%016" PRIx64 " expected=%016" PRIx64, cut, g64, k.fnv64));
  }
  C->cls(fmt("chain:%s:%s:%s", how, where.c_str(), n <= 300 ? "len<=300" : n < 65536 ? "len<64K" : "len>=64K"));
}

// ---- chains with an EMPTY piece ---------------------------------------------------------------------
// pieces: prefix = [p, p+cut), suffix = [p+cut, p+n), and one empty piece E inserted at the start, between the
// two, or at the end.  E is given as (nullptr, 0), as (pointer just past a 1-byte heap block, 0) or as an empty
// std::string (FNV only - crc32 has no string overload).  The chain starts from the default running value or
// from the case's non-default one; the result must be the oracle's value for the concatenation = the whole input.
enum EmptyForm { E_NULL = 0, E_VALID = 1, E_STRING = 2 };
static const char* EFORM[] = {"nullptr", "valid-pointer", "empty-string"};
static const char* EPOS[] = {"start", "middle", "end"};
static uint8_t* g_one_byte_block;  // heap block of 1 byte; +1 is a valid zero-length range at its very end

template <typename T, typename FP, typename FS>
static T chain_with_empty(FP fptr, FS fstr, const uint8_t* p, size_t cut, size_t n, int pos, int form, bool have_start, T start) {
  static const string empty_string;
  auto piece_empty = [&](bool first, T run) -> T {
    const void* ep = form == E_NULL ? nullptr : (const void*)(g_one_byte_block + 1);
    if (form == E_STRING) return first && !have_start ? PH(fstr(empty_string)) : PH(fstr(empty_string, run));
    return first && !have_start ? PH(fptr(ep, 0)) : PH(fptr(ep, 0, run));
  };
  auto piece = [&](const uint8_t* d, size_t len, bool first, T run) -> T {
    return first && !have_start ? PH(fptr(d, len)) : PH(fptr(d, len, run));
  };
  T run = start;
  bool first = true;
  if (pos == 0) { run = piece_empty(first, run); first = false; }
  run = piece(p, cut, first, run);
  first = false;
  if (pos == 1) run = piece_empty(false, run);
  run = piece(p + cut, n - cut, false, run);
  if (pos == 2) run = piece_empty(false, run);
  return run;
}

// Overload sets of the three seeded functions, spelled out so that default arguments are really used.
struct Crc {
  uint32_t operator()(const void* d, size_t n) const { return phosg::crc32(d, n); }
  uint32_t operator()(const void* d, size_t n, uint32_t s) const { return phosg::crc32(d, n, s); }
};
struct CrcStr {  // no std::string overload exists: an "empty string" piece is passed as (data(), size())
  uint32_t operator()(const string& s) const { return phosg::crc32(s.data(), s.size()); }
  uint32_t operator()(const string& s, uint32_t r) const { return phosg::crc32(s.data(), s.size(), r); }
};
struct F32 {
  uint32_t operator()(const void* d, size_t n) const { return phosg::fnv1a32(d, n); }
  uint32_t operator()(const void* d, size_t n, uint32_t s) const { return phosg::fnv1a32(d, n, s); }
};
struct F32Str {
  uint32_t operator()(const string& s) const { return phosg::fnv1a32(s); }
  uint32_t operator()(const string& s, uint32_t r) const { return phosg::fnv1a32(s, r); }
};
struct F64 {
  uint64_t operator()(const void* d, size_t n) const { return phosg::fnv1a64(d, n); }
  uint64_t operator()(const void* d, size_t n, uint64_t s) const { return phosg::fnv1a64(d, n, s); }
};
struct F64Str {
  uint64_t operator()(const string& s) const { return phosg::fnv1a64(s); }
  uint64_t operator()(const string& s, uint64_t r) const { return phosg::fnv1a64(s, r); }
};

static void check_empty_pieces(const Case& k, const uint8_t* p, size_t cut) {
  size_t n = k.len;
  for (int seeded = 0; seeded < 2; seeded++) {
    if (seeded && !(k.seeded_flags & 1)) continue;
    bool fnv_ok = !seeded || (k.seeded_flags & 2);
    uint32_t want_crc = seeded ? k.crc_s : k.crc, want32 = seeded ? k.fnv32_s : k.fnv32;
    uint64_t want64 = seeded ? k.fnv64_s : k.fnv64;
    const char* sd = seeded ? "running-value" : "default-start";
    for (int pos = 0; pos < 3; pos++)
      for (int form = 0; form < 3; form++) {
        C->crumb_n("empty-piece", k.id, n, cut, (uint64_t)pos, (uint64_t)form, (uint64_t)seeded);
        string tail = fmt("%s:%s:%s", EFORM[form], EPOS[pos], sd);
        string what = fmt(" cut=%zu empty piece passed as %s at the %s of the chain, chain started from %s", cut, EFORM[form], EPOS[pos],
            seeded ? fmt("running value %08x / %016" PRIx64, k.seed32, k.seed64).c_str() : "the default start value");
        C->evaluations++;
        uint32_t c = chain_with_empty<uint32_t>(Crc(), CrcStr(), p, cut, n, pos, form, seeded, k.seed32);
        if (c != want_crc)
          C->violation("crc32:chain:empty-piece:" + tail, "crc32 chained over pieces one of which is empty differs from zlib.crc32 of the concatenation",
              describe(k) + what + fmt(" got=%08x expected=%08x", c, want_crc));
        if (fnv_ok) {
          C->evaluations += 2;
          uint32_t f = chain_with_empty<uint32_t>(F32(), F32Str(), p, cut, n, pos, form, seeded, k.seed32);
          if (f != want32)
            C->violation("fnv1a32:chain:empty-piece:" + tail, "fnv1a32 chained over pieces one of which is empty differs from the recurrence over the concatenation",
                describe(k) + what + fmt(" got=%08x expected=%08x", f, want32));
          uint64_t g = chain_with_empty<uint64_t>(F64(), F64Str(), p, cut, n, pos, form, seeded, k.seed64);
          if (g != want64)
            C->violation("fnv1a64:chain:empty-piece:" + tail, "fnv1a64 chained over pieces one of which is empty differs from the recurrence over the concatenation",
                describe(k) + what + fmt(" got=%016" PRIx64 " expected=%016" PRIx64, g, want64));
        }
        C->cls(fmt("chain:empty-piece:%s", tail.c_str()));
      }
  }
}

static void check_seeded_values(const Case& k, const uint8_t* p, const string& s) {
  size_t n = k.len;
  if (!(k.seeded_flags & 1)) return;
  C->crumb_n("seeded", k.id, n, k.seed32, k.seed64);
  C->evaluations++;
  uint32_t c = PH(phosg::crc32(p, n, k.seed32));
  if (c != k.crc_s)
    C->violation("crc32:value:running-value", "crc32(x, running value) differs from zlib.crc32(x, running value)",
        describe(k) + fmt(" running=%08x got=%08x expected=%08x", k.seed32, c, k.crc_s));
  if (k.seeded_flags & 2) {
    C->evaluations += 4;
    uint32_t f1 = PH(phosg::fnv1a32(p, n, k.seed32)), f2 = PH(phosg::fnv1a32(s, k.seed32));
    uint64_t g1 = PH(phosg::fnv1a64(p, n, k.seed64)), g2 = PH(phosg::fnv1a64(s, k.seed64));
    if (f1 != k.fnv32_s) C->violation("fnv1a32:value:running-value", "fnv1a32(ptr,size,h) differs from the recurrence started at h", describe(k) + fmt(" h=%08x got=%08x expected=%08x", k.seed32, f1, k.fnv32_s));
    if (f2 != k.fnv32_s) C->violation("fnv1a32:value:running-value:string-overload", "fnv1a32(string,h) differs from the recurrence started at h", describe(k) + fmt(" h=%08x got=%08x expected=%08x", k.seed32, f2, k.fnv32_s));
    if (g1 != k.fnv64_s) C->violation("fnv1a64:value:running-value", "fnv1a64(ptr,size,h) differs from the recurrence started at h", describe(k) + fmt(" h=%016" PRIx64 " got=%016" PRIx64 " expected=%016" PRIx64, k.seed64, g1, k.fnv64_s));
    if (g2 != k.fnv64_s) C->violation("fnv1a64:value:running-value:string-overload", "fnv1a64(string,h) differs from the recurrence started at h", describe(k) + fmt(" h=%016" PRIx64 " got=%016" PRIx64 " expected=%016" PRIx64, k.seed64, g2, k.fnv64_s));
  }
  C->cls(fmt("seeded:value:%s", k.seed32 == 0 ? "seed0" : k.seed32 == 0xFFFFFFFFu ? "seed-all-ones" : "seed-other"));
}

// ---- alignment sweep ----------------------------------------------------------------------------------
// The same bytes at every misalignment 0..15 of a 16-byte aligned block, (a) flush against the END of an exact-size block
// (ASan sees any read past the range) and (b) with 16 spare bytes after the range (a function that reads or returns more
// than `size` bytes shows up in the value).  Every (ptr,size) entry point must give the oracle's value at every offset.
static void check_alignment(const Case& k, bool all_offsets) {
  size_t n = k.len;
  static const size_t some[] = {1, 3, 7, 8, 9, 15};
  size_t noff = all_offsets ? 16 : sizeof(some) / sizeof(some[0]);
  for (size_t oi = 0; oi < noff; oi++) {
    size_t off = all_offsets ? oi : some[oi];
    for (int slack = 0; slack < (all_offsets ? 2 : 1); slack++) {
      size_t total = off + n + (slack ? 16 : 0);
      void* blk = nullptr;
      if (posix_memalign(&blk, 16, total ? total : 1) != 0) {
        fprintf(stderr, "[harness-error] posix_memalign\n");
        exit(3);
      }
      uint8_t* p = (uint8_t*)blk + off;
      if (slack) memset(blk, 0xA5, total);
      if (n) memcpy(p, k.data, n);
      C->crumb_n("alignment", k.id, n, off, (uint64_t)slack);
      C->evaluations += 6;
      string tag = fmt("offset%%16=%zu %s", off, slack ? "16 spare bytes after the range" : "range ends at the end of the heap block");
      {
        PH_CTOR(phosg::MD5 h(p, n));
        string b = PH(h.bin());
        if (b != string((const char*)k.md5, 16)) C->violation("md5:alignment", "MD5(ptr,size) depends on the alignment of ptr", describe(k) + " " + tag + " got=" + vf::hex(b));
      }
      {
        PH_CTOR(phosg::SHA1 h(p, n));
        string b = PH(h.bin());
        if (b != string((const char*)k.sha1, 20)) C->violation("sha1:alignment", "SHA1(ptr,size) depends on the alignment of ptr", describe(k) + " " + tag + " got=" + vf::hex(b));
      }
      {
        PH_CTOR(phosg::SHA256 h(p, n));
        string b = PH(h.bin());
        if (b != string((const char*)k.sha256, 32)) C->violation("sha256:alignment", "SHA256(ptr,size) depends on the alignment of ptr", describe(k) + " " + tag + " got=" + vf::hex(b));
      }
      uint32_t c = PH(phosg::crc32(p, n));
      if (c != k.crc) C->violation("crc32:alignment", "crc32(ptr,size) depends on the alignment of ptr", describe(k) + " " + tag + fmt(" got=%08x expected=%08x", c, k.crc));
      uint32_t f = PH(phosg::fnv1a32(p, n));
      if (f != k.fnv32) C->violation("fnv1a32:alignment", "fnv1a32(ptr,size) depends on the alignment of ptr", describe(k) + " " + tag + fmt(" got=%08x expected=%08x", f, k.fnv32));
      uint64_t g = PH(phosg::fnv1a64(p, n));
      if (g != k.fnv64) C->violation("fnv1a64:alignment", "fnv1a64(ptr,size) depends on the alignment of ptr", describe(k) + " " + tag + fmt(" got=%016" PRIx64 " expected=%016" PRIx64, g, k.fnv64));
      free(blk);
      C->cls(fmt("alignment:offset%zu:%s:%s", off, slack ? "inside-block" : "flush-at-end", n <= 80 ? "len<=80" : "large"));
    }
  }
}

static const char* digest_shape(const uint8_t* d, size_t n) {
  bool text = true, letters = true, quote = false;
  for (size_t i = 0; i < n; i++) {
    uint8_t b = d[i];
    if (!((b >= 0x20 && b <= 0x7E) || b == 9 || b == 10 || b == 13)) text = false;
    if (!((b >= 'a' && b <= 'z') || (b >= 'A' && b <= 'Z'))) letters = false;
    if (b == '"' || b == '\'' || b == '\\') quote = true;
  }
  return letters ? "all-letters" : text ? (quote ? "all-text-with-quote-or-backslash" : "all-text") : quote ? "has-quote-or-backslash" : "other";
}

// compare what the static initializer stored with the oracle's values
static void check_early() {
  string want_in = C->arg("early_input"), blob = C->arg("early_expect");
  if (want_in.empty() && blob.empty()) return;
  if (want_in != vf::hex(EARLY_INPUT, EARLY_LEN) || C->arg("early_cut") != fmt("%zu", EARLY_CUT) || blob.size() != 2 * (16 + 20 + 32 + 4 + 4 + 8 + 4)) {
    fprintf(stderr, "[harness-error] early probe input of the harness and of vf/oracles/c10.py differ\n");
    exit(3);
  }
  vector<uint8_t> e(blob.size() / 2);
  for (size_t i = 0; i < e.size(); i++) e[i] = (uint8_t)strtoul(blob.substr(2 * i, 2).c_str(), nullptr, 16);
  uint32_t crc, fnv32, crc_prefix;
  uint64_t fnv64;
  memcpy(&crc, &e[68], 4);
  memcpy(&fnv32, &e[72], 4);
  memcpy(&fnv64, &e[76], 8);
  memcpy(&crc_prefix, &e[84], 4);
  const EarlyProbe& g = g_early;
  string kase = "input=" + want_in + " (called from a static initializer of the harness translation unit, before main())";
  C->evaluations += 12;
  if (!g.ran || g.threw) C->violation("early-call:threw", "a C10 function threw when called during static initialization", kase);
  auto dg = [&](const char* name, const string& bin, const string& hex, const uint8_t* want, size_t n) {
    if (bin != string((const char*)want, n)) C->violation(fmt("early-call:%s:bin", name), fmt("%s().bin() computed during static initialization differs from hashlib", name), kase + " got=" + vf::hex(bin) + " expected=" + vf::hex(want, n));
    if (lower(hex) != vf::hex(want, n)) C->violation(fmt("early-call:%s:hex", name), fmt("%s().hex() computed during static initialization differs from hashlib", name), kase + " got=" + hex + " expected=" + vf::hex(want, n));
  };
  dg("md5", g.md5_bin, g.md5_hex, &e[0], 16);
  dg("sha1", g.sha1_bin, g.sha1_hex, &e[16], 20);
  dg("sha256", g.sha256_bin, g.sha256_hex, &e[36], 32);
  if (g.crc != crc) C->violation("early-call:crc32:value", "crc32 computed during static initialization differs from zlib.crc32", kase + fmt(" got=%08x expected=%08x", g.crc, crc));
  if (g.crc_prefix != crc_prefix) C->violation("early-call:crc32:prefix-value", "crc32 of a prefix computed during static initialization differs from zlib.crc32", kase + fmt(" cut=%zu got=%08x expected=%08x", EARLY_CUT, g.crc_prefix, crc_prefix));
  uint32_t chained = PH(phosg::crc32(EARLY_INPUT + EARLY_CUT, EARLY_LEN - EARLY_CUT, g.crc_prefix));
  if (chained != crc) C->violation("early-call:crc32:chained-later", "running CRC computed during static initialization and continued in main() differs from zlib.crc32 of the whole", kase + fmt(" cut=%zu early=%08x got=%08x expected=%08x", EARLY_CUT, g.crc_prefix, chained, crc));
  if (g.fnv32 != fnv32 || g.fnv32s != fnv32) C->violation("early-call:fnv1a32:value", "fnv1a32 computed during static initialization differs from the recurrence", kase + fmt(" got=%08x/%08x expected=%08x", g.fnv32, g.fnv32s, fnv32));
  if (g.fnv64 != fnv64 || g.fnv64s != fnv64) C->violation("early-call:fnv1a64:value", "fnv1a64 computed during static initialization differs from the recurrence", kase + fmt(" got=%016" PRIx64 " expected=%016" PRIx64, g.fnv64, fnv64));
  C->cls("early-call:all-functions-before-main");
}

static void run_case(const Case& k) {
  size_t n = k.len;
  // exact-size block, data placed at offset id%4 so the end of the input is the end of the allocation
  size_t off = k.id & 3;
  uint8_t* blk = (uint8_t*)malloc(off + n + (off + n == 0 ? 1 : 0));
  if (!blk) {
    fprintf(stderr, "[harness-error] malloc\n");
    exit(3);
  }
  uint8_t* p = blk + off;
  if (n) memcpy(p, k.data, n);
  string s((const char*)k.data, n);

  check_digest<phosg::MD5>("md5", k, p, s, k.md5, 16);
  check_digest<phosg::SHA1>("sha1", k, p, s, k.sha1, 20);
  check_digest<phosg::SHA256>("sha256", k, p, s, k.sha256, 32);

  string lc = n == 0 ? "empty" : n <= 300 ? "len<=300" : n < 65536 ? "len<64K" : "len>=64K";
  C->crumb_n("crc32", k.id, n, k.fill);
  C->evaluations += 2;
  uint32_t c1 = PH(phosg::crc32(p, n)), c2 = PH(phosg::crc32(p, n, 0));
  if (c1 != k.crc || c2 != k.crc)
    C->violation("crc32:value:" + lc, "crc32(x) differs from zlib.crc32(x)", describe(k) + fmt(" got=%08x/%08x expected=%08x", c1, c2, k.crc));
  C->crumb_n("fnv1a", k.id, n, k.fill);
  C->evaluations += 4;
  uint32_t f1 = PH(phosg::fnv1a32(p, n)), f2 = PH(phosg::fnv1a32(s));
  if (f1 != k.fnv32) C->violation("fnv1a32:value:" + lc, "fnv1a32(ptr,size) differs from the FNV-1a recurrence", describe(k) + fmt(" got=%08x expected=%08x", f1, k.fnv32));
  if (f2 != k.fnv32) C->violation("fnv1a32:value:string-overload:" + lc, "fnv1a32(string) differs from the FNV-1a recurrence", describe(k) + fmt(" got=%08x expected=%08x", f2, k.fnv32));
  uint64_t g1 = PH(phosg::fnv1a64(p, n)), g2 = PH(phosg::fnv1a64(s));
  if (g1 != k.fnv64) C->violation("fnv1a64:value:" + lc, "fnv1a64(ptr,size) differs from the FNV-1a recurrence", describe(k) + fmt(" got=%016" PRIx64 " expected=%016" PRIx64, g1, k.fnv64));
  if (g2 != k.fnv64) C->violation("fnv1a64:value:string-overload:" + lc, "fnv1a64(string) differs from the FNV-1a recurrence", describe(k) + fmt(" got=%016" PRIx64 " expected=%016" PRIx64, g2, k.fnv64));
  check_seeded_values(k, p, s);

  if (k.allsplits) {
    for (size_t cut = 0; cut <= n; cut++) check_split(k, p, cut, "every-split");
    C->count("inputs_with_every_split_checked");
    // empty pieces: every cut for one fill per length (rotating), three cuts for the others
    if ((n & 3) == (k.fill & 3)) {
      for (size_t cut = 0; cut <= n; cut++) check_empty_pieces(k, p, cut);
      C->count("inputs_with_empty_pieces_at_every_split");
    } else {
      check_empty_pieces(k, p, 0);
      if (n) check_empty_pieces(k, p, n);
      if (n > 1) check_empty_pieces(k, p, n / 2);
    }
  }
  bool did_empty = false;
  for (uint32_t cut : k.splits)
    if (cut <= n) {
      check_split(k, p, cut, "sampled-split");
      if (!did_empty && cut > 0 && cut < n) {
        check_empty_pieces(k, p, cut);
        did_empty = true;
      }
    }

  if (k.kind == 0 && n <= 80) check_alignment(k, true);
  if (k.kind == 4 && n <= 66000) check_alignment(k, false);
  if (k.kind == 5) {
    size_t r64 = n % 64;
    C->cls((r64 == 0 || r64 == 55 || r64 == 56 || r64 == 63) ? fmt("dense:len%%64=%zu", r64) : string("dense:len%64=other"));
  }
  if (k.kind == 6) {
    C->cls(fmt("digest-shape:md5:%s", digest_shape(k.md5, 16)));
    C->cls(fmt("digest-shape:sha1:%s", digest_shape(k.sha1, 20)));
  }

  size_t blocks = n / 64;
  C->cls(fmt("digest:mod64=%zu:%s", n % 64, blocks == 0 ? "0-full-blocks" : blocks == 1 ? "1-full-block" : blocks <= 4 ? "2-4-full-blocks" : "5+-full-blocks"));
  C->cls(fmt("input:%s:%s:align%zu", k.kind == 1 ? "random" : k.kind == 4 ? "ladder" : k.kind == 5 ? "dense" : k.kind == 6 ? "shaped" : "enumerated", FILLS[k.fill & 3], off));
  if (k.kind == 1) {
    long d = (long)((n + 32) % 64) - 32;  // distance from the nearest multiple of 64
    C->cls(fmt("random:len=64k%+ld", d));
    C->cls(fmt("random:size:%s", n < 4096 ? "<4K" : n < 65536 ? "<64K" : n < (1u << 20) ? "<1M" : "=1MiB"));
    C->count("random_input_bytes", n);
  }
  if (k.kind == 4) {
    // which boundary is this size next to?  (2^k or 3*2^k, offset -2..+2)
    const char* sc = n < 4096 ? "<4K" : n < 16384 ? "4K-16K" : n < 65536 ? "16K-64K" : n < (1u << 20) ? "64K-1M" : n == (1u << 20) ? "=1MiB" : ">1MiB";
    C->cls(fmt("ladder:size:%s", sc));
    for (long d = -2; d <= 2; d++) {
      size_t b = n - d;
      if (b && ((b & (b - 1)) == 0 || (b % 3 == 0 && ((b / 3) & (b / 3 - 1)) == 0))) C->cls(fmt("ladder:offset%+ld", d));
    }
  }
  if (C->samples.size() < 3 && (k.id % 997 == 0 || k.kind == 1))
    C->sample(fmt("len=%u fill=%s: MD5/SHA1/SHA256 bin+hex (both overloads), crc32, fnv1a32/64 = hashlib/zlib/recurrence; %s; chains with empty pieces (nullptr / valid pointer / empty string)", k.len,
        FILLS[k.fill & 3], k.allsplits ? "chaining at every split point" : "chaining at sampled split points"));
  free(blk);
}

// ---- concurrency mode -------------------------------------------------------------------------------
struct MtViolation {
  string key, what, kase;
};
struct MtResult {
  uint64_t evaluations = 0, mismatches = 0;
  vector<MtViolation> v;
  void bad(const string& key, const string& what, const string& kase) {
    mismatches++;
    if (v.size() < 20) v.push_back({key, what, kase});
  }
};

static const unsigned NTHREADS = 8;

static void mt_worker(unsigned t, const vector<Case>* cases, unsigned rounds, atomic<unsigned>* ready, atomic<bool>* go, MtResult* out) {
  // own copies of this thread's inputs in exact-size heap blocks (threads share nothing but phosg itself)
  struct Mine {
    const Case* k;
    uint8_t* blk;
    string s;
  };
  vector<Mine> mine;
  for (size_t i = t; i < cases->size(); i += NTHREADS) {
    const Case& k = (*cases)[i];
    uint8_t* blk = (uint8_t*)malloc(k.len ? k.len : 1);
    if (k.len) memcpy(blk, k.data, k.len);
    mine.push_back({&k, blk, string((const char*)k.data, k.len)});
  }
  ready->fetch_add(1);
  while (!go->load(std::memory_order_acquire)) {
  }
  for (unsigned r = 0; r < rounds; r++) {
    for (auto& m : mine) {
      const Case& k = *m.k;
      const uint8_t* p = m.blk;
      size_t n = k.len;
      auto where = [&]() { return describe(k) + fmt(" thread=%u round=%u (other threads were hashing their own inputs at the same time)", t, r); };
      out->evaluations += 9;
      {
        PH_CTOR(phosg::MD5 h(p, n));
        string b = PH(h.bin()), x = PH(h.hex());
        if (b != string((const char*)k.md5, 16) || lower(x) != vf::hex(k.md5, 16))
          out->bad("mt:md5:differs-from-single-threaded-expected", "MD5 of an unshared input differs from hashlib while other threads hash", where() + " bin=" + vf::hex(b) + " hex=" + x + " expected=" + vf::hex(k.md5, 16));
      }
      {
        PH_CTOR(phosg::SHA1 h(m.s));
        string b = PH(h.bin()), x = PH(h.hex());
        if (b != string((const char*)k.sha1, 20) || lower(x) != vf::hex(k.sha1, 20))
          out->bad("mt:sha1:differs-from-single-threaded-expected", "SHA1 of an unshared input differs from hashlib while other threads hash", where() + " bin=" + vf::hex(b) + " hex=" + x + " expected=" + vf::hex(k.sha1, 20));
      }
      {
        PH_CTOR(phosg::SHA256 h(p, n));
        string b = PH(h.bin()), x = PH(h.hex());
        if (b != string((const char*)k.sha256, 32) || lower(x) != vf::hex(k.sha256, 32))
          out->bad("mt:sha256:differs-from-single-threaded-expected", "SHA256 of an unshared input differs from hashlib while other threads hash", where() + " bin=" + vf::hex(b) + " hex=" + x + " expected=" + vf::hex(k.sha256, 32));
      }
      size_t cut = n ? (r * 7 + t) % (n + 1) : 0;
      uint32_t c = PH(phosg::crc32(p + cut, n - cut, PH(phosg::crc32(p, cut))));
      if (c != k.crc) out->bad("mt:crc32:differs-from-single-threaded-expected", "chained crc32 differs from zlib while other threads hash", where() + fmt(" cut=%zu got=%08x expected=%08x", cut, c, k.crc));
      uint32_t f = PH(phosg::fnv1a32(m.s));
      uint64_t g = PH(phosg::fnv1a64(p + cut, n - cut, PH(phosg::fnv1a64(p, cut))));
      if (f != k.fnv32) out->bad("mt:fnv1a32:differs-from-single-threaded-expected", "fnv1a32 differs from the recurrence while other threads hash", where() + fmt(" got=%08x expected=%08x", f, k.fnv32));
      if (g != k.fnv64) out->bad("mt:fnv1a64:differs-from-single-threaded-expected", "chained fnv1a64 differs from the recurrence while other threads hash", where() + fmt(" cut=%zu got=%016" PRIx64 " expected=%016" PRIx64, cut, g, k.fnv64));
    }
  }
  for (auto& m : mine) free(m.blk);
}

static void run_mt(const vector<Case>& cases) {
  bool tsan = C->arg("tsan") == "1";
  unsigned rounds = tsan ? C->qt(10u, 60u) : C->qt(150u, 1000u);
  C->crumb("mt mode: %u threads x %u rounds over %zu inputs (no per-case breadcrumb: threads share nothing with the harness)", NTHREADS, rounds, cases.size());
  atomic<unsigned> ready{0};
  atomic<bool> go{false};
  vector<MtResult> res(NTHREADS);
  vector<thread> th;
  for (unsigned t = 0; t < NTHREADS; t++) th.emplace_back(mt_worker, t, &cases, rounds, &ready, &go, &res[t]);
  while (ready.load() < NTHREADS) {
  }
  go.store(true, std::memory_order_release);
  for (auto& t : th) t.join();
  uint64_t iters = 0;
  for (auto& r : res) {
    C->evaluations += r.evaluations;
    iters += r.evaluations / 9;
    for (auto& v : r.v) C->violation(v.key, v.what, v.kase);
    if (r.mismatches > r.v.size()) C->count("mt_mismatches_not_listed", r.mismatches - r.v.size());
  }
  C->count("mt_case_iterations", iters);
  C->count("mt_threads", NTHREADS);
  for (auto& k : cases) {
    size_t n = k.len;
    size_t r64 = n % 64;
    bool edge = r64 <= 1 || (r64 >= 54 && r64 <= 57) || r64 >= 62;  // residues next to the padding / block boundaries
    C->cls(fmt("concurrent:%uthreads:digests+crc+fnv:mod64=%s:%s", NTHREADS, edge ? fmt("%zu", r64).c_str() : "other", n < 64 ? "single" : n < 4096 ? "multi" : "large"));
  }
  C->sample(fmt("%u threads x %u rounds, each thread hashing its own %zu inputs (lengths 0..130, 183..193, 247..257, 311..321, random) with MD5/SHA1/SHA256/crc32/fnv1a32/fnv1a64; every result compared with hashlib/zlib/recurrence", NTHREADS, rounds, cases.size() / NTHREADS));
}

// ---- prior-history part ------------------------------------------------------------------------------
// Expected values: the pool file written by vf/oracles/c10.py (hashlib / zlib / recurrence), same record format as the
// main case files.  Nothing here computes an expected value with phosg.  vf::fmt / vf::hex are the harness's own
// (vsnprintf into a local buffer), so between the prior and the judged calls the thread makes no other phosg call.
static string show(const string& x) {  // a rendering with every non-printable byte spelled out (a truncated buffer shows up as \x00)
  string r;
  for (unsigned char ch : x) r += (ch >= 0x20 && ch < 0x7F && ch != '\\') ? string(1, (char)ch) : fmt("\\x%02x", ch);
  return r;
}

struct PoolItem {
  Case k;
  uint8_t* blk;  // exact-size heap block
  string s;
};
static vector<PoolItem> g_pool;
static size_t g_mini_seq;

static const char* DIGEST_NAMES[3] = {"md5", "sha1", "sha256"};

template <typename H>
static void prior_digest(const char* name, const PoolItem& it, const uint8_t* expect, size_t dlen, const vf::Prior& pr, const string& hist) {
  const Case& k = it.k;
  string want_bin((const char*)expect, dlen), want_hex = vf::hex(expect, dlen);
  string fam = pr.family;
  auto bad = [&](const char* rendering, const char* overload, const string& got) {
    C->violation(fmt("%s:%s:after-prior:%s", name, rendering, fam.c_str()),
        fmt("%s.%s() on a fresh thread differs from hashlib after the thread's earlier, unrelated use of phosg helpers", name, rendering),
        hist + " | " + fmt("%s(%s).%s() ", name, overload, rendering) + describe(k) + " got=" + got + " expected=" + want_hex);
  };
  C->crumb_s(fmt("after-prior %s: %s(ptr,size) case=%u len=%u", pr.name.c_str(), name, k.id, k.len));
  {
    // (ptr,size): hex() first, then bin()
    PH_CTOR(H h(it.blk, k.len));
    string x = PH(h.hex());
    string b = PH(h.bin());
    C->evaluations += 2;
    if (lower(x) != want_hex) bad("hex", "ptr,size", show(x) + fmt(" (%zu chars)", x.size()));
    if (b != want_bin) bad("bin", "ptr,size", vf::hex(b));
  }
  C->crumb_s(fmt("after-prior %s: %s(string) case=%u len=%u", pr.name.c_str(), name, k.id, k.len));
  {
    // std::string overload: bin() first, then hex() twice (the second call sees the state the first one left)
    PH_CTOR(H h(it.s));
    string b = PH(h.bin());
    string x = PH(h.hex());
    string x2 = PH(h.hex());
    C->evaluations += 3;
    if (b != want_bin) bad("bin", "std::string", vf::hex(b));
    if (lower(x) != want_hex) bad("hex", "std::string", show(x) + fmt(" (%zu chars)", x.size()));
    if (lower(x2) != want_hex) bad("hex", "std::string, second hex() call on the same object", show(x2) + fmt(" (%zu chars)", x2.size()));
  }
}

static void prior_input(const PoolItem& it, unsigned order, const vf::Prior& pr, const string& hist) {
  const Case& k = it.k;
  const uint8_t* p = it.blk;
  size_t n = k.len;
  const char* fam = pr.family.c_str();
  // the three digests, starting with digest number `order` (which rendering is the thread's FIRST formatted hash matters)
  for (unsigned j = 0; j < 3; j++) {
    unsigned d = (order + j) % 3;
    if (d == 0) prior_digest<phosg::MD5>("md5", it, k.md5, 16, pr, hist);
    if (d == 1) prior_digest<phosg::SHA1>("sha1", it, k.sha1, 20, pr, hist);
    if (d == 2) prior_digest<phosg::SHA256>("sha256", it, k.sha256, 32, pr, hist);
  }
  string where = hist + " | " + describe(k);
  C->crumb_s(fmt("after-prior %s: crc32/fnv1a case=%u len=%u", pr.name.c_str(), k.id, k.len));
  C->evaluations += 2;
  uint32_t c1 = PH(phosg::crc32(p, n)), c2 = PH(phosg::crc32(p, n, 0));
  if (c1 != k.crc || c2 != k.crc)
    C->violation(fmt("crc32:value:after-prior:%s", fam), "crc32(x) on a fresh thread differs from zlib.crc32(x) after the thread's earlier use of phosg helpers", where + fmt(" got=%08x/%08x expected=%08x", c1, c2, k.crc));
  C->evaluations += 4;
  uint32_t f1 = PH(phosg::fnv1a32(p, n)), f2 = PH(phosg::fnv1a32(it.s));
  uint64_t g1 = PH(phosg::fnv1a64(p, n)), g2 = PH(phosg::fnv1a64(it.s));
  if (f1 != k.fnv32 || f2 != k.fnv32)
    C->violation(fmt("fnv1a32:value:after-prior:%s", fam), "fnv1a32 (ptr,size / string) on a fresh thread differs from the recurrence after the thread's earlier use of phosg helpers", where + fmt(" got=%08x/%08x expected=%08x", f1, f2, k.fnv32));
  if (g1 != k.fnv64 || g2 != k.fnv64)
    C->violation(fmt("fnv1a64:value:after-prior:%s", fam), "fnv1a64 (ptr,size / string) on a fresh thread differs from the recurrence after the thread's earlier use of phosg helpers", where + fmt(" got=%016" PRIx64 "/%016" PRIx64 " expected=%016" PRIx64, g1, g2, k.fnv64));
  if (k.seeded_flags & 1) {
    C->evaluations++;
    uint32_t c = PH(phosg::crc32(p, n, k.seed32));
    if (c != k.crc_s)
      C->violation(fmt("crc32:value:running-value:after-prior:%s", fam), "crc32(x, running value) on a fresh thread differs from zlib.crc32(x, running value) after the thread's earlier use of phosg helpers", where + fmt(" running=%08x got=%08x expected=%08x", k.seed32, c, k.crc_s));
  }
  if (k.seeded_flags & 2) {
    C->evaluations += 2;
    uint32_t f = PH(phosg::fnv1a32(it.s, k.seed32));
    uint64_t g = PH(phosg::fnv1a64(p, n, k.seed64));
    if (f != k.fnv32_s)
      C->violation(fmt("fnv1a32:value:running-value:after-prior:%s", fam), "fnv1a32(string, h) on a fresh thread differs from the recurrence started at h after the thread's earlier use of phosg helpers", where + fmt(" h=%08x got=%08x expected=%08x", k.seed32, f, k.fnv32_s));
    if (g != k.fnv64_s)
      C->violation(fmt("fnv1a64:value:running-value:after-prior:%s", fam), "fnv1a64(ptr,size,h) on a fresh thread differs from the recurrence started at h after the thread's earlier use of phosg helpers", where + fmt(" h=%016" PRIx64 " got=%016" PRIx64 " expected=%016" PRIx64, k.seed64, g, k.fnv64_s));
  }
  // chaining pairs: f(suffix, f(prefix)) == expected f(whole), at the oracle's cut points
  for (uint32_t cut : k.splits) {
    if (cut > n) continue;
    const uint8_t* q = p + cut;
    C->crumb_s(fmt("after-prior %s: chain case=%u len=%u cut=%u", pr.name.c_str(), k.id, k.len, cut));
    C->evaluations += 5;
    string a((const char*)p, cut), b((const char*)q, n - cut);
    uint32_t c = PH(phosg::crc32(q, n - cut, PH(phosg::crc32(p, cut))));
    uint32_t f = PH(phosg::fnv1a32(q, n - cut, PH(phosg::fnv1a32(p, cut))));
    uint64_t g = PH(phosg::fnv1a64(q, n - cut, PH(phosg::fnv1a64(p, cut))));
    uint32_t fs = PH(phosg::fnv1a32(b, PH(phosg::fnv1a32(a))));
    uint64_t gs = PH(phosg::fnv1a64(b, PH(phosg::fnv1a64(a))));
    if (c != k.crc)
      C->violation(fmt("crc32:chain:after-prior:%s", fam), "crc32(b, crc32(a)) on a fresh thread differs from zlib.crc32(a+b) after the thread's earlier use of phosg helpers", where + fmt(" cut=%u got=%08x expected=%08x", cut, c, k.crc));
    if (f != k.fnv32 || fs != k.fnv32)
      C->violation(fmt("fnv1a32:chain:after-prior:%s", fam), "fnv1a32(b, fnv1a32(a)) on a fresh thread differs from the recurrence over a+b after the thread's earlier use of phosg helpers", where + fmt(" cut=%u got=%08x/%08x expected=%08x", cut, f, fs, k.fnv32));
    if (g != k.fnv64 || gs != k.fnv64)
      C->violation(fmt("fnv1a64:chain:after-prior:%s", fam), "fnv1a64(b, fnv1a64(a)) on a fresh thread differs from the recurrence over a+b after the thread's earlier use of phosg helpers", where + fmt(" cut=%u got=%016" PRIx64 "/%016" PRIx64 " expected=%016" PRIx64, cut, g, gs, k.fnv64));
  }
}

static void run_prior_history() {
  if (g_pool.empty()) return;
  // the catalogue is spread over the shards (prior index % nshards == shard); every prior of this shard is used once per
  // digest order (which of MD5 / SHA1 / SHA256 is the first hash the fresh thread formats), plus two-step histories.
  size_t pairs = C->qt((size_t)2, (size_t)8);
  size_t threads = 0;
  for (unsigned order = 0; order < 3; order++) {
    threads += vf::for_each_prior(*C, [&](const vf::Prior& pr) {
      bool two = pr.name.find(" then ") != string::npos;
      string hist = "earlier on this (fresh) thread: " + pr.name + fmt("; then, digests in the order starting with %s", DIGEST_NAMES[order]);
      size_t seq = g_mini_seq++;
      for (size_t j = 0; j < 2; j++) prior_input(g_pool[(seq * 2 + j) % g_pool.size()], order, pr, hist);
      C->cls(fmt("after-prior:%s:first=%s", two ? "two-step" : pr.family.c_str(), DIGEST_NAMES[order]));
      C->count("prior_history_minis");
      if (two) C->count("prior_history_two_step_minis");
    }, C->nshards, C->shard, pairs);
  }
  C->count("prior_history_fresh_threads", threads);
  C->sample(fmt("prior-history: %zu fresh threads in this shard, each: one (or two) unrelated earlier uses of phosg helpers, then 2 of %zu pool inputs through MD5/SHA1/SHA256 hex()+bin() (both overloads), crc32, fnv1a32/64, seeded forms and chaining pairs; all vs hashlib/zlib/recurrence", threads, g_pool.size()));
}

// reads one case file; buf must outlive the cases (they point into it)
template <typename F>
static void load_cases(const string& path, vector<uint8_t>& buf, F&& each) {
  FILE* f = fopen(path.c_str(), "rb");
  if (!f) {
    fprintf(stderr, "[harness-error] cannot open %s\n", path.c_str());
    exit(3);
  }
  fseek(f, 0, SEEK_END);
  long sz = ftell(f);
  fseek(f, 0, SEEK_SET);
  buf.resize((size_t)(sz < 0 ? 0 : sz));
  if (sz < 8 || fread(buf.data(), 1, (size_t)sz, f) != (size_t)sz || memcmp(buf.data(), "C10C", 4) != 0) {
    fprintf(stderr, "[harness-error] bad case file %s\n", path.c_str());
    exit(3);
  }
  fclose(f);
  uint32_t ncases;
  memcpy(&ncases, buf.data() + 4, 4);
  size_t pos = 8;
  auto need = [&](size_t n) {
    if (pos + n > buf.size()) {
      fprintf(stderr, "[harness-error] truncated case file %s\n", path.c_str());
      exit(3);
    }
  };
  for (uint32_t i = 0; i < ncases; i++) {
    Case k;
    need(12);
    memcpy(&k.id, &buf[pos], 4);
    k.kind = buf[pos + 4];
    k.fill = buf[pos + 5];
    k.allsplits = buf[pos + 6];
    k.nsplits = buf[pos + 7];
    memcpy(&k.len, &buf[pos + 8], 4);
    pos += 12;
    need((size_t)k.len + 16 + 20 + 32 + 16 + 29 + 4 * (size_t)k.nsplits);
    k.data = &buf[pos];
    pos += k.len;
    k.md5 = &buf[pos];
    pos += 16;
    k.sha1 = &buf[pos];
    pos += 20;
    k.sha256 = &buf[pos];
    pos += 32;
    memcpy(&k.crc, &buf[pos], 4);
    memcpy(&k.fnv32, &buf[pos + 4], 4);
    memcpy(&k.fnv64, &buf[pos + 8], 8);
    pos += 16;
    k.seeded_flags = buf[pos];
    memcpy(&k.seed32, &buf[pos + 1], 4);
    memcpy(&k.seed64, &buf[pos + 5], 8);
    memcpy(&k.crc_s, &buf[pos + 13], 4);
    memcpy(&k.fnv32_s, &buf[pos + 17], 4);
    memcpy(&k.fnv64_s, &buf[pos + 21], 8);
    pos += 29;
    k.splits.resize(k.nsplits);
    if (k.nsplits) memcpy(k.splits.data(), &buf[pos], 4 * (size_t)k.nsplits);
    pos += 4 * (size_t)k.nsplits;
    each(k);
  }
  if (pos != buf.size()) {
    fprintf(stderr, "[harness-error] trailing bytes in case file %s\n", path.c_str());
    exit(3);
  }
}

int main(int argc, char** argv) {
  vf::Ctx& c = vf::init(argc, argv);
  C = &c;
  string base = c.arg("cases");
  if (base.empty()) {
    fprintf(stderr, "[harness-error] --arg cases=<prefix> missing\n");
    return 3;
  }
  bool mt = c.arg("mode") == "mt";
  g_one_byte_block = (uint8_t*)malloc(1);
  vector<uint8_t> buf;
  vector<Case> all;
  load_cases(fmt("%s.%u.bin", base.c_str(), c.shard), buf, [&](const Case& k) {
    if (mt)
      all.push_back(k);
    else
      run_case(k);
    c.count("cases");
  });
  check_early();
  if (mt) run_mt(all);
  string pool_path = c.arg("prior_cases");
  vector<uint8_t> pool_buf;
  if (!mt && !pool_path.empty()) {
    load_cases(pool_path, pool_buf, [&](const Case& k) {
      PoolItem it{k, (uint8_t*)malloc(k.len ? k.len : 1), string((const char*)k.data, k.len)};
      if (!it.blk) {
        fprintf(stderr, "[harness-error] malloc\n");
        exit(3);
      }
      if (k.len) memcpy(it.blk, k.data, k.len);
      g_pool.push_back(it);
      c.count("prior_history_pool_inputs");
    });
    run_prior_history();
    for (auto& it : g_pool) free(it.blk);
  }
  return c.finish();
}
