// C20 — integer, vector and matrix helpers satisfy their defining equations.
// Oracles: __int128 / exact integer arithmetic, divisibility laws, componentwise definitions.
#include <math.h>

#include <cmath>
#include <map>
#include <set>
#include <stdexcept>
#include <vector>

#include "Math.hh"
#include "Random.hh"
#include "Vector.hh"
#include "common.hh"

using namespace std;
using namespace phosg;
using vf::fmt;

static vf::Ctx* C;

typedef unsigned __int128 u128;

static u128 ref_gcd(u128 a, u128 b) {
  while (b) {
    u128 m = a % b;
    a = b;
    b = m;
  }
  return a;
}

template <typename T>
static void check_gcd_pair(const char* tn, uint64_t a, uint64_t b, bool all_divisors) {
  C->evaluations++;
  C->crumb_n("gcd", sizeof(T), a, b);
  T g = phosg::gcd<T>((T)a, (T)b);
  u128 rg = ref_gcd(a, b);
  string kase = fmt("gcd<%s>(%" PRIu64 ",%" PRIu64 ")=%" PRIu64, tn, a, b, (uint64_t)g);
  if ((u128)(uint64_t)g != rg) C->violation(fmt("gcd:%s:value", tn), "gcd differs from Euclid in 128-bit arithmetic", kase);
  if (g != 0) {
    if (a % (uint64_t)g || b % (uint64_t)g) C->violation(fmt("gcd:%s:not-divisor", tn), "gcd does not divide both", kase);
  } else if (a || b)
    C->violation(fmt("gcd:%s:zero", tn), "gcd is 0 for non-zero operands", kase);
  if (b == 0 && (uint64_t)g != a) C->violation(fmt("gcd:%s:gcd(a,0)", tn), "gcd(a,0)!=a", kase);
  if (all_divisors && g != 0) {
    uint64_t m = a < b ? (a ? a : b) : (b ? b : a);
    for (uint64_t d = 1; d <= m; d++)
      if (a % d == 0 && b % d == 0 && (uint64_t)g % d != 0)
        C->violation(fmt("gcd:%s:common-divisor", tn), fmt("common divisor %" PRIu64 " does not divide gcd", d), kase);
  }
  if (a || b) {
    if (b == 0 && a == 0) return;
    auto rf = phosg::reduce_fraction<T>((T)a, (T)b);
    uint64_t p = (uint64_t)rf.first, q = (uint64_t)rf.second;
    string k2 = fmt("reduce_fraction<%s>(%" PRIu64 ",%" PRIu64 ")=(%" PRIu64 ",%" PRIu64 ")", tn, a, b, p, q);
    if (ref_gcd(p, q) != 1) C->violation(fmt("reduce_fraction:%s:not-coprime", tn), "terms not coprime", k2);
    if ((u128)p * b != (u128)q * a) C->violation(fmt("reduce_fraction:%s:ratio", tn), "ratio changed", k2);
  }
  C->cls(fmt("gcd:%s:%s", tn, a == 0 ? "a0" : b == 0 ? "b0" : a == b ? "eq" : rg == 1 ? "coprime" : (rg == a || rg == b) ? "divides" : "proper"));
}

template <typename T>
static void gcd_suite(const char* tn, vf::Rng& r) {
  uint64_t maxv = (uint64_t)std::numeric_limits<T>::max();
  uint64_t lim = maxv < 300 ? maxv : 300;
  for (uint64_t a = 0; a <= lim; a++)
    for (uint64_t b = 0; b <= lim; b++) check_gcd_pair<T>(tn, a, b, true);
  // boundary values of the width
  vector<uint64_t> bv = {0, 1, 2, 3, maxv, maxv - 1, maxv / 2, maxv / 2 + 1, maxv / 3, (maxv >> 1) + 1};
  for (int k = 1; k < 64; k++) {
    uint64_t p = 1ULL << k;
    if (p - 1 <= maxv) bv.push_back(p - 1);
    if (p <= maxv) bv.push_back(p);
    if (p + 1 <= maxv && p + 1 > p) bv.push_back(p + 1);
  }
  for (uint64_t a : bv)
    for (uint64_t b : bv) check_gcd_pair<T>(tn, a, b, false);
  uint64_t n = C->qt<uint64_t>(20000, 2000000) / C->nshards + 1;
  for (uint64_t i = 0; i < n; i++) {
    uint64_t a = r.interesting() & maxv, b = r.interesting() & maxv;
    if (r.chance(1, 3)) {  // force a shared factor
      uint64_t f = r.below(1000) + 1;
      a = (a / f) * f;
      b = (b / f) * f;
    }
    check_gcd_pair<T>(tn, a, b, false);
  }
}

template <typename T>
static void log2_one(const char* tn, uint64_t v) {
  C->evaluations++;
  C->crumb_n("log2i", sizeof(T), v);
  int ref = -1;
  for (uint64_t x = v; x; x >>= 1) ref++;
  T got = phosg::log2i<T>((T)v);
  if ((int64_t)got != ref)
    C->violation(fmt("log2i:%s", tn), "log2i != floor(log2 v)", fmt("log2i<%s>(%" PRIu64 ")=%" PRId64 " expected %d", tn, v, (int64_t)got, ref));
  C->cls(fmt("log2i:%s:bit%d", tn, ref));
}

template <typename T>
static void log2_suite(const char* tn, vf::Rng& r) {
  uint64_t maxv = (uint64_t)std::numeric_limits<T>::max();
  for (int k = 0; k < 64; k++) {
    uint64_t p = 1ULL << k;
    if (p > maxv) break;
    if (p - 1 >= 1) log2_one<T>(tn, p - 1);
    log2_one<T>(tn, p);
    if (p + 1 <= maxv) log2_one<T>(tn, p + 1);
  }
  log2_one<T>(tn, maxv);
  if (maxv <= 0xFFFF) {
    for (uint64_t v = 1; v <= maxv; v++) log2_one<T>(tn, v);
  } else {
    uint64_t n = C->qt<uint64_t>(50000, 1000000) / C->nshards + 1;
    for (uint64_t i = 0; i < n; i++) {
      uint64_t v = (r.chance(1, 2) ? r.next() >> r.below(64) : r.interesting()) & maxv;
      if (v) log2_one<T>(tn, v);
    }
  }
}

static void random_int_suite(vf::Rng& r) {
  uint64_t n = C->qt<uint64_t>(100000, 3000000) / C->nshards + 1;
  static const uint64_t spans[] = {0, 1, 2, 3, 254, 255, 256, 257, 65534, 65535, 65536, 65537, 0xFFFFFFFEULL, 0xFFFFFFFFULL,
      0x100000000ULL, 0x100000001ULL, 0x7FFFFFFFFFFFFFFEULL, 0x7FFFFFFFFFFFFFFDULL, 0x4000000000000000ULL};
  for (uint64_t i = 0; i < n; i++) {
    uint64_t span = r.chance(2, 3) ? spans[r.below(sizeof(spans) / sizeof(spans[0]))] : (r.next() >> (1 + r.below(63)));
    if (span > 0x7FFFFFFFFFFFFFFEULL) span = 0x7FFFFFFFFFFFFFFEULL;
    // choose lo so that hi=lo+span fits in int64
    int64_t lo_min = INT64_MIN, lo_max = (int64_t)(INT64_MAX - span);
    int64_t lo;
    switch (r.below(5)) {
      case 0: lo = lo_min; break;
      case 1: lo = lo_max; break;
      case 2: lo = (lo_max >= 0 && lo_min <= 0) ? 0 : lo_max; break;
      case 3: lo = (lo_max >= -(int64_t)(span / 2)) ? -(int64_t)(span / 2) : lo_max; break;
      default: {
        uint64_t w = (uint64_t)lo_max - (uint64_t)lo_min + 1;
        lo = (int64_t)((uint64_t)lo_min + (w ? r.next() % w : r.next()));
        break;
      }
    }
    if (lo > lo_max) lo = lo_max;
    int64_t hi = (int64_t)((uint64_t)lo + span);
    C->crumb_n("random_int", (uint64_t)lo, (uint64_t)hi);
    int64_t v = phosg::random_int(lo, hi);
    C->evaluations++;
    if (v < lo || v > hi)
      C->violation("random_int:out-of-range", "random_int(lo,hi) outside [lo,hi]", fmt("random_int(%" PRId64 ",%" PRId64 ")=%" PRId64, lo, hi, v));
    C->cls(fmt("random_int:span%s:%s", span == 0 ? "0" : span <= 0xFF ? "<=8bit" : span <= 0xFFFF ? "<=16bit" : span <= 0xFFFFFFFFULL ? "<=32bit" : "<=63bit",
        lo < 0 ? (hi < 0 ? "neg" : "straddle") : "nonneg"));
  }
  // hit-both-ends monitor on tiny ranges (a generator that can never return hi or lo is wrong)
  for (int span = 1; span <= 6; span++) {
    for (int64_t lo : {-3LL, 0LL, 1000000LL, (long long)(INT64_MAX - 6), (long long)INT64_MIN}) {
      int64_t hi = lo + span;
      set<int64_t> seen;
      for (int i = 0; i < 400; i++) {
        int64_t v = phosg::random_int(lo, hi);
        C->evaluations++;
        if (v < lo || v > hi) C->violation("random_int:out-of-range", "outside [lo,hi]", fmt("random_int(%" PRId64 ",%" PRId64 ")=%" PRId64, lo, hi, v));
        seen.insert(v);
      }
      // P(miss a given value in 400 draws) <= (6/7)^400 ~ 1e-27
      if (seen.size() != (size_t)span + 1)
        C->violation("random_int:range-not-covered", "some value of a tiny range never produced in 400 draws", fmt("random_int(%" PRId64 ",%" PRId64 ") produced %zu of %d values", lo, hi, seen.size(), span + 1));
      C->cls("random_int:tiny-range-cover");
    }
  }
}

#include <signal.h>
#include <sys/time.h>
static volatile sig_atomic_t g_alarm_count = 0;
static void on_alarm(int) { g_alarm_count = g_alarm_count + 1; }

// Large requests while signals keep arriving (handler installed WITH SA_RESTART, so a correct implementation never
// sees EINTR; the kernel may still return short counts from big reads of /dev/urandom when a signal is pending).
// Every requested byte must have been written: no run of >= 16 consecutive bytes may keep the fill pattern
// (false-alarm probability < 2^-120 per run).
static void random_data_signal_suite(vf::Rng& r) {
  if (C->shard >= 2) return;
  struct sigaction sa, old;
  memset(&sa, 0, sizeof(sa));
  sa.sa_handler = on_alarm;
  sa.sa_flags = SA_RESTART;
  sigaction(SIGALRM, &sa, &old);
  struct itimerval it = {{0, 400}, {0, 400}}, off = {{0, 0}, {0, 0}};
  size_t sizes[] = {1u << 20, (8u << 20) + 4096 * 3 + 17, 32u << 20};
  for (size_t n : sizes) {
    for (int rep = 0; rep < 2; rep++) {
      size_t pad = 64;
      uint8_t* buf = (uint8_t*)malloc(n + 2 * pad);
      uint8_t pat = rep ? 0x5A : 0xA5;
      memset(buf, pat, n + 2 * pad);
      C->crumb_n("random_data_signals", n, rep);
      // leave a partially consumed cache behind first (history), then the big request
      uint8_t small[100];
      phosg::random_data(small, 1 + r.below(99));
      setitimer(ITIMER_REAL, &it, nullptr);
      bool threw = false;
      try {
        phosg::random_data(buf + pad, n);
      } catch (const std::exception& e) {
        threw = true;
        C->count("random_data_signal_storm_exceptions");
      }
      setitimer(ITIMER_REAL, &off, nullptr);
      C->evaluations++;
      if (!threw) {
        size_t run = 0, worst = 0, worst_at = 0;
        for (size_t i = 0; i < n; i++) {
          if (buf[pad + i] == pat) { run++; if (run > worst) { worst = run; worst_at = i + 1 - run; } } else run = 0;
        }
        if (worst >= 16) C->violation("random_data:unfilled-under-signals", fmt("%zu consecutive requested bytes were never written (from offset %zu)", worst, worst_at), fmt("random_data(%zu) while SIGALRM fires every 400us", n));
        for (size_t i = 0; i < pad; i++) if (buf[i] != pat || buf[pad + n + i] != pat) { C->violation("random_data:canary", "byte outside [p,p+n) modified", fmt("n=%zu under signals", n)); break; }
      }
      C->cls(fmt("random_data:signal-storm:%s", n <= (1u << 20) ? "1MiB" : n < (32u << 20) ? "8MiB" : "32MiB"));
      free(buf);
    }
  }
  sigaction(SIGALRM, &old, nullptr);
  C->count("random_data_signals_delivered", (uint64_t)g_alarm_count);
}

static void random_data_suite(vf::Rng& r) {
  vector<size_t> sizes;
  for (size_t n = 0; n <= 40; n++) sizes.push_back(n);
  for (size_t n : {255, 256, 257, 4000, 4095, 4096, 4097, 8191, 8192, 8193, 9000}) sizes.push_back(n);
  size_t extra = C->qt<size_t>(100, 3000) / C->nshards + 1;
  for (size_t i = 0; i < extra; i++) sizes.push_back(r.below(9001));
  for (size_t n : sizes) {
    C->crumb_n("random_data", n);
    // exact-size heap block (ASan red zones) inside canaries
    size_t pad = 32;
    uint8_t* blk = (uint8_t*)malloc(n + 2 * pad);
    memset(blk, 0xC5, n + 2 * pad);
    uint8_t* exact = (uint8_t*)malloc(n ? n : 1);
    vector<uint8_t> changed(n, 0);
    for (int rep = 0; rep < 8; rep++) {
      uint8_t pat = (uint8_t)(0x11 * (rep + 1));
      memset(blk + pad, pat, n);
      phosg::random_data(blk + pad, n);
      C->evaluations++;
      for (size_t i = 0; i < pad; i++)
        if (blk[i] != 0xC5 || blk[pad + n + i] != 0xC5) {
          C->violation("random_data:canary", "byte outside [p,p+n) modified", fmt("n=%zu", n));
          break;
        }
      for (size_t i = 0; i < n; i++)
        if (blk[pad + i] != pat) changed[i] = 1;
      phosg::random_data(exact, n);  // ASan monitors this one
    }
    for (size_t i = 0; i < n; i++)
      if (!changed[i]) {
        C->violation("random_data:unfilled", "a requested position was never written in 8 refills (p=256^-8 false alarm)", fmt("n=%zu index=%zu", n, i));
        break;
      }
    string s = phosg::random_data(n);
    if (s.size() != n) C->violation("random_data:string-size", "random_data(n).size()!=n", fmt("n=%zu got %zu", n, s.size()));
    free(blk);
    free(exact);
    C->cls(fmt("random_data:%s", n == 0 ? "0" : n < 4096 ? "<4096" : n == 4096 ? "4096" : n <= 8192 ? "<=8192" : ">8192"));
  }
}

// ------------------------------------------------------------------------------------------------
// Process environment at FIRST use.  random_data opens /dev/urandom lazily, on the first random_* call of the process,
// and keeps that descriptor for good; the number it gets is the lowest free one at that moment.  A process that
// already holds a thousand descriptors (a server) gets a number >= FD_SETSIZE (1024), a number no select()-style table
// can index.  The statement ("random_int always lies in [lo,hi]", "random_data fills exactly the requested bytes") does
// not depend on descriptor numbers, so each regime must satisfy the same laws with no exception escaping.
//
// Each regime runs in a forked child (the parent has not called any random_* function yet - checked through
// /proc/self/fd): raise RLIMIT_NOFILE, dup /dev/null until the lowest free number is the target, make the FIRST
// random_* call (6 kinds in rotation), run the ordinary random_int / random_data judgements, close the fillers, repeat.
// The child sends its Ctx (evaluations, classes, counters, violations) to the parent through a pipe.
#include <fcntl.h>
#include <sys/resource.h>
#include <sys/stat.h>
#include <sys/sysmacros.h>
#include <sys/wait.h>
#include <unistd.h>

#include <thread>

struct FdRegime {
  const char* name;
  int target;  // lowest free descriptor number at first use (0 = leave the process as it is, -1 = close 0..2 first)
};
static const FdRegime FD_REGIMES[] = {{"normal", 0}, {"fd1023", 1023}, {"fd1024", 1024}, {"fd1025", 1025}, {"fd4096", 4096},
    {"fd16384", 16384}, {"stdio-closed", -1}};
static const char* FIRST_KINDS[] = {"random_int-tiny", "random_int-63bit", "random_data-1", "random_data-4097", "random_data-string", "random_int-on-fresh-thread"};

static int lowest_free_fd(int nullfd) {
  int p = dup(nullfd);
  if (p >= 0) close(p);
  return p;
}
static bool is_urandom(int fd) {
  struct stat st;
  return fstat(fd, &st) == 0 && S_ISCHR(st.st_mode) && major(st.st_rdev) == 1 && minor(st.st_rdev) == 9;
}
static void pipe_put(string& buf, char kind, const string& a, const string& b = "", const string& c = "") {
  auto clean = [](string s) {
    for (char& ch : s)
      if (ch == '\n' || ch == '\x1f') ch = ' ';
    return s;
  };
  buf += kind;
  buf += '\x1f' + clean(a) + '\x1f' + clean(b) + '\x1f' + clean(c) + '\n';
}

// violation keys name the descriptor-number class only (the regime and the phase go into the case text)
static const char* fd_class(int fd) { return fd < 1024 ? "urandom-fd<1024" : "urandom-fd>=1024"; }

static void random_suites_guarded(vf::Rng& r, const char* regime, int urandom_fd, const char* phase) {
  string kase = fmt("regime=%s (/dev/urandom is descriptor %d), %s", regime, urandom_fd, phase);
  try {
    random_int_suite(r);
  } catch (const std::exception& e) {
    C->violation(fmt("random_int:threw:after-first-use:%s", fd_class(urandom_fd)), string("an exception escaped random_int: ") + e.what(), kase);
  }
  try {
    random_data_suite(r);
  } catch (const std::exception& e) {
    C->violation(fmt("random_data:threw:after-first-use:%s", fd_class(urandom_fd)), string("an exception escaped random_data: ") + e.what(), kase);
  }
}

// runs in the child; returns normally, the caller serialises the Ctx
static void fd_regime_child(const FdRegime& reg, int kind, uint64_t job) {
  vf::Rng r = C->rng(1000 + job);
  struct rlimit rl;
  getrlimit(RLIMIT_NOFILE, &rl);
  if (rl.rlim_cur < rl.rlim_max) {
    rl.rlim_cur = rl.rlim_max;
    setrlimit(RLIMIT_NOFILE, &rl);
    getrlimit(RLIMIT_NOFILE, &rl);
  }
  if (reg.target > 0 && (rlim_t)reg.target + 64 > rl.rlim_cur) {
    C->count(fmt("fd_regime_unreachable:%s(RLIMIT_NOFILE=%llu)", reg.name, (unsigned long long)rl.rlim_cur));
    return;
  }
  if (reg.target < 0) {
    // descriptors 0..2 closed before first use: /dev/urandom becomes descriptor 0.  The statement does not speak about a
    // process without standard streams (and anything written to "stderr" later lands on whatever took number 2):
    // counted, not judged.
    close(0);
    close(1);
    close(2);
    int ok = 0, threw = 0;
    for (int i = 0; i < 2000; i++) {
      try {
        int64_t v = phosg::random_int(1, 6);
        uint8_t b[5000];
        phosg::random_data(b, 1 + (i % 4999));
        ok += (v >= 1 && v <= 6);
      } catch (const std::exception&) {
        threw++;
      }
    }
    C->count("fd_regime_stdio_closed_calls_ok", ok);
    C->count("fd_regime_stdio_closed_calls_threw", threw);
    C->count(fmt("fd_regime_stdio_closed_urandom_is_fd0:%d", (int)is_urandom(0)));
    C->cls("random:fd:stdio-closed:counted-not-judged");
    return;
  }
  int nullfd = open("/dev/null", O_RDONLY);
  vector<int> fillers;
  if (reg.target > 0) {
    for (;;) {
      int fd = dup(nullfd);
      if (fd < 0) {
        C->count(fmt("fd_regime_unreachable:%s(dup failed)", reg.name));
        return;
      }
      fillers.push_back(fd);
      if (fd >= reg.target - 1) break;
    }
  }
  int predicted = lowest_free_fd(nullfd);
  if (reg.target > 0 && predicted != reg.target) {
    fprintf(stderr, "[harness-error] fd regime %s: lowest free descriptor is %d\n", reg.name, predicted);
    _exit(3);
  }
  string kase = fmt("regime=%s (lowest free descriptor %d, %zu descriptors held) first call=%s", reg.name, predicted, fillers.size() + 4, FIRST_KINDS[kind]);
  C->crumb_n("fd_regime_first_use", (uint64_t)predicted, (uint64_t)kind);
  // ---- the FIRST random_* call of this process ----
  C->evaluations++;
  try {
    switch (kind) {
      case 0: {
        int64_t v = phosg::random_int(1, 6);
        if (v < 1 || v > 6) C->violation("random_int:out-of-range", "random_int(1,6) outside [1,6] at first use", kase + fmt(" -> %" PRId64, v));
        break;
      }
      case 1: {
        int64_t lo = -0x3FFFFFFFFFFFFFFFLL, hi = 0x3FFFFFFFFFFFFFFFLL;
        int64_t v = phosg::random_int(lo, hi);
        if (v < lo || v > hi) C->violation("random_int:out-of-range", "random_int(-2^62+1,2^62-1) outside the range at first use", kase + fmt(" -> %" PRId64, v));
        break;
      }
      case 2: {
        uint8_t b[3] = {0xC5, 0x77, 0xC5};
        phosg::random_data(b + 1, 1);
        if (b[0] != 0xC5 || b[2] != 0xC5) C->violation("random_data:canary", "byte outside [p,p+n) modified", kase);
        break;
      }
      case 3: {
        const size_t n = 4097, pad = 32;
        vector<uint8_t> b(n + 2 * pad, 0xA5);
        phosg::random_data(b.data() + pad, n);
        size_t run = 0, worst = 0;
        for (size_t i = 0; i < n; i++) {
          run = b[pad + i] == 0xA5 ? run + 1 : 0;
          if (run > worst) worst = run;
        }
        if (worst >= 16) C->violation("random_data:unfilled", fmt("%zu consecutive requested bytes were never written at first use", worst), kase);
        for (size_t i = 0; i < pad; i++)
          if (b[i] != 0xA5 || b[pad + n + i] != 0xA5) {
            C->violation("random_data:canary", "byte outside [p,p+n) modified", kase);
            break;
          }
        break;
      }
      case 4: {
        string s = phosg::random_data(100);
        if (s.size() != 100) C->violation("random_data:string-size", "random_data(100).size()!=100 at first use", kase);
        else if (s == string(100, '\0')) C->violation("random_data:unfilled", "random_data(100) returned 100 zero bytes at first use (p=2^-800)", kase);
        break;
      }
      default: {
        string err;
        int64_t v = 0;
        std::thread t([&] {
          try {
            v = phosg::random_int(0, 255);
          } catch (const std::exception& e) {
            err = string("!") + e.what();
          }
        });
        t.join();
        if (!err.empty()) throw std::runtime_error(err.substr(1));
        if (v < 0 || v > 255) C->violation("random_int:out-of-range", "random_int(0,255) outside the range at first use on a fresh thread", kase);
        break;
      }
    }
  } catch (const std::exception& e) {
    C->violation(fmt("%s:threw:first-use:%s", kind == 2 || kind == 3 || kind == 4 ? "random_data" : "random_int", fd_class(predicted)),
        string("an exception escaped the first random_* call of the process: ") + e.what(), kase);
  }
  bool confirmed = predicted >= 0 && is_urandom(predicted);
  if (!confirmed) {
    fprintf(stderr, "[harness-error] fd regime %s: descriptor %d is not /dev/urandom after the first random_* call\n", reg.name, predicted);
    _exit(3);
  }
  const char* bucket = predicted < 1023 ? "<1023" : predicted == 1023 ? "1023" : predicted == 1024 ? "1024" : predicted < 4096 ? "1025..4095" : predicted < 16384 ? "4096..16383" : ">=16384";
  // ---- the ordinary judgements, with the fillers still open, then with them closed ----
  random_suites_guarded(r, reg.name, predicted, "filler descriptors still open");
  for (int fd : fillers) close(fd);
  close(nullfd);
  random_suites_guarded(r, reg.name, predicted, "filler descriptors closed again");
  C->cls(fmt("random:fd:urandom-fd%s:first-%s", bucket, FIRST_KINDS[kind]));
  C->cls(fmt("random:fd:regime:%s", reg.name));
  C->count(fmt("fd_regime_children:%s", reg.name));
}

static void random_fd_regime_suite() {
  // the parent must not have opened /dev/urandom yet (= no random_* call so far in this process)
  for (int fd = 0; fd < 256; fd++)
    if (is_urandom(fd)) {
      fprintf(stderr, "[harness-error] /dev/urandom is already open (fd %d) before the first-use children are forked\n", fd);
      exit(3);
    }
  const size_t NR = sizeof(FD_REGIMES) / sizeof(FD_REGIMES[0]), NK = sizeof(FIRST_KINDS) / sizeof(FIRST_KINDS[0]);
  for (uint64_t job = 0; job < NR * NK; job++) {
    if (!C->mine(job)) continue;
    const FdRegime& reg = FD_REGIMES[job / NK];
    int kind = (int)(job % NK);
    if (reg.target < 0 && kind != 0) continue;
    int pfd[2];
    if (pipe(pfd) != 0) {
      perror("[harness-error] pipe");
      exit(3);
    }
    fflush(nullptr);
    pid_t pid = fork();
    if (pid < 0) {
      perror("[harness-error] fork");
      exit(3);
    }
    if (pid == 0) {
      close(pfd[0]);
      alarm(900);
      C->evaluations = 0;
      C->classes.clear();
      C->counters.clear();
      C->violations.clear();
      C->viol_counts.clear();
      try {
        fd_regime_child(reg, kind, job);
      } catch (const std::exception& e) {
        C->violation("random:threw:unexpected", e.what(), reg.name);
      }
      string buf;
      pipe_put(buf, 'E', to_string(C->evaluations));
      for (auto& kv : C->classes) pipe_put(buf, 'C', kv.first, to_string(kv.second));
      for (auto& kv : C->counters) pipe_put(buf, 'N', kv.first, to_string(kv.second));
      for (auto& v : C->violations) pipe_put(buf, 'V', v.key, v.what, v.kase);
      for (auto& kv : C->viol_counts) pipe_put(buf, 'K', kv.first, to_string(kv.second));
      pipe_put(buf, 'Z', "done");
      for (size_t off = 0; off < buf.size();) {
        ssize_t w = write(pfd[1], buf.data() + off, buf.size() - off);
        if (w <= 0) _exit(4);
        off += (size_t)w;
      }
      _exit(0);
    }
    close(pfd[1]);
    string in;
    char tmp[65536];
    for (;;) {
      ssize_t n = read(pfd[0], tmp, sizeof(tmp));
      if (n > 0) in.append(tmp, (size_t)n);
      else if (n == 0 || errno != EINTR) break;
    }
    close(pfd[0]);
    int status = 0;
    while (waitpid(pid, &status, 0) < 0 && errno == EINTR) {
    }
    string kase = fmt("regime=%s first call=%s", reg.name, FIRST_KINDS[kind]);
    if (WIFEXITED(status) && WEXITSTATUS(status) == 3) {
      fprintf(stderr, "[harness-error] first-use child failed (%s)\n", kase.c_str());
      exit(3);
    }
    bool done = false;
    map<string, uint64_t> recorded;
    size_t st = 0;
    while (st < in.size()) {
      size_t nl = in.find('\n', st);
      if (nl == string::npos) break;
      string line = in.substr(st, nl - st);
      st = nl + 1;
      vector<string> f;
      size_t a = 0;
      for (;;) {
        size_t b = line.find('\x1f', a);
        f.push_back(line.substr(a, b == string::npos ? string::npos : b - a));
        if (b == string::npos) break;
        a = b + 1;
      }
      if (f.size() < 4) continue;
      switch (f[0][0]) {
        case 'E': C->evaluations += strtoull(f[1].c_str(), nullptr, 10); break;
        case 'C': C->cls(f[1], strtoull(f[2].c_str(), nullptr, 10)); break;
        case 'N': C->count(f[1], strtoull(f[2].c_str(), nullptr, 10)); break;
        case 'V':
          C->violation(f[1], f[2], f[3]);
          recorded[f[1]]++;
          break;
        case 'K': {
          uint64_t n = strtoull(f[2].c_str(), nullptr, 10);
          if (n > recorded[f[1]]) C->viol_counts[f[1]] += n - recorded[f[1]];
          break;
        }
        case 'Z': done = true; break;
      }
    }
    if (!done || !WIFEXITED(status) || WEXITSTATUS(status) != 0)
      C->violation("random:first-use-child-died",
          WIFSIGNALED(status) ? fmt("the child process was killed by signal %d", WTERMSIG(status)) : fmt("the child process exited with status %d without reporting", WIFEXITED(status) ? WEXITSTATUS(status) : -1), kase);
  }
}

typedef Vector2<int64_t> V2;
typedef Vector3<int64_t> V3;
typedef Vector4<int64_t> V4;

static int cmp_lex(const int64_t* a, const int64_t* b, int n) {
  for (int i = 0; i < n; i++) {
    if (a[i] < b[i]) return -1;
    if (a[i] > b[i]) return 1;
  }
  return 0;
}

#define VCHECK(cond, key, desc)                                  \
  do {                                                            \
    if (!(cond)) C->violation(key, #cond, desc);                  \
  } while (0)

// Scalar operand that is one of the object's own components (v -= v.x, m /= m.m[0][0]): the result must be
// what the same operator gives when the scalar is first copied to a local.
template <typename V, int N>
static void scalar_alias_checks(const V& a, const char* name, const std::string& d) {
  for (int comp = 0; comp < N; comp++) {
    int64_t sc = a.at(comp);
    const int64_t* self;
    {
      V t = a; self = reinterpret_cast<const int64_t*>(&t) + comp;
      V ref = a; ref += sc; t += *self;
      if (!(t == ref)) C->violation(std::string(name) + ":add-scalar-aliased", "v += v.component differs from v += copy", d);
    }
    {
      V t = a; self = reinterpret_cast<const int64_t*>(&t) + comp;
      V ref = a; ref -= sc; t -= *self;
      if (!(t == ref)) C->violation(std::string(name) + ":sub-scalar-aliased", "v -= v.component differs from v -= copy", d);
    }
    {
      V t = a; self = reinterpret_cast<const int64_t*>(&t) + comp;
      V ref = a; ref *= sc; t *= *self;
      if (!(t == ref)) C->violation(std::string(name) + ":mul-scalar-aliased", "v *= v.component differs from v *= copy", d);
    }
    if (sc != 0) {
      {
        V t = a; self = reinterpret_cast<const int64_t*>(&t) + comp;
        V ref = a; ref /= sc; t /= *self;
        if (!(t == ref)) C->violation(std::string(name) + ":div-scalar-aliased", "v /= v.component differs from v /= copy", d);
      }
      // %= by an own component: after the first component becomes 0 a by-reference implementation divides by zero;
      // compute through a copy when the reference result would be needed, and only call the aliased form when safe
      V ref = a; ref %= sc;
      bool safe = true;
      for (int k = 0; k < comp; k++) (void)k;
      if (ref.at(comp) != 0 || comp == N - 1) {
        V t = a; self = reinterpret_cast<const int64_t*>(&t) + comp;
        t %= *self;
        if (!(t == ref)) C->violation(std::string(name) + ":mod-scalar-aliased", "v %= v.component differs from v %= copy", d);
      }
      (void)safe;
    }
    // non-assigning forms return a new object, aliasing cannot matter but the value must still match
    {
      V t = a; self = reinterpret_cast<const int64_t*>(&t) + comp;
      V r1 = t + *self, r2 = a + sc;
      V r3 = t - *self, r4 = a - sc;
      V r5 = t * *self, r6 = a * sc;
      if (!(r1 == r2) || !(r3 == r4) || !(r5 == r6)) C->violation(std::string(name) + ":scalar-op-aliased", "v op v.component differs from v op copy", d);
    }
  }
  C->cls(std::string(name) + ":scalar-aliasing");
}

static void v2_suite() {
  const int L = 4;
  for (int64_t ax = -L; ax <= L; ax++) for (int64_t ay = -L; ay <= L; ay++) {
    V2 a(ax, ay);
    if (!C->mine((uint64_t)((ax + L) * 9 + (ay + L)))) continue;
    int64_t aa[2] = {ax, ay};
    for (int64_t bx = -L; bx <= L; bx++) for (int64_t by = -L; by <= L; by++) {
      V2 b(bx, by);
      int64_t bb[2] = {bx, by};
      C->evaluations++;
      C->crumb_n("v2", ax, ay, bx, by);
      string d = fmt("V2 a=(%" PRId64 ",%" PRId64 ") b=(%" PRId64 ",%" PRId64 ")", ax, ay, bx, by);
      V2 s = a + b, m = a - b;
      VCHECK(s.x == ax + bx && s.y == ay + by, "vector2:add", d);
      VCHECK(m.x == ax - bx && m.y == ay - by, "vector2:sub", d);
      VCHECK(a.dot(b) == ax * bx + ay * by, "vector2:dot", d);
      VCHECK((a == b) == (ax == bx && ay == by), "vector2:eq", d);
      VCHECK((a != b) == !(ax == bx && ay == by), "vector2:ne", d);
      int c = cmp_lex(aa, bb, 2);
      VCHECK((a < b) == (c < 0), "vector2:less-lexicographic", d);
      VCHECK(!((a < b) && (b < a)), "vector2:less-asymmetric", d);
      VCHECK((!(a < b) && !(b < a)) == (a == b), "vector2:less-consistent-with-eq", d);
      V2 t = a; t += b; VCHECK(t == s, "vector2:add-assign", d);
      t = a; t -= b; VCHECK(t == m, "vector2:sub-assign", d);
      // scalar ops with bx as scalar
      V2 q = a + bx; VCHECK(q.x == ax + bx && q.y == ay + bx, "vector2:add-scalar", d);
      q = a - bx; VCHECK(q.x == ax - bx && q.y == ay - bx, "vector2:sub-scalar", d);
      q = a * bx; VCHECK(q.x == ax * bx && q.y == ay * bx, "vector2:mul-scalar", d);
      t = a; t += bx; VCHECK(t.x == ax + bx && t.y == ay + bx, "vector2:add-scalar-assign", d);
      t = a; t -= bx; VCHECK(t.x == ax - bx && t.y == ay - bx, "vector2:sub-scalar-assign", d);
      t = a; t *= bx; VCHECK(t.x == ax * bx && t.y == ay * bx, "vector2:mul-scalar-assign", d);
      if (bx != 0) {
        q = a / bx; VCHECK(q.x == ax / bx && q.y == ay / bx, "vector2:div-scalar", d);
        q = a % bx; VCHECK(q.x == ax % bx && q.y == ay % bx, "vector2:mod-scalar", d);
        t = a; t /= bx; VCHECK(t.x == ax / bx && t.y == ay / bx, "vector2:div-scalar-assign", d);
        t = a; t %= bx; VCHECK(t.x == ax % bx && t.y == ay % bx, "vector2:mod-scalar-assign", d);
      }
      // transitivity over all c (exhaustive triples for V2)
      if (a < b) {
        for (int64_t cx = -L; cx <= L; cx++) for (int64_t cy = -L; cy <= L; cy++) {
          V2 cc(cx, cy);
          C->evaluations++;
          if ((b < cc) && !(a < cc)) C->violation("vector2:less-transitive", "a<b && b<c but !(a<c)", d + fmt(" c=(%" PRId64 ",%" PRId64 ")", cx, cy));
        }
      }
      C->cls(fmt("v2:cmp%d:%s", c, (ax == bx || ay == by) ? "tie" : "notie"));
    }
    string d = fmt("V2 a=(%" PRId64 ",%" PRId64 ")", ax, ay);
    V2 n = -a;
    VCHECK(n.x == -ax && n.y == -ay, "vector2:neg", d);
    VCHECK(a.at(0) == ax && a.at(1) == ay, "vector2:at", d);
    VCHECK(!(a < a), "vector2:less-irreflexive", d);
    VCHECK((!a) == (ax == 0 && ay == 0), "vector2:not", d);
    scalar_alias_checks<V2, 2>(a, "vector2", d);
    { V2 t2 = a; t2 += t2; VCHECK(t2.x == 2 * ax && t2.y == 2 * ay, "vector2:add-assign-aliased", d); t2 = a; t2 -= t2; VCHECK(t2.x == 0 && t2.y == 0, "vector2:sub-assign-aliased", d); }
    VCHECK(V2::dimensions() == 2, "vector2:dimensions", d);
  }
}

static void v3_suite() {
  const int L = 4;
  uint64_t idx = 0;
  for (int64_t ax = -L; ax <= L; ax++) for (int64_t ay = -L; ay <= L; ay++) for (int64_t az = -L; az <= L; az++) {
    if (!C->mine(idx++)) continue;
    V3 a(ax, ay, az);
    int64_t aa[3] = {ax, ay, az};
    for (int64_t bx = -L; bx <= L; bx++) for (int64_t by = -L; by <= L; by++) for (int64_t bz = -L; bz <= L; bz++) {
      V3 b(bx, by, bz);
      int64_t bb[3] = {bx, by, bz};
      C->evaluations++;
      C->crumb_n("v3", ax, ay, az, bx, by, bz);
      auto d = [&]() { return fmt("V3 a=(%" PRId64 ",%" PRId64 ",%" PRId64 ") b=(%" PRId64 ",%" PRId64 ",%" PRId64 ")", ax, ay, az, bx, by, bz); };
      V3 s = a + b, m = a - b;
      if (!(s.x == ax + bx && s.y == ay + by && s.z == az + bz)) C->violation("vector3:add", "componentwise", d());
      if (!(m.x == ax - bx && m.y == ay - by && m.z == az - bz)) C->violation("vector3:sub", "componentwise", d());
      if (a.dot(b) != ax * bx + ay * by + az * bz) C->violation("vector3:dot", "dot", d());
      V3 cr = a.cross(b);
      if (!(cr.x == ay * bz - az * by && cr.y == az * bx - ax * bz && cr.z == ax * by - ay * bx)) C->violation("vector3:cross-definition", "cross product components", d());
      if (a.dot(cr) != 0 || b.dot(cr) != 0) C->violation("vector3:cross-orthogonal", "a.(axb)!=0 or b.(axb)!=0", d());
      bool eq = ax == bx && ay == by && az == bz;
      if ((a == b) != eq) C->violation("vector3:eq", "==", d());
      if ((a != b) == eq) C->violation("vector3:ne", "!=", d());
      int c = cmp_lex(aa, bb, 3);
      if ((a < b) != (c < 0)) C->violation("vector3:less-lexicographic", "operator< is not the lexicographic order", d());
      if ((a < b) && (b < a)) C->violation("vector3:less-asymmetric", "a<b && b<a", d());
      if ((!(a < b) && !(b < a)) != (a == b)) C->violation("vector3:less-consistent-with-eq", "incomparable but not equal", d());
      V3 t = a; t += b; if (!(t == s)) C->violation("vector3:add-assign", "+=", d());
      t = a; t -= b; if (!(t == m)) C->violation("vector3:sub-assign", "-=", d());
      if (by == 0 && bz == 0) {
        V3 q = a + bx; if (!(q.x == ax + bx && q.y == ay + bx && q.z == az + bx)) C->violation("vector3:add-scalar", "+s", d());
        q = a - bx; if (!(q.x == ax - bx && q.y == ay - bx && q.z == az - bx)) C->violation("vector3:sub-scalar", "-s", d());
        q = a * bx; if (!(q.x == ax * bx && q.y == ay * bx && q.z == az * bx)) C->violation("vector3:mul-scalar", "*s", d());
        t = a; t += bx; if (!(t.x == ax + bx && t.y == ay + bx && t.z == az + bx)) C->violation("vector3:add-scalar-assign", "+=s", d());
        t = a; t -= bx; if (!(t.x == ax - bx && t.y == ay - bx && t.z == az - bx)) C->violation("vector3:sub-scalar-assign", "-=s", d());
        t = a; t *= bx; if (!(t.x == ax * bx && t.y == ay * bx && t.z == az * bx)) C->violation("vector3:mul-scalar-assign", "*=s", d());
        if (bx) {
          q = a / bx; if (!(q.x == ax / bx && q.y == ay / bx && q.z == az / bx)) C->violation("vector3:div-scalar", "/s", d());
          q = a % bx; if (!(q.x == ax % bx && q.y == ay % bx && q.z == az % bx)) C->violation("vector3:mod-scalar", "%s", d());
          t = a; t /= bx; if (!(t.x == ax / bx && t.y == ay / bx && t.z == az / bx)) C->violation("vector3:div-scalar-assign", "/=s", d());
          t = a; t %= bx; if (!(t.x == ax % bx && t.y == ay % bx && t.z == az % bx)) C->violation("vector3:mod-scalar-assign", "%=s", d());
        }
      }
    }
    string d = fmt("V3 a=(%" PRId64 ",%" PRId64 ",%" PRId64 ")", ax, ay, az);
    V3 n = -a;
    VCHECK(n.x == -ax && n.y == -ay && n.z == -az, "vector3:neg", d);
    VCHECK(a.at(0) == ax && a.at(1) == ay && a.at(2) == az, "vector3:at", d);
    VCHECK(!(a < a), "vector3:less-irreflexive", d);
    VCHECK((!a) == (ax == 0 && ay == 0 && az == 0), "vector3:not", d);
    scalar_alias_checks<V3, 3>(a, "vector3", d);
    { V3 t3 = a; t3 += t3; VCHECK(t3.x == 2 * ax && t3.y == 2 * ay && t3.z == 2 * az, "vector3:add-assign-aliased", d); t3 = a; t3 -= t3; VCHECK(t3.x == 0 && t3.y == 0 && t3.z == 0, "vector3:sub-assign-aliased", d);
      V3 cs = a.cross(a); VCHECK(cs.x == 0 && cs.y == 0 && cs.z == 0, "vector3:cross-self", d); }
    V3 fromv2(V2(ax, ay), az);
    VCHECK(fromv2 == a, "vector3:ctor-from-v2", d);
    C->cls(fmt("v3:base:%s%s%s", ax ? "x" : "0", ay ? "y" : "0", az ? "z" : "0"));
  }
}

static void v3_transitive(vf::Rng& r) {
  uint64_t n = C->qt<uint64_t>(300000, 20000000) / C->nshards + 1;
  for (uint64_t i = 0; i < n; i++) {
    int64_t v[9];
    for (auto& x : v) x = r.range(-2, 2);
    V3 a(v[0], v[1], v[2]), b(v[3], v[4], v[5]), c(v[6], v[7], v[8]);
    C->evaluations++;
    if ((a < b) && (b < c) && !(a < c))
      C->violation("vector3:less-transitive", "a<b && b<c but !(a<c)", fmt("(%" PRId64 ",%" PRId64 ",%" PRId64 ") (%" PRId64 ",%" PRId64 ",%" PRId64 ") (%" PRId64 ",%" PRId64 ",%" PRId64 ")", v[0], v[1], v[2], v[3], v[4], v[5], v[6], v[7], v[8]));
  }
  C->cls("v3:transitivity-sampled");
}

static void v4_suite(vf::Rng& r) {
  uint64_t n = C->qt<uint64_t>(200000, 10000000) / C->nshards + 1;
  // round 5: the first 3^8 indices enumerate every pair over {-1,0,1}^4 (all patterns of zero / equal / unit components),
  // partitioned over the shards; the rest is the sampled part
  const uint64_t NENUM = 6561;
  for (uint64_t i = 0; i < n + NENUM; i++) {
    int64_t a[4], b[4], c[4];
    if (i < NENUM) {
      if (!C->mine(i)) continue;
      uint64_t t = i;
      for (int k = 0; k < 4; k++) { a[k] = (int64_t)(t % 3) - 1; t /= 3; }
      for (int k = 0; k < 4; k++) { b[k] = (int64_t)(t % 3) - 1; t /= 3; }
      for (int k = 0; k < 4; k++) c[k] = r.range(-1, 1);
    } else {
    int L = r.chance(1, 2) ? 1 : 4;
    for (int k = 0; k < 4; k++) { a[k] = r.range(-L, L); b[k] = r.range(-L, L); c[k] = r.range(-L, L); }
    if (r.chance(1, 3)) { int p = r.below(4); for (int k = 0; k < p; k++) b[k] = a[k]; }  // shared prefix
    }
    V4 A(a[0], a[1], a[2], a[3]), B(b[0], b[1], b[2], b[3]), Cc(c[0], c[1], c[2], c[3]);
    C->evaluations++;
    C->crumb_n("v4", a[0], a[1], a[2], a[3], b[0], b[1]);
    auto d = [&]() { return fmt("V4 a=(%" PRId64 ",%" PRId64 ",%" PRId64 ",%" PRId64 ") b=(%" PRId64 ",%" PRId64 ",%" PRId64 ",%" PRId64 ")", a[0], a[1], a[2], a[3], b[0], b[1], b[2], b[3]); };
    V4 s = A + B, m = A - B;
    bool okadd = true, oksub = true, eq = true;
    int64_t dot = 0;
    for (int k = 0; k < 4; k++) {
      okadd &= s.at(k) == a[k] + b[k];
      oksub &= m.at(k) == a[k] - b[k];
      eq &= a[k] == b[k];
      dot += a[k] * b[k];
    }
    if (!okadd) C->violation("vector4:add", "componentwise", d());
    if (!oksub) C->violation("vector4:sub", "componentwise", d());
    if (A.dot(B) != dot) C->violation("vector4:dot", "dot", d());
    if (!(A.x == a[0] && A.y == a[1] && A.z == a[2] && A.w == a[3])) C->violation("vector4:at", "at(i) != ith component", d());
    if ((A == B) != eq) C->violation("vector4:eq", "==", d());
    if ((A != B) == eq) C->violation("vector4:ne", "!=", d());
    int cm = cmp_lex(a, b, 4);
    if ((A < B) != (cm < 0)) C->violation("vector4:less-lexicographic", "operator< is not the lexicographic order", d());
    if ((A < B) && (B < A)) C->violation("vector4:less-asymmetric", "a<b && b<a", d());
    if ((!(A < B) && !(B < A)) != (A == B)) C->violation("vector4:less-consistent-with-eq", "incomparable but not equal", d());
    if (A < A) C->violation("vector4:less-irreflexive", "a<a", d());
    if ((A < B) && (B < Cc) && !(A < Cc)) C->violation("vector4:less-transitive", "transitivity", d());
    V4 n2 = -A;
    if (!(n2.x == -a[0] && n2.y == -a[1] && n2.z == -a[2] && n2.w == -a[3])) C->violation("vector4:neg", "neg", d());
    if ((i & 7) == 0) scalar_alias_checks<V4, 4>(A, "vector4", d());
    int64_t sc = c[0];
    V4 q = A * sc; if (!(q.x == a[0] * sc && q.y == a[1] * sc && q.z == a[2] * sc && q.w == a[3] * sc)) C->violation("vector4:mul-scalar", "*s", d());
    q = A + sc; if (!(q.x == a[0] + sc && q.y == a[1] + sc && q.z == a[2] + sc && q.w == a[3] + sc)) C->violation("vector4:add-scalar", "+s", d());
    q = A - sc; if (!(q.x == a[0] - sc && q.y == a[1] - sc && q.z == a[2] - sc && q.w == a[3] - sc)) C->violation("vector4:sub-scalar", "-s", d());
    if (sc) {
      q = A / sc; if (!(q.x == a[0] / sc && q.y == a[1] / sc && q.z == a[2] / sc && q.w == a[3] / sc)) C->violation("vector4:div-scalar", "/s", d());
      q = A % sc; if (!(q.x == a[0] % sc && q.y == a[1] % sc && q.z == a[2] % sc && q.w == a[3] % sc)) C->violation("vector4:mod-scalar", "%s", d());
    }
    V4 t = A; t += B; if (!(t == s)) C->violation("vector4:add-assign", "+=", d());
    t = A; t -= B; if (!(t == m)) C->violation("vector4:sub-assign", "-=", d());
    t = A; t *= sc; if (!(t == A * sc)) C->violation("vector4:mul-scalar-assign", "*=", d());
    int pre = 0;
    while (pre < 4 && a[pre] == b[pre]) pre++;
    C->cls(fmt("v4:cmp%d:prefix%d", cm, pre));
    if (i < NENUM) C->cls("v4:enumerated:{-1,0,1}^4-pairs");
  }
  // constructors
  V4 c1(V2(1, 2), 3, 4), c2(V3(1, 2, 3), 4), c3(1, 2, 3, 4);
  if (!(c1 == c3) || !(c2 == c3)) C->violation("vector4:ctor", "composite constructors differ", "V4(V2(1,2),3,4) / V4(V3(1,2,3),4)");
}

// Floating-point component vectors: == / != / < must be the componentwise IEEE definitions (so -0.0 == +0.0),
// and the arithmetic operators componentwise; values come out of operation histories (negation, scaling) so that
// negative zero actually occurs.
template <typename V, int N>
static void float_vector_suite(const char* name) {
  static const double vals[] = {0.0, -0.0, 1.0, -1.0, 0.5, -2.5, 4.0};
  const int K = sizeof(vals) / sizeof(vals[0]);
  uint64_t total = 1;
  for (int i = 0; i < 2 * N; i++) total *= K;
  for (uint64_t idx = 0; idx < total; idx++) {
    if (!C->mine(idx)) continue;
    double a[4] = {0, 0, 0, 0}, b[4] = {0, 0, 0, 0};
    uint64_t t = idx;
    for (int i = 0; i < N; i++) { a[i] = vals[t % K]; t /= K; }
    for (int i = 0; i < N; i++) { b[i] = vals[t % K]; t /= K; }
    V A, B;
    double* pa = reinterpret_cast<double*>(&A);
    double* pb = reinterpret_cast<double*>(&B);
    for (int i = 0; i < N; i++) { pa[i] = a[i]; pb[i] = b[i]; }
    C->evaluations++;
    C->crumb_n(name, idx);
    bool eq = true;
    int cmp = 0;
    for (int i = 0; i < N; i++) {
      if (!(a[i] == b[i])) eq = false;
      if (cmp == 0) { if (a[i] < b[i]) cmp = -1; else if (a[i] > b[i]) cmp = 1; }
    }
    auto d = [&]() { std::string r = name; r += " a=("; for (int i = 0; i < N; i++) r += fmt("%g%s", a[i], i + 1 < N ? "," : ")"); r += " b=("; for (int i = 0; i < N; i++) r += fmt("%g%s", b[i], i + 1 < N ? "," : ")"); return r; };
    if ((A == B) != eq) C->violation(std::string(name) + ":float-eq", "operator== is not the componentwise IEEE comparison (e.g. -0.0 vs +0.0)", d());
    if ((A != B) == eq) C->violation(std::string(name) + ":float-ne", "operator!= is not the negation of the componentwise comparison", d());
    if ((A < B) != (cmp < 0)) C->violation(std::string(name) + ":float-less", "operator< is not the lexicographic order", d());
    if ((!(A < B) && !(B < A)) != (A == B)) C->violation(std::string(name) + ":float-less-consistent-with-eq", "incomparable but not equal (or vice versa)", d());
    // a history that produces negative zeros: -(A) == (zero - A), (A * -1) == -A
    V n1 = -A, z = A - A, n2 = z - A, n3 = A * -1.0;
    if (!(n1 == n2) || !(n1 == n3)) C->violation(std::string(name) + ":float-neg-history", "-v, 0-v and v*-1 do not compare equal", d());
    V s1 = A + B, m1 = A - B;
    const double* ps = reinterpret_cast<const double*>(&s1);
    const double* pm = reinterpret_cast<const double*>(&m1);
    for (int i = 0; i < N; i++) if (ps[i] != a[i] + b[i] || pm[i] != a[i] - b[i]) { C->violation(std::string(name) + ":float-add-sub", "componentwise +/-", d()); break; }
    C->cls(fmt("%s:float:%s:cmp%d", name, eq ? "eq" : "ne", cmp));
  }
}

typedef Matrix4<int64_t> MI;
typedef Matrix4<double> MD;

static string mstr(const MI& m) {
  string s = "[";
  for (int y = 0; y < 4; y++) {
    for (int x = 0; x < 4; x++) s += fmt("%" PRId64 "%s", m.m[x][y], x == 3 ? (y == 3 ? "" : ";") : ",");
  }
  return s + "]";
}

#include "c20_struct.hh"

static void matrix_suite(vf::Rng& r) {
  uint64_t n = C->qt<uint64_t>(10000, 1000000) / C->nshards + 1;
  for (uint64_t i = 0; i < n; i++) {
    MI A, B;
    V4 v(r.range(-9, 9), r.range(-9, 9), r.range(-9, 9), r.range(-9, 9));
    int style = r.below(4);
    for (int x = 0; x < 4; x++) for (int y = 0; y < 4; y++) {
      A.m[x][y] = style == 1 && x != y ? 0 : r.range(-9, 9);
      B.m[x][y] = style == 2 && x < y ? 0 : r.range(-9, 9);
    }
    C->evaluations++;
    C->crumb_s("matrix " + mstr(A) + " " + mstr(B));
    // reference products (m[x][y]: x = column, y = row)
    MI AB = A * B;
    bool okprod = true;
    for (int x = 0; x < 4; x++) for (int y = 0; y < 4; y++) {
      int64_t sum = 0;
      for (int z = 0; z < 4; z++) sum += A.m[z][y] * B.m[x][z];
      okprod &= (AB.m[x][y] == sum);
    }
    string d = "A=" + mstr(A) + " B=" + mstr(B) + fmt(" v=(%" PRId64 ",%" PRId64 ",%" PRId64 ",%" PRId64 ")", v.x, v.y, v.z, v.w);
    if (!okprod) C->violation("matrix4:product-definition", "A*B is not the row-by-column product", d);
    V4 l = AB * v, rr = A * (B * v);
    if (!(l == rr)) C->violation("matrix4:associativity", "(AB)v != A(Bv)", d);
    V4 Av = A * v;
    int64_t vv[4] = {v.x, v.y, v.z, v.w};
    for (int y = 0; y < 4; y++) {
      int64_t sum = 0;
      for (int x = 0; x < 4; x++) sum += A.m[x][y] * vv[x];
      if (Av.at(y) != sum) C->violation("matrix4:mat-vec-definition", "A*v component", d);
    }
    MI T = A.transposition();
    bool okt = true;
    for (int x = 0; x < 4; x++) for (int y = 0; y < 4; y++) okt &= T.m[x][y] == A.m[y][x];
    if (!okt) C->violation("matrix4:transposition-definition", "T[x][y]!=A[y][x]", d);
    if (!(T.transposition() == A)) C->violation("matrix4:transpose-twice", "transpose(transpose(M)) != M", d);
    MI T2 = A; T2.transpose();
    if (!(T2 == T)) C->violation("matrix4:transpose-inplace", "transpose() != transposition()", d);
    T2.transpose();
    if (!(T2 == A)) C->violation("matrix4:transpose-twice", "in-place transpose twice != M", d);
    // (AB)^T = B^T A^T
    if (!((AB).transposition() == B.transposition() * A.transposition())) C->violation("matrix4:transpose-product", "(AB)^T != B^T A^T", d);
    MI I;
    if (!(A * I == A) || !(I * A == A)) C->violation("matrix4:identity", "A*I != A", d);
    MI S = A + B, D = A - B;
    bool oks = true;
    for (int z = 0; z < 16; z++) oks &= S.v[z] == A.v[z] + B.v[z] && D.v[z] == A.v[z] - B.v[z];
    if (!oks) C->violation("matrix4:add-sub", "componentwise +/-", d);
    MI P = A; P *= B;
    if (!(P == AB)) C->violation("matrix4:mul-assign", "*= differs from *", d);
    // aliased operands: m *= m must equal m * m (an in-place product that reads what it has overwritten is wrong)
    MI AA = A * A;
    MI Q = A; Q *= Q;
    if (!(Q == AA)) C->violation("matrix4:mul-assign-aliased", "m *= m differs from m * m", d);
    {
      V4 l2 = Q * v, r2 = A * (A * v);
      if (!(l2 == r2)) C->violation("matrix4:associativity-aliased", "(A *= A) v != A(Av)", d);
    }
    MI R = A; R += R;
    MI R2 = A + A;
    if (!(R == R2)) C->violation("matrix4:add-assign-aliased", "m += m differs from m + m", d);
    R = A; R -= R;
    bool allzero = true;
    for (int z = 0; z < 16; z++) allzero &= R.v[z] == 0;
    if (!allzero) C->violation("matrix4:sub-assign-aliased", "m -= m is not zero", d);
    // scalar operand that is one of the matrix's own elements
    for (int z : {0, 5, 15}) {
      int64_t e = A.v[z];
      MI t = A; t += t.v[z]; MI ref = A; ref += e;
      if (!(t == ref)) C->violation("matrix4:add-scalar-aliased", "m += m.element differs from m += copy", d);
      t = A; t -= t.v[z]; ref = A; ref -= e;
      if (!(t == ref)) C->violation("matrix4:sub-scalar-aliased", "m -= m.element differs from m -= copy", d);
      t = A; t *= t.v[z]; ref = A; ref *= e;
      if (!(t == ref)) C->violation("matrix4:mul-scalar-aliased", "m *= m.element differs from m *= copy", d);
      if (e != 0) {
        t = A; t /= t.v[z]; ref = A; ref /= e;
        if (!(t == ref)) C->violation("matrix4:div-scalar-aliased", "m /= m.element differs from m /= copy", d);
      }
    }
    // scalar forms
    {
      int64_t sc = v.x;
      MI S1 = A * sc, S2 = A + sc, S3 = A - sc;
      bool oksc = true;
      for (int z = 0; z < 16; z++) oksc &= S1.v[z] == A.v[z] * sc && S2.v[z] == A.v[z] + sc && S3.v[z] == A.v[z] - sc;
      MI T1 = A; T1 *= sc; MI T2b = A; T2b += sc; MI T3 = A; T3 -= sc;
      oksc &= (T1 == S1) && (T2b == S2) && (T3 == S3);
      if (sc != 0) {
        MI S4 = A / sc, S5 = A % sc;
        for (int z = 0; z < 16; z++) oksc &= S4.v[z] == A.v[z] / sc && S5.v[z] == A.v[z] % sc;
        MI T4 = A; T4 /= sc; MI T5 = A; T5 %= sc;
        oksc &= (T4 == S4) && (T5 == S5);
      }
      if (!oksc) C->violation("matrix4:scalar-ops", "matrix-scalar operator is not componentwise", d);
    }
    if ((A == B) != (memcmp(A.v, B.v, sizeof(A.v)) == 0)) C->violation("matrix4:eq", "==", d);
    if ((A != B) == (A == B)) C->violation("matrix4:ne", "!=", d);
    C->cls(fmt("matrix:int:style%d", style));
    if (i < 2) C->sample("matrix " + d);
  }
  // inversion of strictly diagonally dominant matrices: every base matrix is also inverted scaled by powers of two
  // (uniform ladder, non-uniform rows / columns), see c20_struct.hh
  n = C->qt<uint64_t>(10000, 1000000) / C->nshards + 1;
  uint64_t st_count[5] = {0, 0, 0, 0, 0}, stf_count[5] = {0, 0, 0, 0, 0};
  for (uint64_t i = 0; i < n; i++) {
    int style = r.below(5);
    c20s::DM M = c20s::make_dominant_random(style, r, 1.0);
    std::string fam = fmt("random-dominant:style%d", style);
    c20s::inverse_family<double>(M, fam, i * C->nshards + C->shard + C->seed, C->qt<int>(4, 4), r, false);
    st_count[style]++;
    if (i < 1) C->sample("inverse " + fam + " M(rows;)=" + c20s::dm_str(M) + " and the same matrix times 2^s along the scale ladder");
    if (i % 4 == 0) {
      c20s::DM Mf = c20s::make_dominant_random(style, r, 1.5);
      c20s::inverse_family<float>(Mf, fam, i * C->nshards + C->shard + C->seed, 2, r, true);
      stf_count[style]++;
    }
  }
  for (int k = 0; k < 5; k++) {
    if (st_count[k]) C->cls(fmt("matrix:dominant:style%d", k), st_count[k]);
    if (stf_count[k]) C->cls(fmt("matrix:dominant:float:style%d", k), stf_count[k]);
  }
}

int main(int argc, char** argv) {
  vf::Ctx& c = vf::init(argc, argv);
  C = &c;
  vf::Rng r = c.rng();
  string only = c.arg("only");
  auto want = [&](const char* s) { return only.empty() || only == s; };
  // deterministic exhaustive parts are split by type across shards
  struct Part { const char* name; void (*fn)(vf::Rng&); };
  vector<Part> parts = {
      {"gcd_u8", [](vf::Rng& r) { gcd_suite<uint8_t>("u8", r); }},
      {"gcd_u16", [](vf::Rng& r) { gcd_suite<uint16_t>("u16", r); }},
      {"gcd_u32", [](vf::Rng& r) { gcd_suite<uint32_t>("u32", r); }},
      {"gcd_u64", [](vf::Rng& r) { gcd_suite<uint64_t>("u64", r); }},
      {"gcd_i8", [](vf::Rng& r) { gcd_suite<int8_t>("i8", r); }},
      {"gcd_i16", [](vf::Rng& r) { gcd_suite<int16_t>("i16", r); }},
      {"gcd_i32", [](vf::Rng& r) { gcd_suite<int32_t>("i32", r); }},
      {"gcd_i64", [](vf::Rng& r) { gcd_suite<int64_t>("i64", r); }},
      {"log2_u8", [](vf::Rng& r) { log2_suite<uint8_t>("u8", r); }},
      {"log2_u16", [](vf::Rng& r) { log2_suite<uint16_t>("u16", r); }},
      {"log2_u32", [](vf::Rng& r) { log2_suite<uint32_t>("u32", r); }},
      {"log2_u64", [](vf::Rng& r) { log2_suite<uint64_t>("u64", r); }},
      {"log2_i8", [](vf::Rng& r) { log2_suite<int8_t>("i8", r); }},
      {"log2_i16", [](vf::Rng& r) { log2_suite<int16_t>("i16", r); }},
      {"log2_i32", [](vf::Rng& r) { log2_suite<int32_t>("i32", r); }},
      {"log2_i64", [](vf::Rng& r) { log2_suite<int64_t>("i64", r); }},
      {"log2_size_t", [](vf::Rng& r) { log2_suite<size_t>("size_t", r); }},
      // distinct fundamental types of the same width (on LP64 int64_t is long, so long long is a different type)
      {"log2_ll", [](vf::Rng& r) { log2_suite<long long>("longlong", r); }},
      {"log2_ull", [](vf::Rng& r) { log2_suite<unsigned long long>("ulonglong", r); }},
      {"log2_l", [](vf::Rng& r) { log2_suite<long>("long", r); }},
      {"log2_ul", [](vf::Rng& r) { log2_suite<unsigned long>("ulong", r); }},
      {"log2_int", [](vf::Rng& r) { log2_suite<int>("int", r); }},
      {"log2_uint", [](vf::Rng& r) { log2_suite<unsigned>("uint", r); }},
      {"log2_short", [](vf::Rng& r) { log2_suite<short>("short", r); }},
      {"log2_uchar", [](vf::Rng& r) { log2_suite<unsigned char>("uchar", r); }},
      {"gcd_ll", [](vf::Rng& r) { gcd_suite<long long>("longlong", r); }},
      {"gcd_ull", [](vf::Rng& r) { gcd_suite<unsigned long long>("ulonglong", r); }},
  };
  // FIRST: the children that make the first random_* call of a process under a given descriptor-number regime (the
  // parent itself must not have called any random_* function before forking them)
  if (want("random") || want("fdregime")) random_fd_regime_suite();
  if (only == "fdregime") return c.finish();
  for (size_t i = 0; i < parts.size(); i++)
    if (want("int") && c.mine(i)) parts[i].fn(r);
  if (want("random")) {
    random_int_suite(r);
    random_data_suite(r);
    random_data_signal_suite(r);
  }
  if (want("vector")) {
    v2_suite();
    v3_suite();
    v3_transitive(r);
    v4_suite(r);
    float_vector_suite<Vector2<double>, 2>("vector2d");
    float_vector_suite<Vector3<double>, 3>("vector3d");
    float_vector_suite<Vector4<double>, 4>("vector4d");
  }
  if (want("vector")) {
    c20s::float_vector_scale_suite<Vector2<double>, 2>("vector2d", r);
    c20s::float_vector_scale_suite<Vector3<double>, 3>("vector3d", r);
    c20s::float_vector_scale_suite<Vector4<double>, 4>("vector4d", r);
  }
  if (want("matrix")) matrix_suite(r);
  if (want("matrix") || want("struct")) c20s::structured_int_suite(r);
  if (want("matrix") || want("inverse")) c20s::structured_inverse_suite(r);
  c20s::report_stats();
  c.sample("gcd<u8>(all pairs 0..255 capped at 300), gcd<u64>(2^k±1 pairs), log2i<T>(2^k-1,2^k,2^k+1 for every k<width)");
  c.sample("random_int(lo,hi) with spans {0,255,256,65535,65536,2^32±1,2^63-2}; random_data sizes 0..9000 crossing the 4096-byte refill");
  c.sample("Vector3 all pairs a,b in [-4,4]^3: add/sub/dot/cross/orthogonality/operator< laws");
  return c.finish();
}
